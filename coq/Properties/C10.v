(* C10 — BGP announcement eligibility follows node state and traffic policy.
   Statements only; proofs in Proofs/BgpAdsElig.v and Proofs/SpeakerP.v.

   PARTIAL.  The property's literal rule is [c10_literal]; it is REFUTED for the Local policy
   (C10_bgp_should_announce_literal_refuted, F18), PROVED when, for Local, no endpoint address appears
   on two different nodes (C10_bgp_should_announce_partial), and its "if" direction holds always
   (C10_literal_implies_announce).  C10_bgp_should_announce_iff characterises what the CODE decides
   ([c10_code]: its Local clause was written from the code) — it is not the property.
   The theorems lifted to histories (`..._partial` below) carry the hypotheses esvc_ok (no repeated
   address in a Service) and no F25 staleness (see Properties/C09.v); "quiescent point" = after every
   event together with the full re-sync it requests.
   SCOPE.  NetworkUnavailable and the exclude label are one boolean each of nodes[myNode] (nil node: none);
   condition status values, label values and the Terminating condition are exercised by the harness
   only.  Not expressible: handler / session-manager errors, node deletion of THIS node, interface changes.

   [bgp_decide me v] is the transcription of bgpController.ShouldAnnounce on node [me] (RAnnounce = the
   empty string); ready_all / ready_on / ready_here / adv_selects / single_homed are the statement's
   vocabulary, defined in Model/BgpAds.v independently of the transcription of hasHealthyEndpoint. *)
From Coq Require Import List NArith.
From Verif Require Import Model.BgpAds Model.Speaker Proofs.BgpAdsElig Proofs.SpeakerP Proofs.SpeakerRefuted.
Local Open Scope N_scope.

(* hasHealthyEndpoint = "some address whose every (selected) carrier can serve" *)
Theorem C10_has_healthy_endpoint_spec : forall filt eps,
  has_healthy filt eps = true <->
  exists a, (exists e, In e (concat eps) /\ filt (be_node e) = false /\ In a (be_addrs e)) /\
            forall e, In e (concat eps) -> filt (be_node e) = false -> In a (be_addrs e) -> bcan_serve e = true.
Proof. exact has_healthy_spec. Qed.

(* what the CODE decides (c10_code), for every layout, node state, flag and policy *)
Theorem C10_bgp_should_announce_iff : forall me v,
  bgp_decide me v = RAnnounce <->
  adv_selects me v /\ node_unavail v = false /\ (bv_ignore v = true \/ node_excl v = false) /\
  (exists a, ready_all v a) /\ (bv_local v = true -> exists a, ready_here me v a).
Proof. exact bgp_should_announce_iff. Qed.

(* the statement, literally (Local: an address ready under "every entry carrying
   it" with an entry on this node): refuted — F18 *)
Theorem C10_bgp_should_announce_literal_refuted :
  exists me v, bgp_decide me v = RAnnounce /\ ~ c10_literal me v.
Proof. exact bgp_should_announce_literal_refuted. Qed.

(* ... and the decision of this node changes with an unrelated remote endpoint *)
Theorem C10_decision_depends_on_unrelated_endpoint :
  bgp_decide 0 f18_view = RAnnounce /\ bgp_decide 0 f18_view' = RNoEndpoints.
Proof. exact f18_depends_on_unrelated. Qed.

(* the statement holds when, for the Local policy, no endpoint address appears on two different nodes *)
Theorem C10_bgp_should_announce_partial : forall me v,
  (bv_local v = true -> single_homed v) ->
  (bgp_decide me v = RAnnounce <->
   adv_selects me v /\ node_unavail v = false /\ (bv_ignore v = true \/ node_excl v = false) /\
   (if bv_local v then exists a, ready_on me v a else exists a, ready_all v a)).
Proof. exact bgp_should_announce_partial. Qed.

(* one direction needs no hypothesis: whenever the statement says announce, the code announces *)
Theorem C10_literal_implies_announce : forall me v, c10_literal me v -> bgp_decide me v = RAnnounce.
Proof. exact literal_implies_code. Qed.

(* (for the reference order of the tests, which reports "not owner" first) *)
Theorem C10_not_owner_iff : forall me v, bgp_decide me v = RNotOwner <-> ~ adv_selects me v.
Proof. exact bgp_reason_not_owner. Qed.

(* the REASON reported for a refusal is a free choice among the conditions that fail (the order of the tests): the
   correspondence validates the implementation's reason with [reason_applies] and compares the DECISION only.
   The reference order reports an applicable reason; "announce" is applicable iff the decision is announce; any other
   applicable reason implies the decision is "do not announce" - so the accepted outcomes all agree on the decision *)
Theorem C10_reference_reason_applies : forall me v, reason_applies me v (bgp_decide me v) = true.
Proof. exact reason_of_decide_applies. Qed.
Theorem C10_announce_reason_iff_decision : forall me v, reason_applies me v RAnnounce = true <-> bgp_decide me v = RAnnounce.
Proof. exact announce_applies_iff. Qed.
Theorem C10_other_reason_means_no_announcement : forall me v r,
  r <> RAnnounce -> reason_applies me v r = true -> bgp_decide me v <> RAnnounce.
Proof. exact other_reason_means_no. Qed.

(* ---- the same iff at every quiescent point of every history of the speaker (Model/Speaker.v):
   after any event list followed by the re-syncs it requests (no F25 staleness; F9 does not matter
   for BGP), the Services with BGP advertisements on this node are exactly those whose address pool is
   configured and for which the eligibility rule above holds on the CURRENT node state ... *)
Theorem C10_announced_over_bgp_iff_partial : forall ev spk h name,
  forallb esvc_ok h = true -> stale_after ev ([], sinit spk) false h = false ->
  let K := fst (srun ev spk h) in let st := snd (srun ev spk h) in
  bs_ads (s_bgp st) name <> None <->
  exists s ips p, plan (s_cfg st) (klookup K name) = Some (s, ips, p) /\
    let v := bgp_view ev (s_nodes st) p s in
    adv_selects (en_me ev) v /\ node_unavail v = false /\ (bv_ignore v = true \/ node_excl v = false) /\
    (exists a, ready_all v a) /\ (bv_local v = true -> exists a, ready_here (en_me ev) v a).
Proof. exact announced_over_bgp_iff. Qed.

(* ... and every live session carries exactly the routes those Services produce for its peer *)
Theorem C10_session_routes_iff_partial : forall ev spk h q l,
  forallb esvc_ok h = true -> stale_after ev ([], sinit spk) false h = false ->
  let K := fst (srun ev spk h) in let st := snd (srun ev spk h) in
  In q (bs_peers (s_bgp st)) -> ps_sess q = Some l ->
  forall ad, In ad l <->
    exists name s ips p, plan (s_cfg st) (klookup K name) = Some (s, ips, p) /\
      c10_code (en_me ev) (bgp_view ev (s_nodes st) p s) /\ In ad (make_ads (en_me ev) ips (pl_bgp p)) /\
      matches_peer (pc_name (ps_cfg q)) ad = true.
Proof. exact session_routes_iff. Qed.

(* non-vacuity *)
Example C10_nonvacuous_cluster :
  bgp_decide 0 {| bv_advs := [[0]]; bv_node := Some (false, true); bv_ignore := true; bv_local := false;
                  bv_eps := [[ {| be_ready := None; be_serving := None; be_node := Some 5; be_addrs := [1] |} ]] |} = RAnnounce.
Proof. vm_compute. reflexivity. Qed.
Example C10_nonvacuous_local_elsewhere :
  bgp_decide 0 {| bv_advs := [[0]]; bv_node := None; bv_ignore := false; bv_local := true;
                  bv_eps := [[ {| be_ready := None; be_serving := None; be_node := Some 5; be_addrs := [1] |} ]] |} = RNoLocal.
Proof. vm_compute. reflexivity. Qed.
Example C10_nonvacuous_conflict :
  bgp_decide 0 {| bv_advs := [[0]]; bv_node := None; bv_ignore := false; bv_local := false;
                  bv_eps := [[ {| be_ready := Some true; be_serving := None; be_node := Some 0; be_addrs := [1] |} ];
                             [ {| be_ready := Some false; be_serving := None; be_node := Some 0; be_addrs := [1] |} ]] |} = RNoEndpoints.
Proof. vm_compute. reflexivity. Qed.

(* ---- which endpoint slices the decision is taken on (ServiceReconciler, both paths: the index
   "<namespace>/<service-name label>"): exactly the slices of the Service's OWN namespace carrying its name;
   same-named Services of other namespaces never matter; grouping by the bare label would change decisions.
   slices_for is two lines of model; its weight is the stack correspondence (TestVerifSpkStack: real
   ServiceReconciler with endpoints on a fake API server, same-named Services in two namespaces, decisions compared
   after the single-service path and after reprocessAll) *)
Theorem C10_slices_of_own_namespace_and_name : forall ns name all eps,
  In eps (slices_for ns name all) <->
  exists s, In s all /\ ks_ns s = ns /\ ks_label s = Some name /\ ks_eps s = eps.
Proof. exact slices_for_spec. Qed.
Theorem C10_other_namespaces_do_not_matter : forall ns name all extra,
  (forall s, In s extra -> ks_ns s <> ns) -> slices_for ns name (all ++ extra) = slices_for ns name all.
Proof. exact slices_for_other_namespace. Qed.
Theorem C10_grouping_by_bare_label_refuted :
  let v eps := {| bv_advs := [[0]]; bv_node := None; bv_ignore := false; bv_local := false; bv_eps := eps |} in
  bgp_decide 0 (v (slices_for 0 7 [ks_good; ks_bad])) = RAnnounce /\
  bgp_decide 0 (v (slices_by_label 7 [ks_good; ks_bad])) = RNoEndpoints.
Proof. exact slices_by_label_refuted. Qed.

(* non-vacuity of the lifted theorems: a history satisfying their hypotheses in which a Service has BGP
   advertisements and a route on the session of a peer; the node becoming network-unavailable removes both *)
Example C10_nonvacuous_history :
  let ws := srun env_id (Some [0]) bgp_history in
  forallb esvc_ok bgp_history = true /\
  stale_after env_id ([], sinit (Some [0])) false bgp_history = false /\
  bs_ads (s_bgp (snd ws)) 0 <> None /\
  option_map (@length adv) (sess_of (s_bgp (snd ws)) 1) = Some 1%nat /\
  let ws' := srun env_id (Some [0]) (bgp_history ++ [ENode (w_lab [(7, 7)] true)]) in
  bs_ads (s_bgp (snd ws')) 0 = None /\ sess_of (s_bgp (snd ws')) 1 = Some [].
Proof. vm_compute. repeat split; discriminate. Qed.
