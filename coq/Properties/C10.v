(* C10 — BGP announcement eligibility follows node state and traffic policy.
   Statements only; proofs in Proofs/BgpAdsElig.v.  [bgp_decide me v] is the
   transcription of bgpController.ShouldAnnounce on node [me] (RAnnounce = the
   empty string); ready_all / ready_on / ready_here / adv_selects / single_homed
   are the statement's vocabulary, defined in Model/BgpAds.v independently of
   the transcription of hasHealthyEndpoint. *)
From Coq Require Import List NArith.
From Verif Require Import Model.BgpAds Proofs.BgpAdsElig.
Local Open Scope N_scope.

(* hasHealthyEndpoint = "some address whose every (selected) carrier can serve" *)
Theorem C10_has_healthy_endpoint_spec : forall filt eps,
  has_healthy filt eps = true <->
  exists a, (exists e, In e (concat eps) /\ filt (be_node e) = false /\ In a (be_addrs e)) /\
            forall e, In e (concat eps) -> filt (be_node e) = false -> In a (be_addrs e) -> bcan_serve e = true.
Proof. exact has_healthy_spec. Qed.

(* what the code decides, for every layout, node state, flag and policy *)
Theorem C10_bgp_should_announce_iff : forall me v,
  bgp_decide me v = RAnnounce <->
  adv_selects me v /\ node_unavail v = false /\ (bv_ignore v = true \/ node_excl v = false) /\
  (exists a, ready_all v a) /\ (bv_local v = true -> exists a, ready_here me v a).
Proof. exact bgp_should_announce_iff. Qed.

(* the statement, literally (Local: an address ready under "every entry carrying
   it" with an entry on this node): refuted — F18 *)
Theorem C10_bgp_should_announce_literal_refuted :
  exists me v, bgp_decide me v = RAnnounce /\ ~ c10_literal me v.
Proof. exact bgp_should_announce_literal_refuted. Qed.

(* ... and the decision of this node changes with an unrelated remote endpoint *)
Theorem C10_decision_depends_on_unrelated_endpoint :
  bgp_decide 0 f18_view = RAnnounce /\ bgp_decide 0 f18_view' = RNoEndpoints.
Proof. exact f18_depends_on_unrelated. Qed.

(* the statement holds when no endpoint address appears on two different nodes *)
Theorem C10_bgp_should_announce_partial : forall me v,
  single_homed v ->
  (bgp_decide me v = RAnnounce <->
   adv_selects me v /\ node_unavail v = false /\ (bv_ignore v = true \/ node_excl v = false) /\
   (if bv_local v then exists a, ready_on me v a else exists a, ready_all v a)).
Proof. exact bgp_should_announce_partial. Qed.

(* one direction needs no hypothesis: whenever the statement says announce, the code announces *)
Theorem C10_literal_implies_announce : forall me v, c10_literal me v -> bgp_decide me v = RAnnounce.
Proof. exact literal_implies_code. Qed.

Theorem C10_not_owner_iff : forall me v, bgp_decide me v = RNotOwner <-> ~ adv_selects me v.
Proof. exact bgp_reason_not_owner. Qed.

(* non-vacuity *)
Example C10_nonvacuous_cluster :
  bgp_decide 0 {| bv_advs := [[0]]; bv_node := Some (false, true); bv_ignore := true; bv_local := false;
                  bv_eps := [[ {| be_ready := None; be_serving := None; be_node := Some 5; be_addrs := [1] |} ]] |} = RAnnounce.
Proof. vm_compute. reflexivity. Qed.
Example C10_nonvacuous_local_elsewhere :
  bgp_decide 0 {| bv_advs := [[0]]; bv_node := None; bv_ignore := false; bv_local := true;
                  bv_eps := [[ {| be_ready := None; be_serving := None; be_node := Some 5; be_addrs := [1] |} ]] |} = RNoLocal.
Proof. vm_compute. reflexivity. Qed.
Example C10_nonvacuous_conflict :
  bgp_decide 0 {| bv_advs := [[0]]; bv_node := None; bv_ignore := false; bv_local := false;
                  bv_eps := [[ {| be_ready := Some true; be_serving := None; be_node := Some 0; be_addrs := [1] |} ];
                             [ {| be_ready := Some false; be_serving := None; be_node := Some 0; be_addrs := [1] |} ]] |} = RNoEndpoints.
Proof. vm_compute. reflexivity. Qed.
