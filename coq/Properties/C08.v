(* C08 — Accepted configuration is sound: exact, disjoint pools and contained aggregates.
   Statements only; proofs in Proofs/CfgSummP.v (ipaddr.Summarize), Proofs/CfgP.v, Proofs/NetP.v;
   pre-fix regressions (F4, F5) in Proofs/CfgPrefix.v.
   Model: Model/Cfg.v.  [pools_for iter r = Some out] is "config.For accepted the resource set r
   and returned the pools out" ([iter] = iteration order of the ByName map, irrelevant by C18).
   All statements are about the resource list in ANY order (config.For itself does not sort). *)
(* Scope notes.  Address entries are tokenised ([addr]): the string level (strings.Contains "-",
   TrimSpace, net.ParseCIDR / ParseIP) is covered by the harness only.  Label selectors are
   matchLabels only (matchExpressions are not modelled).  Theorems marked BY DEFINITION restate a
   boolean function of the model as a proposition (vocabulary, not coverage). *)
From Coq Require Import List NArith Permutation.
From Verif Require Import Model.Cfg Proofs.NetP Proofs.CfgSummP Proofs.CfgFuelP Proofs.CfgP Proofs.CfgRouteP Proofs.CfgL2P Proofs.CfgAggP Proofs.CfgAllocBridgeP Proofs.CfgPrefix.
From Verif Require Import Model.CfgFull Proofs.CfgFullP.
From Verif Require Import Model.Reconciler Proofs.ReconcilerCfgP.
Local Open Scope N_scope.

(* ipaddr.Summarize: the prefixes returned for the inclusive range [s,e] cover exactly the
   range (nothing added, nothing lost), are pairwise disjoint, aligned and well formed *)
Theorem C08_summarize_exact : forall f s e ps, e < 2 ^ width f -> summarize f s e = Some ps ->
  (forall x, in_prefixes ps x <-> ip_fam x = f /\ s <= ip_val x <= e) /\
  ForallOrdPairs disjoint ps /\
  Forall (fun p => aligned p /\ wf_prefix p /\ pfam p = f /\ s <= pbase p /\ plast p <= e) ps.
Proof. exact summarize_exact. Qed.

(* the summarisation loop emits at most 2*width+1 blocks: the model's fuel always suffices *)
Theorem C08_summarize_fuel_ok : forall f s e, s <= e -> e < 2 ^ width f -> summarize f s e <> None.
Proof. exact summarize_fuel_ok. Qed.

(* one address entry: a CIDR means its network (also when not aligned, also in IPv4-mapped
   notation), a range means [start,end] of one family *)
Theorem C08_parse_addr_exact : forall a ps, parse_addr a = Some ps ->
  (forall x, in_prefixes ps x <-> addr_denotes a x) /\ ForallOrdPairs disjoint ps /\
  Forall (fun p => aligned p /\ wf_prefix p) ps.
Proof. exact parse_addr_exact. Qed.

(* a well-formed tokenised entry is not refused.  For ACidr / AMapped this restates the guard of
   [parse_addr] (BY DEFINITION); the content is the ARange case (= C08_summarize_fuel_ok) *)
Theorem C08_parse_accepts_wellformed : forall a,
  match a with
  | ACidr p => wf_prefix p
  | AMapped b l => l <= 128 /\ b < 2 ^ 32
  | ARange s e => ip_fam s = ip_fam e /\ ip_val s <= ip_val e /\ wf_ip e
  end -> parse_addr a <> None.
Proof. exact parse_accepts_wellformed. Qed.

(* families are not mixed inside an accepted range (after fix F5).  BY DEFINITION of [parse_addr]
   (the mixed patterns return None); the content is the correspondence with the Go code *)
Theorem C08_range_one_family : forall s e ps, parse_addr (ARange s e) = Some ps ->
  ip_fam s = ip_fam e /\ ip_val s <= ip_val e.
Proof. exact parse_range_same_family. Qed.

(* F5 (before fix 3bff485): 1.2.3.4-ffff::1 was accepted and denoted nothing *)
Theorem C08_parse_mixed_refuted : exists s e, ip_fam s <> ip_fam e /\ parse_range_prefix s e = Some [].
Proof. exact parse_mixed_refuted. Qed.

(* accepted => every pool's address set is exactly the union of what the user wrote for it,
   and every IPAddressPool resource became a pool *)
Theorem C08_parse_exact : forall iter r out, pools_for iter r = Some out ->
  (forall p, In p (po_pools out) -> exists c, In c (r_pools r) /\ pl_name c = p_name p /\
     forall x, in_prefixes (p_cidrs p) x <-> exists a, In a (pl_addrs c) /\ addr_denotes a x) /\
  (forall c, In c (r_pools r) -> exists p, In p (po_pools out) /\ pl_name c = p_name p /\
     forall x, in_prefixes (p_cidrs p) x <-> exists a, In a (pl_addrs c) /\ addr_denotes a x).
Proof. exact parse_exact. Qed.

(* cidrsOverlap is exact on parsed prefixes ... *)
Theorem C08_cidrs_overlap_exact : forall a b, aligned a /\ wf_prefix a -> aligned b /\ wf_prefix b ->
  (overlap a b = true <-> exists x, contains a x = true /\ contains b x = true).
Proof. exact overlap_iff. Qed.

(* ... hence all CIDRs of all accepted pools are pairwise disjoint, within and between pools *)
Theorem C08_accepted_disjoint : forall iter r out, pools_for iter r = Some out ->
  ForallOrdPairs disjoint (flat_map p_cidrs (po_pools out)).
Proof. exact accepted_disjoint. Qed.

(* F4 (before fix 2c5d85f): ::ffff:1.2.3.0/120 and 1.2.3.128/25 passed the overlap test in
   either order although they share addresses *)
Theorem C08_overlap_prefix_refuted :
  exists a b x, overlap_prefix a b = false /\ overlap_prefix b a = false /\
                contains (rp a) x = true /\ contains (rp b) x = true.
Proof. exact overlap_prefix_refuted. Qed.

(* no node's internal IP lies in an accepted pool *)
Theorem C08_no_node_ip : forall iter r out p c x, pools_for iter r = Some out ->
  In p (po_pools out) -> In c (p_cidrs p) -> In x (node_ips (r_nodes r)) -> contains c x = false.
Proof. exact no_node_ip. Qed.

(* a BGP advertisement is attached to exactly the pools it names or selects, to all pools
   when it names and selects none ([wants]) ... *)
Theorem C08_adv_attach_exact : forall iter r out p b, pools_for iter r = Some out -> In p (po_pools out) ->
  (In b (p_bgp p) <-> exists c, In c (r_bgp r) /\ parse_bgp (r_nodes r) c = Some b /\
                                 wants (r_pools r) (bg_pools c) (bg_psels c) (p_name p)).
Proof. exact adv_attach_exact. Qed.

(* an L2 advertisement likewise, as a set: containsAdvertisement keeps one representative of
   advertisements equal up to [l2adv_eqb] (same nodes, same interface set, same AllInterfaces) *)
Theorem C08_l2_attach_exact : forall iter r out p, pools_for iter r = Some out -> In p (po_pools out) ->
  (forall a', In a' (p_l2 p) -> exists c, In c (r_l2 r) /\ parse_l2 (r_nodes r) c = Some a' /\
                                          wants (r_pools r) (l2_pools c) (l2_psels c) (p_name p)) /\
  (forall c a, In c (r_l2 r) -> parse_l2 (r_nodes r) c = Some a ->
               wants (r_pools r) (l2_pools c) (l2_psels c) (p_name p) ->
               exists a', In a' (p_l2 p) /\ l2adv_eqb a a' = true).
Proof. exact l2_attach_exact. Qed.

(* ... with exactly the nodes its node selectors match (all nodes when it has none) *)
Theorem C08_nodes_exact : forall nodes c b, parse_bgp nodes c = Some b ->
  forall n, In n (ba_nodes b) <-> exists nd, In nd nodes /\ nd_name nd = n /\
                                   (bg_nsels c = [] \/ matches_any (bg_nsels c) (nd_labels nd) = true).
Proof. exact nodes_exact. Qed.

Theorem C08_l2_nodes_exact : forall nodes c a, parse_l2 nodes c = Some a ->
  forall n, In n (la_nodes a) <-> exists nd, In nd nodes /\ nd_name nd = n /\
                                   (l2_nsels c = [] \/ matches_any (l2_nsels c) (nd_labels nd) = true).
Proof. exact l2_nodes_exact. Qed.

(* aggregate containment (Net): masking an address of c to a length >= c's length stays in c *)
Theorem C08_aggregate_contained : forall c x len y, plen c <= len -> len <= width (pfam c) ->
  contains c x = true -> contains (mask_to len x) y = true -> contains c y = true.
Proof. exact aggregate_contained. Qed.

(* accepted => for every pool address entry that is one CIDR q (written as a CIDR in any
   notation), every attached BGP advertisement b and every address x of q, the aggregate b
   produces for x stays inside q *)
Theorem C08_aggregate_in_cidr : forall iter r out c, pools_for iter r = Some out -> In c (r_pools r) ->
  exists p, In p (po_pools out) /\ p_name p = pl_name c /\
    forall a q b x y, In a (pl_addrs c) -> parse_addr a = Some [q] -> In b (p_bgp p) ->
      contains q x = true -> contains (mask_to (agg_of b (pfam q)) x) y = true -> contains q y = true.
Proof. exact aggregate_in_cidr. Qed.

(* BY DEFINITION: [collide] is the propositional reading of advertisementsAreCompatible
   (a common node, overlapping peer sets (empty = all peers), equal aggregation length for a
   family the pool has); the semantic statement is C08_one_route_one_localpref_same_pool *)
Theorem C08_compatible_exact : forall a b p, compatible a b p = true <-> ~ collide a b p.
Proof. exact compatible_spec. Qed.

(* the compatibility check is symmetric in the two advertisements: which one reaches
   config.For first does not matter for the pair's verdict *)
Theorem C08_localpref_check_symmetric : forall a b p, compatible a b p = compatible b a p.
Proof. exact compatible_sym. Qed.

(* THE LOCAL-PREFERENCE CLAUSE.  validateBGPAdvPerPool looks at ONE pool at a time, so what is
   proved in general is the same-pool form; across pools see below. *)
(* accepted => two advertisements attached to the SAME pool with different local preferences
   never collide *)
Theorem C08_localpref_collision_rejected_same_pool : forall iter r out p, pools_for iter r = Some out ->
  In p (po_pools out) ->
  ForallOrdPairs (fun a b => ba_lp a <> ba_lp b -> ~ collide a b p) (p_bgp p).
Proof. exact localpref_no_collision. Qed.

(* consequence in terms of routes: within ONE pool, one route (aggregate prefix, node, peer) never
   gets two local preferences *)
Theorem C08_one_route_one_localpref_same_pool : forall iter r out p, pools_for iter r = Some out -> In p (po_pools out) ->
  ForallOrdPairs (fun a b => forall x n pr, announces p a x n pr -> announces p b x n pr ->
                                            route a x = route b x -> ba_lp a = ba_lp b) (p_bgp p).
Proof. exact one_route_one_localpref. Qed.

(* ACROSS pools (and across two address entries of one pool), for entries that are one CIDR
   ([In [q] (p_per_addr p)]: written as a CIDR in any notation, or a range that is one block):
   two such entries that yield the same aggregate route contain each other's address ... *)
Theorem C08_cidr_entries_share_no_route : forall iter r out p1 p2 q1 q2 b1 b2 x1 x2,
  pools_for iter r = Some out -> In p1 (po_pools out) -> In p2 (po_pools out) ->
  In [q1] (p_per_addr p1) -> In [q2] (p_per_addr p2) -> In b1 (p_bgp p1) -> In b2 (p_bgp p2) ->
  contains q1 x1 = true -> contains q2 x2 = true -> route b1 x1 = route b2 x2 ->
  contains q1 x2 = true /\ contains q2 x1 = true.
Proof. exact cidr_entries_share_no_route. Qed.

(* ... so two DIFFERENT CIDR entries (disjoint by C08_accepted_disjoint) never produce the same
   route at all: for pools written as CIDRs the clause holds across pools, whatever the local
   preferences *)
Theorem C08_disjoint_cidr_entries_share_no_route : forall iter r out p1 p2 q1 q2 b1 b2 x1 x2,
  pools_for iter r = Some out -> In p1 (po_pools out) -> In p2 (po_pools out) ->
  In [q1] (p_per_addr p1) -> In [q2] (p_per_addr p2) -> In b1 (p_bgp p1) -> In b2 (p_bgp p2) ->
  disjoint q1 q2 -> contains q1 x1 = true -> contains q2 x2 = true -> route b1 x1 <> route b2 x2.
Proof. exact disjoint_cidr_entries_share_no_route. Qed.

(* ... but the unrestricted clause is FALSE for range-written pools, in the model and in the
   real config.For (reproduced): pools 0.0.0.10-0.0.0.15 and 0.0.0.4-0.0.0.9, one advertisement
   each with aggregation length 30 and local preference 100 / 200, every peer, one node: accepted,
   and both announce 0.0.0.8/30 from node 1 with two local preferences.  Recorded as a finding. *)
Theorem C08_localpref_cross_pool_refuted :
  exists r out p1 p2 b1 b2 x1 x2 n pr,
    pools_for (fun l => l) r = Some out /\ In p1 (po_pools out) /\ In p2 (po_pools out) /\ p_name p1 <> p_name p2 /\
    In b1 (p_bgp p1) /\ In b2 (p_bgp p2) /\ announces p1 b1 x1 n pr /\ announces p2 b2 x2 n pr /\
    route b1 x1 = route b2 x2 /\ ba_lp b1 <> ba_lp b2.
Proof. exact localpref_cross_pool_refuted. Qed.

(* ... and at most one of every class: the L2 advertisements of an accepted pool are pairwise
   different for containsAdvertisement, so Pool.L2Advertisements is exactly the set of
   advertisements that name or select the pool *)
Theorem C08_l2_no_duplicates : forall iter r out p, pools_for iter r = Some out -> In p (po_pools out) ->
  ForallOrdPairs (fun a b => l2adv_eqb a b = false) (p_l2 p).
Proof. exact l2_no_duplicates. Qed.

(* BY DEFINITION: the three-field reading of containsAdvertisement's comparison *)
Theorem C08_l2adv_eqb_exact : forall a b, l2adv_eqb a b = true <->
  la_all a = la_all b /\ la_nodes a = la_nodes b /\ setN (la_ifaces a) = setN (la_ifaces b).
Proof. exact l2adv_eqb_spec. Qed.

(* range-written entries: what validateBGPAdvPerPool guarantees is one block per entry (the
   largest one of the summarised range) inside which aggregates stay ... *)
Theorem C08_aggregate_in_some_block : forall iter r out c, pools_for iter r = Some out -> In c (r_pools r) ->
  exists p, In p (po_pools out) /\ p_name p = pl_name c /\
    forall a cs b, In a (pl_addrs c) -> parse_addr a = Some cs -> In b (p_bgp p) ->
      exists q, In q cs /\ plen q <= agg_of b (pfam q) /\
        forall x y, contains q x = true -> contains (mask_to (agg_of b (pfam q)) x) y = true -> contains q y = true.
Proof. exact aggregate_in_some_block. Qed.

(* ... and no more: for a pool written as the range 0.0.0.2-0.0.0.7 an accepted advertisement
   with aggregationLength 30 aggregates the pool address 0.0.0.2 to 0.0.0.0/30, which contains
   an address outside the pool.  (The property restricts the clause to pools written as CIDRs.) *)
(* (a boundary witness: the property's clause is restricted to pools written as CIDRs) *)
Theorem C08_aggregate_in_range_refuted :
  exists r out p b x y, pools_for (fun l => l) r = Some out /\ In p (po_pools out) /\ In b (p_bgp p) /\
    in_prefixes (p_cidrs p) x /\ contains (mask_to (agg_of b (ip_fam x)) x) y = true /\
    ~ in_prefixes (p_cidrs p) y.
Proof. exact aggregate_in_range_refuted. Qed.

(* the whole config.For (Model/CfgFull.v): an accepted configuration never advertises a pool
   that contains IPv6 to a peer whose BFD profile has echo mode (validateConfig) ... *)
(* BY DEFINITION: full_for ends with [validate_config]; [reaches_echo] is its reading *)
Theorem C08_no_echo_towards_ipv6_pool : forall iter m fr c, full_for iter m fr = Some c ->
  forall p a, In p (po_pools (fc_pools c)) -> (exists x, In x (p_cidrs p) /\ pfam x = F6) -> In a (p_bgp p) ->
              ~ reaches_echo (fc_bfds c) (fc_peers c) a.
Proof. exact accepted_no_echo_towards_v6. Qed.

(* ... has unique pool, BFD profile, community alias and peer names, and every BFD profile a
   peer refers to exists *)
Theorem C08_accepted_names_unique : forall iter m fr c, full_for iter m fr = Some c ->
  NoDup (map pl_name (f_pools fr)) /\ NoDup (map bf_name (f_bfds fr)) /\
  NoDup (map fst (flat_map cm_aliases (f_comms fr))) /\ NoDup (map p_pname (fc_peers c)) /\
  NoDup (map b_name (fc_bfds c)) /\ Forall (peer_ok (fc_bfds c)) (fc_peers c).
Proof. exact accepted_names_unique. Qed.

(* ... and its pools part is poolsFor of the same resources, so every C08 theorem above
   applies to it *)
(* BY DEFINITION (unfolding of full_for); needed as the bridge from config.For to pools_for *)
Theorem C08_full_pools_are_pools_for : forall iter m fr c, full_for iter m fr = Some c ->
  exists tbl bgp, comms_for (f_comms fr) = Some tbl /\ resolve_bgp tbl (f_bgp fr) = Some bgp /\
                  pools_for iter (base_of fr bgp) = Some (fc_pools c).
Proof. exact full_pools_are_pools_for. Qed.

(* an accepted entry is never empty (after F5) *)
Theorem C08_parsed_entry_nonempty : forall a cs, parse_addr a = Some cs -> cs <> [].
Proof. exact parse_addr_nonempty. Qed.

(* bridge to the allocator model (Model/Alloc.v, C01/C02/C07): the pools of an accepted
   configuration, translated by [to_alloc_pools], have unique names and pairwise disjoint address
   sets in the allocator's sense - what AllocPolicyP assumes of its configuration *)
Theorem C08_accepted_pools_for_allocator : forall iter r out, pools_for iter r = Some out ->
  AllocPolicyP.names_unique (to_alloc_pools out) /\
  AllocPolicyP.pools_disjoint (Alloc.by_name (to_alloc_pools out)).
Proof. exact accepted_pools_for_allocator. Qed.

(* what the handler (speaker / controller) HOLDS: after any history of reconciles, a step on a
   cluster state that config.For accepts as c and that ends without requeue leaves c as the
   configuration last given to the handler (Model/Reconciler.v, theorems C18_reconciler_...), so every
   theorem about accepted configurations applies to what the handler holds at quiescence - e.g.
   its pools are pairwise disjoint.  [ceq] = reflect.DeepEqual, assumed to decide equality.
   (Which requests reach the reconciler is not part of the model: see the known finding
   reconciler-node-address-change-not-observed.) *)
Theorem C08_handler_holds_for_of_current_state : forall (ceq : fconfig -> fconfig -> bool),
  (forall x y, ceq x y = true <-> x = y) ->
  forall srt iter m evs snap h c,
    full_to_config srt iter m snap = Some c ->
    o_requeue (snd (hstep ceq false (hrun ceq false evs hinit) (Some c, h))) = false ->
    h_given (hrun ceq false (evs ++ [(full_to_config srt iter m snap, h)]) hinit) = Some c /\
    ForallOrdPairs disjoint (flat_map p_cidrs (po_pools (fc_pools c))).
Proof. exact handler_holds_for_of_current_state. Qed.

Theorem C08_pool_handler_accepted_for_of_current_state : forall (ceq : fconfig -> fconfig -> bool),
  (forall x y, ceq x y = true <-> x = y) ->
  forall srt iter m evs snap h c,
    full_to_config srt iter m snap = Some c -> h <> HErrorNoRetry ->
    o_requeue (snd (hstep ceq true (hrun ceq true evs hinit) (Some c, h))) = false ->
    h_accepted (hrun ceq true (evs ++ [(full_to_config srt iter m snap, h)]) hinit) = Some c.
Proof. exact pool_handler_accepted_for_of_current_state. Qed.

(* non-vacuity: a range crossing alignment boundaries, the F4 pair after the fix *)
Example C08_nonvacuous :
  parse_addr (ARange (V4 3) (V4 17)) =
    Some [Build_prefix F4 3 32; Build_prefix F4 4 30; Build_prefix F4 8 29; Build_prefix F4 16 31] /\
  parse_addr (AMapped 16909056 120) = Some [Build_prefix F4 16909056 24] /\
  overlap (Build_prefix F4 16909056 24) (Build_prefix F4 16909184 25) = true /\
  parse_addr (ARange (V4 16909060) (V6 340277174624079928635746076935438991361)) = None /\
  summarize F4 0 4294967295 = Some [Build_prefix F4 0 0].
Proof. vm_compute. repeat split. Qed.

(* non-vacuity of the accepted-configuration theorems: two nodes with internal IPs outside the
   pools, a pool written as CIDR + range carrying an L2 advertisement and two BGP advertisements
   with different local preferences AND different aggregation lengths (so they do not collide),
   a second pool selected by label: accepted; the advertisements announce pool addresses *)
Definition nv_res : resources :=
  {| r_pools := [{| pl_name := 1; pl_labels := [(0, 1)]; pl_addrs := [ACidr (Build_prefix F4 2560 24); ARange (V4 5000) (V4 5009)];
                    pl_avoid := false; pl_auto := true; pl_alloc := None |};
                 {| pl_name := 2; pl_labels := [(0, 2)]; pl_addrs := [ACidr (Build_prefix F4 7680 24)];
                    pl_avoid := true; pl_auto := true; pl_alloc := None |}];
     r_l2 := [{| l2_name := 1; l2_pools := [1]; l2_psels := []; l2_nsels := []; l2_ifaces := [3] |}];
     r_bgp := [{| bg_name := 1; bg_agg4 := 32; bg_agg6 := 128; bg_lp := 100; bg_comms := [5]; bg_peers := [];
                  bg_pools := [1]; bg_psels := []; bg_nsels := [] |};
               {| bg_name := 2; bg_agg4 := 24; bg_agg6 := 128; bg_lp := 200; bg_comms := []; bg_peers := [4];
                  bg_pools := []; bg_psels := [[(0, 2)]]; bg_nsels := [[(9, 1)]] |}];
     r_nodes := [{| nd_name := 1; nd_labels := [(9, 1)]; nd_ips := [V4 1000] |};
                 {| nd_name := 2; nd_labels := []; nd_ips := [V4 1001; V6 77] |}];
     r_nss := []; r_peers := []; r_bfds := []; r_comms := [] |}.
Example C08_nonvacuous_accepted :
  exists out p1 p2 b1 b2,
    pools_for (fun l => l) nv_res = Some out /\ po_pools out = [p1; p2] /\
    p_bgp p1 = [b1] /\ p_bgp p2 = [b2] /\ length (p_l2 p1) = 1%nat /\
    ba_nodes b1 = [1; 2] /\ ba_nodes b2 = [1] /\
    announces p1 b1 (V4 5003) 2 9 /\ announces p2 b2 (V4 7700) 1 4 /\ route b2 (V4 7700) = Build_prefix F4 7680 24.
Proof.
  destruct (pools_for (fun l => l) nv_res) as [out|] eqn:E; [|vm_compute in E; discriminate].
  vm_compute in E. injection E as <-.
  eexists. eexists. eexists. eexists. eexists.
  split; [reflexivity|]. split; [reflexivity|]. split; [reflexivity|]. split; [reflexivity|].
  split; [reflexivity|]. split; [reflexivity|]. split; [reflexivity|]. split; [|split].
  - split; [|split; [right; left; reflexivity|left; reflexivity]].
    eexists. split; [right; left; reflexivity|]. vm_compute. reflexivity.
  - split; [|split; [left; reflexivity|right; left; reflexivity]].
    eexists. split; [left; reflexivity|]. vm_compute. reflexivity.
  - vm_compute. reflexivity.
Qed.
