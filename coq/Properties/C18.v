(* C18 — Configuration loading is deterministic and independent of listing order.
   Statements only; proofs in Proofs/CfgSortP.v, pre-fix regressions in Proofs/CfgPrefix.v.
   Model: Model/Cfg.v ([to_config] = toConfig, [canon] = the sortedCopy of every kind,
   [cfg_for] = config.For, [by_namespace] = poolsByNamespace, [reconcile] = the reconcilers).
   [hsort srt] is hypothesis H-sort on Go's sort.Slice, [map_order iter] says that [iter]
   enumerates a Go map in some order, [nodup_names] that names are unique within a kind.
   [other] / [vcfg] are the parts of config.For outside the model (validate, peers, BFD
   profiles, communities, validateConfig): arbitrary functions of the sorted snapshot. *)
From Coq Require Import List NArith Permutation Sorted.
From Verif Require Import Model.Cfg Model.CfgFull Proofs.CfgSortP Proofs.CfgPrefix Proofs.CfgIsortP Proofs.CfgFullP.
Local Open Scope N_scope.

(* sortedCopy is canonical: two listings of the same objects are sorted to the same list *)
Theorem C18_sorted_copy_canonical : forall srt, hsort srt ->
  forall A (key : A -> N) l l', NoDup (map key l) -> Permutation l l' -> srt A key l = srt A key l'.
Proof. exact hsort_canonical. Qed.

(* whichever algorithm sort.Slice runs (insertion sort up to 12 elements, pdqsort above),
   the result is the same list *)
Theorem C18_sort_algorithm_irrelevant : forall srt srt', hsort srt -> hsort srt' ->
  forall A (key : A -> N) l, NoDup (map key l) -> srt A key l = srt' A key l.
Proof. exact hsort_unique. Qed.

(* the executable sort used by the correspondence satisfies H-sort *)
Theorem C18_model_sort_satisfies_hsort : hsort ksorter.
Proof. exact ksorter_hsort. Qed.

(* F1 (before fix 61831e8): the comparator read the unsorted source; exact model of Go's
   insertion sort with that comparator *)
Theorem C18_sorted_copy_prefix_refuted :
  exists l l', Permutation l l' /\ NoDup l /\ sorted_copy_prefix l <> sorted_copy_prefix l'.
Proof. exact sorted_copy_prefix_order_dependent. Qed.

(* poolsByNamespace / poolsByServiceSelector do not depend on the map iteration order *)
Theorem C18_by_namespace_canonical : forall o o', Permutation o o' -> by_namespace o = by_namespace o'.
Proof. exact by_namespace_perm. Qed.

Theorem C18_by_selector_canonical : forall o o', Permutation o o' -> by_selector o = by_selector o'.
Proof. exact by_selector_perm. Qed.

(* F2 (before fix 3f41e77) *)
Theorem C18_by_namespace_prefix_refuted :
  exists o o', Permutation o o' /\ by_namespace_prefix o <> by_namespace_prefix o'.
Proof. exact by_namespace_prefix_refuted. Qed.

(* config.For is a function of its (sorted) input: no map iteration order is left in it *)
Theorem C18_config_for_is_a_function : forall (O : Type) iter iter' (other : resources -> option O) vcfg r,
  map_order iter -> map_order iter' -> cfg_for iter other vcfg r = cfg_for iter' other vcfg r.
Proof. exact @cfg_for_iter_indep. Qed.

(* the sorted snapshot does not depend on the listing order *)
Theorem C18_canon_perm : forall srt r r', hsort srt -> nodup_names r -> perm_res r r' ->
  canon srt r = canon srt r'.
Proof. exact canon_perm. Qed.

(* C18: the configuration (or its rejection: [cfg_for] returns None) computed from a
   snapshot is the same for every listing order of every kind, for every repetition (any map
   iteration orders [iter], [iter']) and for every correct sorting algorithm *)
Theorem C18_toconfig_deterministic :
  forall (O : Type) srt srt' iter iter' (other : resources -> option O) vcfg r r',
  hsort srt -> hsort srt' -> map_order iter -> map_order iter' -> nodup_names r -> perm_res r r' ->
  to_config srt (cfg_for iter other vcfg) r = to_config srt' (cfg_for iter' other vcfg) r'.
Proof. exact @to_config_deterministic. Qed.

(* ... in particular acceptance does not depend on the listing order *)
Corollary C18_acceptance_order_independent :
  forall (O : Type) srt iter (other : resources -> option O) vcfg r r',
  hsort srt -> map_order iter -> nodup_names r -> perm_res r r' ->
  (to_config srt (cfg_for iter other vcfg) r = None <-> to_config srt (cfg_for iter other vcfg) r' = None).
Proof. exact @acceptance_order_independent. Qed.

(* the reconcilers: an event after which the computed configuration is equal calls no handler
   and forces no re-sync, however many such events arrive ([ceq] = reflect.DeepEqual) *)
Theorem C18_reconciler_skips_equal : forall (C : Type) pv (ceq : C -> C -> bool) st c h,
  rs_cur st = Some c -> ceq c c = true -> reconcile pv ceq st (Some c) h = st.
Proof. exact @reconcile_skips_equal. Qed.

Theorem C18_unrelated_events_never_reload : forall (C : Type) pv (ceq : C -> C -> bool) st c hs,
  rs_cur st = Some c -> ceq c c = true ->
  fold_left (fun s h => reconcile pv ceq s (Some c) h) hs st = st.
Proof. exact @reconcile_unrelated_events. Qed.

(* ---- H-sort discharged for the algorithm sort.Slice runs on at most 12 elements: the exact
   index-based model of Go's insertionSort_func with sortedCopy's comparator ([go_sorter],
   Proofs/CfgIsortP.v) returns a sorted permutation of every list.  What remains assumed is only
   that pdqsort (more than 12 objects of one kind) also sorts. *)
Theorem C18_go_insertion_sort_satisfies_hsort : hsort go_sorter.
Proof. exact go_sorter_hsort. Qed.

Theorem C18_go_insertion_sort_sorts : forall A (key : A -> N) (d : A) l,
  Permutation (go_isort key d l) l /\ StronglySorted (kle key) (go_isort key d l).
Proof. exact @go_isort_sorts. Qed.

(* ---- the WHOLE configuration (Model/CfgFull.v: pools, peers with node selectors / BFD and
   secret references / timers, BFD profiles, communities, extras, the three validators,
   validateConfig).  No opaque part is left: [full_to_config] is toConfig. *)
Theorem C18_full_config_for_is_a_function : forall iter iter' m fr, map_order iter -> map_order iter' ->
  full_for iter m fr = full_for iter' m fr.
Proof. exact full_for_iter_indep. Qed.

Theorem C18_full_toconfig_deterministic : forall srt srt' iter iter' m a b,
  hsort srt -> hsort srt' -> map_order iter -> map_order iter' -> fnodup a -> fperm a b ->
  full_to_config srt iter m a = full_to_config srt' iter' m b.
Proof. exact full_to_config_deterministic. Qed.

(* without any premise on the sort, for Go's insertion sort *)
Corollary C18_full_toconfig_deterministic_insertion_sort : forall iter iter' m a b,
  map_order iter -> map_order iter' -> fnodup a -> fperm a b ->
  full_to_config go_sorter iter m a = full_to_config go_sorter iter' m b.
Proof. exact full_to_config_deterministic_isort. Qed.

Corollary C18_toconfig_deterministic_insertion_sort :
  forall (O : Type) iter iter' (other : resources -> option O) vcfg r r',
  map_order iter -> map_order iter' -> nodup_names r -> perm_res r r' ->
  to_config go_sorter (cfg_for iter other vcfg) r = to_config go_sorter (cfg_for iter' other vcfg) r'.
Proof. exact @to_config_deterministic_isort. Qed.

(* acceptance or rejection, for every validator and every refusal rule of config.For, does not
   depend on the listing order or on map iteration *)
Corollary C18_full_acceptance_order_independent : forall srt iter iter' m a b,
  hsort srt -> map_order iter -> map_order iter' -> fnodup a -> fperm a b ->
  (full_to_config srt iter m a = None <-> full_to_config srt iter' m b = None).
Proof. exact full_acceptance_order_independent. Qed.

(* end to end: after a configuration computed from one listing is remembered, an event after
   which the same objects are listed in any other order (and maps are iterated in any other
   order) calls no handler and forces no re-sync; a refused snapshot never touches the state *)
Theorem C18_permuted_listing_never_reloads :
  forall srt iter iter' m a b pv (ceq : fconfig -> fconfig -> bool) st c h,
  hsort srt -> map_order iter -> map_order iter' -> fnodup a -> fperm a b ->
  full_to_config srt iter m a = Some c -> rs_cur st = Some c -> ceq c c = true ->
  reconcile pv ceq st (full_to_config srt iter' m b) h = st.
Proof. exact permuted_listing_never_reloads. Qed.

Theorem C18_refused_listing_keeps_state :
  forall srt iter iter' m a b pv (ceq : fconfig -> fconfig -> bool) st h,
  hsort srt -> map_order iter -> map_order iter' -> fnodup a -> fperm a b ->
  full_to_config srt iter m a = None -> reconcile pv ceq st (full_to_config srt iter' m b) h = st.
Proof. exact refused_listing_keeps_state. Qed.

(* the reasons for refusal are exactly the stages of config.For *)
Theorem C18_refusal_stages : forall iter m fr, stage_result iter m fr (full_for iter m fr).
Proof. exact full_for_stages. Qed.

(* non-vacuity: three advertisements listed [b;c;a] and [a;b;c] are sorted to the same list
   by the model's sort, four pools pinned to one namespace give one list whatever the order *)
Example C18_nonvacuous :
  ksort (fun x => x) [2; 3; 1] = [1; 2; 3] /\ ksort (fun x => x) [1; 2; 3] = [1; 2; 3] /\
  by_namespace [mini_pool 3 [7]; mini_pool 1 [7; 8]; mini_pool 2 [7]] =
  by_namespace [mini_pool 2 [7]; mini_pool 3 [7]; mini_pool 1 [7; 8]] /\
  by_namespace [mini_pool 3 [7]; mini_pool 1 [7; 8]; mini_pool 2 [7]] = [(7, [1; 2; 3]); (8, [1])].
Proof. vm_compute. repeat split. Qed.
