(* C18 — Configuration loading is deterministic and independent of listing order.
   Statements only; proofs in Proofs/CfgSortP.v, CfgFullP.v, CfgIsortP.v; pre-fix regressions in
   Proofs/CfgPrefix.v.
   Model: Model/Cfg.v ([canon] = the sortedCopy of every kind, [pools_for] = poolsFor,
   [by_namespace] = poolsByNamespace, [reconcile] = the reconcilers' compare-and-skip) and
   Model/CfgFull.v ([full_for] = config.For, [full_to_config] = toConfig).

   WHAT IS AND IS NOT PROVED ABOUT ORDER.
   * Listing order: a theorem (the sort by name makes every listed kind canonical).  Premises:
     [hsort srt] (Go's sort returns a sorted permutation: PROVED for the exact model of Go's
     insertion sort, which sort.Slice runs on at most 12 elements; a premise for pdqsort above),
     [fnodup] / [nodup_names] (names unique within a kind).
   * Go map iteration order is a parameter of the model in exactly TWO places:
     poolsByNamespace and poolsByServiceSelector ([iter], premise [map_order]); the theorems
     below show the result does not depend on it there (F2 was such a defect).
   * Every OTHER loop over a Go map is written order-free BY CONSTRUCTION in the model
     (forallb / existsb / map): setL2/setBGPAdvertisementsToPools' "all pools" loops over
     ipPoolMap, validateBGPAdvPerPool's and isAggrLengthDifferent's loops over
     cidrsPerAddresses, peersFor's duplicate test over the result map, validateConfig's walks
     over Pools.ByName and Peers.  No theorem here can observe an order dependence in those;
     that the Go code has none is checked only by the correspondence (model = code on every
     generated case) together with the Go-side repetition (50x) / shuffle oracle.  The seeded
     changes C18-1 and C18-4 were of that kind and were caught by that oracle, not by a proof.
   * "Equal" is the model's equality (Model/CfgFull.v [fconfig_eqb] / Leibniz equality of the
     model value): coarser than reflect.DeepEqual (a *net.IPNet is (family, base, length), nil =
     empty, no pointer aliasing, the unexported cidrsPerAddresses is not part of it).  The gap
     (F28, seeded C18-3: 4-byte vs 16-byte IP, consumer-side mutation) is covered by the Go
     oracle on the real reconcilers only.
   * Not modelled at all: matchExpressions selectors, validateDuplicateBGPAdvertisements
     (vacuous for unique names), empty object names, which error is returned (only
     accepted / refused is compared). *)
From Coq Require Import List NArith Permutation Sorted.
From Verif Require Import Model.Cfg Model.CfgFull Proofs.CfgSortP Proofs.CfgPrefix Proofs.CfgIsortP Proofs.CfgFullP.
From Verif Require Import Model.Reconciler Proofs.ReconcilerP Proofs.ReconcilerCfgP.
Local Open Scope N_scope.

(* ---------------------------------------------------------------- the sort *)
(* sortedCopy is canonical: two listings of the same objects are sorted to the same list *)
Theorem C18_sorted_copy_canonical : forall srt, hsort srt ->
  forall A (key : A -> N) l l', NoDup (map key l) -> Permutation l l' -> srt A key l = srt A key l'.
Proof. exact hsort_canonical. Qed.

(* whichever algorithm sort.Slice runs, the result is the same list *)
Theorem C18_sort_algorithm_irrelevant : forall srt srt', hsort srt -> hsort srt' ->
  forall A (key : A -> N) l, NoDup (map key l) -> srt A key l = srt' A key l.
Proof. exact hsort_unique. Qed.

(* the executable sort used by the correspondence satisfies H-sort *)
Theorem C18_model_sort_satisfies_hsort : hsort ksorter.
Proof. exact ksorter_hsort. Qed.

(* H-sort holds for the exact index-based model of Go's insertionSort_func with sortedCopy's
   repaired comparator ([go_sorter], Proofs/CfgIsortP.v), on every list.  Go runs that algorithm
   only on slices of at most 12 elements; for longer ones (pdqsort) H-sort stays a premise. *)
Theorem C18_go_insertion_sort_satisfies_hsort : hsort go_sorter.
Proof. exact go_sorter_hsort. Qed.

Theorem C18_go_insertion_sort_sorts : forall A (key : A -> N) (d : A) l,
  Permutation (go_isort key d l) l /\ StronglySorted (kle key) (go_isort key d l).
Proof. exact @go_isort_sorts. Qed.

(* F1 (before fix 61831e8): the comparator read the unsorted source *)
Theorem C18_sorted_copy_prefix_refuted :
  exists l l', Permutation l l' /\ NoDup l /\ sorted_copy_prefix l <> sorted_copy_prefix l'.
Proof. exact sorted_copy_prefix_order_dependent. Qed.

(* ---------------------------------------------------------------- the two order-parametric loops *)
Theorem C18_by_namespace_canonical : forall o o', Permutation o o' -> by_namespace o = by_namespace o'.
Proof. exact by_namespace_perm. Qed.

Theorem C18_by_selector_canonical : forall o o', Permutation o o' -> by_selector o = by_selector o'.
Proof. exact by_selector_perm. Qed.

(* F2 (before fix 3f41e77) *)
Theorem C18_by_namespace_prefix_refuted :
  exists o o', Permutation o o' /\ by_namespace_prefix o <> by_namespace_prefix o'.
Proof. exact by_namespace_prefix_refuted. Qed.

(* config.For does not depend on the map order in the two places where the model takes it as a
   parameter (equivalent to the two lemmas above; the other map loops are order-free by
   construction, see the header) *)
Theorem C18_pinning_indexes_map_order_free : forall iter iter' m fr, map_order iter -> map_order iter' ->
  full_for iter m fr = full_for iter' m fr.
Proof. exact full_for_iter_indep. Qed.

(* ---------------------------------------------------------------- listing order *)
(* the sorted snapshot does not depend on the listing order *)
Theorem C18_canon_perm : forall srt r r', hsort srt -> nodup_names r -> perm_res r r' ->
  canon srt r = canon srt r'.
Proof. exact canon_perm. Qed.

(* C18, listing-order clause, for the whole modelled Config (pools, pinning indexes, peers with
   timers / node selectors / BFD and secret references, BFD profiles, communities, extras, the
   three validators, validateConfig): any two listings of the same objects, any two sorts
   satisfying H-sort, any two map orders in the two parametric loops give the same model value
   or the same refusal *)
Theorem C18_full_toconfig_deterministic : forall srt srt' iter iter' m a b,
  hsort srt -> hsort srt' -> map_order iter -> map_order iter' -> fnodup a -> fperm a b ->
  full_to_config srt iter m a = full_to_config srt' iter' m b.
Proof. exact full_to_config_deterministic. Qed.

(* the same for snapshots with at most 12 objects of every kind, where Go's sort IS the modelled
   insertion sort: no premise on the sort.  ([fsmall] is not used by the proof; it states where
   the instance applies.) *)
Corollary C18_full_toconfig_deterministic_upto_12 : forall iter iter' m a b,
  fsmall a -> map_order iter -> map_order iter' -> fnodup a -> fperm a b ->
  full_to_config go_sorter iter m a = full_to_config go_sorter iter' m b.
Proof. exact full_to_config_deterministic_isort. Qed.

(* acceptance or refusal (accepted vs refused only, not which error), for every validator and
   every modelled refusal rule incl. the BFD-echo/IPv6 rule and the duplicate-name rules *)
Corollary C18_full_acceptance_order_independent : forall srt iter iter' m a b,
  hsort srt -> map_order iter -> map_order iter' -> fnodup a -> fperm a b ->
  (full_to_config srt iter m a = None <-> full_to_config srt iter' m b = None).
Proof. exact full_acceptance_order_independent. Qed.

(* older, weaker forms kept as lemmas: the non-pool part of config.For is an ARBITRARY function
   [other] / [vcfg] of the sorted snapshot, i.e. its order-freeness is assumed *)
Theorem C18_toconfig_deterministic_partial :
  forall (O : Type) srt srt' iter iter' (other : resources -> option O) vcfg r r',
  hsort srt -> hsort srt' -> map_order iter -> map_order iter' -> nodup_names r -> perm_res r r' ->
  to_config srt (cfg_for iter other vcfg) r = to_config srt' (cfg_for iter' other vcfg) r'.
Proof. exact @to_config_deterministic. Qed.

Corollary C18_toconfig_deterministic_partial_upto_12 :
  forall (O : Type) iter iter' (other : resources -> option O) vcfg r r',
  rsmall r -> map_order iter -> map_order iter' -> nodup_names r -> perm_res r r' ->
  to_config go_sorter (cfg_for iter other vcfg) r = to_config go_sorter (cfg_for iter' other vcfg) r'.
Proof. exact @to_config_deterministic_isort. Qed.

Corollary C18_acceptance_order_independent_partial :
  forall (O : Type) srt iter (other : resources -> option O) vcfg r r',
  hsort srt -> map_order iter -> nodup_names r -> perm_res r r' ->
  (to_config srt (cfg_for iter other vcfg) r = None <-> to_config srt (cfg_for iter other vcfg) r' = None).
Proof. exact @acceptance_order_independent. Qed.

(* ---------------------------------------------------------------- the reconcilers *)
(* End to end, derived from a run and with the model's own equality (reflexive: proved, no
   hypothesis): the first reconcile of listing [a] from the empty state calls the handler once
   and stores the configuration; a later reconcile of ANY permuted listing [b] (any map order)
   changes nothing - no handler call, no forced re-sync.  One later step is stated; since the
   state is unchanged it iterates. *)
Theorem C18_first_then_permuted_listing_no_reload : forall srt iter iter' m a b pv c h h',
  hsort srt -> map_order iter -> map_order iter' -> fnodup a -> fperm a b ->
  full_to_config srt iter m a = Some c -> (h = SSuccess \/ h = SReprocessAll) ->
  let st0 := {| rs_cur := None; rs_calls := 0; rs_reloads := 0 |} in
  let st1 := reconcile pv fconfig_eqb st0 (full_to_config srt iter m a) h in
  rs_calls st1 = 1%nat /\ reconcile pv fconfig_eqb st1 (full_to_config srt iter' m b) h' = st1.
Proof. exact first_then_permuted. Qed.

(* the same from any state that remembers c, for any comparison reflexive on c *)
Theorem C18_permuted_listing_never_reloads :
  forall srt iter iter' m a b pv (ceq : fconfig -> fconfig -> bool) st c h,
  hsort srt -> map_order iter -> map_order iter' -> fnodup a -> fperm a b ->
  full_to_config srt iter m a = Some c -> rs_cur st = Some c -> ceq c c = true ->
  reconcile pv ceq st (full_to_config srt iter' m b) h = st.
Proof. exact permuted_listing_never_reloads. Qed.

Theorem C18_model_equality_reflexive : forall c, fconfig_eqb c c = true.
Proof. exact fconfig_eqb_refl. Qed.

(* BY DEFINITION (one-step unfoldings of [reconcile] / [full_for]; vocabulary, not coverage):
   an equal configuration is skipped; a refused one leaves the state; refusal happens at one of
   the stages of the model's full_for (the model's stage order differs from Go's, only
   accepted / refused is meaningful) *)
Theorem C18_reconciler_skips_equal : forall (C : Type) pv (ceq : C -> C -> bool) st c h,
  rs_cur st = Some c -> ceq c c = true -> reconcile pv ceq st (Some c) h = st.
Proof. exact @reconcile_skips_equal. Qed.

Theorem C18_unrelated_events_never_reload : forall (C : Type) pv (ceq : C -> C -> bool) st c hs,
  rs_cur st = Some c -> ceq c c = true ->
  fold_left (fun s h => reconcile pv ceq s (Some c) h) hs st = st.
Proof. exact @reconcile_unrelated_events. Qed.

Theorem C18_refused_listing_keeps_state :
  forall srt iter iter' m a b pv (ceq : fconfig -> fconfig -> bool) st h,
  hsort srt -> map_order iter -> map_order iter' -> fnodup a -> fperm a b ->
  full_to_config srt iter m a = None -> reconcile pv ceq st (full_to_config srt iter' m b) h = st.
Proof. exact refused_listing_keeps_state. Qed.

Theorem C18_refusal_stages : forall iter m fr, stage_result iter m fr (full_for iter m fr).
Proof. exact full_for_stages. Qed.

(* ---------------------------------------------------------------- the reconcilers as a state machine *)
(* Model/Reconciler.v: one step = one Reconcile call of ConfigReconciler ([pool] = false) or
   PoolReconciler ([pool] = true) after the listing: inputs = what the current cluster state
   renders to (None = toConfig fails) and the handler's answer; outputs = handler called with
   what, requeue, ForceReload.  [hrun] folds a whole history from the initial state and tracks the
   configuration last GIVEN to / last ACCEPTED by the handler.  [ceq] is reflect.DeepEqual,
   assumed to decide equality of the configuration values.  All statements are over arbitrary
   event sequences.  Not in the model: which requests are enqueued (update predicates), API List
   failures - exercised on the real code by harness TestVerifReconciler. *)

(* (a) the handler is skipped on a rendered configuration only when it is the configuration the
   handler was last given (ConfigReconciler) / last accepted (PoolReconciler) *)
Theorem C18_reconciler_skips_only_unchanged :
  forall (C : Type) (ceq : C -> C -> bool), (forall x y, ceq x y = true <-> x = y) ->
  forall pool evs c h, let s := hrun ceq pool evs hinit in
  o_called (snd (hstep ceq pool s (Some c, h))) = None ->
  if pool then h_accepted s = Some c else h_given s = Some c.
Proof. exact @skipped_only_when_unchanged_run. Qed.

(* (b) history independence, ConfigReconciler: after any history, a step whose snapshot renders to
   c and that ends without requeue leaves c as the configuration last given to the handler -
   what a fresh reconciler gives (C18_reconciler_fresh_gives_rendered) *)
Theorem C18_reconciler_config_history_independent :
  forall (C : Type) (ceq : C -> C -> bool), (forall x y, ceq x y = true <-> x = y) ->
  forall evs c h, o_requeue (snd (hstep ceq false (hrun ceq false evs hinit) (Some c, h))) = false ->
  h_given (hrun ceq false (evs ++ [(Some c, h)]) hinit) = Some c.
Proof. exact @config_history_independent. Qed.

(* (b) PoolReconciler: the configuration last ACCEPTED, when the handler did not answer
   ErrorNoRetry in that step *)
Theorem C18_reconciler_pool_history_independent :
  forall (C : Type) (ceq : C -> C -> bool), (forall x y, ceq x y = true <-> x = y) ->
  forall evs c h, h <> HErrorNoRetry ->
  o_requeue (snd (hstep ceq true (hrun ceq true evs hinit) (Some c, h))) = false ->
  h_accepted (hrun ceq true (evs ++ [(Some c, h)]) hinit) = Some c.
Proof. exact @pool_history_independent. Qed.

(* ... and the restriction is real: PoolReconciler assigns currentConfig only after Success /
   ReprocessAll, so after [a; b answered ErrorNoRetry; a] no step requeued, the last snapshot
   renders to a, and the handler was last given b.  (Harmless with the controller's SetPools,
   which answers ErrorNoRetry only for a nil pool set and before touching the allocator.) *)
Theorem C18_reconciler_pool_given_after_noretry_refuted :
  forall (C : Type) (ceq : C -> C -> bool), (forall x y, ceq x y = true <-> x = y) ->
  forall a b : C, a <> b ->
  exists evs, h_given (hrun ceq true evs hinit) = Some b /\
              (forall o, In o (outs ceq true evs hinit) -> o_requeue o = false) /\
              fst (last evs (None, HSuccess)) = Some a.
Proof. exact @pool_given_not_rendered_after_noretry_refuted. Qed.

(* (c) requeue iff the handler was called and answered Error; (d) ForceReload iff it was called
   and answered ReprocessAll (a render failure does neither) *)
Theorem C18_reconciler_requeue_iff_error :
  forall (C : Type) (ceq : C -> C -> bool) pool s r h,
  o_requeue (snd (hstep ceq pool s (r, h))) = true <->
  (o_called (snd (hstep ceq pool s (r, h))) <> None /\ h = HError).
Proof. exact @requeue_iff_error. Qed.

Theorem C18_reconciler_reload_iff_reprocessall :
  forall (C : Type) (ceq : C -> C -> bool) pool s r h,
  o_reload (snd (hstep ceq pool s (r, h))) = true <->
  (o_called (snd (hstep ceq pool s (r, h))) <> None /\ h = HReprocessAll).
Proof. exact @reload_iff_reprocess. Qed.

(* the handler is only ever given what the current state renders to; a fresh reconciler gives it *)
Theorem C18_reconciler_called_with_rendered :
  forall (C : Type) (ceq : C -> C -> bool) pool s r h c,
  o_called (snd (hstep ceq pool s (r, h))) = Some c -> r = Some c.
Proof. exact @called_with_rendered. Qed.

Theorem C18_reconciler_fresh_gives_rendered :
  forall (C : Type) (ceq : C -> C -> bool) pool c h, o_called (snd (hstep ceq pool hinit (Some c, h))) = Some c.
Proof. exact @fresh_gives_rendered. Qed.

(* ---------------------------------------------------------------- non-vacuity *)
Example C18_nonvacuous :
  ksort (fun x => x) [2; 3; 1] = [1; 2; 3] /\ ksort (fun x => x) [1; 2; 3] = [1; 2; 3] /\
  by_namespace [mini_pool 3 [7]; mini_pool 1 [7; 8]; mini_pool 2 [7]] =
  by_namespace [mini_pool 2 [7]; mini_pool 3 [7]; mini_pool 1 [7; 8]] /\
  by_namespace [mini_pool 3 [7]; mini_pool 1 [7; 8]; mini_pool 2 [7]] = [(7, [1; 2; 3]); (8, [1])].
Proof. vm_compute. repeat split. Qed.

(* the whole pipeline: three pools pinned to namespace 7 listed in two orders, Go's insertion
   sort, map iterated forwards / backwards: accepted, same pools, same pinning index *)
Definition nv_pool (n : N) (a : addr) (ns : list N) : pool_cr :=
  {| pl_name := n; pl_labels := []; pl_addrs := [a]; pl_avoid := false; pl_auto := true;
     pl_alloc := Some {| al_prio := 0; al_nss := ns; al_nssels := []; al_svcsels := [] |} |}.
Definition nv_a : fresources :=
  {| f_pools := [nv_pool 3 (ACidr (Build_prefix F4 256 24)) [7]; nv_pool 1 (ACidr (Build_prefix F4 512 24)) [7; 8];
                 nv_pool 2 (ARange (V4 3) (V4 17)) [7]];
     f_l2 := []; f_bgp := []; f_nodes := []; f_nss := []; f_peers := []; f_bfds := []; f_comms := [];
     f_secrets := []; f_extras := 0 |}.
Definition nv_b : fresources :=
  {| f_pools := rev (f_pools nv_a);
     f_l2 := []; f_bgp := []; f_nodes := []; f_nss := []; f_peers := []; f_bfds := []; f_comms := [];
     f_secrets := []; f_extras := 0 |}.
Example C18_nonvacuous_full :
  full_to_config go_sorter (fun l => l) VNone nv_a = full_to_config go_sorter (@rev pool) VNone nv_b /\
  option_map (fun c => (map p_name (po_pools (fc_pools c)), po_byns (fc_pools c)))
             (full_to_config go_sorter (fun l => l) VNone nv_a) = Some ([1; 2; 3], [(7, [1; 2; 3]); (8, [1])]).
Proof. vm_compute. split; reflexivity. Qed.
