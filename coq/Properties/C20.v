(* C20 — Event handlers are atomic.  Statements only; proofs in Proofs/LockP.v.

   PARTIAL — what is and what is not a theorem about metallb here.

   * The program [P] (function name -> flat sequence of lock operations, guarded accesses, calls,
     channel operations), the guard map [G], the owner map and the entry points are regenerated
     from the Go AST by tools/lockfacts on every run; obligations about them are stated in
     .work/C20/RepoLock.v (template tools/lockfacts/RepoLock.v) and closed by vm_compute.
   * APPLIED TO THE GENERATED FACTS through a soundness theorem: only the lock-set checker —
     C20_lockset_sound / C20_lockset_sound_from (no reachable state of [steps] with two goroutines
     at conflicting accesses), C20_mutual_exclusion, and C20_well_locked_local_progress (no
     goroutine waits for a mutex it holds itself; any other pending step is enabled) —
     instantiated by repo_well_locked / repo_race_free.  Scope: fields that have an INNER mutex
     (declared + inferred guard map).  Nothing is guarded by Listener.Mutex in the generated
     facts: the wrappers are [Acq; CallCb c; Rel] with an opaque callback, so the handler bodies
     do not appear under the Listener lock; state protected only by it is covered by the
     registration check, the -race harnesses and the serial-replay oracle, not by a theorem.
     [steps] is sequentially consistent, one name per struct FIELD (not per object), flat bodies
     (side conditions unstructured = [] /\ may_leak = [] come from the untrusted translator), and
     it has no global progress theorem: Send / Recv never block in it.
   * MODELS OF A PATTERN, separate small transition systems that share nothing with [program] /
     [steps]; they explain why a checker looks for a shape and are NOT statements about the
     translated program: C20_handlers_serial / _exclusive (one mutex, abstract transformers),
     C20_rw_sections_atomic (one RWMutex), C20_send_under_lock_deadlocks / _after_unlock_progress,
     C20_recursive_rlock_deadlocks / C20_sequential_rlock_progress (two-party systems),
     C20_notify_after_state / _before_state_stale (traces of one handler),
     C20_deferred_unlock_survives_panics / C20_plain_unlock_blocks_after_panic (deliveries through one
     wrapper whose handler returns or panics).
   * CHECKERS EVALUATED ON THE GENERATED FACTS, NOT JUSTIFIED AGAINST [steps] (no soundness
     lemma): wrappers_ok, wrappers_unlock_deferred (syntactic: every unlock of a Listener method is a
     `defer`), no_escape, confined + fetcher_closures_confined (function literals used as status
     fetcher touch no field / method of the program's controller struct; helper functions of other
     types are not followed), lock_order_ok, no_blocking_send_under_lock,
     notify_after_state (flat order + depth of the last write / notification; early returns and
     paths are not separated), and no_recursive_lock (a second, coarser evaluation over all
     functions with owner tokens ignored of what the lock-set checker already refuses per entry
     point — for the latter C20_well_locked_local_progress is the theorem).  "Equal to a serial
     order" and "no deadlocks" of the property are therefore not theorems about the translated
     program; the evidence for them is the runtime part (serial replay, watchdog schedules,
     timeouts, eager status consumers). *)
From Coq Require Import List String Bool Arith.
From Verif Require Import Model.Lock Proofs.LockP.
Import ListNotations.
Local Open Scope string_scope.

(* lock-set soundness: if every function body (calls inlined) passes the
   checker, then no state reachable in the interleaving semantics — any
   number of goroutines, each starting any function any number of times,
   sync.RWMutex semantics — has two goroutines about to access the same
   guarded field with one of them writing *)
Theorem C20_lockset_sound : forall G P bodies c0 c,
  well_locked G P = true -> inline_all fuel0 P = Some bodies ->
  idle c0 -> steps bodies c0 c -> ~ racy G c.
Proof. exact lockset_sound. Qed.

(* the invariant behind it: a mutex held exclusively is held by nobody else in any mode *)
Theorem C20_mutual_exclusion : forall G P bodies c0 c,
  well_locked G P = true -> inline_all fuel0 P = Some bodies -> idle c0 -> steps bodies c0 c ->
  forall i j m, i <> j -> In m (hx (c i)) -> ~ In m (hx (c j)) /\ ~ In m (hr (c j)).
Proof. exact mutual_exclusion. Qed.

(* no self-deadlock and local progress in [steps] for a program that passes the checker (applied to
   the generated facts through repo_well_locked): a goroutine about to Lock / RLock a mutex does
   not hold it in any mode — so it can only be waiting for ANOTHER goroutine, and proceeds as soon
   as nobody else holds the mutex (for RLock: holds it exclusively) —, and every other pending
   instruction (Unlock of a held mutex, accesses, callbacks, channel operations) is enabled *)
Theorem C20_well_locked_local_progress : forall G O bodies c0 c i,
  forallb (check G O [] []) bodies = true -> idle c0 -> steps bodies c0 c ->
  match code (c i) with
  | [] => True
  | Acq m :: _ => (~ In m (hx (c i)) /\ ~ In m (hr (c i))) /\
                  ((forall j, j <> i -> ~ In m (hx (c j)) /\ ~ In m (hr (c j))) -> exists c', step bodies c c')
  | AcqR m :: _ => (~ In m (hx (c i)) /\ ~ In m (hr (c i))) /\
                   ((forall j, j <> i -> ~ In m (hx (c j))) -> exists c', step bodies c c')
  | CondB :: _ | CondE :: _ => True
  | _ => exists c', step bodies c c'
  end.
Proof. exact well_locked_local_progress. Qed.

(* PATTERN MODEL (not about the translated program). handlers bracketed by ONE mutex: any interleaved run, observed when no handler
   is inside, equals running the started handlers one at a time in the order in
   which they acquired the mutex; bodies are arbitrary state transformers *)
Theorem C20_handlers_serial : forall (S : Type) (bodies : nat -> list (S -> S)) (s0 : S) c,
  hsteps S bodies (hinit S s0) c ->
  (forall i r, hs S c i <> TIn S r) ->
  sigma S c = serial S bodies (order S c) s0 /\ NoDup (order S c) /\
  (forall i, In i (order S c) <-> hs S c i = TDone S).
Proof. exact handlers_serial. Qed.

Theorem C20_handlers_exclusive : forall (S : Type) (bodies : nat -> list (S -> S)) (s0 : S) c,
  hsteps S bodies (hinit S s0) c ->
  forall i j r r', hs S c i = TIn S r -> hs S c j = TIn S r' -> i = j.
Proof. exact handlers_exclusive. Qed.

(* PATTERN MODEL (not about the translated program). readers and writers under ONE RWMutex (the announcer's methods against the responders, the
   spam loop and the status fetcher; allocator / BGP counters against their fetchers): every
   answer a reader obtains is its query on the state left by a PREFIX of the COMPLETE writer
   sections — never a half-updated state; outside writer sections the state is the serial
   run in lock-acquisition order; a writer inside excludes all other writers and readers *)
Theorem C20_rw_sections_atomic : forall (S A : Type) (wb : nat -> list (S -> S)) (rq : nat -> S -> A) (s0 : S) h c,
  rwinit S A s0 h -> rwsteps S A wb rq (mk_rwconfig S A s0 h []) c ->
  (forall i a, rths S A c i = RGot S A a \/ rths S A c i = RDone S A a ->
     exists k, a = rq i (serial S wb (skipn k (rorder S A c)) s0)) /\
  ((forall i, ~ writer_in S A (rths S A c i)) -> rsigma S A c = serial S wb (rorder S A c) s0) /\
  (forall i j, writer_in S A (rths S A c i) ->
     (writer_in S A (rths S A c j) -> i = j) /\ ~ reader_in S A (rths S A c j)).
Proof. exact rw_sections_atomic. Qed.

(* PATTERN MODEL (not about the translated program). no deadlock between a handler that queues work for a consumer loop and that loop
   (Announce.SetBalancer -> spamCh -> spamLoop -> gratuitous -> RLock), bounded queue of any
   capacity >= 1:  if the blocking send happens while the handler still holds the mutex the
   consumer needs, a state is reachable in which nothing can move (queue full, handler waits for
   room holding the mutex, consumer waits for the mutex); with the send after the unlock every
   reachable state can move.  The obligation repo_no_blocking_send_under_lock decides, on the
   facts regenerated from the Go AST (defers run LIFO), which of the two shapes the code has. *)
Theorem C20_send_under_lock_deadlocks : forall cap, 1 <= cap ->
  exists s, qsteps true cap (mk_qstate HP0 C0 0) s /\ qstuck true cap s /\
            qh s = HP1 /\ qc s = C1 /\ qq s = cap.
Proof. exact send_under_lock_deadlocks. Qed.

Theorem C20_send_after_unlock_progress : forall cap s, 1 <= cap ->
  qsteps false cap (mk_qstate HP0 C0 0) s -> exists s', qstep false cap s s'.
Proof. exact send_after_unlock_progress. Qed.

(* the same soundness with goroutines starting only in the ENTRY POINTS of the program (exported
   functions, functions started with `go` or used as values, functions nobody calls); helpers are
   checked inlined at their call sites — the form the generated obligation repo_race_free uses.
   [O] is the owner refinement of the lock-set rule, still sound for data-race freedom: a field
   whose every write is performed by ONE goroutine (which holds the virtual mutex "owner:<entry>"
   from its start to its end, and holds the guard when writing) may be READ by that goroutine
   without the guard; everybody else needs the guard.  With O = [] it is the plain rule. *)
Theorem C20_lockset_sound_from : forall G O P entries bodies c0 c,
  well_locked_from G O P entries = true -> inline_entries fuel0 P entries = Some bodies ->
  idle c0 -> steps bodies c0 c -> ~ racy G c.
Proof. exact lockset_sound_from. Qed.

(* PATTERN MODEL (not about the translated program). sync.RWMutex refuses new readers once a writer waits: a reader that re-acquires the read lock
   it already holds (gratuitous -> shouldAnnounce) and a writer asking for the lock in between
   are stuck forever; without nesting every state is final or can move.  The obligation
   repo_no_recursive_lock decides over all call paths (calls inlined) that no mutex is
   acquired while it is already held. *)
Theorem C20_recursive_rlock_deadlocks :
  exists s, rrsteps true (mk_rrstate RP0 WP0) s /\ rrstuck true s /\ ~ rrfinished s /\
            rr_r s = RP1 /\ rr_w s = WPpending.
Proof. exact recursive_rlock_deadlocks. Qed.

Theorem C20_sequential_rlock_progress : forall s, rrfinished s \/ exists s', rrstep false s s'.
Proof. exact sequential_rlock_progress. Qed.

Example C20_nonvacuous_recursion_and_order :
  let should := ("A.should", [AcqR "A.mu"; Rd "A.f"; RelR "A.mu"]) in
  no_recursive_lock [("A.grat", [AcqR "A.mu"; Rd "A.g"; RelR "A.mu"]); should] = true /\
  no_recursive_lock [("A.grat", [AcqR "A.mu"; Call "A.should"; RelR "A.mu"]); should] = false /\
  reacquirers [("A.grat", [AcqR "A.mu"; Call "A.should"; RelR "A.mu"]); should] = ["A.grat"] /\
  lock_order_ok [("f", [Acq "m1"; Acq "m2"; Rel "m2"; Rel "m1"]); ("g", [Acq "m2"; Rel "m2"])] = true /\
  lock_order_ok [("f", [Acq "m1"; Acq "m2"; Rel "m2"; Rel "m1"]); ("g", [Acq "m2"; Acq "m1"; Rel "m1"; Rel "m2"])] = false /\
  lock_order_ok [("f", [Acq "m1"; CallCb "cb"; Rel "m1"])] = false /\
  well_locked_from [("A.f", "A.mu")] [] [("A.Set", [Acq "A.mu"; Call "A.helper"; Rel "A.mu"]); ("A.helper", [WrE "A.f"])] ["A.Set"] = true /\
  well_locked_from [("A.f", "A.mu")] [] [("A.Set", [Acq "A.mu"; Call "A.helper"; Rel "A.mu"]); ("A.helper", [WrE "A.f"])] ["A.Set"; "A.helper"] = false.
Proof. vm_compute. repeat split. Qed.

(* the owner rule: the goroutine run (started once) writes f under the lock and reads it without;
   another goroutine reading without the lock, or a second writer, is refused *)
Example C20_nonvacuous_owner :
  let G := [("S.f", "S.mu")] in
  let O := [("S.f", "owner:S.run")] in
  let run := ("S.run", [Acq "owner:S.run"; Acq "S.mu"; WrW "S.f"; Rel "S.mu"; Rd "S.f"; Rel "owner:S.run"]) in
  well_locked_from G O [run; ("S.Get", [Acq "S.mu"; Rd "S.f"; Rel "S.mu"])] ["S.run"; "S.Get"] = true /\
  well_locked_from G [] [run; ("S.Get", [Acq "S.mu"; Rd "S.f"; Rel "S.mu"])] ["S.run"; "S.Get"] = false /\
  well_locked_from G O [run; ("S.Get", [Rd "S.f"])] ["S.run"; "S.Get"] = false /\
  well_locked_from G O [run; ("S.Set", [Acq "S.mu"; WrW "S.f"; Rel "S.mu"])] ["S.run"; "S.Set"] = false /\
  no_recursive_lock [run] = true /\ lock_order_ok [run] = true.
Proof. vm_compute. repeat split. Qed.

(* PATTERN MODEL (not about the translated program). handler effects are atomic with respect to the independent status reconcilers: a handler is a trace
   of state writes and notifications, the reconciler is an EAGER consumer that reads the state at
   every notification (it may be scheduled between the notification and the rest of the handler, its
   fetcher needs only the component's lock).  If published = state before the handler and every
   write of the handler is followed by a later notification, then published = final state after it;
   a notification sent before the write it announces leaves a stale value.  The obligation
   repo_notify_after_state decides the order (and, for unconditional last writes, that the last
   notification is unconditional too) on the facts regenerated from the Go AST. *)
Theorem C20_notify_after_state : forall (S : Type) (t : list (nev S)) (sp : S * S),
  fst sp = snd sp -> ends_notified S t = true -> fst (nrun S t sp) = snd (nrun S t sp).
Proof. exact notified_quiescent. Qed.

Theorem C20_notify_before_state_stale :
  let t := [NNotify nat; NWrite nat (fun n => n + 1)%nat] in
  ends_notified nat t = false /\ nrun nat t (0, 0)%nat = (1, 0)%nat.
Proof. exact notify_before_state_stale. Qed.

(* the shapes of the seeded changes C20-5 (notification first) and C20-6 (the final notification made
   conditional) against the code's shapes *)
Example C20_nonvacuous_notify :
  let ns := [("cb", ["A.f"], true, "A.")] in
  let helper := ("A.upd", [Acq "A.mu"; WrE "A.f"; Rel "A.mu"]) in
  notify_after_state [("A.Set", [Call "A.upd"; CallCb "cb"]); helper] ["A.Set"] ns = true /\
  notify_after_state [("A.Set", [CallCb "cb"; Call "A.upd"]); helper] ["A.Set"] ns = false /\
  notify_after_state [("A.Set", [Call "A.upd"; CondB; CallCb "cb"; CondE]); helper] ["A.Set"] ns = false /\
  notify_after_state [("A.Set", [CondB; Call "A.upd"; CondE; CondB; CallCb "cb"; CondE]); helper] ["A.Set"] ns = true /\
  notify_after_state [("A.Set", [Call "A.upd"]); helper] ["A.Set"] ns = false /\
  notify_violations [("A.Set", [CallCb "cb"; Call "A.upd"]); helper] ["A.Set"] ns = [("A.Set", "cb")].
Proof. vm_compute. repeat split. Qed.

(* non-vacuity of the obligation: the two defer orders of SetBalancer *)
Example C20_nonvacuous_send :
  let loop := ("A.spamLoop", [Recv "A.ch"; Call "A.gratuitous"]) in
  let grat := ("A.gratuitous", [AcqR "A.mu"; RelR "A.mu"]) in
  no_blocking_send_under_lock [("A.set", [Acq "A.mu"; Rel "A.mu"; Send "A.ch"]); loop; grat] = true /\
  no_blocking_send_under_lock [("A.set", [Acq "A.mu"; Send "A.ch"; Rel "A.mu"]); loop; grat] = false /\
  blocking_senders [("A.set", [Acq "A.mu"; Call "A.doSpam"; Rel "A.mu"]); ("A.doSpam", [Send "A.ch"]); loop; grat] = ["A.set"].
Proof. vm_compute. repeat split. Qed.

(* non-vacuity: a correctly locked reader/writer pair passes, dropping the read
   lock fails the checker, and the unlocked program really reaches a racy state *)
Definition ex_G : guard_map := [("T.f", "T.mu")].
Definition ex_good : program :=
  [("T.get", [AcqR "T.mu"; Rd "T.f"; RelR "T.mu"]);
   ("T.put", [Call "T.set"]);
   ("T.set", [Acq "T.mu"; Rd "T.f"; WrE "T.f"; Rel "T.mu"])].
Definition ex_bad : program :=
  [("T.get", [Rd "T.f"]); ("T.set", [Acq "T.mu"; WrE "T.f"; Rel "T.mu"])].

Example C20_nonvacuous_checker :
  well_locked ex_G ex_good = true /\ well_locked ex_G ex_bad = false /\
  diagnose ex_G ex_bad = [("T.get", "reads T.f without holding T.mu")] /\
  no_escape ex_good [("T.get", "T.f")] = false /\
  wrappers_ok [("Listener.H", [Acq "Listener.Mutex"; CallCb "Changed"; Rel "Listener.Mutex"])]
              [("R", "H")] [("prog", "Changed")] ["Changed"] = true /\
  wrappers_ok [("Listener.H", [Acq "Listener.Mutex"; CallCb "Changed"; Rel "Listener.Mutex"])]
              [("R", "Changed")] [("prog", "Changed")] ["Changed"] = false.
Proof. vm_compute. repeat split. Qed.

Example C20_nonvacuous_race :
  exists c, steps [[Rd "T.f"]; [Acq "T.mu"; WrE "T.f"; Rel "T.mu"]] (fun _ => mk_thread [] [] []) c /\ racy ex_G c.
Proof.
  set (b := [[Rd "T.f"]; [Acq "T.mu"; WrE "T.f"; Rel "T.mu"]]).
  set (c0 := fun _ : nat => mk_thread [] [] []).
  set (c1 := upd c0 0 (mk_thread [] [] [Rd "T.f"])).
  set (c2 := upd c1 1 (mk_thread [] [] [Acq "T.mu"; WrE "T.f"; Rel "T.mu"])).
  set (c3 := upd c2 1 (mk_thread ["T.mu"] [] [WrE "T.f"; Rel "T.mu"])).
  exists c3. split.
  - apply steps_trans with c2; [apply steps_trans with c1; [apply steps_trans with c0; [apply steps_refl|]|]|].
    + apply (SSpawn b c0 0); cbn; auto.
    + apply (SSpawn b c1 1); cbn; auto.
    + apply (SAcq b c2 1 "T.mu" [WrE "T.f"; Rel "T.mu"]); [reflexivity|].
      intros j. destruct j as [|[|j]]; cbn; auto.
  - exists 1, 0, "T.f", (WrE "T.f"), [Rel "T.mu"], (Rd "T.f"), []. cbn. repeat split; try discriminate; auto.
Qed.

(* The Listener wrappers must give the mutex back by a DEFERRED unlock (obligation
   repo_wrappers_unlock_deferred on the facts regenerated from internal/k8s/listener.go).  Pattern
   model, on its own small system ([served]: how many deliveries of a sequence get the mutex, each
   handler returning or panicking; controller-runtime recovers the panic of a reconcile): with a
   deferred unlock every delivery is served whatever panics; with an unlock written after the call
   nothing is served after the first panic.  Not tied to the interleaving semantics of [step]. *)
Theorem C20_deferred_unlock_survives_panics : forall os, served true false os = List.length os.
Proof. exact deferred_unlock_serves_all. Qed.

Theorem C20_plain_unlock_blocks_after_panic : forall pre post,
  ~ In Panics pre -> served false false (pre ++ Panics :: post) = S (List.length pre).
Proof. exact plain_unlock_blocks_after_panic. Qed.
