(* C04 — Layer-2: exactly one eligible node announces each address.
   Statements only; proofs in Proofs/ElectP.v.  [decide h v n] is the
   transcription of layer2Controller.ShouldAnnounce on node n, [eligible] the
   statement's list, written independently. *)
From Coq Require Import List NArith.
From Verif Require Import Model.Elect Proofs.ElectP.
Local Open Scope N_scope.

Theorem C04_exactly_one : forall h v,
  (exists n, eligible v n) ->
  exists w, decide h v w = true /\ forall n, decide h v n = true -> n = w.
Proof. exact exactly_one. Qed.

Theorem C04_none_otherwise : forall h v,
  (forall n, ~ eligible v n) -> forall n, decide h v n = false.
Proof. exact none_when_no_eligible. Qed.

Theorem C04_winner_eligible : forall h v me, decide h v me = true -> eligible v me.
Proof. exact winner_eligible. Qed.

(* the announcer is the eligible node with the least hash (H-sha: no collision) *)
Theorem C04_decide_spec : forall h v me,
  inj_on h (available v) ->
  (decide h v me = true <-> eligible v me /\ forall m, eligible v m -> h me <= h m).
Proof. exact decide_spec. Qed.

(* services with the same eligible set and the same hash input (same first
   address) elect the same node: the part of "all Services sharing an address
   elect the same node" that holds *)
Theorem C04_same_first_address_same_winner : forall h v1 v2 n1 n2,
  inj_on h (available v1) ->
  (forall n, eligible v1 n <-> eligible v2 n) ->
  decide h v1 n1 = true -> decide h v2 n2 = true -> n1 = n2.
Proof. exact same_candidates_same_winner. Qed.

(* F8: the full clause is false when the shared address is not the first
   address of one of the services: the hash input differs.  Two services on
   the same eligible set {1,2}; one hashes with its first (IPv4) address, the
   other with the shared IPv6 address. *)
Theorem C04_shared_address_same_winner_refuted :
  exists (h4 h6 : N -> N) (v : view) (n1 n2 : N),
    inj_on h4 (available v) /\ inj_on h6 (available v) /\
    decide h4 v n1 = true /\ decide h6 v n2 = true /\ n1 <> n2.
Proof. exact shared_address_refuted. Qed.
