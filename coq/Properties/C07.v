(* C07 - no starvation.
   Allocator half (this section): what a reported allocation failure means.  In the
   model the allocator's result is an input validated by [allocate_spec]; a failure
   is admitted only if every candidate pool is classified [Nothing], and
   C07_allocate_fails_iff_nothing_admissible / C07_frompool_fails_iff_nothing_admissible
   show that this is exactly "no admissible list of addresses exists" in the
   declarative sense.  That the IMPLEMENTATION's failures are of this kind is
   established per run (its results must be admitted by the specification) and,
   for the algorithm, by the transcription theorem C02_reference_allocator_refines_spec.
   Controller half (further down): the re-sync discipline, and the statement itself
   over whole histories (C07_quiescent_no_starvation).  "In the same settling
   period" is covered as "whenever the reconciler has settled": that quiescence is
   reached is NOT proved (no progress theorem for the retry loop of a full pass);
   C01_oracle_exists_for_wellformed_pools shows every enabled step can be taken. *)
From Coq Require Import List NArith.
From Verif Require Import Model.Alloc Proofs.AllocP Proofs.AllocPolicyP Proofs.AllocCompleteP.

(* Allocate may report failure only if no candidate pool (pinned to the service,
   or unpinned with auto-assignment) has any admissible offer: for every pool and
   every address list, some address is outside the pool / avoided / neither free
   nor shareable, or the families do not fit the request *)
Theorem C07_allocate_fails_only_if_nothing_admissible : forall a s r,
  allocate_spec a s r None = true ->
  forall p ips, In p (pinned_pools (s_pools a) r ++ unpinned_pools (s_pools a)) -> offer_ok a s r p ips = false.
Proof. exact allocate_complete. Qed.

(* ... and that is exactly "no admissible assignment exists": a list of addresses of a
   candidate pool that lie in the pool, are not avoided, are free or shareable for the
   requester and have the families the request wants cannot exist when Allocate fails *)
Theorem C07_allocate_fails_iff_nothing_admissible : forall a s r,
  allocate_spec a s r None = true ->
  forall p ips, In p (pinned_pools (s_pools a) r ++ unpinned_pools (s_pools a)) -> ~ admissible_offer a s r p ips.
Proof. exact allocate_fails_iff_nothing_admissible. Qed.

Theorem C07_frompool_fails_iff_nothing_admissible : forall a s r pn,
  from_pool_spec a s r pn None = true ->
  forall p, find_pool (s_pools a) pn = Some p -> compatible p r = true ->
  forall ips, ~ admissible_offer a s r p ips.
Proof. exact frompool_fails_iff_nothing_admissible. Qed.

(* the scan of a pool is complete: "no free address of family f" means every
   address of the pool of that family is refused for this requester *)
Theorem C07_scan_complete : forall a s r p f,
  first_free a s r p f = None ->
  forall x, ip_fam x = f -> in_pool p x = true -> addr_free a s r p x = false.
Proof. exact first_free_none. Qed.

(* and "refused" is exactly the statement's notion: held by another service that
   may not share it with the requester (C01_check_sharing_iff) *)
Theorem C07_admissible_offer_sound : forall a s r p ips,
  offer_ok a s r p ips = true ->
  (forall x, In x ips -> in_pool p x = true /\ check_sharing a s x (r_ports r) (r_key r) = true) /\
  families_ok r ips.
Proof. exact offer_ok_sound. Qed.

(* an address given up is admissible again at once *)
Theorem C07_released_is_free : forall a s x t ports k,
  Inv a ->
  (forall e, In e (allocated a) -> fst e <> s -> ~ In x (a_ips (snd e))) ->
  check_sharing (unassign a s) t x ports k = true.
Proof. exact released_free. Qed.

(* ---- controller half: a released address triggers a full re-sync ---- *)
From Verif Require Import Model.Ctrl Proofs.CtrlP Proofs.CtrlWorldP Proofs.CtrlThmP.

Theorem C07_release_triggers_reload : forall rank c s o k oc,
  set_balancer rank c s (Some o) k = Some oc -> c_have_pools c = true ->
  (releases (c_mem c) (c_mem (oc_state oc)) s (ips_of (c_mem c) s) \/
   releases (c_mem c) (c_mem (oc_state oc)) s (o_status o)) ->
  oc_sync oc = ReprocessAll.
Proof. exact release_triggers_reload. Qed.

Theorem C07_delete_triggers_reload : forall rank c s k oc al,
  set_balancer rank c s None k = Some oc -> get_alloc (c_mem c) s = Some al ->
  oc_sync oc = ReprocessAll /\ get_alloc (c_mem (oc_state oc)) s = None.
Proof. exact delete_triggers_reload. Qed.

Theorem C07_reprocess_sets_reload : forall rank w s k w',
  wstep_t rank w (ESvc s k) = Some (w', [ReprocessAll]) -> w_reload w' = true.
Proof. exact reprocess_sets_reload. Qed.

(* ==== the statement over whole histories ==== *)
From Verif Require Import Proofs.AllocMonoP Proofs.CtrlStarveP.

(* C07: in every history of the reconciler (creations, edits, deletions, pool
   changes, single-service reconciles, full re-syncs in any admitted order,
   failing status writes, restarts) in which no Service's ports are edited,
   whenever there is no pending work a LoadBalancer Service with valid cluster IPs
   that has no address has no admissible assignment in the controller's memory
   (which, by C06_quiescent_memory_eq_status, is what the statuses record) *)
Theorem C07_quiescent_no_starvation : forall rank ports_of evs w s o,
  Forall (ports_ev ports_of) evs -> wrun rank evs world0 = Some w -> quiescent w ->
  aget (w_api w) s = Some o -> eligible o -> o_status o = [] ->
  no_offer (c_mem (w_ctl w)) s o.
Proof. exact quiescent_no_starvation. Qed.

(* what "no admissible assignment" says when nothing specific is requested: every
   pinned or unpinned auto-assign pool refuses every candidate list of addresses *)
Theorem C07_no_offer_every_pool_dry : forall a s o,
  o_want o = WNone -> o_want_pool o = None -> no_offer a s o ->
  forall p ips, In p (pinned_pools (s_pools a) (o_req o) ++ unpinned_pools (s_pools a)) ->
    offer_ok a s (o_req o) p ips = false.
Proof.
  intros a s o H1 H2 H. unfold no_offer in H. rewrite H1, H2 in H. apply allocate_complete. exact H.
Qed.

(* the three ingredients *)
Theorem C07_handler_unserved_only_if_nothing_admissible : forall rank s a o k v ok,
  minv a -> eligible o -> by_name (s_pools a) <> [] ->
  converge rank a s o k = CR v ok -> cv_status v = [] -> no_offer (cv_mem v) s o.
Proof. exact converge_unserved. Qed.

Theorem C07_quiet_handler_only_extends : forall rank c s o k oc,
  set_balancer rank c s (Some o) k = Some oc -> c_have_pools c = true -> minv (c_mem c) ->
  oc_sync oc <> ReprocessAll ->
  (forall al, get_alloc (c_mem c) s = Some al -> a_ports al = r_ports (o_req o)) ->
  ext s (c_mem c) (c_mem (oc_state oc)).
Proof. exact set_balancer_ext. Qed.

Theorem C07_availability_antitone : forall t a a' s o,
  Inv a -> Inv a' -> ext t a a' -> no_offer a s o -> no_offer a' s o.
Proof. exact no_offer_anti. Qed.

(* non-vacuity and the limit of the statement (finding F13b) *)
From Coq Require Import Bool.
Import ListNotations.
Local Open Scope N_scope.
Definition xrank (x : ip) : N := ip_val x.
Definition xpool : pool := {| p_name := 1; p_cidrs := [ {| pfam := F4; pbase := 167772161; plen := 32 |} ]; p_avoid := false; p_auto := true; p_pin := None |}.
Definition xpools : pools := {| by_name := [xpool]; by_ns := []; by_sel := [] |}.
Definition xreq (port : N) : req :=
  {| r_ns := 1; r_labels := []; r_fam := S4; r_pol := Single; r_first6 := false;
     r_ports := [ {| proto := 0; pnum := port |} ]; r_key := {| sharing := 5; backend := 0 |} |}.
Definition xobj (port : N) : svcobj :=
  {| o_lb := true; o_req := xreq port; o_cluster_ok := true; o_want := WNone; o_want_pool := None; o_status := []; o_annot := None |}.
Definition xaddr : ip := V4 167772161.
Definition kgot : oracle := {| k_write := true; k_final := Some (1, [xaddr]) |}.
Definition knone : oracle := {| k_write := true; k_final := None |}.
Definition xevs1 : list ev :=
  [EPools xpools; UPut 1 (xobj 80); UPut 2 (xobj 80); EReload [1; 2] [kgot; knone]; EReload [1; 2] [kgot; knone]; ESvc 1 kgot; ESvc 2 knone].
Definition xevs2 : list ev := xevs1 ++ [UPut 1 (xobj 443); ESvc 1 kgot].

(* the hypotheses are met by a real history that ends quiescent with a waiting Service *)
Example C07_quiescent_no_starvation_nonvacuous :
  exists w o, Forall (ports_ev (fun _ => r_ports (xreq 80))) xevs1 /\ wrun xrank xevs1 world0 = Some w /\ quiescent w /\
    aget (w_api w) 2 = Some o /\ eligible o /\ o_status o = [].
Proof.
  destruct (wrun xrank xevs1 world0) as [w|] eqn:E; [|vm_compute in E; discriminate].
  exists w, (xobj 80). vm_compute in E. injection E as <-.
  split; [repeat constructor|]. split; [reflexivity|]. split; [repeat split|]. repeat split.
Qed.

(* without the hypothesis on ports the statement is false of the faithful model:
   the holder's ports are edited so that the waiter could now share the address,
   SetBalancer answers Success (nothing released, same key), nothing is pending,
   and the waiter still has no address although one is admissible *)
Theorem C07_port_edit_starves_refuted :
  exists evs w s o, wrun xrank evs world0 = Some w /\ quiescent w /\
    aget (w_api w) s = Some o /\ eligible o /\ o_status o = [] /\ ~ no_offer (c_mem (w_ctl w)) s o.
Proof.
  destruct (wrun xrank xevs2 world0) as [w|] eqn:E; [|vm_compute in E; discriminate].
  exists xevs2, w, 2, (xobj 80). vm_compute in E. injection E as <-.
  split; [reflexivity|]. split; [repeat split|]. split; [reflexivity|]. split; [repeat split|]. split; [reflexivity|].
  unfold no_offer. cbn [o_want o_want_pool xobj]. vm_compute. discriminate.
Qed.
