(* C07 - no starvation.
   Allocator half (this section): what a reported allocation failure means.  In the
   model the allocator's result is an input validated by [allocate_spec]; a failure
   is admitted only if every candidate pool is classified [Nothing], and
   C07_allocate_fails_iff_nothing_admissible / C07_frompool_fails_iff_nothing_admissible
   show that this is exactly "no admissible list of addresses exists" in the
   declarative sense.  That the IMPLEMENTATION's failures are of this kind is
   established per run (its results must be admitted by the specification) and,
   for the algorithm, by the transcription theorem C02_reference_allocator_refines_spec.
   Controller half (further down): the re-sync discipline, and the statement itself
   over whole histories (C07_quiescent_no_starvation).  "In the same settling
   period" is covered as "whenever the reconciler has settled".  That it does settle
   is the last section: for Services without explicitly requested addresses, once
   outside events stop and status writes succeed every run of reconciler steps is
   bounded (C07_resync_loop_terminates - the ReprocessAll loop cannot livelock), a
   world with no enabled step has no pending work (C07_no_enabled_step_means_no_work),
   and a quiescent world is reached within the bound (C07_quiescence_is_reached).
   Not covered: explicitly requested addresses (F19 / F22 leave results the next
   run rejects), and fairness of the work queue / retry timers, which is the
   runtime's. *)
From Coq Require Import List NArith.
From Verif Require Import Model.Alloc Proofs.AllocP Proofs.AllocPolicyP Proofs.AllocCompleteP.

(* Allocate may report failure only if no candidate pool (pinned to the service,
   or unpinned with auto-assignment) has any admissible offer: for every pool and
   every address list, some address is outside the pool / avoided / neither free
   nor shareable, or the families do not fit the request *)
Theorem C07_allocate_fails_only_if_nothing_admissible : forall a s r,
  allocate_spec a s r None = true ->
  forall p ips, In p (pinned_pools (s_pools a) r ++ unpinned_pools (s_pools a)) -> offer_ok a s r p ips = false.
Proof. exact allocate_complete. Qed.

(* ... and that is exactly "no admissible assignment exists": a list of addresses of a
   candidate pool that lie in the pool, are not avoided, are free or shareable for the
   requester and have the families the request wants cannot exist when Allocate fails *)
Theorem C07_allocate_fails_iff_nothing_admissible : forall a s r,
  allocate_spec a s r None = true ->
  forall p ips, In p (pinned_pools (s_pools a) r ++ unpinned_pools (s_pools a)) -> ~ admissible_offer a s r p ips.
Proof. exact allocate_fails_iff_nothing_admissible. Qed.

Theorem C07_frompool_fails_iff_nothing_admissible : forall a s r pn,
  from_pool_spec a s r pn None = true ->
  forall p, find_pool (s_pools a) pn = Some p -> compatible p r = true ->
  forall ips, ~ admissible_offer a s r p ips.
Proof. exact frompool_fails_iff_nothing_admissible. Qed.

(* the scan of a pool is complete: "no free address of family f" means every
   address of the pool of that family is refused for this requester *)
Theorem C07_scan_complete : forall a s r p f,
  first_free a s r p f = None ->
  forall x, ip_fam x = f -> in_pool p x = true -> addr_free a s r p x = false.
Proof. exact first_free_none. Qed.

(* and "refused" is exactly the statement's notion: held by another service that
   may not share it with the requester (C01_check_sharing_iff) *)
Theorem C07_admissible_offer_sound : forall a s r p ips,
  offer_ok a s r p ips = true ->
  (forall x, In x ips -> in_pool p x = true /\ check_sharing a s x (r_ports r) (r_key r) = true) /\
  families_ok r ips.
Proof. exact offer_ok_sound. Qed.

(* an address given up is admissible again at once *)
Theorem C07_released_is_free : forall a s x t ports k,
  Inv a ->
  (forall e, In e (allocated a) -> fst e <> s -> ~ In x (a_ips (snd e))) ->
  check_sharing (unassign a s) t x ports k = true.
Proof. exact released_free. Qed.

(* ---- controller half: a released address triggers a full re-sync ---- *)
From Verif Require Import Model.Ctrl Proofs.CtrlP Proofs.CtrlWorldP Proofs.CtrlThmP.

Theorem C07_release_triggers_reload : forall rank c s o k oc,
  set_balancer rank c s (Some o) k = Some oc -> c_have_pools c = true ->
  (releases (c_mem c) (c_mem (oc_state oc)) s (ips_of (c_mem c) s) \/
   releases (c_mem c) (c_mem (oc_state oc)) s (o_status o)) ->
  oc_sync oc = ReprocessAll.
Proof. exact release_triggers_reload. Qed.

Theorem C07_delete_triggers_reload : forall rank c s k oc al,
  set_balancer rank c s None k = Some oc -> get_alloc (c_mem c) s = Some al ->
  oc_sync oc = ReprocessAll /\ get_alloc (c_mem (oc_state oc)) s = None.
Proof. exact delete_triggers_reload. Qed.

Theorem C07_reprocess_sets_reload : forall rank w s k w',
  wstep_t rank w (ESvc s k) = Some (w', [ReprocessAll]) -> w_reload w' = true.
Proof. exact reprocess_sets_reload. Qed.

(* ==== the statement over whole histories ==== *)
From Verif Require Import Proofs.AllocMonoP Proofs.CtrlStarveP.

(* C07: in every history of the reconciler (creations, edits, deletions, pool
   changes, single-service reconciles, full re-syncs in any admitted order,
   failing status writes, restarts) in which no Service's ports are edited,
   whenever there is no pending work a LoadBalancer Service with valid cluster IPs
   that has no address has no admissible assignment in the controller's memory
   (which, by C06_quiescent_memory_eq_status, is what the statuses record) *)
Theorem C07_quiescent_no_starvation : forall rank ports_of evs w s o,
  Forall (ports_ev ports_of) evs -> wrun rank evs world0 = Some w -> quiescent w ->
  aget (w_api w) s = Some o -> eligible o -> o_status o = [] ->
  no_offer (c_mem (w_ctl w)) s o.
Proof. exact quiescent_no_starvation. Qed.

(* what "no admissible assignment" says when nothing specific is requested: every
   pinned or unpinned auto-assign pool refuses every candidate list of addresses *)
Theorem C07_no_offer_every_pool_dry : forall a s o,
  o_want o = WNone -> o_want_pool o = None -> no_offer a s o ->
  forall p ips, In p (pinned_pools (s_pools a) (o_req o) ++ unpinned_pools (s_pools a)) ->
    offer_ok a s (o_req o) p ips = false.
Proof.
  intros a s o H1 H2 H. unfold no_offer in H. rewrite H1, H2 in H. apply allocate_complete. exact H.
Qed.

(* the three ingredients *)
Theorem C07_handler_unserved_only_if_nothing_admissible : forall rank s a o k v ok,
  minv a -> eligible o -> by_name (s_pools a) <> [] ->
  converge rank a s o k = CR v ok -> cv_status v = [] -> no_offer (cv_mem v) s o.
Proof. exact converge_unserved. Qed.

Theorem C07_quiet_handler_only_extends : forall rank c s o k oc,
  set_balancer rank c s (Some o) k = Some oc -> c_have_pools c = true -> minv (c_mem c) ->
  oc_sync oc <> ReprocessAll ->
  (forall al, get_alloc (c_mem c) s = Some al -> a_ports al = r_ports (o_req o)) ->
  ext s (c_mem c) (c_mem (oc_state oc)).
Proof. exact set_balancer_ext. Qed.

Theorem C07_availability_antitone : forall t a a' s o,
  Inv a -> Inv a' -> ext t a a' -> no_offer a s o -> no_offer a' s o.
Proof. exact no_offer_anti. Qed.

(* non-vacuity and the limit of the statement (finding F13b) *)
From Coq Require Import Bool.
Import ListNotations.
Local Open Scope N_scope.
Definition xrank (x : ip) : N := ip_val x.
Definition xpool : pool := {| p_name := 1; p_cidrs := [ {| pfam := F4; pbase := 167772161; plen := 32 |} ]; p_avoid := false; p_auto := true; p_pin := None |}.
Definition xpools : pools := {| by_name := [xpool]; by_ns := []; by_sel := [] |}.
Definition xreq (port : N) : req :=
  {| r_ns := 1; r_labels := []; r_fam := S4; r_pol := Single; r_first6 := false;
     r_ports := [ {| proto := 0; pnum := port |} ]; r_key := {| sharing := 5; backend := 0 |} |}.
Definition xobj (port : N) : svcobj :=
  {| o_lb := true; o_req := xreq port; o_cluster_ok := true; o_want := WNone; o_want_pool := None; o_status := []; o_annot := None |}.
Definition xaddr : ip := V4 167772161.
Definition kgot : oracle := {| k_write := true; k_final := Some (1, [xaddr]) |}.
Definition knone : oracle := {| k_write := true; k_final := None |}.
Definition xevs1 : list ev :=
  [EPools xpools; UPut 1 (xobj 80); UPut 2 (xobj 80); EReload [1; 2] [kgot; knone]; EReload [1; 2] [kgot; knone]; ESvc 1 kgot; ESvc 2 knone].
Definition xevs2 : list ev := xevs1 ++ [UPut 1 (xobj 443); ESvc 1 kgot].

(* the hypotheses are met by a real history that ends quiescent with a waiting Service *)
Example C07_quiescent_no_starvation_nonvacuous :
  exists w o, Forall (ports_ev (fun _ => r_ports (xreq 80))) xevs1 /\ wrun xrank xevs1 world0 = Some w /\ quiescent w /\
    aget (w_api w) 2 = Some o /\ eligible o /\ o_status o = [].
Proof.
  destruct (wrun xrank xevs1 world0) as [w|] eqn:E; [|vm_compute in E; discriminate].
  exists w, (xobj 80). vm_compute in E. injection E as <-.
  split; [repeat constructor|]. split; [reflexivity|]. split; [repeat split|]. repeat split.
Qed.

(* without the hypothesis on ports the statement is false of the faithful model:
   the holder's ports are edited so that the waiter could now share the address,
   SetBalancer answers Success (nothing released, same key), nothing is pending,
   and the waiter still has no address although one is admissible *)
Theorem C07_port_edit_starves_refuted :
  exists evs w s o, wrun xrank evs world0 = Some w /\ quiescent w /\
    aget (w_api w) s = Some o /\ eligible o /\ o_status o = [] /\ ~ no_offer (c_mem (w_ctl w)) s o.
Proof.
  destruct (wrun xrank xevs2 world0) as [w|] eqn:E; [|vm_compute in E; discriminate].
  exists xevs2, w, 2, (xobj 80). vm_compute in E. injection E as <-.
  split; [reflexivity|]. split; [repeat split|]. split; [reflexivity|]. split; [repeat split|]. split; [reflexivity|].
  unfold no_offer. cbn [o_want o_want_pool xobj]. vm_compute. discriminate.
Qed.


(* ---------- progress: the controller settles ---------- *)
From Verif Require Import Proofs.CtrlTotalP Proofs.CtrlProgressP.

(* Setting: a configuration with distinct pool names and disjoint pools has been
   delivered, no Service requests explicit addresses ([settled_inputs]); the only
   events are single reconciles and full re-syncs whose status writes succeed
   ([rev_ev]) - no user, configuration or restart event.  Then every such run is at
   most [budget w] = |queue| + 2 * |queue and API Services| + 1 events long, whatever
   the allocator chooses and in whatever order the reconciler works. *)
Theorem C07_resync_loop_terminates : forall rank w evs w',
  settled_inputs w -> Forall rev_ev evs -> wrun rank evs w = Some w' -> (length evs <= budget w)%nat.
Proof. exact reconcile_terminates. Qed.

(* each reconciler step uses up work: the queue shrinks, or the pending re-sync is done,
   or - when a step asks for another re-sync - a Service moved to a better class
   (anything -> holds nothing / holds admissible addresses); a Service holding admissible
   addresses never asks for a re-sync and keeps them *)
Theorem C07_step_uses_work : forall rank U, NoDup U -> forall w e w' n,
  PInv U w -> potential rank U w n -> rev_ev e -> wstep rank w e = Some w' ->
  exists n', PInv U w' /\ potential rank U w' n' /\ (work w' n' < work w n)%nat /\
             (w_reload w = true \/ w_gate w = true -> w_reload w' = true \/ w_gate w' = true).
Proof. exact step_uses_work. Qed.

Theorem C07_settled_service_keeps_quiet : forall rank w s k w1 r o,
  apply_handler rank w s k = Some (w1, r) -> aget (w_api w) s = Some o ->
  c_have_pools (w_ctl w) = true -> mem_inv (w_ctl w) -> pools_wf (w_ctl w) ->
  o_want o = WNone -> k_write k = true ->
  exists o1, aget (w_api w1) s = Some o1 /\ o_want o1 = WNone /\ r <> Error /\
    (pempty w1 s o1 \/ pgood rank w1 s o1) /\
    (pgood rank w s o -> pgood rank w1 s o1 /\ r <> ReprocessAll) /\
    (pempty w s o -> pempty w1 s o1 -> r <> ReprocessAll).
Proof. exact handler_settles. Qed.

(* as long as there is pending work some reconciler step with a successful write is enabled *)
Theorem C07_pending_work_is_enabled : forall rank w, pools_wf (w_ctl w) ->
  (w_queue w <> [] \/ w_reload w = true) -> exists e w', rev_ev e /\ wstep rank w e = Some w'.
Proof. exact reconcile_enabled. Qed.

Theorem C07_no_enabled_step_means_no_work : forall rank w, pools_wf (w_ctl w) ->
  (forall e w', rev_ev e -> wstep rank w e <> Some w') -> w_queue w = [] /\ w_reload w = false.
Proof. exact stuck_means_done. Qed.

(* so a quiescent world - the one C07_quiescent_no_starvation, C01, C02, C06 speak about -
   is reached within the bound (a re-sync must be pending or the first pass done: after a
   restart the pool reconciler's first delivery requests one) *)
Theorem C07_quiescence_is_reached : forall rank w,
  settled_inputs w -> (w_reload w = true \/ w_gate w = true) ->
  exists evs w', Forall rev_ev evs /\ wrun rank evs w = Some w' /\ quiescent w' /\ (length evs <= budget w)%nat.
Proof. exact reconcile_reaches_quiescence. Qed.

(* the premises are met by a reachable world with work pending *)
Example C07_progress_nonvacuous :
  exists w, wrun xrank [EPools xpools; UPut 1 (xobj 80); UPut 2 (xobj 80)] world0 = Some w /\
            settled_inputs w /\ w_reload w = true /\ w_queue w <> [] /\ budget w = 7%nat.
Proof.
  destruct (wrun xrank [EPools xpools; UPut 1 (xobj 80); UPut 2 (xobj 80)] world0) as [w|] eqn:E; [|vm_compute in E; discriminate].
  exists w. vm_compute in E. injection E as <-.
  split; [reflexivity|]. split; [|split; [reflexivity|split; [discriminate|vm_compute; reflexivity]]].
  split; [|split; [reflexivity|split]].
  - split; [split; [constructor|intros e1 e2 x []]|intros e []].
  - split; [repeat constructor; intros []|].
    intros p q x [<-|[]] [<-|[]] _ _. reflexivity.
  - intros s o. unfold aget. cbn [w_api find fst snd option_map].
    destruct (2 =? s); [intros [= <-]; reflexivity|]. destruct (1 =? s); [intros [= <-]; reflexivity|discriminate].
Qed.
Print Assumptions C07_resync_loop_terminates.
Print Assumptions C07_quiescence_is_reached.
