(* C07 — no starvation (allocator half).  Statements only; proofs in
   Proofs/AllocPolicyP.v.  The controller half (a release triggers a re-sync)
   lives in the controller model. *)
From Coq Require Import List NArith.
From Verif Require Import Model.Alloc Proofs.AllocP Proofs.AllocPolicyP.

(* Allocate may report failure only if no candidate pool (pinned to the service,
   or unpinned with auto-assignment) has any admissible offer: for every pool and
   every address list, some address is outside the pool / avoided / neither free
   nor shareable, or the families do not fit the request *)
Theorem C07_allocate_fails_only_if_nothing_admissible : forall a s r,
  allocate_spec a s r None = true ->
  forall p ips, In p (pinned_pools (s_pools a) r ++ unpinned_pools (s_pools a)) -> offer_ok a s r p ips = false.
Proof. exact allocate_complete. Qed.

(* the scan of a pool is complete: "no free address of family f" means every
   address of the pool of that family is refused for this requester *)
Theorem C07_scan_complete : forall a s r p f,
  first_free a s r p f = None ->
  forall x, ip_fam x = f -> in_pool p x = true -> addr_free a s r p x = false.
Proof. exact first_free_none. Qed.

(* and "refused" is exactly the statement's notion: held by another service that
   may not share it with the requester (C01_check_sharing_iff) *)
Theorem C07_admissible_offer_sound : forall a s r p ips,
  offer_ok a s r p ips = true ->
  (forall x, In x ips -> in_pool p x = true /\ check_sharing a s x (r_ports r) (r_key r) = true) /\
  families_ok r ips.
Proof. exact offer_ok_sound. Qed.

(* an address given up is admissible again at once *)
Theorem C07_released_is_free : forall a s x t ports k,
  Inv a ->
  (forall e, In e (allocated a) -> fst e <> s -> ~ In x (a_ips (snd e))) ->
  check_sharing (unassign a s) t x ports k = true.
Proof. exact released_free. Qed.

(* ---- controller half: a released address triggers a full re-sync ---- *)
From Verif Require Import Model.Ctrl Proofs.CtrlP Proofs.CtrlWorldP Proofs.CtrlThmP.

Theorem C07_release_triggers_reload : forall rank c s o k oc,
  set_balancer rank c s (Some o) k = Some oc -> c_have_pools c = true ->
  (releases (c_mem c) (c_mem (oc_state oc)) s (ips_of (c_mem c) s) \/
   releases (c_mem c) (c_mem (oc_state oc)) s (o_status o)) ->
  oc_sync oc = ReprocessAll.
Proof. exact release_triggers_reload. Qed.

Theorem C07_delete_triggers_reload : forall rank c s k oc al,
  set_balancer rank c s None k = Some oc -> get_alloc (c_mem c) s = Some al ->
  oc_sync oc = ReprocessAll /\ get_alloc (c_mem (oc_state oc)) s = None.
Proof. exact delete_triggers_reload. Qed.

Theorem C07_reprocess_sets_reload : forall rank w s k w',
  wstep_t rank w (ESvc s k) = Some (w', [ReprocessAll]) -> w_reload w' = true.
Proof. exact reprocess_sets_reload. Qed.
