(* C09 — Speaker convergence: announcements depend on the current state, not on history.
   Statements only; proofs in Proofs/SpeakerP.v and Proofs/SpeakerRefuted.v.
   [srun ev spk h] = (existing Services K, controller state) after the event list h
   (Service / endpoint add-update-delete, configuration, node, speaker-membership
   events, each followed by the full re-sync it requests; EResync = any other
   re-sync), for a node with environment [ev] (name, ignore flag, local
   interfaces, hash).  [fresh ev st K] = a freshly started controller fed the
   nodes, the accepted configuration and the Services of the final state.
   [announced_equiv]: same addresses (with interface sets) held by the layer-2
   announcer for every Service and same route set on every BGP session. *)
From Coq Require Import List NArith Bool.
From Verif Require Import Model.Speaker Proofs.SpeakerP Proofs.SpeakerRefuted.
Local Open Scope N_scope.

(* In every reachable state a full re-sync yields exactly the announcements of a fresh speaker *)
Theorem C09_resync_normal_form : forall ev spk h,
  forallb (event_ok ev) h = true ->
  let ws := srun ev spk h in
  announced_equiv (resync ev (fst ws) (snd ws)) (fresh ev (snd ws) (fst ws)).
Proof. exact resync_normal_form_run. Qed.

(* History independence.  event_ok: no Service with a repeated address; no
   configuration whose layer-2 advertisements select this node only through
   interfaces it does not have (F9).  stale_after = false: no first event of a
   node (which requests no re-sync, F25) happened with Services present
   without a full re-sync afterwards. *)
Theorem C09_history_independent_partial : forall ev spk h,
  forallb (event_ok ev) h = true ->
  stale_after ev ([], sinit spk) false h = false ->
  announced_equiv (snd (srun ev spk h)) (fresh ev (snd (srun ev spk h)) (fst (srun ev spk h))).
Proof. exact history_independent_partial. Qed.

(* F9: without the interface hypothesis the statement is false (old announcement kept) *)
Theorem C09_history_independent_refuted_interfaces :
  exists ev spk h,
    forallb (fun e => match e with ESvc _ (Some s) => svc_ok s | _ => true end) h = true /\
    stale_after ev ([], sinit spk) false h = false /\
    ~ announced_equiv (snd (srun ev spk h)) (fresh ev (snd (srun ev spk h)) (fst (srun ev spk h))).
Proof.
  exists env_id, (Some [0]), f9_history.
  destruct f9_refuted as [H1 [H2 [_ [_ H3]]]]. auto.
Qed.

(* F25: without the hypothesis on first node events the statement is false *)
Theorem C09_history_independent_refuted_first_node_event :
  exists ev spk h,
    forallb (event_ok ev) h = true /\
    ~ announced_equiv (snd (srun ev spk h)) (fresh ev (snd (srun ev spk h)) (fst (srun ev spk h))).
Proof.
  exists env_rev, None, f25_history.
  destruct f25_refuted as [H1 [_ [_ [_ H3]]]]. auto.
Qed.

(* the statement's "in particular": once processed, nothing remains announced for a
   Service that was deleted, is not a LoadBalancer, has no / an invalid address
   or an address outside the configured pools (plan = None) *)
Theorem C09_nothing_for_gone_service : forall ev spk h name os,
  forallb (event_ok ev) (h ++ [ESvc name os]) = true ->
  plan (s_cfg (snd (srun ev spk (h ++ [ESvc name os])))) os = None ->
  let st := snd (srun ev spk (h ++ [ESvc name os])) in
  s_l2 st name = None /\ bs_ads (s_bgp st) name = None.
Proof. exact nothing_for_gone_service. Qed.

(* ... and a processed Service is announced exactly when the current ShouldAnnounce
   decisions say so, with exactly the prescribed content *)
Theorem C09_service_normal_form : forall ev name os st,
  Bk ev st -> cfg_good ev st -> (forall s, os = Some s -> svc_ok s = true) ->
  nf_name ev (set_balancer ev name os st) name os.
Proof. intros ev name os st B G H. apply (set_balancer_spec ev name os st B G H). Qed.

(* a configuration that orphans a recorded address changes nothing (and asks for a retry) *)
Theorem C09_setconfig_refusal : forall ev c st,
  snd (set_config ev c st) = false -> fst (set_config ev c st) = st.
Proof. exact setconfig_refusal. Qed.

(* non-vacuity: the F25 history converges once the missing re-sync is added *)
Example C09_nonvacuous :
  s_l2 (snd (srun env_rev None (f25_history ++ [EResync]))) 0 = None /\
  stale_after env_rev ([], sinit None) false (f25_history ++ [EResync]) = false /\
  s_l2 (snd (srun env_id (Some [0]) (firstn 3 f9_history))) 0 <> None.
Proof. vm_compute. repeat split; discriminate. Qed.
