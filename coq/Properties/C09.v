(* C09 — Speaker convergence: announcements depend on the current state, not on history.
   Statements only; proofs in Proofs/SpeakerP.v and Proofs/SpeakerRefuted.v.

   PARTIAL.  What is proved is the statement under explicit hypotheses, each shown necessary by a
   `_refuted` witness on the faithful model:
     esvc_ok        no Service status repeats an address (boundary of compareIPs);
     final_cfg_ok   F9: the configuration the speaker runs at the end does not select this node for layer 2
                    only through interfaces it does not have;
     stale_after    F25: no first event of a node (it requests no re-sync) happened with Services present
                    without a full re-sync afterwards ("a node joins a running cluster" is excluded until then);
     in_sync        the speaker is in sync with the cluster: the LAST DELIVERED configuration was accepted
                    (a refused configuration is "not processed": the reconciler keeps retrying it, the speaker
                    keeps announcing under the previous one) and no Node object it remembers was deleted
                    (the node reconciler ignores NotFound: the speaker never forgets a node).
   SCOPE.  Events of the model: Service / endpoint-slice add-update-delete, configuration (accepted or
   refused), node add / label / condition change of this and of other nodes, Node deletion (invisible to
   the speaker), speaker-list change, extra full re-sync; each followed by the full re-sync its handler
   requests, atomically and in the order of the Service list (an interleaved or partial re-sync is the
   same as repeated ESvc events with an unchanged Service).  NOT expressible by any event: handler errors
   (SetBalancer / SetConfig / session-manager failures, SyncStateError retries, ErrorNoRetry after the
   BGP peers were already replaced), memberlist itself (only its result, the speaker list), changes of
   the local interface list, a nil configuration.  pool_for takes the first pool containing all addresses
   (Go iterates a map): equivalent when pools do not overlap (C08).

   [srun ev spk h] = (existing Services K, controller state) after the event list h, for a node with
   environment [ev] (name, ignore flag, local interfaces, hash).  [api_run spk h] = what the API server
   holds after h, computed from the events alone: last delivered configuration, existing Node objects,
   speaker list.  [fresh_cluster ev a K] = a freshly started controller fed, in this order, the nodes,
   the configuration and the Services the API server holds.  [fresh ev st K] = the same fed what the
   speaker under test remembers.  [announced_equiv]: same layer-2 entries (address, interfaces) per
   Service, same set of BGP sessions and same route set on every session. *)
From Coq Require Import List NArith Bool.
From Verif Require Import Model.Speaker Proofs.ElectP Proofs.SpeakerP Proofs.SpeakerRefuted.
Local Open Scope N_scope.


(* History independence against the CLUSTER's final state, for all event histories. *)
Theorem C09_history_independent_partial : forall ev spk h,
  forallb esvc_ok h = true ->
  final_cfg_ok ev (snd (srun ev spk h)) = true ->
  stale_after ev ([], sinit spk) false h = false ->
  in_sync (api_run spk h) (snd (srun ev spk h)) ->
  announced_equiv (snd (srun ev spk h)) (fresh_cluster ev (api_run spk h) (fst (srun ev spk h))).
Proof. exact history_independent_cluster. Qed.

(* the same against what the speaker remembers (last accepted configuration, every node ever seen):
   no in_sync hypothesis, but the comparison target is NOT the cluster's state *)
Theorem C09_history_independent_on_remembered_state_partial : forall ev spk h,
  forallb esvc_ok h = true ->
  final_cfg_ok ev (snd (srun ev spk h)) = true ->
  stale_after ev ([], sinit spk) false h = false ->
  announced_equiv (snd (srun ev spk h)) (fresh ev (snd (srun ev spk h)) (fst (srun ev spk h))).
Proof. exact history_independent. Qed.

(* In every reachable state a full re-sync yields the announcements of a fresh speaker fed the remembered
   state (hypotheses: esvc_ok, final_cfg_ok) *)
Theorem C09_resync_normal_form_partial : forall ev spk h,
  forallb esvc_ok h = true ->
  final_cfg_ok ev (snd (srun ev spk h)) = true ->
  let ws := srun ev spk h in
  announced_equiv (resync ev (fst ws) (snd ws)) (fresh ev (snd ws) (fst ws)).
Proof. exact resync_normal_form_run. Qed.

(* ---- each hypothesis is necessary (the other ones hold in every witness) ---- *)
(* F9 *)
Theorem C09_history_independent_refuted_interfaces :
  exists ev spk h,
    forallb esvc_ok h = true /\
    stale_after ev ([], sinit spk) false h = false /\
    final_cfg_ok ev (snd (srun ev spk h)) = false /\
    ~ announced_equiv (snd (srun ev spk h)) (fresh ev (snd (srun ev spk h)) (fst (srun ev spk h))).
Proof.
  exists env_id, (Some [0]), f9_history.
  destruct f9_refuted as [H1 [H2 [H3 [_ [_ H4]]]]]. auto.
Qed.

(* F25 *)
Theorem C09_history_independent_refuted_first_node_event :
  exists ev spk h,
    forallb esvc_ok h = true /\
    final_cfg_ok ev (snd (srun ev spk h)) = true /\
    ~ announced_equiv (snd (srun ev spk h)) (fresh ev (snd (srun ev spk h)) (fst (srun ev spk h))).
Proof.
  exists env_rev, None, f25_history.
  destruct f25_refuted as [_ [H1 [H2 [_ [_ [_ H3]]]]]]. auto.
Qed.

(* a Service status that repeats an address: compareIPs accepts [a;a] against the recorded [a;b] and the
   announcement of b stays (reproduced on the real code) *)
Theorem C09_history_independent_refuted_repeated_address :
  exists ev spk h,
    final_cfg_ok ev (snd (srun ev spk h)) = true /\
    stale_after ev ([], sinit spk) false h = false /\
    ~ announced_equiv (snd (srun ev spk h)) (fresh ev (snd (srun ev spk h)) (fst (srun ev spk h))).
Proof.
  exists env_id, (Some [0]), dup_history.
  destruct repeated_address_refuted as [_ [H1 [H2 H3]]]. auto.
Qed.

(* a refused configuration is pending: the three other hypotheses hold, the nodes are in sync, the speaker
   still announces under the previous configuration, a fresh speaker on the cluster's state does not *)
Theorem C09_history_independent_refuted_pending_refusal :
  exists ev spk h,
    forallb esvc_ok h = true /\ final_cfg_ok ev (snd (srun ev spk h)) = true /\
    stale_after ev ([], sinit spk) false h = false /\
    s_nodes (snd (srun ev spk h)) = api_nodes (api_run spk h) /\
    s_cfg (snd (srun ev spk h)) <> api_cfg (api_run spk h) /\
    ~ announced_equiv (snd (srun ev spk h)) (fresh_cluster ev (api_run spk h) (fst (srun ev spk h))).
Proof.
  exists env_id, (Some [0]), pending_history.
  destruct pending_refusal_refuted as [H1 [H2 [H3 [H4 [H5 [_ [_ H6]]]]]]]. auto 10.
Qed.

(* a deleted Node object is never forgotten: memberlist disabled, the deleted node stays the elected one *)
Theorem C09_history_independent_refuted_deleted_node :
  exists ev spk h,
    forallb esvc_ok h = true /\ final_cfg_ok ev (snd (srun ev spk h)) = true /\
    stale_after ev ([], sinit spk) false h = false /\
    s_cfg (snd (srun ev spk h)) = api_cfg (api_run spk h) /\
    s_nodes (snd (srun ev spk h)) <> api_nodes (api_run spk h) /\
    ~ announced_equiv (snd (srun ev spk h)) (fresh_cluster ev (api_run spk h) (fst (srun ev spk h))).
Proof.
  exists env_del, None, deleted_node_history.
  destruct deleted_node_refuted as [H1 [H2 [H3 [H4 [H5 [_ [_ H6]]]]]]]. auto 10.
Qed.

(* C04 at reachable states (hypotheses esvc_ok, final_cfg_ok, no F25 staleness): the announcer holds a
   Service iff this node wins the election on the view the speaker remembers.  The right-hand side is the
   model's decision function l2_should = Elect.decide, whose meaning is C04's theorems. *)
Theorem C09_l2_announced_iff_elected_partial : forall ev spk h name,
  forallb esvc_ok h = true -> final_cfg_ok ev (snd (srun ev spk h)) = true ->
  stale_after ev ([], sinit spk) false h = false ->
  let K := fst (srun ev spk h) in let st := snd (srun ev spk h) in
  s_l2 st name <> None <->
  exists s ips p, plan (s_cfg st) (klookup K name) = Some (s, ips, p) /\
                  l2_should ev (s_nodes st) (s_spk st) p s ips = true.
Proof. exact l2_announced_iff. Qed.

(* several speakers (one per node, same ignore flag and hash) whose states satisfy the invariants of
   reachable non-stale states (Bk, NF, cfg_good: derived from histories by Inv_run in Proofs/SpeakerP.v,
   here assumed of the given states) for the same cluster and sharing configuration, nodes and speaker
   list: exactly one of them announces a Service that has an eligible node, none otherwise *)
Theorem C09_one_l2_announcer_among_speakers : forall (evs : N -> env) (sts : N -> sstate) K name s x r p,
  (forall n, en_me (evs n) = n /\ en_ignore (evs n) = en_ignore (evs 0) /\ en_hash (evs n) = en_hash (evs 0)) ->
  (forall n, Bk (evs n) (sts n) /\ NF (evs n) K (sts n) /\ cfg_good (evs n) (sts n) /\
             s_cfg (sts n) = s_cfg (sts 0) /\ s_nodes (sts n) = s_nodes (sts 0) /\ s_spk (sts n) = s_spk (sts 0)) ->
  plan (s_cfg (sts 0)) (klookup K name) = Some (s, x :: r, p) ->
  (exists n, eligible (elect_view (evs 0) (s_nodes (sts 0)) (s_spk (sts 0)) p s) n) ->
  exists w, s_l2 (sts w) name <> None /\ forall n, s_l2 (sts n) name <> None -> n = w.
Proof. exact one_l2_announcer. Qed.

Theorem C09_no_l2_announcer_without_eligible : forall (evs : N -> env) (sts : N -> sstate) K name s x r p n,
  en_me (evs n) = n -> Bk (evs n) (sts n) -> NF (evs n) K (sts n) -> cfg_good (evs n) (sts n) ->
  plan (s_cfg (sts n)) (klookup K name) = Some (s, x :: r, p) ->
  (forall m, ~ eligible (elect_view (evs n) (s_nodes (sts n)) (s_spk (sts n)) p s) m) ->
  s_l2 (sts n) name = None.
Proof. exact no_l2_announcer_without_eligible. Qed.

(* the statement's "in particular" (all histories, only esvc_ok): once processed, nothing remains announced for a
   Service that was deleted, is not a LoadBalancer, has no / an invalid address
   or an address outside the configured pools (plan = None) *)
Theorem C09_nothing_for_gone_service : forall ev spk h name os,
  forallb esvc_ok (h ++ [ESvc name os]) = true ->
  plan (s_cfg (snd (srun ev spk (h ++ [ESvc name os])))) os = None ->
  let st := snd (srun ev spk (h ++ [ESvc name os])) in
  s_l2 st name = None /\ bs_ads (s_bgp st) name = None.
Proof. exact nothing_for_gone_service. Qed.

(* ... and a processed Service is announced exactly when the current ShouldAnnounce
   decisions say so, with exactly the prescribed content *)
Theorem C09_service_normal_form : forall ev name os st,
  Bk ev st -> (forall s, os = Some s -> svc_ok s = true) ->
  nf_name ev (set_balancer ev name os st) name os.
Proof. intros ev name os st B H. apply (set_balancer_spec ev name os st B H). Qed.

(* a refused configuration changes nothing.  TRUE BY DEFINITION of set_config (it returns the unchanged
   state together with `false`); its weight is the correspondence run (refused configurations occur in the
   generated histories and the real controller's state is compared after them) *)
Theorem C09_setconfig_refusal : forall ev c st,
  snd (set_config ev c st) = false -> fst (set_config ev c st) = st.
Proof. exact setconfig_refusal. Qed.

(* WHEN a configuration is refused: iff some Service with recorded addresses has no pool under it; and
   addresses are recorded exactly for the Services announced by some protocol *)
Theorem C09_setconfig_refused_iff : forall ev c st,
  snd (set_config ev c st) = false <->
  exists name ips, In name (s_ipkeys st) /\ s_ips st name = Some ips /\ pool_for c ips = None.
Proof. exact setconfig_refused_iff. Qed.
Theorem C09_recorded_iff_announced : forall ev st name,
  Bk ev st -> (s_ips st name <> None <-> s_annb st name = true \/ s_annl st name = true).
Proof. exact recorded_iff_announced. Qed.

(* non-vacuity: ONE history satisfying all four hypotheses of C09_history_independent_partial with a
   layer-2 entry, a BGP advertisement and a route on the session of a peer with a node selector; making
   the node network-unavailable withdraws all of it *)
Example C09_nonvacuous :
  let ws := srun env_id (Some [0]) bgp_history in
  let a := api_run (Some [0]) bgp_history in
  forallb esvc_ok bgp_history = true /\ final_cfg_ok env_id (snd ws) = true /\
  stale_after env_id ([], sinit (Some [0])) false bgp_history = false /\
  s_cfg (snd ws) = api_cfg a /\ s_nodes (snd ws) = api_nodes a /\
  s_l2 (snd ws) 0 <> None /\ bs_ads (s_bgp (snd ws)) 0 <> None /\
  option_map (@length adv) (sess_of (s_bgp (snd ws)) 1) = Some 1%nat /\
  let ws' := srun env_id (Some [0]) (bgp_history ++ [ENode (w_lab [(7, 7)] true)]) in
  s_l2 (snd ws') 0 = None /\ bs_ads (s_bgp (snd ws')) 0 = None /\ sess_of (s_bgp (snd ws')) 1 = Some [].
Proof. exact joint_nonvacuous. Qed.

(* the F25 history converges once the missing re-sync is added *)
Example C09_nonvacuous_resync :
  s_l2 (snd (srun env_rev None (f25_history ++ [EResync]))) 0 = None /\
  stale_after env_rev ([], sinit None) false (f25_history ++ [EResync]) = false.
Proof. vm_compute. repeat split. Qed.
