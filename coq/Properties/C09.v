(* C09 — Speaker convergence: announcements depend on the current state, not on history.
   Statements only; proofs in Proofs/SpeakerP.v and Proofs/SpeakerRefuted.v.
   [srun ev spk h] = (existing Services K, controller state) after the event list h
   (Service / endpoint add-update-delete, configuration, node, speaker-membership
   events, each followed by the full re-sync it requests; EResync = any other
   re-sync), for a node with environment [ev] (name, ignore flag, local
   interfaces, hash).  [fresh ev st K] = a freshly started controller fed the
   nodes, the accepted configuration and the Services of the final state.
   [announced_equiv]: same addresses (with interface sets) held by the layer-2
   announcer for every Service and same route set on every BGP session. *)
From Coq Require Import List NArith Bool.
From Verif Require Import Model.Speaker Proofs.ElectP Proofs.SpeakerP Proofs.SpeakerRefuted.
Local Open Scope N_scope.

(* In every reachable state a full re-sync yields exactly the announcements of a fresh speaker
   (the configuration the speaker runs must be free of F9) *)
Theorem C09_resync_normal_form : forall ev spk h,
  forallb esvc_ok h = true ->
  final_cfg_ok ev (snd (srun ev spk h)) = true ->
  let ws := srun ev spk h in
  announced_equiv (resync ev (fst ws) (snd ws)) (fresh ev (snd ws) (fst ws)).
Proof. exact resync_normal_form_run. Qed.

(* History independence, for ALL event histories (Service / endpoint add-update-delete, accepted and
   refused configurations, node events of this and of other nodes, speaker-list changes, extra
   re-syncs; handler results honoured as the reconcilers do).  Hypotheses:
     esvc_ok      no Service with a repeated address;
     final_cfg_ok F9: the configuration the speaker FINALLY runs does not select this node for layer 2
                  only through interfaces it does not have (earlier configurations are unconstrained);
     stale_after  F25: no first event of a node (which requests no re-sync) happened with Services
                  present without a full re-sync afterwards.
   Conclusion: the layer-2 announcer entries of every Service, the set of BGP sessions and the route
   set of every session equal those of a fresh speaker fed the final cluster state. *)
Theorem C09_history_independent_partial : forall ev spk h,
  forallb esvc_ok h = true ->
  final_cfg_ok ev (snd (srun ev spk h)) = true ->
  stale_after ev ([], sinit spk) false h = false ->
  announced_equiv (snd (srun ev spk h)) (fresh ev (snd (srun ev spk h)) (fst (srun ev spk h))).
Proof. exact history_independent. Qed.

(* F9: without the hypothesis on the final configuration the statement is false (old announcement kept) *)
Theorem C09_history_independent_refuted_interfaces :
  exists ev spk h,
    forallb esvc_ok h = true /\
    stale_after ev ([], sinit spk) false h = false /\
    final_cfg_ok ev (snd (srun ev spk h)) = false /\
    ~ announced_equiv (snd (srun ev spk h)) (fresh ev (snd (srun ev spk h)) (fst (srun ev spk h))).
Proof.
  exists env_id, (Some [0]), f9_history.
  destruct f9_refuted as [H1 [H2 [H3 [_ [_ H4]]]]]. auto.
Qed.

(* F25: without the hypothesis on first node events the statement is false *)
Theorem C09_history_independent_refuted_first_node_event :
  exists ev spk h,
    forallb esvc_ok h = true /\
    final_cfg_ok ev (snd (srun ev spk h)) = true /\
    ~ announced_equiv (snd (srun ev spk h)) (fresh ev (snd (srun ev spk h)) (fst (srun ev spk h))).
Proof.
  exists env_rev, None, f25_history.
  destruct f25_refuted as [_ [H1 [H2 [_ [_ [_ H3]]]]]]. auto.
Qed.

(* boundary: esvc_ok is needed too — a Service status that repeats an address makes compareIPs accept
   [a;a] against the recorded [a;b], and the announcement of b stays (reproduced on the real code) *)
Theorem C09_history_independent_refuted_repeated_address :
  exists ev spk h,
    final_cfg_ok ev (snd (srun ev spk h)) = true /\
    stale_after ev ([], sinit spk) false h = false /\
    ~ announced_equiv (snd (srun ev spk h)) (fresh ev (snd (srun ev spk h)) (fst (srun ev spk h))).
Proof.
  exists env_id, (Some [0]), dup_history.
  destruct repeated_address_refuted as [_ [H1 [H2 H3]]]. auto.
Qed.

(* C04 at reachable states: the announcer holds a Service iff this node wins the election on the
   CURRENT view (nodes with their conditions / labels, ignore flag, speaker list, advertisements) *)
Theorem C09_l2_announced_iff_elected : forall ev spk h name,
  forallb esvc_ok h = true -> final_cfg_ok ev (snd (srun ev spk h)) = true ->
  stale_after ev ([], sinit spk) false h = false ->
  let K := fst (srun ev spk h) in let st := snd (srun ev spk h) in
  s_l2 st name <> None <->
  exists s ips p, plan (s_cfg st) (klookup K name) = Some (s, ips, p) /\
                  l2_should ev (s_nodes st) (s_spk st) p s ips = true.
Proof. exact l2_announced_iff. Qed.

(* several speakers (one per node, same ignore flag and hash) in normal form for the same cluster
   and sharing configuration, nodes and speaker list: exactly one of them announces a Service that
   has an eligible node, none otherwise *)
Theorem C09_one_l2_announcer_among_speakers : forall (evs : N -> env) (sts : N -> sstate) K name s x r p,
  (forall n, en_me (evs n) = n /\ en_ignore (evs n) = en_ignore (evs 0) /\ en_hash (evs n) = en_hash (evs 0)) ->
  (forall n, Bk (evs n) (sts n) /\ NF (evs n) K (sts n) /\ cfg_good (evs n) (sts n) /\
             s_cfg (sts n) = s_cfg (sts 0) /\ s_nodes (sts n) = s_nodes (sts 0) /\ s_spk (sts n) = s_spk (sts 0)) ->
  plan (s_cfg (sts 0)) (klookup K name) = Some (s, x :: r, p) ->
  (exists n, eligible (elect_view (evs 0) (s_nodes (sts 0)) (s_spk (sts 0)) p s) n) ->
  exists w, s_l2 (sts w) name <> None /\ forall n, s_l2 (sts n) name <> None -> n = w.
Proof. exact one_l2_announcer. Qed.

Theorem C09_no_l2_announcer_without_eligible : forall (evs : N -> env) (sts : N -> sstate) K name s x r p n,
  en_me (evs n) = n -> Bk (evs n) (sts n) -> NF (evs n) K (sts n) -> cfg_good (evs n) (sts n) ->
  plan (s_cfg (sts n)) (klookup K name) = Some (s, x :: r, p) ->
  (forall m, ~ eligible (elect_view (evs n) (s_nodes (sts n)) (s_spk (sts n)) p s) m) ->
  s_l2 (sts n) name = None.
Proof. exact no_l2_announcer_without_eligible. Qed.

(* the statement's "in particular": once processed, nothing remains announced for a
   Service that was deleted, is not a LoadBalancer, has no / an invalid address
   or an address outside the configured pools (plan = None) *)
Theorem C09_nothing_for_gone_service : forall ev spk h name os,
  forallb esvc_ok (h ++ [ESvc name os]) = true ->
  plan (s_cfg (snd (srun ev spk (h ++ [ESvc name os])))) os = None ->
  let st := snd (srun ev spk (h ++ [ESvc name os])) in
  s_l2 st name = None /\ bs_ads (s_bgp st) name = None.
Proof. exact nothing_for_gone_service. Qed.

(* ... and a processed Service is announced exactly when the current ShouldAnnounce
   decisions say so, with exactly the prescribed content *)
Theorem C09_service_normal_form : forall ev name os st,
  Bk ev st -> (forall s, os = Some s -> svc_ok s = true) ->
  nf_name ev (set_balancer ev name os st) name os.
Proof. intros ev name os st B H. apply (set_balancer_spec ev name os st B H). Qed.

(* a configuration that orphans a recorded address changes nothing (and asks for a retry) *)
Theorem C09_setconfig_refusal : forall ev c st,
  snd (set_config ev c st) = false -> fst (set_config ev c st) = st.
Proof. exact setconfig_refusal. Qed.

(* non-vacuity: the F25 history converges once the missing re-sync is added *)
Example C09_nonvacuous :
  s_l2 (snd (srun env_rev None (f25_history ++ [EResync]))) 0 = None /\
  stale_after env_rev ([], sinit None) false (f25_history ++ [EResync]) = false /\
  s_l2 (snd (srun env_id (Some [0]) (firstn 3 f9_history))) 0 <> None.
Proof. vm_compute. repeat split; discriminate. Qed.
