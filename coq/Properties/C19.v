(* C19 — FRR reload delivery.  Statements only; proofs in Proofs/DebounceP.v.
   Model/Debounce.v: [step] is one iteration of the loop of frr/config.go
   `debouncer`; [run init evs] an arbitrary history of submissions ([Submit c]),
   re-apply requests ([ReapplyOld], sent by validateReload) and timer expiries
   with the result of the reload action ([Fire ok]); [log] (newest first) and
   [applied] record what the reload action was called with.  A history in which
   some [Fire] is not enabled has [run] = None and is not a history.
   PARTIAL with respect to the property: [step] has "timer armed", not
   durations; that an armed timer eventually fires and that the failure pattern
   eventually stops are the fairness premises ([In (Fire true) cont]).  The
   variant with deadlines ([tstep], section "deadlines" below) says from which
   instant on the pending reload is enabled. *)
From Coq Require Import NArith Bool List.
From Verif Require Import Model.Debounce Proofs.DebounceP Model.FrrMgr Proofs.FrrMgrP Proofs.FrrMgrDebP.
Import ListNotations.

(* no lost update: whenever the stored configuration is not the applied one the timer is armed *)
Theorem C19_pending_implies_timer : forall evs s,
  run init evs = Some s -> config s <> applied s -> timer s = true.
Proof. intros evs s H. apply pending_implies_timer. exists evs; exact H. Qed.

(* the stored configuration is always the most recently submitted one *)
Theorem C19_config_is_latest : forall evs s,
  run init evs = Some s -> config s = last_submit evs.
Proof. exact config_is_last. Qed.

(* every call of the reload action is made with the most recently submitted
   configuration; when it succeeds that configuration is the applied one *)
Theorem C19_fire_uses_latest : forall evs b s,
  run init (evs ++ [Fire b]) = Some s ->
  exists rest, log s = (last_submit evs, b) :: rest /\ (b = true -> applied s = last_submit evs).
Proof. exact fire_uses_latest. Qed.

(* the whole sequence of reload calls is the specification [fire_log] *)
Theorem C19_log_is_spec : forall evs s,
  run init evs = Some s -> log s = fire_log None evs [].
Proof. exact log_is_spec. Qed.

(* an older configuration is never applied after a newer one was submitted:
   a reload call after [Submit c] uses c or something submitted later *)
Theorem C19_never_older_after_newer : forall p1 c p2 b s,
  run init (p1 ++ Submit c :: p2 ++ [Fire b]) = Some s ->
  exists c' rest, log s = (Some c', b) :: rest /\
                  (c' = c /\ no_submit p2 = true \/ In (Submit c') p2).
Proof. exact never_older_after_newer. Qed.

Theorem C19_later_call_not_older : forall p1 b1 p2 b2 s,
  run init (p1 ++ Fire b1 :: p2 ++ [Fire b2]) = Some s ->
  exists rest, log s = (last_submit_from (last_submit p1) p2, b2) :: rest.
Proof. exact later_call_not_older. Qed.

(* resubmitting an identical configuration causes no reload: the state (timer
   included) is unchanged, so every continuation behaves as without it *)
(* (one step, by definition of [step]; the statement about all continuations is C19_identical_submit_invisible) *)
Theorem C19_identical_submit_no_reload : forall s c,
  config s = Some c -> step s (Submit c) = Some s.
Proof. exact identical_submit_no_reload. Qed.

Theorem C19_identical_submit_invisible : forall s c cont,
  config s = Some c -> run s (Submit c :: cont) = run s cont.
Proof. exact identical_submit_run. Qed.

(* coalescing: any number of submissions / re-apply requests inside one window
   (no expiry in between) give exactly one reload call, with the last one *)
Theorem C19_coalesce : forall evs s subs s',
  run init evs = Some s -> timer s = false -> no_fire subs = true ->
  run s (subs ++ [Fire true]) = Some s' ->
  log s' = (last_submit_from (config s) subs, true) :: log s /\
  applied s' = last_submit_from (config s) subs /\ timer s' = false /\
  (forall b, step s' (Fire b) = None).
Proof. intros evs s subs s' H. apply coalesce. exists evs; exact H. Qed.

Theorem C19_new_submit_arms_timer : forall s c s',
  step s (Submit c) = Some s' -> config s <> Some c -> timer s' = true.
Proof. exact submit_arms. Qed.

(* failed attempts are retried without a new submission (one step, by definition of [step]: a failing call leaves
   the timer armed; C19_retry_any_number is the statement over runs) *)
Theorem C19_retry_without_submit : forall s s',
  step s (Fire false) = Some s' ->
  timer s' = true /\ config s' = config s /\ applied s' = applied s /\
  exists s'', step s' (Fire true) = Some s'' /\ applied s'' = config s.
Proof. exact retry_without_submit. Qed.

Theorem C19_retry_any_number : forall s n, timer s = true ->
  exists s', run s (repeat (Fire false) n ++ [Fire true]) = Some s' /\
             applied s' = config s /\ config s' = config s /\ timer s' = false /\
             length (log s') = length (log s) + n + 1.
Proof. exact retry_n. Qed.

(* ---- re-apply requests (frr.go validateReload sends {useOld: true}) ---- *)
(* submissions and re-apply requests are always received (only a timer expiry can be "not enabled") *)
Theorem C19_submit_total : forall s c, exists s', step s (Submit c) = Some s'.
Proof. exact submit_total. Qed.

Theorem C19_reapply_total : forall s, exists s', step s ReapplyOld = Some s'.
Proof. exact reapply_total. Qed.

(* a re-apply request arms the timer and changes nothing else; it is ignored only when nothing was ever submitted *)
Theorem C19_reapply_arms_timer : forall s c, config s = Some c ->
  exists s', step s ReapplyOld = Some s' /\ timer s' = true /\ config s' = Some c /\ applied s' = applied s /\ log s' = log s.
Proof. exact reapply_arms. Qed.

Theorem C19_reapply_ignored_when_empty : forall s, config s = None -> step s ReapplyOld = Some s.
Proof. exact reapply_ignored_when_empty. Qed.

(* with no newer submission it leads to exactly one more reload call, with the SAME content ... *)
Theorem C19_reapply_reloads_same : forall evs s c, run init evs = Some s -> timer s = false -> config s = Some c ->
  exists s', run s [ReapplyOld; Fire true] = Some s' /\ log s' = (Some c, true) :: log s /\
             applied s' = Some c /\ timer s' = false /\ (forall b, step s' (Fire b) = None).
Proof. intros evs s c H. apply reapply_reloads_same. exists evs; exact H. Qed.

(* ... with a newer submission in the same window, to one reload call with the NEWER content *)
Theorem C19_reapply_reloads_newer : forall evs s c c', run init evs = Some s -> timer s = false -> config s = Some c ->
  exists s', run s [ReapplyOld; Submit c'; Fire true] = Some s' /\ log s' = (Some c', true) :: log s /\
             applied s' = Some c' /\ timer s' = false.
Proof. intros evs s c c' H. apply reapply_reloads_newer. exists evs; exact H. Qed.

(* a failing re-applied reload is retried like any other *)
Theorem C19_reapply_failure_retried : forall s c, timer s = false -> config s = Some c ->
  exists s', run s [ReapplyOld; Fire false] = Some s' /\ timer s' = true /\ config s' = Some c.
Proof. exact reapply_failure_retried. Qed.

(* the run C19_coalesce assumes EXISTS: any window of submissions / re-apply requests is a run, the reload call is
   enabled as soon as the timer is armed, and it is armed when it was before, when the stored configuration changed,
   or when the window contains a re-apply request (something having been submitted) *)
Theorem C19_window_run : forall s subs, no_fire subs = true ->
  exists s1, run s subs = Some s1 /\ (timer s1 = true -> exists s', run s (subs ++ [Fire true]) = Some s').
Proof. exact window_run. Qed.

Theorem C19_window_armed_by_change : forall s subs s1,
  no_fire subs = true -> run s subs = Some s1 -> config s1 <> config s -> timer s1 = true.
Proof. exact window_armed_by_change. Qed.

Theorem C19_window_armed_by_reapply : forall s subs s1,
  no_fire subs = true -> run s subs = Some s1 -> In ReapplyOld subs -> config s <> None -> timer s1 = true.
Proof. exact window_armed_by_reapply. Qed.

(* eventually: from any reachable state, any continuation without further
   submission in which the reload succeeds once (or nothing was pending) ends
   with applied = most recently submitted *)
(* NOTE on [applied]: it records "the reload action returned nil" (file written, reloader signalled).  A later
   re-apply request (validateReload: the reloader reported that this very attempt failed) does not reset it; what
   such a request does is arm the timer (C19_reapply_arms_timer), so the state is quiet again only after another
   reload call (C19_reapply_reloads_same).  "Successfully applied" is relative to that notion. *)
Theorem C19_eventually : forall evs s cont s',
  run init evs = Some s -> no_submit cont = true -> run s cont = Some s' ->
  (timer s = false \/ In (Fire true) cont) ->
  applied s' = last_submit evs /\ config s' = last_submit evs.
Proof. exact eventually. Qed.

(* ... and while it has not happened, the successful reload is enabled *)
Theorem C19_pending_progress : forall evs s,
  run init evs = Some s -> applied s <> last_submit evs ->
  exists s', step s (Fire true) = Some s' /\ applied s' = last_submit evs /\ timer s' = false.
Proof. exact pending_progress. Qed.

(* submitters are never blocked indefinitely (loop-location model): from every
   reachable state at most one return of the reload action (assumed to
   terminate) brings the loop to the select, where every submission and every
   re-apply request is received at once and the loop is at the select again *)
Theorem C19_submit_never_blocks : forall l s,
  frun finit l = Some s ->
  exists pre s1, length pre <= 1 /\ (forall e, In e pre -> exists ok, e = FBodyReturn ok) /\
     frun s pre = Some s1 /\ f_inbody s1 = false /\
     (forall c, exists s2, fstep s1 (FSubmit c) = Some s2 /\ f_inbody s2 = false) /\
     (exists s2, fstep s1 FReapplyOld = Some s2 /\ f_inbody s2 = false).
Proof. intros l s H. apply submit_never_blocks. exists l; exact H. Qed.

Theorem C19_fine_model_refines : forall l s,
  frun finit l = Some s -> run init (collapse l) = Some (f_st s).
Proof. exact fine_refines. Qed.

(* ---- frr-k8s variant (no payload) ---- *)
Theorem C19_k8s_pending_implies_timer : forall l s,
  krun kinit l = Some s -> k_pending s = true -> k_timer s = true.
Proof. intros l s H. apply k_pending_implies_timer. exists l; exact H. Qed.

Theorem C19_k8s_fire_covers : forall s s',
  kstep s KFire = Some s' -> k_pending s' = false /\ k_timer s' = false /\ k_out s' = N.succ (k_out s).
Proof. exact k_fire_covers. Qed.

Theorem C19_k8s_coalesce : forall s n s',
  krun s (repeat KNotify (S n) ++ [KFire]) = Some s' ->
  k_out s' = N.succ (k_out s) /\ k_pending s' = false /\ k_timer s' = false /\ kstep s' KFire = None.
Proof. exact k_coalesce. Qed.

Theorem C19_k8s_no_spurious_event : forall l s s',
  krun kinit l = Some s -> kstep s KFire = Some s' -> k_pending s = true.
Proof. intros l s s' H. apply k_fire_needs_notify. exists l; exact H. Qed.

Theorem C19_k8s_progress : forall l s,
  krun kinit l = Some s -> k_pending s = true ->
  exists s', kstep s KFire = Some s' /\ k_pending s' = false.
Proof. intros l s H. apply k_progress. exists l; exact H. Qed.

(* the emission `out <- event` as a blocking send (two steps: expiry, delivery;
   [dkrun false]: the code has no drop step).  C19_notification_not_dropped: a
   fired timer's notification is delivered or stays pending in the send *)
Theorem C19_notification_not_dropped : forall l s,
  dkrun false dkinit l = Some s -> dk_pending s = true -> dk_timer s = true \/ dk_sending s = true.
Proof. intros l s H. apply notification_not_dropped. exists l; exact H. Qed.

Theorem C19_k8s_delivery_progress : forall l s,
  dkrun false dkinit l = Some s -> dk_pending s = true ->
  exists cont s', length cont <= 2 /\ (forall e, In e cont -> e = DExpire \/ e = DDeliver) /\
                  dkrun false s cont = Some s' /\ dk_pending s' = false /\ dk_out s' = N.succ (dk_out s).
Proof. intros l s H. apply delivery_progress. exists l; exact H. Qed.

Theorem C19_k8s_blocking_send_refines : forall l s,
  dkrun false dkinit l = Some s -> krun kinit (dk_collapse l) = Some (dk_abs s).
Proof. exact dk_refines. Qed.

(* with a non-blocking send (a drop step) the obligation fails: notification
   pending, no timer, nothing in flight, and only a NEW notification can move on *)
Theorem C19_dropping_send_loses_notification :
  exists s, dkrun true dkinit [DNotify; DExpire; DDrop] = Some s /\
            dk_pending s = true /\ dk_timer s = false /\ dk_sending s = false /\ dk_out s = 0%N /\
            forall e, e <> DNotify -> dkstep true s e = None.
Proof. exact dropping_send_loses_notification. Qed.

(* ---- frr-k8s path end to end: UpdateConfig ... debouncer ... Reconcile (Model/Debounce.v (4)) ---- *)
(* latest wins: whenever nothing is in flight the API holds the most recently submitted configuration *)
Theorem C19_k8s_latest_wins : forall l s, rkrun rkinit l = Some s -> rk_quiet s = true ->
  rk_api s = last_written None l /\ rk_desired s = last_written None l.
Proof. exact rk_latest_wins. Qed.

(* and from every reachable state at most five further steps, none of them a new submission, reach that *)
Theorem C19_k8s_end_to_end_progress : forall l s, rkrun rkinit l = Some s ->
  exists cont s', length cont <= 5 /\ (forall e, In e cont -> forall c, e <> RWrite c) /\
                  rkrun s cont = Some s' /\ rk_quiet s' = true.
Proof. exact rk_progress. Qed.

(* ---- manager -> debouncer (Model/FrrMgr.v composed with the debouncer) ----
   The configurations the manager submits are VALUES in the model: a submitted value cannot change
   afterwards.  That the Go objects behave like values (no aliasing between a submitted *frrConfig
   and the manager's later state) is NOT expressible here; it is tied by the Go oracle
   deb-config-aliased of harness/internal/bgp/frr/zz_verif_debmgr_test.go.
   Under that reading: the debouncer's stored configuration is always the last one the manager handed
   on, and when no timer is armed it is the applied one.  The interleaving [mev] has manager operations, reload
   attempts and re-apply requests.  [code] stands for the content reflect.DeepEqual compares: the statement is
   meaningful for an INJECTIVE code only (a non-injective one makes the model drop submissions the code does
   not); C19_frr_mgr_latest_applied_inj has the hypothesis ... *)
Theorem C19_mgr_debounce_latest : forall (C : Type) (gen : list session -> list bfdprof -> string -> option C) xr (code : C -> N)
    l st evs last sigma,
  mevents gen xr code minit None l = (st, evs, last) -> run init evs = Some sigma ->
  config sigma = option_map code last /\ (timer sigma = false -> applied sigma = option_map code last).
Proof. intros C gen xr code. exact (mgr_debounce_latest gen xr code). Qed.

(* ... which for FRR mode is the configuration generated from the manager's FINAL state *)
Theorem C19_frr_mgr_latest_applied : forall (code : frr * list bfdprof * string -> N) l st evs last sigma c,
  hist_ok gen_frr true good_frr minit (ops_of l) ->
  mevents gen_frr true code minit None l = (st, evs, last) -> run init evs = Some sigma -> timer sigma = false ->
  last <> None -> cfg_of gen_frr st = Some c -> applied sigma = Some (code c).
Proof. exact frr_mgr_latest_applied. Qed.

Theorem C19_frr_mgr_latest_applied_inj : forall (code : frr * list bfdprof * string -> N) l st evs last sigma c,
  (forall x y, code x = code y -> x = y) ->
  hist_ok gen_frr true good_frr minit (ops_of l) ->
  mevents gen_frr true code minit None l = (st, evs, last) -> run init evs = Some sigma -> timer sigma = false ->
  last <> None -> cfg_of gen_frr st = Some c ->
  applied sigma = Some (code c) /\ forall c', applied sigma = Some (code c') -> c' = c.
Proof. exact frr_mgr_latest_applied_inj. Qed.

(* ---- deadlines (Model/Debounce.v (1t): [tstep iv rt], iv = debounce interval, rt = retry interval; events carry
   the instant at which the loop takes them; a [Fire] is enabled exactly from the pending deadline on) ----
   "failed attempts are retried" / "at any rate" with durations: the retry of an attempt that failed at [now] is
   enabled from [now + rt] on and not before, WHATEVER is submitted or re-requested in between (no stream of
   submissions pushes it back) ... *)
(* READING for the implementation: [tstep] describes the CURRENT code (nothing re-arms a pending timer).  What C19
   needs from these theorems is the UPPER bound: the pending attempt is enabled at the latest from [now + rt]
   (resp. [now + iv]) however many submissions arrive.  C19 does not forbid an implementation that retries EARLIER
   than the failure interval (e.g. moves the attempt to one debounce interval after a genuinely new configuration);
   the only lower bound the property contains is coalescing: with nothing pending, the reload owed to a burst starts
   no earlier than one debounce interval after the burst's first submission (the "not before" clause of
   C19_debounce_not_postponed).  Accordingly the trace validation (harness oracles) accepts every deadline <= the
   model's that respects coalescing: deb-starved-by-submissions / deb-no-retry check the upper bounds,
   deb-window-cut-short the coalescing bound after a SUCCESSFUL call; no lower bound is imposed on a retry. *)
Theorem C19_retry_not_starved_by_submissions : forall iv rt s now s1 subs s2,
  tstep iv rt s (now, Fire false) = Some s1 -> no_fire (map snd subs) = true -> trun iv rt s1 subs = Some s2 ->
  t_deadline s2 = Some (now + rt)%N
  /\ (forall t ok, (now + rt <= t)%N -> exists s3, tstep iv rt s2 (t, Fire ok) = Some s3)
  /\ (forall t ok, (t < now + rt)%N -> tstep iv rt s2 (t, Fire ok) = None).
Proof. exact retry_not_starved. Qed.

(* ... and the reload owed to the first change / re-apply request of a window, taken at [now] with the timer off,
   is enabled from [now + iv] on and not before, whatever follows it in the window (leading-edge debounce) *)
Theorem C19_debounce_not_postponed : forall iv rt s now e s1 subs s2,
  timer (t_st s) = false -> is_fire e = false -> tstep iv rt s (now, e) = Some s1 -> timer (t_st s1) = true ->
  no_fire (map snd subs) = true -> trun iv rt s1 subs = Some s2 ->
  t_deadline s2 = Some (now + iv)%N
  /\ (forall t ok, (now + iv <= t)%N -> exists s3, tstep iv rt s2 (t, Fire ok) = Some s3)
  /\ (forall t ok, (t < now + iv)%N -> tstep iv rt s2 (t, Fire ok) = None).
Proof. exact debounce_not_postponed. Qed.

(* the timed model is the model above with instants added: forgetting them gives a run of [step], and every run of
   [step] has a timing (the deadlines exclude no history, so every theorem above speaks about timed histories too) *)
Theorem C19_timed_refines : forall iv rt l s,
  trun iv rt tinit l = Some s -> run init (map snd l) = Some (t_st s).
Proof. exact timed_refines. Qed.

Theorem C19_timed_total : forall iv rt l u, run init l = Some u ->
  exists tl s', map snd tl = l /\ trun iv rt tinit tl = Some s' /\ t_st s' = u.
Proof. exact timed_total. Qed.

(* a failed attempt at 30 (retry interval 50): submissions at 31..33 leave the retry at 80; a reload at 79 is not
   enabled, at 80 it is *)
Example C19_retry_deadline_example :
  let l := [(0, Submit 1); (30, Fire false); (31, Submit 2); (32, ReapplyOld); (33, Submit 3)]%N in
  option_map t_deadline (trun 30 50 tinit l) = Some (Some 80%N)
  /\ trun 30 50 tinit (l ++ [(79%N, Fire true)])%list = None
  /\ option_map (fun s => applied (t_st s)) (trun 30 50 tinit (l ++ [(80%N, Fire true)])%list) = Some (Some 3%N).
Proof. vm_compute. auto. Qed.

(* the same for the frr-k8s debouncer ([tkstep iv], Model/Debounce.v (2t)): the event owed to the first notification
   of a window is emitted from [now + iv] on and not before, however many notifications follow (the frr-k8s session
   manager notifies on EVERY NewSession / Set / Close: a steady stream must not starve the reconcile) *)
Theorem C19_k8s_debounce_not_postponed : forall iv s now s1 l s2,
  k_timer (tk_st s) = false -> tkstep iv s (now, KNotify) = Some s1 ->
  k_all_notify l = true -> tkrun iv s1 l = Some s2 ->
  tk_deadline s2 = Some (now + iv)%N
  /\ (forall t, (now + iv <= t)%N -> exists s3, tkstep iv s2 (t, KFire) = Some s3 /\ k_out (tk_st s3) = N.succ (k_out (tk_st s2)))
  /\ (forall t, (t < now + iv)%N -> tkstep iv s2 (t, KFire) = None).
Proof. exact k_debounce_not_postponed. Qed.

Theorem C19_k8s_timed_refines : forall iv l s,
  tkrun iv tkinit l = Some s -> krun kinit (map snd l) = Some (tk_st s).
Proof. exact tk_refines. Qed.

Example C19_k8s_deadline_example :
  let l := [(0, KNotify); (10, KNotify); (20, KNotify); (29, KNotify)]%N in
  option_map tk_deadline (tkrun 30 tkinit l) = Some (Some 30%N)
  /\ tkrun 30 tkinit (l ++ [(29%N, KFire)])%list = None
  /\ option_map (fun s => k_out (tk_st s)) (tkrun 30 tkinit (l ++ [(30%N, KFire)])%list) = Some 1%N.
Proof. vm_compute. auto. Qed.

(* validateReload asks for a re-apply exactly on a new time stamp with status "failure" (= 1) *)
Theorem C19_validate_reload : forall fields prev,
  snd (validate_reload fields prev) = true <-> exists ts, fields = Some [ts; 1%N] /\ ts <> prev.
Proof. exact validate_reload_spec. Qed.

(* non-vacuity: submit 1, submit 2 in the window, failing reload, retry succeeds,
   identical resubmission: two calls, both with 2, applied = 2, timer off *)
Example C19_nonvacuous :
  run init [Submit 1; Submit 2; Fire false; Fire true; Submit 2]%N
  = Some (mk_st (Some 2%N) false (Some 2%N) [(Some 2%N, true); (Some 2%N, false)]).
Proof. vm_compute. reflexivity. Qed.

Example C19_nonvacuous_not_enabled : run init [Submit 1%N; Fire true; Fire true] = None.
Proof. vm_compute. reflexivity. Qed.
