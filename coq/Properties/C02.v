(* C02 — pool membership, pool policy, explicit requests (allocator level).
   Statements only; proofs in Proofs/AllocPolicyP.v. *)
From Coq Require Import List NArith.
From Verif Require Import Model.Alloc Proofs.AllocP Proofs.AllocPolicyP.

(* in every reachable state every recorded address lies in the pool the record
   names (= the pool annotation), is not a .0/.255 address of an avoiding pool,
   and - pools being disjoint, which C08 guarantees - in no other pool *)
Theorem C02_recorded_addresses_in_named_pool : forall ops s al x,
  let a := run ops init in
  get_alloc a s = Some al -> In x (a_ips al) ->
  exists p, In p (by_name (s_pools a)) /\ p_name p = a_pool al /\ in_pool p x = true /\
            (p_avoid p = true -> buggy x = false) /\
            (pools_disjoint (by_name (s_pools a)) ->
             forall q, In q (by_name (s_pools a)) -> in_pool q x = true -> q = p).
Proof. exact recorded_addresses_in_named_pool. Qed.

(* a successful Assign records exactly the requested addresses, from a pool
   whose selectors admit the service, at most two and of different families *)
Theorem C02_assign_policy : forall a s r ips a' out,
  assign a s r ips = (a', ROk out) ->
  exists p, out = ips /\
    get_alloc a' s = Some {| a_pool := p_name p; a_ips := ips; a_ports := r_ports r; a_key := r_key r |} /\
    In p (by_name (s_pools a')) /\ (forall x, In x ips -> in_pool p x = true) /\
    compatible p r = true /\ families_distinct ips.
Proof. exact assign_policy. Qed.

(* automatic allocation (any result the implementation may report that the
   spec admits): auto-assign pool, admits the service, addresses of the pool that
   are free or shareable, families as requested, pinned pools before unpinned
   ones and by priority (0 last) *)
Theorem C02_allocate_spec_sound : forall a s r pn ips,
  names_unique (s_pools a) ->
  allocate_spec a s r (Some (pn, ips)) = true ->
  exists p, find_pool (s_pools a) pn = Some p /\ In p (by_name (s_pools a)) /\
    p_auto p = true /\ compatible p r = true /\
    (forall x, In x ips -> in_pool p x = true /\ check_sharing a s x (r_ports r) (r_key r) = true) /\
    families_ok r ips /\
    let pinned := pinned_pools (s_pools a) r in
    let unp := unpinned_pools (s_pools a) in
    ((In p pinned /\ forall q, In q pinned -> key_lt (prio_key q) (prio_key p) = true ->
                               classify a s r q <> classify a s r p)
     \/ (In p unp /\ forall q ips', In q pinned -> offer_ok a s r q ips' = false)).
Proof. exact allocate_spec_sound. Qed.

(* the owning pool of a set of addresses does not depend on map iteration order *)
Theorem C02_pool_for_order_independent : forall ps ps' ips,
  pools_disjoint ps -> ips <> [] -> (forall p, In p ps <-> In p ps') ->
  pool_for ps ips = pool_for ps' ips.
Proof. exact pool_for_order_independent. Qed.

Theorem C02_pool_coherence_step : forall a o, PoolCoh a -> PoolCoh (fst (step a o)).
Proof. exact step_PoolCoh. Qed.

(* ---- status level: whenever the controller has no pending work ---- *)
From Verif Require Import Model.Ctrl Proofs.CtrlP Proofs.CtrlWorldP Proofs.CtrlThmP.

Theorem C02_statuses_in_named_pool : forall rank evs w s o x,
  wrun rank evs world0 = Some w -> quiescent w ->
  aget (w_api w) s = Some o -> In x (o_status o) ->
  exists al p, get_alloc (c_mem (w_ctl w)) s = Some al /\
               In p (by_name (s_pools (c_mem (w_ctl w)))) /\ p_name p = a_pool al /\ in_pool p x = true /\
               (p_avoid p = true -> buggy x = false).
Proof. exact quiescent_status_in_pool. Qed.

(* a successful convergeBalancer writes the pool memory records as annotation, and that pool exists *)
Theorem C02_annotation_names_owning_pool : forall rank s a o k v,
  converge rank a s o k = CR v true -> o_lb o = true ->
  cv_status v <> [] /\ cv_annot v = pool_of (cv_mem v) s /\
  exists pn p, cv_annot v = Some pn /\ find_pool (s_pools (cv_mem v)) pn = Some p.
Proof. intros rank s a o k v. exact (converge_ok_annot rank s a o k v). Qed.

(* a LoadBalancer Service that requests specific addresses and converges holds
   exactly those (as a set); the only other outcome is the PreferDualStack gain on
   top of a single requested address, finding F22 (KNOWN-FINDING) *)
Theorem C02_explicit_ips_exact : forall rank a s o k v d,
  converge rank a s o k = CR v true -> o_lb o = true -> o_want o = WIps d ->
  same_ips (cv_status v) d \/
  (exists have x, same_ips d [have] /\ cv_status v = [have; x] /\ additional_applies (o_req o) [have] = true).
Proof. exact explicit_ips_exact. Qed.

(* ---- the selection algorithm itself ---- *)
From Coq Require Import Permutation Sorted.
From Verif Require Import Model.AllocRef Proofs.AllocSortP Proofs.AllocRefP.

(* sortPools: Go's insertionSort (what sort.Slice runs for <= 12 elements) with
   sortPools' comparator - which is not a strict weak order - returns, for every
   input, a permutation sorted by ascending priority number with priority 0 last *)
Theorem C02_sortpools_permutation : forall l, Permutation (isort go_less l) l.
Proof. exact (isort_perm go_less). Qed.
Theorem C02_sortpools_sorted : forall l,
  StronglySorted (fun x y => kle (prio_key x) (prio_key y)) (isort go_less l).
Proof. exact isort_sorted. Qed.

(* the transcription of findBestPoolForService / getFreeIPsFromPool /
   selectIPsForFamilyAndPolicy, run on the pinned pools in sortPools' order and on
   the unpinned auto-assign pools in any map-iteration order, always produces a
   result the specification admits: so the algorithm tries pinned pools by
   priority before unpinned ones, never uses a pool without auto-assignment, and
   the relation used to validate the implementation's choices is not stricter
   than the algorithm *)
Theorem C02_reference_allocator_refines_spec : forall a s r unp,
  names_unique (s_pools a) -> same_elems unp (unpinned_pools (s_pools a)) ->
  allocate_spec a s r (allocate_ref a s r (isort go_less (pinned_pools (s_pools a) r)) unp) = true.
Proof. exact allocate_ref_sortpools_refines_spec. Qed.

Definition ex_req (p : N) : req :=
  {| r_ns := 1%N; r_labels := []; r_fam := S4; r_pol := Single; r_first6 := false;
     r_ports := [ {| proto := 0%N; pnum := p |} ]; r_key := {| sharing := 0%N; backend := 0%N |} |}.
(* non-vacuity: two pinned pools, the one with priority 1 wins over priority 0 (= last) *)
Definition ex_pinned (n prio0 base : N) : pool :=
  {| p_name := n; p_cidrs := [ {| pfam := F4; pbase := base; plen := 30%N |} ]; p_avoid := false; p_auto := true;
     p_pin := Some {| prio := prio0; nss := [1%N]; sels := [] |} |}.
Example C02_reference_nonvacuous :
  let ps := {| by_name := [ex_pinned 1 0 167772160; ex_pinned 2 1 167772164];
               by_ns := [(1%N, [1%N; 2%N])]; by_sel := [] |} in
  let a := {| s_pools := ps; allocated := [] |} in
  allocate_ref a 7%N (ex_req 80) (isort go_less (pinned_pools ps (ex_req 80))) (unpinned_pools ps)
  = Some (2%N, [V4 167772164%N]).
Proof. vm_compute. reflexivity. Qed.

(* ==== status level, for every history ==== *)
From Verif Require Import Proofs.AllocMonoP Proofs.CtrlStarveP Proofs.CtrlPostP.

(* every postcondition convergeBalancer establishes for the status/annotation it
   produces holds for every Service whenever the reconciler has no pending work *)
Theorem C02_handler_postconditions_hold_at_quiescence : forall rank (post : pools -> option alloc -> svcobj -> Prop),
  (forall a s o k v ok, minv a -> converge rank a s o k = CR v ok ->
     post (s_pools a) (get_alloc (cv_mem v) s) (with_status o (cv_status v) (cv_annot v))) ->
  forall evs w, wrun rank evs world0 = Some w -> quiescent w ->
  forall s o, aget (w_api w) s = Some o -> post (s_pools (c_mem (w_ctl w))) (get_alloc (c_mem (w_ctl w)) s) o.
Proof. exact quiescent_post. Qed.

(* a Service that requests specific addresses has exactly those, or none - never
   something else (PreferDualStack on dual-stack cluster IPs excepted: finding F22) *)
Theorem C02_explicit_request_exact_at_quiescence : forall rank evs w s o d,
  wrun rank evs world0 = Some w -> quiescent w -> aget (w_api w) s = Some o ->
  o_want o = WIps d -> (is_prefer (r_pol (o_req o)) && is_dual (r_fam (o_req o))) = false ->
  o_status o = [] \/ same_ips (o_status o) d.
Proof. exact quiescent_explicit_exact. Qed.

(* the addresses in a status match the Service's IP families: one address of the
   cluster-IP family, a dual-stack pair, or under PreferDualStack at least one *)
Theorem C02_status_families_at_quiescence : forall rank evs w s o,
  wrun rank evs world0 = Some w -> quiescent w -> aget (w_api w) s = Some o -> o_status o <> [] ->
  o_lb o = true /\ family_changed (alloc_fam (o_status o)) (r_fam (o_req o)) (r_pol (o_req o)) = false.
Proof. exact quiescent_family_ok. Qed.

(* the pool annotation names a configured pool that owns every address of the
   status and whose namespace / service selectors admit the Service as it is now
   (an unparsable address request excepted: finding F19) *)
Theorem C02_status_pool_admits_service_at_quiescence : forall rank evs w s o,
  wrun rank evs world0 = Some w -> quiescent w -> aget (w_api w) s = Some o ->
  o_want o <> WInvalid -> o_status o <> [] ->
  exists p, In p (by_name (s_pools (c_mem (w_ctl w)))) /\ o_annot o = Some (p_name p) /\
            (forall x, In x (o_status o) -> in_pool p x = true) /\ compatible p (o_req o) = true.
Proof. exact quiescent_pool_admits. Qed.

(* the best-class half of the specification: the chosen pool offers the best class
   among the candidates of its list, and an unpinned pool only when no pinned one offers anything *)
Theorem C02_allocate_spec_best_class : forall a s r pn ips,
  names_unique (s_pools a) ->
  allocate_spec a s r (Some (pn, ips)) = true ->
  exists p, find_pool (s_pools a) pn = Some p /\ classify a s r p <> Nothing /\
    let pinned := pinned_pools (s_pools a) r in
    let unp := unpinned_pools (s_pools a) in
    ((In p pinned /\ classify a s r p = best_class a s r pinned) \/
     (In p unp /\ best_class a s r pinned = Nothing /\ classify a s r p = best_class a s r unp /\
      forall q, In q unp -> key_lt (prio_key q) (prio_key p) = true -> classify a s r q <> classify a s r p)).
Proof. exact allocate_spec_best_class. Qed.

(* a Service that requests a pool has an address of that pool (the annotation names
   it) or none - for configurations with uniquely named, pairwise disjoint pools (C08) *)
Theorem C02_requested_pool_at_quiescence : forall rank evs w s o wp,
  wrun rank evs world0 = Some w -> quiescent w -> aget (w_api w) s = Some o ->
  names_unique (s_pools (c_mem (w_ctl w))) -> pools_disjoint (by_name (s_pools (c_mem (w_ctl w)))) ->
  o_want_pool o = Some wp -> o_want o <> WInvalid -> o_status o = [] \/ o_annot o = Some wp.
Proof. exact quiescent_requested_pool. Qed.

(* ---- non-vacuity of the quiescence theorems, and necessity of their exceptions ---- *)
Local Open Scope N_scope.
Definition q_v6 : ip := V6 334965455017026962486023716784190783488.
Definition q_v4 : ip := V4 167772160.
Definition q_pool (n : poolid) : pool :=
  {| p_name := n; p_cidrs := [ {| pfam := F4; pbase := 167772160; plen := 30 |}; {| pfam := F6; pbase := 334965455017026962486023716784190783488; plen := 128 |} ];
     p_avoid := false; p_auto := true; p_pin := None |}.
Definition q_pools (n : poolid) : pools := {| by_name := [q_pool n]; by_ns := []; by_sel := [] |}.
Definition q_req (f : sfam) (pol : policy) (first6 : bool) (port : N) : req :=
  {| r_ns := 1; r_labels := []; r_fam := f; r_pol := pol; r_first6 := first6;
     r_ports := [ {| proto := 0; pnum := port |} ]; r_key := {| sharing := 0; backend := 0 |} |}.
Definition q_obj (r : req) (w : want) (wp : option poolid) : svcobj :=
  {| o_lb := true; o_req := r; o_cluster_ok := true; o_want := w; o_want_pool := wp; o_status := []; o_annot := None |}.
Definition q_k (c : option (poolid * list ip)) : oracle := {| k_write := true; k_final := c |}.
Definition q_six := q_obj (q_req S6 Single true 80) WNone None.
Definition q_dual (w : want) := q_obj (q_req SDual Prefer false 81) w None.
Definition q_single (w : want) := q_obj (q_req S4 Single false 81) w None.

(* a reachable quiescent world with a Service that requests an address AND a pool and holds exactly that *)
Definition pos_evs : list ev :=
  [EPools (q_pools 1); UPut 1 (q_obj (q_req S4 Single false 81) (WIps [q_v4]) (Some 1)); EReload [1] [q_k None]; ESvc 1 (q_k None)].
Example C02_quiescence_theorems_nonvacuous :
  exists w o, wrun ip_val pos_evs world0 = Some w /\ quiescent w /\ aget (w_api w) 1 = Some o /\
    o_want o = WIps [q_v4] /\ o_want_pool o = Some 1 /\ o_status o = [q_v4] /\ o_annot o = Some 1 /\
    names_unique (s_pools (c_mem (w_ctl w))) /\ pools_disjoint (by_name (s_pools (c_mem (w_ctl w)))).
Proof.
  destruct (wrun ip_val pos_evs world0) as [w|] eqn:E; [|vm_compute in E; discriminate].
  vm_compute in E. injection E as <-. eexists _, _. split; [reflexivity|]. split; [repeat split|].
  split; [reflexivity|]. repeat (split; [reflexivity|]). split.
  - unfold names_unique. cbn. repeat constructor. intros [].
  - intros p q x [<-|[]] [<-|[]] _ _. reflexivity.
Qed.

(* F22: without the PreferDualStack exception the explicit-request theorem is false of the
   faithful model: the Service requested 10.0.0.0 only, holds it, and gains the IPv6 address *)
Definition f22_evs : list ev :=
  [EPools (q_pools 1); UPut 2 q_six; EReload [2] [q_k (Some (1, [q_v6]))]; ESvc 2 (q_k None);
   UPut 1 (q_dual WNone); ESvc 1 (q_k (Some (1, [q_v4])));
   UPut 1 (q_dual (WIps [q_v4])); ESvc 1 (q_k None);
   UDel 2; ESvc 2 (q_k None); EReload [1] [q_k (Some (1, [q_v4; q_v6]))]].
Theorem C02_explicit_request_preferdual_refuted :
  exists w o, wrun ip_val f22_evs world0 = Some w /\ quiescent w /\ aget (w_api w) 1 = Some o /\
    o_want o = WIps [q_v4] /\ o_status o = [q_v4; q_v6].
Proof.
  destruct (wrun ip_val f22_evs world0) as [w|] eqn:E; [|vm_compute in E; discriminate].
  vm_compute in E. injection E as <-. eexists _, _. split; [reflexivity|]. split; [repeat split|].
  split; [reflexivity|]. split; reflexivity.
Qed.

(* F19: without the "request parsable" exception the pool-annotation theorem is false of the
   faithful model: after the pool was renamed the annotation still names a pool that no longer exists *)
Definition f19_evs : list ev :=
  [EPools (q_pools 1); UPut 1 (q_single WNone); EReload [1] [q_k (Some (1, [q_v4]))]; ESvc 1 (q_k None);
   UPut 1 (q_single WInvalid); ESvc 1 (q_k None);
   EPools (q_pools 7); EReload [1] [q_k None]].
Theorem C02_annotation_invalid_request_refuted :
  exists w o, wrun ip_val f19_evs world0 = Some w /\ quiescent w /\ aget (w_api w) 1 = Some o /\
    o_want o = WInvalid /\ o_status o = [q_v4] /\ o_annot o = Some 1 /\
    map p_name (by_name (s_pools (c_mem (w_ctl w)))) = [7].
Proof.
  destruct (wrun ip_val f19_evs world0) as [w|] eqn:E; [|vm_compute in E; discriminate].
  vm_compute in E. injection E as <-. eexists _, _. split; [reflexivity|]. split; [repeat split|].
  repeat (split; [reflexivity|]). reflexivity.
Qed.
