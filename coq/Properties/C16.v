(* C16 — Native BGP wire format.  Statements only; proofs in Proofs/WireP.v,
   Proofs/WireReadP.v (and Proofs/WireP_prefix.v for the pre-fix model).
   [enc_*] transcribe sendOpen / sendUpdate / sendWithdraw / sendKeepalive of
   internal/bgp/native/messages.go ([None] = an error is returned), [read_open]
   transcribes readOpen; [dec_msg] is an independent RFC 4271 decoder.
   [wf_uparams], [wf_ip4], [wf_prefix] are what the Go parameter types
   guarantee (uint32 / uint16 ranges, 4-byte addresses, prefix length <= 32). *)
From Coq Require Import List NArith Bool.
From Verif Require Import Model.Wire Proofs.WireP Proofs.WireReadP Proofs.WireDecP Proofs.WireP_prefix.
Import ListNotations.
Local Open Scope N_scope.

(* OPEN: AS_TRANS + 4-octet capability above 65535, hold time, router id,
   capabilities MP IPv4/IPv6 unicast; 49 octets, length field = bytes written *)
Theorem C16_open_roundtrip : forall asn rid hold bs w4,
  asn < 4294967296 -> wf_ip4 rid -> hold < 65536 -> (hold = 0 \/ 3 <= hold) ->
  enc_open asn rid hold = Some bs ->
  dec_msg w4 bs = Some (intended_open asn rid hold) /\ wfb bs /\ hdr_len bs = len bs /\ len bs = 49.
Proof. exact open_roundtrip. Qed.

Theorem C16_open_total : forall asn rid hold, enc_open asn rid hold <> None.
Proof. exact enc_open_total. Qed.

(* UPDATE: for every prefix length 0..32 and arbitrary address bits, every asn,
   iBGP/eBGP x 4-octet capable or not, every 4-byte next hop, local-pref and
   community list: whenever sendUpdate writes a message, the independent decoder
   reads back exactly ORIGIN=IGP, AS_PATH ([] / [asn], AS numbers 2 or 4 octets
   wide according to [fbasn]), NEXT_HOP, LOCAL_PREF iff iBGP, COMMUNITIES, NLRI =
   (len, first ceil(len/8) octets); all octets < 256; length field = bytes written *)
Theorem C16_update_roundtrip : forall asn ibgp fbasn nh a bs,
  wf_uparams asn nh a -> enc_update asn ibgp fbasn nh a = Some bs ->
  dec_msg fbasn bs = Some (intended_update asn ibgp nh a) /\ wfb bs /\ hdr_len bs = len bs.
Proof. exact update_roundtrip. Qed.

(* sendUpdate returns an error exactly in the documented cases *)
Theorem C16_update_error_cases : forall asn ibgp fbasn nh a,
  wf_uparams asn nh a ->
  (enc_update asn ibgp fbasn nh a = None <->
   (ibgp = false /\ fbasn = false /\ 65535 < asn) \/ 63 < len (a_comms a) \/ forallb is_legacy (a_comms a) = false).
Proof. exact enc_update_none. Qed.

(* bytesForBits is ceil(n/8): for all n, and (independently) by exhaustive
   evaluation on the prefix lengths 0..32 *)
Theorem C16_bytes_for_bits : forall n, bytes_for_bits n = (n + 7) / 8.
Proof. exact bytes_for_bits_spec. Qed.
Theorem C16_bytes_for_bits_0_32 :
  forallb (fun n => bytes_for_bits n =? (n + 7) / 8) (map N.of_nat (seq 0 33)) = true.
Proof. exact bytes_for_bits_0_32. Qed.

(* F11 (KNOWN-FINDING update-nexthop-16-bytes-on-ipv6-transport): the premise
   "4-byte next hop" of C16_update_roundtrip cannot be dropped *)
Theorem C16_update_roundtrip_nexthop16_refuted :
  exists asn ibgp fbasn nh a bs, asn < 4294967296 /\ wf_adv a /\ wfb nh /\ length nh = 16%nat /\
    enc_update asn ibgp fbasn nh a = Some bs /\ dec_msg fbasn bs = None.
Proof. exact nexthop16_refuted. Qed.

(* withdraw.  Full statement
     forall ps bs w4, Forall wf_prefix ps -> enc_withdraw ps = Some bs ->
       dec_msg w4 bs = Some (intended_withdraw ps) /\ ...
   is refuted (KNOWN-FINDING withdraw-exceeds-4096-octets): all prefixes go into
   one message, which may exceed the RFC 4271 maximum of 4096 octets *)
Theorem C16_withdraw_roundtrip_refuted :
  exists ps bs, Forall wf_prefix ps /\ enc_withdraw ps = Some bs /\ wfb bs /\ hdr_len bs = len bs /\
                4096 < len bs /\ dec_msg true bs = None.
Proof. exact withdraw_roundtrip_refuted. Qed.

(* strongest true statement: up to 814 prefixes (23 + 5*814 = 4093 octets) *)
Theorem C16_withdraw_roundtrip_partial : forall ps bs w4,
  Forall wf_prefix ps -> len ps <= 814 -> enc_withdraw ps = Some bs ->
  dec_msg w4 bs = Some (intended_withdraw ps) /\ wfb bs /\ hdr_len bs = len bs.
Proof. exact withdraw_roundtrip_partial. Qed.

Theorem C16_keepalive_wf : forall w4,
  exists bs, enc_keepalive = Some bs /\ dec_msg w4 bs = Some MKeepalive /\ wfb bs /\ hdr_len bs = len bs /\ len bs = 19.
Proof. exact keepalive_wf. Qed.

(* readOpen, ALL byte strings: a total function (no panic / hang: by
   construction) that consumes nothing beyond the stream, and nothing beyond the
   announced message length (the 19 header octets are always read) *)
Theorem C16_read_open_bounded : forall bs,
  snd (read_open bs) <= len bs /\ (19 <= len bs -> snd (read_open bs) <= N.max 19 (hdr_len bs)).
Proof. exact read_open_bounded. Qed.

(* readOpen on every well-formed OPEN (version 4, hold time 0 or >= 3, any
   capability list in any number of capability parameters; [dec_msg] accepts its
   serialization by C16_dec_ser), followed by ANY further bytes on the stream:
   success, the result is [understood o] (AS number: the last 4-octet capability
   wins over the 2-octet field; hold time; MP IPv4/IPv6; 4-octet support), and
   exactly the message is consumed.  [caps_only p]: p is a capability parameter
   whose known capabilities (codes 1, 65) have their RFC length 4. *)
Theorem C16_read_open_correct : forall o extra,
  wf_msg true (MOpen o) -> Forall caps_only (o_params o) ->
  read_open (ser_msg true (MOpen o) ++ extra) = (ROk (understood o), len (ser_msg true (MOpen o))).
Proof. exact read_open_correct. Qed.

(* the same, quantified over EVERY byte string (octets < 256) that the
   independent decoder accepts as an OPEN with capability parameters only: the
   decoder is injective on OPENs (C16_dec_open_inv), so this covers exactly the
   well-formed OPENs *)
Theorem C16_read_open_correct_dec : forall bs o extra,
  wfb bs -> dec_msg true bs = Some (MOpen o) -> Forall is_pcaps (o_params o) ->
  read_open (bs ++ extra) = (ROk (understood o), len bs).
Proof. exact read_open_correct_dec. Qed.

Theorem C16_dec_open_inv : forall w4 bs o, wfb bs -> dec_msg w4 bs = Some (MOpen o) ->
  bs = ser_msg w4 (MOpen o) /\ wf_msg w4 (MOpen o).
Proof. exact dec_open_inv. Qed.

(* the independent decoder inverts the RFC serializer on every well-formed
   message (ties [ser_msg], used below to quantify over well-formed OPENs, to
   [dec_msg]) *)
Theorem C16_dec_ser : forall w4 m, wf_msg w4 m -> dec_msg w4 (ser_msg w4 m) = Some m.
Proof. exact dec_ser. Qed.

(* regression of the model before the fix: commits (4cdd426, 3bb171f) *)
Theorem C16_read_open_correct_refuted_prefix :
  exists o, wf_msg true (MOpen o) /\ dec_msg true (ser_msg true (MOpen o)) = Some (MOpen o) /\
            fst (read_open_prefix (ser_msg true (MOpen o))) = RErr EOther.
Proof. exact read_open_correct_refuted_prefix. Qed.
Theorem C16_read_open_bounded_refuted_prefix :
  exists bs, 19 <= len bs /\ snd (read_open_prefix bs) = 21 /\ nth 16 bs 0 * 256 + nth 17 bs 0 = 19.
Proof. exact read_open_bounded_refuted_prefix. Qed.

(* non-vacuity *)
Example C16_nonvacuous_update :
  enc_update 65536 false true [10; 0; 0; 2]
    {| a_pfx := {| p_ip := [192; 168; 1; 255]; p_len := 23 |}; a_lp := 0; a_comms := [CLegacy 64512 100] |}
  = Some (marker ++ [0; 54; 2; 0; 0; 0; 27; 64; 1; 1; 0; 64; 2; 6; 2; 1; 0; 1; 0; 0; 64; 3; 4; 10; 0; 0; 2;
                     192; 8; 4; 252; 0; 0; 100; 23; 192; 168; 1]).
Proof. vm_compute. reflexivity. Qed.
