(* C16 — Native BGP wire format.  Statements only; proofs in Proofs/WireP.v,
   Proofs/WireReadP.v (and Proofs/WireP_prefix.v for the pre-fix model).
   [enc_*] transcribe sendOpen / sendUpdate / sendWithdraw / sendKeepalive of
   internal/bgp/native/messages.go ([None] = an error is returned), [read_open]
   transcribes readOpen; [dec_msg] is an independent RFC 4271 decoder.
   PREMISES.  [wf_uparams], [wf_prefix], the numeric bounds: uint32 / uint16
   ranges and prefix length <= 32 ARE guaranteed by the Go parameter types
   (uint32, uint16, net.CIDRMask(_, 32), IP.To4()).  NOT guaranteed by a type:
   * the 4-byte NEXT HOP ([wf_ip4 nh] inside [wf_uparams]): nextHop is a net.IP
     and may be 16 bytes long -- that is exactly finding F11 (IPv6 transport,
     C16_update_roundtrip_nexthop16_refuted) and the seeded change C16-5; today
     connect() passes the 4-byte local address of an IPv4 connection;
   * the hold time being 0 or >= 3 (sendOpen writes 1 or 2 as they are, [dec_msg]
     then refuses the OPEN): guaranteed upstream by config.parseTimers;
   * the router id being IPv4: sendOpen panics otherwise ([rid] is To4()).
   "Reading a peer's OPEN never panics / hangs": [read_open] is a TOTAL Coq
   function on a FINITE in-memory byte list in which end of input is io.EOF.  That
   is all the Coq side says; a blocking socket and the 10 s deadline set by
   connect() are outside the model.  The formal proxy for "the two for{} loops
   terminate" is C16_read_fuel_adequate; the rest (recover, reader-call budget on
   every generated input) is the Go oracle. *)
From Coq Require Import List NArith Bool.
From Verif Require Import Model.Wire Proofs.WireP Proofs.WireReadP Proofs.WireDecP Proofs.WireSizeP Proofs.WireAcceptP Proofs.WireP_prefix.
Import ListNotations.
Local Open Scope N_scope.

(* OPEN: AS_TRANS + 4-octet capability above 65535, hold time, router id,
   capabilities MP IPv4/IPv6 unicast; 49 octets, length field = bytes written *)
Theorem C16_open_roundtrip : forall asn rid hold bs w4,
  asn < 4294967296 -> wf_ip4 rid -> hold < 65536 -> (hold = 0 \/ 3 <= hold) ->
  enc_open asn rid hold = Some bs ->
  dec_msg w4 bs = Some (intended_open asn rid hold) /\ wfb bs /\ hdr_len bs = len bs /\ len bs = 49.
Proof. exact open_roundtrip. Qed.

(* (by definition: [enc_open] is literally [Some ...]; documents that
   binary.Size(msg) = 49 always fits the length field) *)
Theorem C16_open_total : forall asn rid hold, enc_open asn rid hold <> None.
Proof. exact enc_open_total. Qed.

(* UPDATE: for every prefix length 0..32 and arbitrary address bits, every asn,
   iBGP/eBGP x 4-octet capable or not, every 4-byte next hop, local-pref and
   community list: whenever sendUpdate writes a message, the independent decoder
   reads back exactly ORIGIN=IGP, AS_PATH ([] / [asn], AS numbers 2 or 4 octets
   wide according to [fbasn]), NEXT_HOP, LOCAL_PREF iff iBGP, COMMUNITIES, NLRI =
   (len, first ceil(len/8) octets); all octets < 256; length field = bytes written *)
Theorem C16_update_roundtrip : forall asn ibgp fbasn nh a bs,
  wf_uparams asn nh a -> enc_update asn ibgp fbasn nh a = Some bs ->
  dec_msg fbasn bs = Some (intended_update asn ibgp nh a) /\ wfb bs /\ hdr_len bs = len bs.
Proof. exact update_roundtrip. Qed.

(* sendUpdate returns an error exactly in the documented cases *)
Theorem C16_update_error_cases : forall asn ibgp fbasn nh a,
  wf_uparams asn nh a ->
  (enc_update asn ibgp fbasn nh a = None <->
   (ibgp = false /\ fbasn = false /\ 65535 < asn) \/ 63 < len (a_comms a) \/ forallb is_legacy (a_comms a) = false).
Proof. exact enc_update_none. Qed.

(* bytesForBits is ceil(n/8): for all n, and (independently) by exhaustive
   evaluation on the prefix lengths 0..32 *)
Theorem C16_bytes_for_bits : forall n, bytes_for_bits n = (n + 7) / 8.
Proof. exact bytes_for_bits_spec. Qed.
Theorem C16_bytes_for_bits_0_32 :
  forallb (fun n => bytes_for_bits n =? (n + 7) / 8) (map N.of_nat (seq 0 33)) = true.
Proof. exact bytes_for_bits_0_32. Qed.

(* F11 (KNOWN-FINDING update-nexthop-16-bytes-on-ipv6-transport): the premise
   "4-byte next hop" of C16_update_roundtrip cannot be dropped *)
Theorem C16_update_roundtrip_nexthop16_refuted :
  exists asn ibgp fbasn nh a bs, asn < 4294967296 /\ wf_adv a /\ wfb nh /\ length nh = 16%nat /\
    enc_update asn ibgp fbasn nh a = Some bs /\ dec_msg fbasn bs = None.
Proof. exact nexthop16_refuted. Qed.

(* withdraw.  Full statement
     forall ps bs w4, Forall wf_prefix ps -> enc_withdraw ps = Some bs ->
       dec_msg w4 bs = Some (intended_withdraw ps) /\ ...
   is refuted (KNOWN-FINDING withdraw-exceeds-4096-octets): all prefixes go into
   one message, which may exceed the RFC 4271 maximum of 4096 octets *)
Theorem C16_withdraw_roundtrip_refuted :
  exists ps bs, Forall wf_prefix ps /\ enc_withdraw ps = Some bs /\ wfb bs /\ hdr_len bs = len bs /\
                4096 < len bs /\ dec_msg true bs = None.
Proof. exact withdraw_roundtrip_refuted. Qed.

(* strongest true statement: up to 814 prefixes (23 + 5*814 = 4093 octets) *)
Theorem C16_withdraw_roundtrip_partial : forall ps bs w4,
  Forall wf_prefix ps -> len ps <= 814 -> enc_withdraw ps = Some bs ->
  dec_msg w4 bs = Some (intended_withdraw ps) /\ wfb bs /\ hdr_len bs = len bs.
Proof. exact withdraw_roundtrip_partial. Qed.

Theorem C16_keepalive_wf : forall w4,
  exists bs, enc_keepalive = Some bs /\ dec_msg w4 bs = Some MKeepalive /\ wfb bs /\ hdr_len bs = len bs /\ len bs = 19.
Proof. exact keepalive_wf. Qed.

(* readOpen, ALL byte strings (finite, in memory; see the header for what
   "never panics / hangs" means here): consumes nothing beyond the stream, and
   nothing beyond the announced message length (the 19 header octets are always
   read) *)
Theorem C16_read_open_bounded : forall bs,
  snd (read_open bs) <= len bs /\ (19 <= len bs -> snd (read_open bs) <= N.max 19 (hdr_len bs)).
Proof. exact read_open_bounded. Qed.

(* readOpen on every well-formed OPEN (version 4, hold time 0 or >= 3, any
   capability list in any number of capability parameters; [dec_msg] accepts its
   serialization by C16_dec_ser), followed by ANY further bytes on the stream:
   success, the result is [understood o] (AS number: the last 4-octet capability
   wins over the 2-octet field; hold time; MP IPv4/IPv6; 4-octet support), and
   exactly the message is consumed.  [caps_only p]: p is a capability parameter
   whose known capabilities (codes 1, 65) have their RFC length 4. *)
Theorem C16_read_open_correct : forall o extra,
  wf_msg true (MOpen o) -> Forall caps_only (o_params o) ->
  read_open (ser_msg true (MOpen o) ++ extra) = (ROk (understood o), len (ser_msg true (MOpen o))).
Proof. exact read_open_correct. Qed.

(* the same, quantified over EVERY byte string (octets < 256) that the
   independent decoder accepts as an OPEN with capability parameters only: the
   decoder is injective on OPENs (C16_dec_open_inv), so this covers exactly the
   well-formed OPENs WITH CAPABILITY PARAMETERS ONLY (an OPEN with any other
   optional-parameter type is rejected by readOptions: "unknown BGP option type").
   [understood] mirrors one quirk of the code instead of the RFC: an MP capability
   counts only when its reserved octet is 0 ([cap_is_mp] compares {reserved, SAFI}
   as one 16-bit number, like readCapabilities; RFC 4760 says the octet should be
   ignored).  mp4/mp6 are not used by the session. *)
Theorem C16_read_open_correct_dec : forall bs o extra,
  wfb bs -> dec_msg true bs = Some (MOpen o) -> Forall is_pcaps (o_params o) ->
  read_open (bs ++ extra) = (ROk (understood o), len bs).
Proof. exact read_open_correct_dec. Qed.

Theorem C16_dec_open_inv : forall w4 bs o, wfb bs -> dec_msg w4 bs = Some (MOpen o) ->
  bs = ser_msg w4 (MOpen o) /\ wf_msg w4 (MOpen o).
Proof. exact dec_open_inv. Qed.

(* the exact acceptance set of readOpen (octets < 256): it accepts a stream iff
   it is a header announcing L < 65536, type OPEN, version 4, a legal hold time,
   ANY option-length octet, then capability parameters whose known capabilities
   are 4 octets long, reaching exactly the announced length (anything may
   follow) -- or fewer, with the stream ending there.  It then reports
   [understood] and consumes 29 + |parameters| octets (C16_read_open_stream). *)
Theorem C16_read_open_accepts_iff : forall bs, wfb bs ->
  ((exists r n, read_open bs = (ROk r, n)) <->
   (exists L asn16 hold id optlen ps extra,
      bs = open_stream L asn16 hold id optlen ps extra /\ open_stream_ok L asn16 hold id ps extra)).
Proof. exact read_open_accepts_iff. Qed.

Theorem C16_read_open_stream : forall L asn16 hold id optlen ps extra,
  open_stream_ok L asn16 hold id ps extra ->
  read_open (open_stream L asn16 hold id optlen ps extra) =
  (ROk (understood {| o_ver := 4; o_asn := asn16; o_hold := hold; o_id := id; o_params := ps |}),
   29 + len (concat (map ser_param ps))).
Proof. exact read_open_stream. Qed.

(* ... which is strictly more liberal than RFC 4271 (what [dec_msg] accepts):
   a wrong Opt Parm Len octet is not noticed, and a stream ending at a parameter
   boundary before the announced length is taken as a complete OPEN *)
Theorem C16_read_open_more_liberal :
  (exists bs r n, wfb bs /\ read_open bs = (ROk r, n) /\ dec_msg true bs = None /\ hdr_len bs = len bs) /\
  (exists bs r n, wfb bs /\ read_open bs = (ROk r, n) /\ len bs < hdr_len bs).
Proof. exact read_open_more_liberal. Qed.

(* sizes: whatever the decoder accepts is 19..4096 octets with an exact length
   field; every UPDATE sendUpdate writes is within the limit; sendWithdraw's
   message has 23 + (octets of the prefixes) octets and its round trip holds
   EXACTLY when that is <= 4096 (the whole shape of the finding) *)
Theorem C16_dec_msg_size : forall w4 bs m, dec_msg w4 bs = Some m ->
  19 <= len bs <= 4096 /\ (wfb bs -> hdr_len bs = len bs).
Proof. exact dec_msg_size. Qed.

Theorem C16_update_size : forall asn ibgp fbasn nh a bs,
  wf_uparams asn nh a -> enc_update asn ibgp fbasn nh a = Some bs -> 19 <= len bs <= 4096.
Proof. exact enc_update_size. Qed.

Theorem C16_withdraw_roundtrip_iff : forall ps bs w4, Forall wf_prefix ps -> enc_withdraw ps = Some bs ->
  (dec_msg w4 bs = Some (intended_withdraw ps) <-> len bs <= 4096) /\ wfb bs /\ hdr_len bs = len bs.
Proof. exact withdraw_roundtrip_iff. Qed.

Theorem C16_withdraw_len : forall ps bs, enc_withdraw ps = Some bs ->
  len bs = 23 + len (concat (map enc_prefix ps)).
Proof. exact enc_withdraw_len. Qed.

(* what the prefix octets MEAN, for every length 0..32 and arbitrary address
   bits: the network a receiver installs (octets padded with zeros, bits beyond
   the length cleared) is the intended address masked to the length; and bit by
   bit, each of the first [len] address bits is in the NLRI at its place *)
Theorem C16_nlri_network : forall p, wf_prefix p ->
  nlri_network (intended_nlri p) = mask_to (p_len p) (addr_val (p_ip p)).
Proof. exact nlri_network_spec. Qed.

Theorem C16_nlri_bits : forall p i, wf_prefix p -> i < p_len p ->
  bit_at (snd (intended_nlri p)) i = bit_at (p_ip p) i.
Proof. exact nlri_bits_spec. Qed.

(* capability precedence, spelled out: whatever the 2-octet "My AS" field says --
   AS_TRANS (23456), the number the reader expects, or anything else -- the AS
   number understood from an OPEN is the one of its last 4-octet capability.
   With C16_read_open_correct this is what readOpen reports (seeded C17-11: an
   override only when the field is AS_TRANS lets a peer with another AS in). *)
Theorem C16_capability_as_wins : forall asn16 hold id cs1 cs2 a,
  a < 4294967296 -> (forall c, In c cs2 -> cap_as4 c = None) ->
  r_asn (understood {| o_ver := 4; o_asn := asn16; o_hold := hold; o_id := id;
                       o_params := [PCaps (cs1 ++ {| c_code := 65; c_val := u32 a |} :: cs2)] |}) = a.
Proof. exact understood_asn_last_as4. Qed.

Example C16_field_expected_capability_other :
  fst (read_open (marker ++ [0; 43; 1; 4; 253; 231; 0; 90; 10; 0; 0; 2; 14; 2; 12; 1; 4; 0; 1; 0; 1; 65; 4; 0; 1; 17; 112]))
  = ROk {| r_asn := 70000; r_hold := 90; r_mp4 := true; r_mp6 := false; r_fbasn := true |}.
Proof. vm_compute. reflexivity. Qed.

(* fuel adequacy: the fuelled transcriptions of readOptions / readCapabilities
   give the same answer for every fuel above the number of octets left on the
   stream (each continuing iteration consumes >= 2 octets), so their "out of
   fuel" branch never answers in [read_open], which starts them with S (length s) *)
Theorem C16_read_fuel_adequate : forall s n1 n2 r extra,
  read_caps (S (length s) + extra) s n1 n2 r = read_caps (S (length s)) s n1 n2 r /\
  read_opts (S (length s) + extra) s n1 r = read_opts (S (length s)) s n1 r.
Proof. exact read_fuel_adequate. Qed.

(* the independent decoder inverts the RFC serializer on every well-formed
   message (ties [ser_msg], used below to quantify over well-formed OPENs, to
   [dec_msg]) *)
Theorem C16_dec_ser : forall w4 m, wf_msg w4 m -> dec_msg w4 (ser_msg w4 m) = Some m.
Proof. exact dec_ser. Qed.

(* regression of the model before the fix: commits (4cdd426, 3bb171f) *)
Theorem C16_read_open_correct_refuted_prefix :
  exists o, wf_msg true (MOpen o) /\ dec_msg true (ser_msg true (MOpen o)) = Some (MOpen o) /\
            fst (read_open_prefix (ser_msg true (MOpen o))) = RErr EOther.
Proof. exact read_open_correct_refuted_prefix. Qed.
Theorem C16_read_open_bounded_refuted_prefix :
  exists bs, 19 <= len bs /\ snd (read_open_prefix bs) = 21 /\ nth 16 bs 0 * 256 + nth 17 bs 0 = 19.
Proof. exact read_open_bounded_refuted_prefix. Qed.

(* non-vacuity *)
Example C16_nonvacuous_update :
  enc_update 65536 false true [10; 0; 0; 2]
    {| a_pfx := {| p_ip := [192; 168; 1; 255]; p_len := 23 |}; a_lp := 0; a_comms := [CLegacy 64512 100] |}
  = Some (marker ++ [0; 54; 2; 0; 0; 0; 27; 64; 1; 1; 0; 64; 2; 6; 2; 1; 0; 1; 0; 0; 64; 3; 4; 10; 0; 0; 2;
                     192; 8; 4; 252; 0; 0; 100; 23; 192; 168; 1]).
Proof. vm_compute. reflexivity. Qed.

(* reader o writer, with further bytes on the stream: non-vacuity of
   C16_open_roundtrip and C16_read_open_correct together *)
Example C16_nonvacuous_read_of_written_open :
  match enc_open 70000 [10; 0; 0; 1] 90 with
  | Some bs => read_open (bs ++ [1; 2; 3]) =
               (ROk {| r_asn := 70000; r_hold := 90; r_mp4 := true; r_mp6 := true; r_fbasn := true |}, 49)
  | None => False
  end.
Proof. vm_compute. reflexivity. Qed.
