(* C17 — Native BGP session convergence.  Statements only; proofs in
   Proofs/SessionP.v and Proofs/SessionWireP.v.
   Model/Session.v: every step is one critical section of s.mu in native.go;
   [run c world0 es = Some w] ranges over ALL finite interleavings of Set calls,
   handshakes (accepted / refused), first and diff flushes in ANY map iteration
   order with a write failure after ANY number of messages, reader-observed
   drops, keepalive failures, peer-side drops and Close.
   PARTIAL.  What IS proved about "converges": SAFETY (C17_stable_table_is_last_set:
   whenever the connection is up on both sides and the sender is idle, the peer's
   table is the last Set) and ENABLEDNESS (C17_sender_progress: from every
   reachable state with the connection up on both sides, at most one sender step
   -- enabled right there -- reaches such a state, with no new Set).  What is NOT
   proved, because it is not in the model: that the Go scheduler runs the sender
   goroutine, that TCP lets its write complete, real time (hold timer, keepalive
   cadence).  These are observed by the harness with timeouts only.
   ASSUMPTIONS of the model, beyond "one step = one critical section of s.mu":
   * keys (Advertisement.Prefix.String()) are in bijection with the NLRI on the
     wire ([nlri_inj], Proofs/SessionWireP.v).  Two advertisements whose addresses
     differ only beyond the mask (10.0.0.1/24, 10.0.0.0/24) are two keys but one
     route (C17_alias_example); the callers mask addresses (bgp_controller.go:
     lbIP.Mask(m)), Set/validate do not check it;
   * the peer applies every message it is sent.  At byte level this holds for
     UPDATEs (C17_established_update_decodes) and for a withdraw of up to 814
     routes (C17_withdraw_bridge); ONE diff that withdraws more gives a message
     longer than 4096 octets which a conforming peer rejects
     (C17_stable_table_bytes_refuted = finding withdraw-exceeds-4096-octets), so
     C17_stable_table_is_last_set speaks about a lenient peer there.
   Theorems marked "(by definition)" unfold a definition of the model (the
   transcription of connect() etc.); their tie to the code is the per-run trace
   replay, not the theorem. *)
From Coq Require Import List NArith Bool.
From Verif Require Import Model.Wire Model.Session Proofs.WireP Proofs.WireSizeP Proofs.SessionP Proofs.SessionWireP.
Import ListNotations.
Local Open Scope N_scope.

(* the invariant I holds initially and is preserved by every step *)
Theorem C17_invariant : forall c es w, run c world0 es = Some w -> Inv c w.
Proof. intros c es w H. exact (run_inv c es world0 w (inv0 c) H). Qed.

(* abort (write failure, reader-observed drop, keepalive failure, Close) folds
   the pending set: afterwards advertised = the last Set, nothing pending *)
Theorem C17_abort_folds : forall c w, Inv c w ->
  pending (abort (ws w)) = None /\ teq (advertised (abort (ws w))) (desired w) /\ conn (abort (ws w)) = None.
Proof. exact abort_folds. Qed.

(* SAFETY half of convergence (was named C17_converges): whenever a history ends
   with the connection up on both sides, the first flush done and nothing
   pending, the peer's table is the last Set.  Peer = lenient about message size,
   see the header. *)
Theorem C17_stable_table_is_last_set : forall c es w, run c world0 es = Some w -> stable w ->
  forall k, In k (universe c) -> ptable (wp w) k = last_set es empty k.
Proof. exact converges_last_set. Qed.

(* ENABLEDNESS half: from every reachable state with the connection up on both
   sides (the peer is reading), at most ONE sender step -- a complete flush,
   enabled in that very state -- leads to a stable state, without any new Set,
   and there the peer's table is the last Set.  Not proved (not in the model):
   that the sender goroutine is scheduled and its TCP write completes. *)
Theorem C17_sender_progress : forall c es w id, run c world0 es = Some w ->
  conn (ws w) = Some id -> up (wp w) = Some id ->
  exists es' w', (length es' <= 1)%nat /\ Forall is_full_flush es' /\
                 run c w es' = Some w' /\ stable w' /\
                 forall k, In k (universe c) -> ptable (wp w') k = last_set es empty k.
Proof. exact sender_progress_reachable. Qed.

(* byte level of the model's [MWdr ks]: a conforming peer reads the one
   sendWithdraw message back exactly when it is <= 4096 octets, guaranteed up to
   814 routes per diff ... *)
Theorem C17_withdraw_bridge : forall (kp : key -> prefix) (ks : list key) bs w4,
  (forall k, wf_prefix (kp k)) -> enc_withdraw (map kp ks) = Some bs ->
  (dec_msg w4 bs = Some (intended_withdraw (map kp ks)) <-> len bs <= 4096) /\
  (len ks <= 814 -> len bs <= 4096).
Proof. exact withdraw_bridge. Qed.

(* ... and beyond that C17_stable_table_is_last_set is FALSE for a conforming
   peer (finding withdraw-exceeds-4096-octets): a reachable state whose next
   flush is one withdraw of 815 host routes that the RFC decoder rejects *)
Theorem C17_stable_table_bytes_refuted :
  exists w ks bs, run cfg815 world0 es815 = Some w /\
    emitted cfg815 w (EDiffFlush keys815 keys815 None) = [MWdr ks] /\ len ks = 815 /\
    Forall wf_prefix (map host_prefix ks) /\
    enc_withdraw (map host_prefix ks) = Some bs /\ 4096 < len bs /\ dec_msg true bs = None.
Proof. exact stable_table_bytes_refuted. Qed.

(* keys vs NLRI: two different keys that are one route on the wire (the model
   assumes this does not happen, [nlri_inj]) *)
Theorem C17_alias_example :
  let p1 := {| p_ip := [10; 0; 0; 1]; p_len := 24 |} in
  let p2 := {| p_ip := [10; 0; 0; 0]; p_len := 24 |} in
  p1 <> p2 /\ wf_prefix p1 /\ wf_prefix p2 /\
  nlri_network (intended_nlri p1) = nlri_network (intended_nlri p2) /\ enc_prefix p1 = enc_prefix p2.
Proof. exact alias_example. Qed.

(* (by definition: [step] admits a handshake only with acc = [hs_accept], which
   starts with asn =? peer_asn)  a peer presenting an unexpected AS number is
   refused and nothing changes *)
Theorem C17_wrong_asn_refused : forall c w id asn fb acc w',
  step c w (EHandshake id asn fb acc) = Some w' -> asn <> peer_asn c -> acc = false /\ w' = w.
Proof. exact wrong_asn_refused. Qed.

(* after Close no step writes a message, the session stays closed and
   disconnected, and the peer's table is not touched by the session (needs the
   invariant: closed -> no connection); the conjunct [dials e = false] is by
   definition: [step] returns None for handshake / dial events when closed *)
Theorem C17_closed_silent : forall c w e w', Inv c w -> closed (ws w) = true -> step c w e = Some w' ->
  closed (ws w') = true /\ conn (ws w') = None /\ emitted c w e = [] /\ dials e = false /\
  wp w' = match e with EPeerDrop => wp w' | _ => wp w end.
Proof. exact closed_silent. Qed.

(* (the conjunct about [dials] is by definition of [step]; [run_emitted = []] and
   closed/conn are not)
   ... over all interleavings of Close with everything else, including
   handshake steps attempted after it: once the Close step has happened nothing
   is written and nothing dials (connect's dial + OPEN exchange + accepting
   KEEPALIVE is ONE critical section, so it is entirely before or entirely
   refused after Close) *)
Theorem C17_no_message_after_close : forall c es1 es2 w,
  run c world0 (es1 ++ EClose :: es2) = Some w ->
  exists w1, run c world0 (es1 ++ [EClose]) = Some w1 /\ closed (ws w1) = true /\
             run_emitted c w1 es2 = [] /\ forallb (fun e => negb (dials e)) es2 = true /\
             closed (ws w) = true /\ conn (ws w) = None.
Proof. exact no_message_after_close. Qed.

(* (C17_session_hold_spec is by definition of [session_hold] / [keepalive_period],
   the transcription of NewSession / sendKeepalives, tied to the code by TOpen /
   TKeepalive in the replay)
   the OPEN the session writes carries the CONFIGURED AS number and hold time:
   90 s only for an unset (nil) hold time; an explicit 0 is sent as 0 and there
   is then no keepalive timer *)
Theorem C17_session_open_decodes : forall c rid bs w4,
  my_asn c < 4294967296 -> wf_ip4 rid -> session_hold c < 65536 -> (session_hold c = 0 \/ 3 <= session_hold c) ->
  enc_open (my_asn c) rid (session_hold c) = Some bs ->
  dec_msg w4 bs = Some (intended_open (my_asn c) rid (session_hold c)).
Proof. exact session_open_decodes. Qed.

Theorem C17_session_hold_spec : forall c,
  (cfg_hold c = None -> session_hold c = 90) /\
  (forall h, cfg_hold c = Some h -> session_hold c = h) /\
  (cfg_hold c = Some 0 -> forall ph, keepalive_period c ph = None).
Proof. exact session_hold_spec. Qed.

(* backoff.go as used by run(): the first retry of a streak is immediate, then
   1 s, doubling, capped at 2 minutes; delays never decrease within a streak; a
   successful connect (Reset) starts afresh *)
Theorem C17_backoff_delay_spec : forall k,
  bo_delay k = match k with O => 0 | S j => N.min (1000 * 2 ^ N.of_nat j) bo_max end.
Proof. exact backoff_delay_spec. Qed.

Theorem C17_backoff_monotone : forall k, bo_delay k <= bo_delay (S k) /\ bo_delay k <= bo_max.
Proof. exact backoff_monotone. Qed.

Theorem C17_backoff_reset : forall ops1 ops2 b,
  bo_run b (ops1 ++ false :: ops2) = bo_run b ops1 ++ bo_run bo_reset ops2.
Proof. exact backoff_reset. Qed.

Theorem C17_backoff_streak : forall k, bo_run bo_reset (repeat true k) = map bo_delay (seq 0 k).
Proof. exact backoff_streak. Qed.

(* a Set that returns an error (validate) leaves the session, in particular a
   pending accepted request, unchanged: inserted anywhere in a history it changes
   neither the state reached nor the set the peer must converge to.
   (C17_rejected_set_keeps_pending is by definition of [step]; its tie to the code
   is the white-box step OSetInvalid and the schedules that inject invalid Sets
   while a request is pending) *)
Theorem C17_rejected_set_is_noop : forall c es1 es2 w,
  run c w (es1 ++ ESetRejected :: es2) = run c w (es1 ++ es2) /\
  forall acc, last_set (es1 ++ ESetRejected :: es2) acc = last_set (es1 ++ es2) acc.
Proof. exact rejected_set_is_noop. Qed.

Theorem C17_rejected_set_keeps_pending : forall c w w', step c w ESetRejected = Some w' ->
  w' = w /\ pending (ws w') = pending (ws w) /\ desired w' = desired w.
Proof. exact rejected_set_keeps_pending. Qed.

(* duplicate prefixes in one Set: the last one wins *)
Theorem C17_set_last_wins : forall l x,
  map_of l x = match find (fun p => fst p =? x) (rev l) with Some p => Some (snd p) | None => None end.
Proof. exact set_last_wins. Qed.

(* every message a step writes is justified by the set the sender is moving to
   ([new_of w]: the pending set, else advertised) against the table the peer holds
   ([adv_of w e]: advertised for a diff flush, empty for the first flush of a
   connection): UPDATE k v only if the new set has k -> v; withdraw only of keys
   the new set lacks AND that table has (this is what the trace replay checks) *)
Theorem C17_emitted_justified : forall c w e m, In m (emitted c w e) ->
  justified (adv_of w e) (new_of w) m.
Proof. exact emitted_justified_strong. Qed.

(* ... and in a reachable state that new set IS the last Set: an emitted UPDATE
   carries the attributes last requested for its prefix; a withdrawn prefix is
   absent from the last Set and present in what the peer was sent *)
Theorem C17_emitted_is_last_set : forall c es w e m, run c world0 es = Some w -> In m (emitted c w e) ->
  match m with
  | MUpd k v => last_set es empty k = Some v
  | MWdr ks => ks <> [] /\ forall k, In k ks -> last_set es empty k = None /\ adv_of w e k <> None
  end.
Proof. exact emitted_is_last_set. Qed.

(* the peer applying a complete diff flush to the old table obtains the new one *)
Theorem C17_diff_flush_exact : forall adv new o1 o2 t x,
  t x = adv x -> (is_some (new x) = true -> mem x o1 = true) -> (is_some (adv x) = true -> mem x o2 = true) ->
  apply_msgs t (diff_msgs adv new o1 o2) x = new x.
Proof. exact diff_msgs_spec. Qed.

(* connect's capability guard is exactly sendUpdate's encodability condition
   (ties Session to Wire): an accepted peer can be sent every admissible route *)
Theorem C17_established_can_encode : forall c asn fb nh a,
  hs_accept c asn fb = true ->
  wf_uparams (my_asn c) nh a -> len (a_comms a) <= 63 -> forallb is_legacy (a_comms a) = true ->
  enc_update (my_asn c) (ibgp_of c) fb nh a <> None.
Proof. exact established_can_encode. Qed.

(* (C17_handshake_sets_capability is by definition of [step]; the invariant that
   follows from it, C17_flush_uses_connection_capability, is not)
   the 4-octet-AS flag follows the CONNECTION: an accepted handshake sets it to
   what this OPEN announced, and in every reachable state with the connection
   up the width a flush encodes with is the width the peer parses with *)
Theorem C17_handshake_sets_capability : forall c w id asn fb w',
  step c w (EHandshake id asn fb true) = Some w' ->
  fbasn (ws w') = fb /\ pcap (wp w') = fb /\ conn (ws w') = Some id /\ up (wp w') = Some id.
Proof. exact handshake_sets_capability. Qed.

Theorem C17_flush_uses_connection_capability : forall c es w id,
  run c world0 es = Some w -> conn (ws w) = Some id -> up (wp w) = Some id ->
  emit_width w = pcap (wp w).
Proof. exact flush_uses_connection_capability. Qed.

(* with Wire: every UPDATE written on an established connection, after any
   history of reconnections to peers with different capabilities, decodes -- with
   the AS width the peer announced on THIS connection -- to the intended route *)
Theorem C17_established_update_decodes : forall c es w id nh a bs,
  run c world0 es = Some w -> conn (ws w) = Some id -> up (wp w) = Some id ->
  wf_uparams (my_asn c) nh a ->
  enc_update (my_asn c) (ibgp_of c) (emit_width w) nh a = Some bs ->
  dec_msg (pcap (wp w)) bs = Some (intended_update (my_asn c) (ibgp_of c) nh a).
Proof. exact established_update_decodes. Qed.

(* a stale flag would be misread in both directions *)
Theorem C17_wrong_width_misread :
  exists asn nh a bs, wf_uparams asn nh a /\ enc_update asn false true nh a = Some bs /\
    dec_msg false bs <> Some (intended_update asn false nh a) /\
  exists bs', enc_update asn false false nh a = Some bs' /\
    dec_msg true bs' <> Some (intended_update asn false nh a).
Proof. exact wrong_width_misread. Qed.

(* regression of the model before fix: 588bbc0 (guard MyASN > 65536) *)
Theorem C17_established_can_encode_refuted_prefix :
  exists c asn fb nh a, hs_accept_prefix c asn fb = true /\ wf_uparams (my_asn c) nh a /\
    len (a_comms a) <= 63 /\ forallb is_legacy (a_comms a) = true /\
    enc_update (my_asn c) (ibgp_of c) fb nh a = None.
Proof. exact established_can_encode_refuted_prefix. Qed.

(* non-vacuity: Set, connect, first flush, Set (change + removal), write failure
   in the middle of the diff, reader sees the drop, reconnect, first flush *)
Example C17_nonvacuous :
  let c := {| my_asn := 64512; peer_asn := 64999; universe := [0; 1; 2]; cfg_hold := None |} in
  let es := [ESet [(0, 1); (1, 1)]; EHandshake 1 64999 true true; EFirstFlush [1; 0] None;
             ESet [(0, 2); (2, 1); (2, 3)]; EDiffFlush [2; 0] [0; 1] (Some 1%nat); EReaderDrop 1;
             EPeerDrop; EHandshake 2 64999 false true; EFirstFlush [0; 2] None] in
  match run c world0 es with
  | Some w => map (ptable (wp w)) [0; 1; 2] = [Some 2; None; Some 3] /\ conn (ws w) = Some 2 /\ pending (ws w) = None /\
              up (wp w) = Some 2 /\ synced (ws w) = true
  | None => False
  end.
Proof. vm_compute. repeat split. Qed.

(* capability on -> off -> on across reconnections *)
Example C17_nonvacuous_capability_flip :
  let c := {| my_asn := 64512; peer_asn := 64999; universe := [0]; cfg_hold := Some 0 |} in
  match run c world0 [EHandshake 1 64999 true true; EPeerDrop; EReaderDrop 1; EHandshake 2 64999 false true] with
  | Some w => emit_width w = false /\ pcap (wp w) = false
  | None => False end /\
  match run c world0 [EHandshake 1 64999 false true; EReaderDrop 1; EHandshake 2 64999 true true] with
  | Some w => emit_width w = true /\ pcap (wp w) = true
  | None => False end.
Proof. vm_compute. repeat split. Qed.
