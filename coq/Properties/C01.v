(* C01 — Address exclusivity.  Statements only (allocator records; the status
   level lives in the controller model, section "statuses").
   [run ops init] is the allocator after any finite history of Assign / Unassign /
   Allocate / AllocateFromPool / additional-family / SetPools operations, where
   every allocation result is the one the implementation reported (validated by
   allocate_spec; a result the spec rejects leaves the state unchanged).
   [shareable] is the statement's rule: same non-empty sharing key, same backend
   key (both Cluster, or identical selectors), disjoint (protocol, port) sets. *)
From Coq Require Import List NArith.
From Verif Require Import Model.Alloc Proofs.AllocP.

Theorem C01_records_exclusive : forall ops s1 s2 al1 al2 x,
  let a := run ops init in
  s1 <> s2 -> get_alloc a s1 = Some al1 -> get_alloc a s2 = Some al2 ->
  In x (a_ips al1) -> In x (a_ips al2) -> shareable al1 al2.
Proof. exact records_exclusive. Qed.

(* the invariant is inductive: it holds after every single operation *)
Theorem C01_step_preserves : forall a o, Inv a -> Inv (fst (step a o)).
Proof. exact step_Inv. Qed.

(* validation precedes mutation: a refused operation changes nothing *)
Theorem C01_failed_op_no_change : forall a o a' e, step a o = (a', RErr e) -> a' = a.
Proof. exact failed_op_no_change. Qed.

(* what the allocator's sharing test means, in the statement's terms *)
Theorem C01_check_sharing_iff : forall a s x ports k,
  Inv a ->
  (check_sharing a s x ports k = true <->
   forall e, In e (allocated a) -> fst e <> s -> In x (a_ips (snd e)) ->
     sharing_ok (a_key (snd e)) k = true /\ forall p, In p ports -> ~ In p (a_ports (snd e))).
Proof. exact check_sharing_iff. Qed.

(* non-vacuity: two services share one address on disjoint ports; a third with a
   clashing port is refused and nothing changes *)
Definition ex_pools : pools :=
  {| by_name := [ {| p_name := 1%N; p_cidrs := [ {| pfam := F4; pbase := 167772160%N; plen := 30%N |} ];
                     p_avoid := false; p_auto := true; p_pin := None |} ];
     by_ns := []; by_sel := [] |}.
Definition ex_req (port : N) : req :=
  {| r_ns := 1%N; r_labels := []; r_fam := S4; r_pol := Single; r_first6 := false;
     r_ports := [ {| proto := 1%N; pnum := port |} ]; r_key := {| sharing := 7%N; backend := 0%N |} |}.
Example C01_nonvacuous :
  let x := V4 167772161%N in
  let a := run [OSetPools ex_pools; OAssign 1%N (ex_req 80) [x]; OAssign 2%N (ex_req 443) [x]] init in
  option_map a_ips (get_alloc a 1%N) = Some [x] /\ option_map a_ips (get_alloc a 2%N) = Some [x] /\
  snd (step a (OAssign 3%N (ex_req 80) [x])) = RErr ESharing.
Proof. vm_compute. repeat split. Qed.

(* ---- status level: whenever the controller has no pending work ---- *)
From Verif Require Import Model.Ctrl Proofs.CtrlP Proofs.CtrlWorldP Proofs.CtrlThmP.

Theorem C01_statuses_exclusive : forall rank evs w s1 s2 o1 o2 x,
  wrun rank evs world0 = Some w -> quiescent w -> s1 <> s2 ->
  aget (w_api w) s1 = Some o1 -> aget (w_api w) s2 = Some o2 ->
  In x (o_status o1) -> In x (o_status o2) ->
  exists al1 al2, get_alloc (c_mem (w_ctl w)) s1 = Some al1 /\ get_alloc (c_mem (w_ctl w)) s2 = Some al2 /\
                  shareable al1 al2.
Proof. exact quiescent_status_exclusive. Qed.
