(* C01 — Address exclusivity.  Statements only (allocator records; the status
   level lives in the controller model, section "statuses").
   [run ops init] is the allocator after any finite history of Assign / Unassign /
   Allocate / AllocateFromPool / additional-family / SetPools operations, where
   every allocation result is the one the implementation reported (validated by
   allocate_spec; a result the spec rejects leaves the state unchanged).
   [shareable]: same non-empty sharing key, same BACKEND KEY, disjoint (protocol,
   port) sets.  The statement's clause "both Cluster policy or identical selectors"
   is what the backend key is meant to encode; it does not (finding F7,
   C01_backend_key_refuted below), so every theorem here is exclusivity up to
   backend-key equality.
   Domain: every Service has at least one port and no duplicate port (API server
   rules).  [Model/Alloc.v] recomputes the allocator's derived maps from the
   allocation list; the model that carries the Go maps and updates them
   incrementally is Model/AllocMaps.v, on which exclusivity is proved for every
   history inside the domain (C01_concrete_records_exclusive) and fails outside
   it (C01_zero_port_refuted).
   [wrun ... = Some w]: a history the model can take, i.e. every event is enabled
   (the reconciled Service is queued, a re-sync is pending, ...) and every
   allocator result reported by the implementation is admitted by the
   specification; C01_oracle_exists_for_wellformed_pools shows that for uniquely
   named, pairwise disjoint pools (what C08 accepts) an admitted result always
   exists, so only implementation misbehaviour - detected by the correspondence
   check - is excluded. *)
From Coq Require Import List NArith.
From Verif Require Import Model.Alloc Proofs.AllocP.

Theorem C01_records_exclusive : forall ops s1 s2 al1 al2 x,
  let a := run ops init in
  s1 <> s2 -> get_alloc a s1 = Some al1 -> get_alloc a s2 = Some al2 ->
  In x (a_ips al1) -> In x (a_ips al2) -> shareable al1 al2.
Proof. exact records_exclusive. Qed.

(* the invariant is inductive: it holds after every single operation *)
Theorem C01_step_preserves : forall a o, Inv a -> Inv (fst (step a o)).
Proof. exact step_Inv. Qed.

(* validation precedes mutation: a refused operation changes nothing *)
Theorem C01_failed_op_no_change : forall a o a' e, step a o = (a', RErr e) -> a' = a.
Proof. exact failed_op_no_change. Qed.

(* what the allocator's sharing test means, in the statement's terms *)
Theorem C01_check_sharing_iff : forall a s x ports k,
  Inv a ->
  (check_sharing a s x ports k = true <->
   forall e, In e (allocated a) -> fst e <> s -> In x (a_ips (snd e)) ->
     sharing_ok (a_key (snd e)) k = true /\ forall p, In p ports -> ~ In p (a_ports (snd e))).
Proof. exact check_sharing_iff. Qed.

(* non-vacuity: two services share one address on disjoint ports; a third with a
   clashing port is refused and nothing changes *)
Definition ex_pools : pools :=
  {| by_name := [ {| p_name := 1%N; p_cidrs := [ {| pfam := F4; pbase := 167772160%N; plen := 30%N |} ];
                     p_avoid := false; p_auto := true; p_pin := None |} ];
     by_ns := []; by_sel := [] |}.
Definition ex_req (port : N) : req :=
  {| r_ns := 1%N; r_labels := []; r_fam := S4; r_pol := Single; r_first6 := false;
     r_ports := [ {| proto := 1%N; pnum := port |} ]; r_key := {| sharing := 7%N; backend := 0%N |} |}.
Example C01_nonvacuous :
  let x := V4 167772161%N in
  let a := run [OSetPools ex_pools; OAssign 1%N (ex_req 80) [x]; OAssign 2%N (ex_req 443) [x]] init in
  option_map a_ips (get_alloc a 1%N) = Some [x] /\ option_map a_ips (get_alloc a 2%N) = Some [x] /\
  snd (step a (OAssign 3%N (ex_req 80) [x])) = RErr ESharing.
Proof. vm_compute. repeat split. Qed.

(* ---- status level: whenever the controller has no pending work ---- *)
From Verif Require Import Model.Ctrl Proofs.CtrlP Proofs.CtrlWorldP Proofs.CtrlThmP.

Theorem C01_statuses_exclusive : forall rank evs w s1 s2 o1 o2 x,
  wrun rank evs world0 = Some w -> quiescent w -> s1 <> s2 ->
  aget (w_api w) s1 = Some o1 -> aget (w_api w) s2 = Some o2 ->
  In x (o_status o1) -> In x (o_status o2) ->
  exists al1 al2, get_alloc (c_mem (w_ctl w)) s1 = Some al1 /\ get_alloc (c_mem (w_ctl w)) s2 = Some al2 /\
                  shareable al1 al2.
Proof. exact quiescent_status_exclusive. Qed.

(* ---- the same, in terms of what the Services themselves carry ---- *)
From Verif Require Import Proofs.AllocPolicyP Proofs.AllocMonoP Proofs.CtrlStarveP Proofs.CtrlPostP.

(* whenever nothing is pending, what memory records for a Service carries the ports
   and the sharing / backend key of the Service as it is now, and its status addresses *)
Theorem C01_record_matches_spec_at_quiescence : forall rank evs w s o al,
  wrun rank evs world0 = Some w -> quiescent w -> aget (w_api w) s = Some o ->
  get_alloc (c_mem (w_ctl w)) s = Some al ->
  a_ports al = r_ports (o_req o) /\ a_key al = r_key (o_req o) /\ same_ips (a_ips al) (o_status o).
Proof. exact quiescent_record_matches_spec. Qed.

Theorem C01_statuses_exclusive_specs : forall rank evs w s1 s2 o1 o2 x,
  wrun rank evs world0 = Some w -> quiescent w -> s1 <> s2 ->
  aget (w_api w) s1 = Some o1 -> aget (w_api w) s2 = Some o2 ->
  In x (o_status o1) -> In x (o_status o2) ->
  let k1 := r_key (o_req o1) in let k2 := r_key (o_req o2) in
  sharing k1 <> 0%N /\ sharing k1 = sharing k2 /\ backend k1 = backend k2 /\
  forall p, In p (r_ports (o_req o1)) -> ~ In p (r_ports (o_req o2)).
Proof. exact quiescent_statuses_exclusive_specs. Qed.

(* non-vacuity: a reachable quiescent world in which two Services share an address *)
Definition c1_obj (port : N) : svcobj :=
  {| o_lb := true; o_req := ex_req port; o_cluster_ok := true; o_want := WNone; o_want_pool := None;
     o_status := []; o_annot := None |}.
Definition c1_k : oracle := {| k_write := true; k_final := Some (1%N, [V4 167772160%N]) |}.
Definition c1_pools1 : pools :=
  {| by_name := [ {| p_name := 1%N; p_cidrs := [ {| pfam := F4; pbase := 167772160%N; plen := 32%N |} ];
                     p_avoid := false; p_auto := true; p_pin := None |} ]; by_ns := []; by_sel := [] |}.
Definition c1_evs : list ev :=
  [EPools c1_pools1; UPut 1%N (c1_obj 80); UPut 2%N (c1_obj 443); EReload [1%N; 2%N] [c1_k; c1_k];
   EReload [1%N; 2%N] [c1_k; c1_k]; ESvc 1%N c1_k; ESvc 2%N c1_k].
Example C01_statuses_exclusive_nonvacuous :
  exists w o1 o2, wrun ip_val c1_evs world0 = Some w /\ quiescent w /\
    aget (w_api w) 1%N = Some o1 /\ aget (w_api w) 2%N = Some o2 /\
    In (V4 167772160%N) (o_status o1) /\ In (V4 167772160%N) (o_status o2).
Proof.
  destruct (wrun ip_val c1_evs world0) as [w|] eqn:E; [|vm_compute in E; discriminate].
  vm_compute in E. injection E as <-. eexists _, _, _. split; [reflexivity|]. split; [repeat split|].
  split; [reflexivity|]. split; [reflexivity|]. split; left; reflexivity.
Qed.

(* ---- the backend key does not encode the statement's rule (finding F7) ---- *)
(* k8salloc.BackendKey: the pod selector under the Local policy, "" under Cluster *)
Definition backend_key_of (local : bool) (selector : list (N * N)) : list (N * N) :=
  if local then selector else [].
Definition statement_rule (l1 : bool) (s1 : list (N * N)) (l2 : bool) (s2 : list (N * N)) : Prop :=
  (l1 = false /\ l2 = false) \/ s1 = s2.
Theorem C01_backend_key_refuted :
  exists l1 s1 l2 s2, backend_key_of l1 s1 = backend_key_of l2 s2 /\ ~ statement_rule l1 s1 l2 s2.
Proof.
  exists true, [], false, [(1%N, 1%N)]. split; [reflexivity|].
  intros [[H _]|H]; discriminate.
Qed.
(* and conversely identical selectors under different policies get different keys (F7b) *)
Theorem C01_backend_key_converse_refuted :
  exists l1 s1 l2 s2, statement_rule l1 s1 l2 s2 /\ backend_key_of l1 s1 <> backend_key_of l2 s2.
Proof.
  exists true, [(1%N, 1%N)], false, [(1%N, 1%N)]. split; [right; reflexivity|discriminate].
Qed.

(* ---- the allocator with its maps; the domain ---- *)
From Verif Require Import Model.AllocMaps Proofs.AllocMapsCohP Proofs.AllocMapsTopP.

Theorem C01_concrete_records_exclusive : forall ops, Forall wf_op ops -> Inv (abs (m_run ops m_init)).
Proof. intros ops H. exact (proj1 (proj2 (m_run_MInv ops m_init H MInv_init))). Qed.

(* outside the domain (a tenant without ports) the Go bookkeeping forgets the sharing
   key of an address that is still held, and a Service with another key is accepted on it *)
Theorem C01_zero_port_refuted :
  exists ops s1 s2 al1 al2 x, let a := abs (m_run ops m_init) in
    s1 <> s2 /\ get_alloc a s1 = Some al1 /\ get_alloc a s2 = Some al2 /\
    In x (a_ips al1) /\ In x (a_ips al2) /\ sharing (a_key al1) <> sharing (a_key al2).
Proof.
  exists (zero_port_ops ++ [OAssign 3%N (AllocMapsTopP.ex_req [p80] 9%N) [ex_ip]]), 2%N, 3%N.
  eexists _, _, ex_ip. vm_compute. repeat split; try (left; reflexivity); discriminate.
Qed.

(* ---- which histories [wrun ... = Some w] leaves out ---- *)
From Verif Require Import Proofs.CtrlTotalP.

(* for uniquely named, pairwise disjoint pools every scheduler event that is enabled
   has an admitted oracle: reconciling a queued Service and carrying out a pending
   re-sync in any admitted order are always possible.  What the "observed result
   must be admitted by the specification" rule excludes is therefore only an
   implementation that deviates from the specification (reported by the
   correspondence check), never a configuration C08 accepts. *)
Theorem C01_oracle_exists_for_wellformed_pools : forall rank w s,
  pools_wf (w_ctl w) -> In s (w_queue w) -> exists k w', wstep rank w (ESvc s k) = Some w'.
Proof. exact esvc_enabled. Qed.

Theorem C01_resync_oracles_exist_for_wellformed_pools : forall rank w order,
  pools_wf (w_ctl w) -> w_reload w = true ->
  (same_set order (map fst (w_api w)) && desc_by_status w order)%bool = true ->
  exists ks w', wstep rank w (EReload order ks) = Some w'.
Proof. exact ereload_enabled. Qed.

(* and with overlapping pools the specification can be empty (the model has no successor) *)
Definition c1_Q : pool := {| p_name := 1%N; p_cidrs := [ {| pfam := F4; pbase := 167772160%N; plen := 30%N |} ]; p_avoid := false; p_auto := true;
   p_pin := Some {| prio := 0%N; nss := [2%N]; sels := [] |} |}.
Definition c1_P : pool := {| p_name := 2%N; p_cidrs := [ {| pfam := F4; pbase := 167772160%N; plen := 30%N |} ]; p_avoid := false; p_auto := true; p_pin := None |}.
Definition c1_overlap : st := {| s_pools := {| by_name := [c1_Q; c1_P]; by_ns := [(2%N, [1%N])]; by_sel := [] |}; allocated := [] |}.
Example C01_overlapping_pools_have_no_admitted_result :
  snd (step c1_overlap (OAllocate 5%N (AllocMapsTopP.ex_req [p80] 0%N) None)) = RSpecMismatch /\
  snd (step c1_overlap (OAllocate 5%N (AllocMapsTopP.ex_req [p80] 0%N) (Some (2%N, [V4 167772160%N])))) = RSpecMismatch /\
  snd (step c1_overlap (OAllocate 5%N (AllocMapsTopP.ex_req [p80] 0%N) (Some (1%N, [V4 167772160%N])))) = RSpecMismatch.
Proof. vm_compute. repeat split. Qed.
