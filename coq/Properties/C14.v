(* C14 — placeholder while the pipeline is brought up *)
From Coq Require Import String NArith Bool List.
From Verif Require Import Model.FrrRender Model.FrrSem Proofs.FrrSortP Proofs.FrrP.
Theorem C14_render_nil : render [] = Some (mk_frr [] []).
Proof. exact render_nil. Qed.
