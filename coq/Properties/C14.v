(* C14 — FRR mode: generated configuration.  Statements only; proofs in
   Proofs/FrrP.v, FrrSortP.v.
   [render S] (Model/FrrRender.v) is the AST of the text createConfig +
   templateConfig produce for the session set S (None = createConfig fails);
   [sem_out ft um c vrf peer route] / [sem_in] (Model/FrrSem.v) what FRR offers
   to / accepts from that neighbor, for both readings ft, um of the two doubtful
   points of FRR's semantics; [intended s route] what session s requests.

   STATUS (see notes/frr.md): proved here for all inputs — inbound rejection,
   originated networks, session parameters / activation, provenance of routers
   and neighbors, independence of the semantics from sequence numbers, F15.
   frr_perm (session order), F15.
   lists_defined per neighbor block, shape of merged advertisements.
   NOT proved (time): frr_out_exact, property_lists_subset_allowed, lists_defined
   lifted to the whole configuration, as theorems; their statements are kept below as comments and they are
   EVALUATED in Coq on every generated case on the AST parsed from the real text
   (Corr/Run_Frr.v codes 3, 4) and by the Python oracle. *)
From Coq Require Import String NArith Bool List Permutation Sorted.
From Verif Require Import Model.FrrRender Model.FrrSem Proofs.FrrSortP Proofs.FrrP Proofs.FrrListsP.
Import ListNotations.
Open Scope string_scope.

(* every route received from any rendered neighbor is rejected, whatever ft, um *)
Theorem C14_frr_in_denied : forall ft um S c rs n route acc fell,
  render S = Some c -> create_config S = Some rs -> in_out_distinct rs -> In n (all_nbrs rs) ->
  eval_rm ft um c (rm_entries c (rm_in (nc_s n))) route acc fell = None.
Proof. exact in_denied_rendered. Qed.

(* the in-map of a neighbor is never its out-map *)
Theorem C14_in_map_is_not_out_map : forall s, rm_in s <> rm_out s.
Proof. exact rm_in_neq_out. Qed.

(* session parameters and per-family activation on the rendered neighbor; the
   route-maps it is activated with are always its own in / out maps *)
Theorem C14_frr_params : forall asn n,
  let s := nc_s n in let r := render_nbr asn n in
  n_peer r = peer_tok s /\ n_iface r = nonempty (s_iface s) /\ n_asn r = asn_for s /\
  n_multihop r = s_multihop s /\ n_port r = (if N.eqb (s_port s) 0 then None else Some (s_port s)) /\
  n_timers r = (match s_keep s, s_hold s with Some k, Some h => Some ((k / second)%N, (h / second)%N) | _, _ => None end) /\
  n_connect r = (match s_connect s with Some c => if N.eqb (c / second) 0 then None else Some (c / second)%N | None => None end) /\
  n_password r = (if nonempty (s_password s) then Some (s_password s) else None) /\
  n_src r = (match s_src s with Some a => if nonempty a then Some a else None | None => None end) /\
  n_gr r = s_gr s /\ n_bfd r = (if nonempty (s_bfd s) then Some (s_bfd s) else None) /\
  (forall x, n_act4 r = Some x -> x = (rm_in s, rm_out s)) /\
  (forall x, n_act6 r = Some x -> x = (rm_in s, rm_out s)) /\
  (s_disable_mp s = false -> n_act4 r = Some (rm_in s, rm_out s) /\ n_act6 r = Some (rm_in s, rm_out s)) /\
  (s_disable_mp s = true -> nfam_of s = NF4 -> n_act4 r = Some (rm_in s, rm_out s) /\ n_act6 r = None) /\
  (s_disable_mp s = true -> nfam_of s = NF6 -> n_act4 r = None /\ n_act6 r = Some (rm_in s, rm_out s)) /\
  (s_disable_mp s = true -> nfam_of s = NFDual -> n_act4 r = None /\ n_act6 r = None).
Proof. exact render_nbr_params. Qed.

(* shape of the rendered configuration *)
Theorem C14_render_shape : forall S c, render S = Some c ->
  exists rs, create_config S = Some rs /\ routers c = map render_router rs /\ items c = number (filters_of rs) [].
Proof. exact render_routers. Qed.

Theorem C14_router_origin : forall S rs r, create_config S = Some rs -> In r rs ->
  exists k, In k (map rkey S) /\ mk_router S k = Some r.
Proof. exact create_config_router. Qed.

(* a router originates exactly the union of the prefixes requested on its
   sessions, per family, sorted, without duplicates; each of its neighbors is
   built from the sessions with one neighbor name *)
Theorem C14_frr_networks_exact : forall S k r, mk_router S k = Some r ->
  exists first rest, sessions_with rkey k S = first :: rest /\ rc_first r = first /\
    exact_pfx_set (rc_p4 r) (map a_pfx (advs_afi A4 (flat_map s_advs (first :: rest)))) /\
    exact_pfx_set (rc_p6 r) (map a_pfx (advs_afi A6 (flat_map s_advs (first :: rest)))) /\
    forall n, In n (rc_nbrs r) ->
      exists f more, sessions_with nname (nname f) (first :: rest) = f :: more /\
                     mk_neighbor f (flat_map s_advs (f :: more)) = Some n.
Proof. exact mk_router_spec. Qed.

(* the semantics does not depend on the sequence numbers the counters assign *)
Theorem C14_numbering_is_cosmetic : forall l cnt,
  map strip (number l cnt) = map (fun x => strip (snd x)) l.
Proof. exact number_strip. Qed.

Theorem C14_sem_ignores_seq : forall its rs a name,
  pl_lines (mk_frr (map strip its) rs) a name = pl_lines (mk_frr its rs) a name /\
  rm_entries (mk_frr (map strip its) rs) name = rm_entries (mk_frr its rs) name.
Proof. intros. split; [apply pl_lines_strip|apply rm_entries_strip]. Qed.

(* the sorted sets the generator relies on: order-independent *)
Theorem C14_sorted_keys_perm : forall l l', Permutation l l' -> sort_s l = sort_s l'.
Proof. exact sort_s_perm. Qed.

(* the configuration is a function of the SET of sessions: independent of the
   creation order (= iteration order of the sessions map).  [wf_perm S]: one
   session per neighbor name and router; the router key determines ASN / id /
   VRF; a prefix text determines the prefix.  (Independence of the order of a
   session's advertisement list is checked per case, Corr code 2, not proved.) *)
Theorem C14_frr_perm : forall S S', wf_perm S -> Permutation S S' -> render S = render S'.
Proof. exact render_perm. Qed.

(* shape of the merged advertisement list of a neighbor (addToAdvertisements /
   mergeAdvertisements): every requested advertisement is covered by an entry
   with the same prefix text and family, the same local preference and at least
   its communities *)
Theorem C14_merged_advertisements_cover : forall f advs n, mk_neighbor f advs = Some n ->
  nc_s n = f /\ forall a, In a advs -> exists y, In y (nc_advs n) /\ covers y (advc_of a).
Proof. exact mk_neighbor_covers. Qed.

(* lists_defined, per neighbor block: every prefix-list a route-map entry of a
   neighbor references has a line (of that address family) in the same block *)
Theorem C14_block_lists_defined : forall f advs n, mk_neighbor f advs = Some n ->
  forall nm sq pm m st nx a name,
    In (IRm nm sq pm m st nx) (map snd (neighbor_filters n)) -> In (a, name) m -> has_line n a name.
Proof. exact block_lists_defined. Qed.

(* F15: frr_out_exact is REFUTED for a neighbor peered by interface with
   DisableMP — the requested route is offered under no reading of the semantics *)
Theorem C14_frr_out_exact_refuted : exists s route c,
  render [s] = Some c /\ intended s route <> None /\
  forall ft um, sem_out ft um c (s_vrf s) (peer_tok s) route = None.
Proof.
  exists f15_witness, (mk_pfx "2001:db8::1/128" {| pfam := F6; pbase := 42540766411282592856903984951653826561; plen := 128 |}).
  eexists. split; [vm_compute; reflexivity|]. split; [vm_compute; discriminate|].
  intros [|] [|]; vm_compute; reflexivity.
Qed.

(* frr_out_exact (NOT PROVED; evaluated on every case, code 3):
     forall ft um S c s route, wf_sessions S -> render S = Some c -> In s S ->
       ~ (s_iface s <> "" /\ s_disable_mp s = true) ->
       attrs_equiv (sem_out ft um c (s_vrf s) (peer_tok s) route) (intended s route).
   lists_defined (code 4): render S = Some c -> lists_defined_b c = true.
   property_lists_subset_allowed: every prefix of a property list of a neighbor is in its allowed list. *)

(* instances, all four readings of the semantics: repeated prefix with merged
   communities, local preference, a second neighbor without advertisements *)
Example C14_frr_out_exact_instance :
  let p := mk_pfx "172.16.1.10/32" {| pfam := F4; pbase := 2886730010; plen := 32 |} in
  let q := mk_pfx "fc00:f853:ccd:e799::/64" {| pfam := F6; pbase := 334965454937798799971759379190646833152; plen := 64 |} in
  let s1 := mk_session 100 (Some "10.1.1.254") "" "10.2.2.254" true "" 200 "" None 179 None None None "" "" false false false
              [mk_adv p 300 [(false, "65000:200"); (true, "64512:1:2")]; mk_adv p 300 [(false, "65000:100")]; mk_adv q 0 [(false, "65000:100")]] ("", "") in
  let s2 := mk_session 100 (Some "10.1.1.254") "" "192.168.1.1" true "" 200 "" None 179 None None None "" "" false false true [] ("", "") in
  match render [s2; s1] with
  | Some c =>
      lists_defined_b c = true /\ seqs_increasing_b c = true /\
      forallb (fun fu => forallb (fun s => forallb (fun r =>
        attrs_equiv_b (sem_out (fst fu) (snd fu) c (s_vrf s) (peer_tok s) r) (intended s r)) [p; q]) [s1; s2])
        [(false, false); (false, true); (true, false); (true, true)] = true /\
      sem_out false false c "" "10.2.2.254" p = Some (mk_attrs (Some 300%N) ["65000:100"; "65000:200"] ["64512:1:2"]) /\
      sem_out true true c "" "192.168.1.1" p = None
  | None => False
  end.
Proof. vm_compute. repeat split. Qed.
