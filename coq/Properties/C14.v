(* C14 — FRR mode: generated configuration.  Statements only; proofs in
   Proofs/FrrSortP.v FrrP.v FrrListsP.v FrrShapeP.v FrrSemP.v FrrOutP.v
   FrrExactP.v FrrWfP.v FrrAdvPermP.v FrrSeqP.v FrrMgrP.v.
   [render S] (Model/FrrRender.v) is the AST of the text createConfig +
   templateConfig produce for the session set S (None = createConfig fails);
   [sem_out ft um c vrf peer route] / [sem_in] / [sem_networks] (Model/FrrSem.v)
   what FRR offers to / accepts from that neighbor / originates, for both
   readings ft, um of the two doubtful points of FRR's semantics (H-frr);
   [intended s route] what session s requests (from the property statement);
   [offered s route] the same restricted to the families the templates actually
   activate; [wf_sessions S] (Model/FrrSpec.v) what the speaker guarantees plus
   the computable no-name-clash premises, decided by [wf_sessions_b];
   [route_ok S p]: a probe route whose text is the text of a requested prefix is
   that prefix (prefix texts are canonical).

   All theorems of DESIGN 4/C14 are proved: frr_out_exact (and the stronger
   frr_out_offered, which also covers the F15 shape), lists_defined,
   property_lists_subset_allowed, frr_in_denied, frr_networks_exact, frr_params,
   frr_perm.  The per-case evaluation in Corr/Run_Frr.v stays as translation
   validation of the real text. *)
From Coq Require Import String NArith Bool List Permutation Sorted.
From Verif Require Import Model.FrrSpec Proofs.FrrSortP Proofs.FrrP Proofs.FrrListsP Proofs.FrrShapeP Proofs.FrrSemP
     Proofs.FrrOutP Proofs.FrrExactP Proofs.FrrWfP Proofs.FrrAdvPermP Proofs.FrrSeqP Model.FrrMgr Proofs.FrrMgrP.
Import ListNotations.
Open Scope string_scope.


(* ===== exactness of what each neighbor is offered ===== *)

(* frr_out_exact: for every well-formed session set, every session of it that is
   not of the F15 shape, every route and both values of both semantic
   parameters, the generated configuration offers the neighbor exactly what the
   session requests: the route iff requested, with the requested local preference
   and exactly the union of the requested (large) communities *)
Theorem C14_frr_out_exact : forall ft um S c s p,
  wf_sessions S -> render S = Some c -> In s S -> route_ok S p -> f15_shape s = false ->
  attrs_equiv (sem_out ft um c (s_vrf s) (peer_tok s) p) (intended s p).
Proof. exact frr_out_exact. Qed.

(* the same for ALL sessions against [offered] (the families actually activated) *)
Theorem C14_frr_out_offered : forall ft um S c s p,
  wf_sessions S -> render S = Some c -> In s S -> route_ok S p ->
  attrs_equiv (sem_out ft um c (s_vrf s) (peer_tok s) p) (offered s p).
Proof. exact frr_out_offered. Qed.

(* offered and intended differ only by the activation function, and only for the F15 shape *)
Theorem C14_offered_vs_intended : forall s a, f15_shape s = false -> act_actual s a = act_intended s a.
Proof. exact act_actual_intended. Qed.

(* F15, for all inputs: a neighbor peered by interface with DisableMP is offered nothing *)
Theorem C14_frr_f15_nothing : forall ft um S c s p,
  wf_sessions S -> render S = Some c -> In s S -> route_ok S p -> f15_shape s = true ->
  sem_out ft um c (s_vrf s) (peer_tok s) p = None.
Proof. exact frr_f15_nothing. Qed.

(* lists_defined: every list a route-map of [render S] references is defined
   (so the parameter um is irrelevant); no well-formedness needed *)
Theorem C14_lists_defined : forall S c, render S = Some c ->
  forall nm sq pm m st nx a name, In (IRm nm sq pm m st nx) (items c) -> In (a, name) m -> pl_lines c a name <> [].
Proof. exact lists_defined. Qed.

Theorem C14_lists_defined_bool : forall S c, render S = Some c -> lists_defined_b c = true.
Proof. exact lists_defined_bool. Qed.

(* property_lists_subset_allowed (makes ft irrelevant): every prefix line of the
   configuration sits in a neighbor block whose allowed list permits the same
   prefix in the same family ... *)
Theorem C14_property_lists_subset_allowed : forall S c a nm sq pm q,
  render S = Some c -> In (IPl a nm sq pm (Some q)) (items c) ->
  exists rs n sq', create_config S = Some rs /\ In n (all_nbrs rs) /\ In (IPl a nm 0 pm (Some q)) (FrrSemP.block n) /\
                   In (IPl a (pl_allowed (nc_s n)) sq' true (Some q)) (items c).
Proof. exact subset_allowed. Qed.

(* ... and, for a well-formed set, a prefix permitted by a logical list of a
   session is permitted by that session's allowed list *)
Theorem C14_property_lists_subset_allowed_sem : forall S c s k a q,
  wf_sessions S -> render S = Some c -> In s S -> In k (kinds s) ->
  In (true, Some q) (pl_lines c a (kname s k)) -> In (true, Some q) (pl_lines c a (pl_allowed s)).
Proof. exact subset_allowed_sem. Qed.

(* frr_in_denied for the neighbor of every session *)
Theorem C14_frr_in_denied_wf : forall ft um S c s p,
  wf_sessions S -> render S = Some c -> In s S -> sem_in ft um c (s_vrf s) (peer_tok s) p = false.
Proof. exact frr_in_denied_wf. Qed.

(* frr_networks_exact: the router of a session's VRF originates exactly the
   prefixes requested on the sessions of that router, per family, sorted, once *)
Theorem C14_frr_networks_wf : forall S c s a,
  wf_sessions S -> render S = Some c -> In s S ->
  exact_pfx_set (sem_networks c (s_vrf s) a)
    (map a_pfx (advs_afi a (flat_map s_advs (sessions_with rkey (rkey s) S)))).
Proof. exact frr_networks_wf. Qed.

(* the neighbor of a session is found under its VRF and peer token, with the session's parameters *)
Theorem C14_frr_params_found : forall S c rs s r n,
  wf_sessions S -> render S = Some c -> create_config S = Some rs -> In s S -> In r rs ->
  mk_router S (rkey s) = Some r -> In n (rc_nbrs r) -> nc_s n = s -> mk_neighbor s (s_advs s) = Some n ->
  find_nbr c (s_vrf s) (peer_tok s) = Some (render_router r, render_nbr (s_myasn (rc_first r)) n).
Proof. exact rendered_find. Qed.

Theorem C14_session_has_neighbor : forall S rs s, wf_sessions S -> create_config S = Some rs -> In s S ->
  exists r n, In r rs /\ mk_router S (rkey s) = Some r /\ In n (rc_nbrs r) /\ nc_s n = s /\
              mk_neighbor s (s_advs s) = Some n.
Proof. exact session_nbr. Qed.

(* the premises are decidable; generated cases and the examples below are checked by computation *)
Theorem C14_wf_sessions_b_sound : forall S, wf_sessions_b S = true -> wf_sessions S.
Proof. exact wf_sessions_b_sound. Qed.

Theorem C14_route_ok_b_sound : forall S p, route_ok_b S p = true -> route_ok S p.
Proof. exact route_ok_b_sound. Qed.

(* the merged advertisement list: strictly sorted by prefix text, every entry supported by requested advertisements *)
Theorem C14_merged_advertisements_shape : forall f advs n, mk_neighbor f advs = Some n ->
  ssorted atext (nc_advs n) /\ forall y, In y (nc_advs n) -> supp (map advc_of advs) y.
Proof. exact mk_neighbor_shape. Qed.

(* ===== bridges between Model/FrrSem.v and FRR's evaluation ===== *)

(* FRR evaluates the lines of a prefix-list and the entries of a route-map in SEQUENCE-NUMBER order; FrrSem.v
   evaluates them in TEXT order.  They are the same order: the numbers `counter` assigns increase strictly, in
   text order, within every prefix-list (afi, name) and every route-map of the rendered configuration *)
Theorem C14_seq_increasing : forall S c, wf_sessions S -> render S = Some c -> seqs_increasing_b c = true.
Proof. exact seqs_increasing. Qed.

(* for the prefix-lists no premise is needed (one counter per list name, shared by both families) *)
Theorem C14_pl_seq_increasing : forall S c a name, render S = Some c -> increasing (pl_seqs c a name) = true.
Proof. exact pl_seqs_increasing. Qed.

(* the in route-map of a session's neighbor has exactly one entry (deny, sequence number 20) *)
Theorem C14_in_map_single_entry : forall S c rs s r n, wf_sessions S -> render S = Some c -> create_config S = Some rs ->
  In s S -> In r rs -> mk_router S (rkey s) = Some r -> In n (rc_nbrs r) -> nc_s n = s ->
  rm_entries c (rm_in s) = [mk_rme false [] [] false].
Proof. exact rendered_rm_in. Qed.

(* FRR matches BINARY prefixes; FrrSem.v compares prefix TEXTS.  Every prefix line of the rendered configuration
   is a requested prefix, and under [canonical_texts] (equal prefixes have equal texts among the requested prefixes
   and the probe route - an explicit hypothesis, decided by [canonical_texts_b]) comparing texts is comparing
   binary prefixes on every line *)
Theorem C14_line_prefix_requested : forall S c a nm sq pm q,
  render S = Some c -> In (IPl a nm sq pm (Some q)) (items c) -> In q (all_pfx S).
Proof. exact line_prefix_requested. Qed.

Theorem C14_text_match_is_binary_match : forall S c a nm sq pm q p,
  render S = Some c -> route_ok S p -> canonical_texts S p ->
  In (IPl a nm sq pm (Some q)) (items c) -> pfx_eqb q p = prefix_eqb (p_net q) (p_net p).
Proof. exact text_match_is_binary_match. Qed.

Theorem C14_canonical_texts_b_sound : forall S p, canonical_texts_b S p = true -> canonical_texts S p.
Proof. exact canonical_texts_b_sound. Qed.

(* ===== address families (ip / ipv6 prefix-list namespaces) ===== *)

(* a prefix-list line is written under the keyword of the family of its prefix *)
Theorem C14_lines_family : forall S c a nm sq pm q,
  render S = Some c -> In (IPl a nm sq pm (Some q)) (items c) -> pfx_afi q = a.
Proof. exact lines_family. Qed.

(* every `match ip|ipv6 address prefix-list L` of the configuration refers to a list defined under that
   keyword all of whose prefixes have that family *)
Theorem C14_match_family : forall S c nm sq pm m st nx a name, render S = Some c ->
  In (IRm nm sq pm m st nx) (items c) -> In (a, name) m ->
  pl_lines c a name <> [] /\ forall pm' q, In (pm', Some q) (pl_lines c a name) -> pfx_afi q = a.
Proof. exact match_family. Qed.

(* ===== the session manager (Model/FrrMgr.v): histories ===== *)
(* [mrun gen_frr true minit None ops]: final state, per-operation "no error", last configuration handed to the
   reload channel.  The history theorems are NOT for arbitrary operation sequences: [hist_ok] restricts them to
   histories in which NewSession is only issued for a name not in the table and (FRR mode, [good_frr]) the table
   never holds two sessions for one neighbor of one router - what the speaker does.  In FRR mode both premises are
   premises of the PROOF (Close is shown not to fail via "one session per neighbor"); no counterexample is known
   without them (a NewSession cannot fail from a renderable FRR state).  In frr-k8s mode the fresh-name premise is
   NECESSARY: C15_mgr_history_in_sync_refuted.  C14_mgr_hist_ok_nonvacuous: such histories exist, with several
   sessions, a refused Set and a Close. *)

(* after ANY history the last configuration handed on is the one generated from the final state (or
   nothing was ever handed on and the state is initial), and the final state is renderable *)
Theorem C14_mgr_history_in_sync : forall ops st oks last,
  hist_ok gen_frr true good_frr minit ops -> mrun gen_frr true minit None ops = (st, oks, last) ->
  cfg_of gen_frr st <> None /\ ((last = None /\ st = minit) \/ last = cfg_of gen_frr st).
Proof. exact frr_history_in_sync. Qed.

(* the configuration of a state does not depend on the order of the session table (Go map iteration) *)
Theorem C14_mgr_order_independent : forall (l l' : list (string * session)) b e,
  Permutation l l' -> wf_perm (map snd l) -> gen_frr (map snd l) b e = gen_frr (map snd l') b e.
Proof. exact frr_order_independent. Qed.

(* deterministic function of the set of sessions: two histories with the same final requested state
   (e.g. the second one a fresh manager given only that state) hand on the same configuration *)
Theorem C14_mgr_history_independent : forall ops1 ops2 st1 st2 oks1 oks2 last1 last2,
  hist_ok gen_frr true good_frr minit ops1 -> hist_ok gen_frr true good_frr minit ops2 ->
  mrun gen_frr true minit None ops1 = (st1, oks1, last1) -> mrun gen_frr true minit None ops2 = (st2, oks2, last2) ->
  Permutation (ms_sessions st1) (ms_sessions st2) -> ms_bfd st1 = ms_bfd st2 -> ms_extra st1 = ms_extra st2 ->
  wf_perm (sessions_of st1) -> last1 <> None -> last2 <> None -> last1 = last2.
Proof. exact frr_history_independent. Qed.

(* a refused Set leaves the state unchanged and hands nothing on; too many communities / unknown name are refused *)
Theorem C14_mgr_set_refused : forall st p advs st' c,
  mstep gen_frr true st (MSet p advs) = (st', false, c) -> st' = st /\ c = None.
Proof. exact (set_refused gen_frr true). Qed.

Theorem C14_mgr_set_invalid_refused : forall st p advs,
  forallb valid_adv advs = false -> mstep gen_frr true st (MSet p advs) = (st, false, None).
Proof. exact (set_invalid_refused gen_frr true). Qed.

(* an accepted operation hands on exactly the configuration generated from the new state *)
Theorem C14_mgr_step_ok : forall st o st' c, mstep gen_frr true st o = (st', true, c) ->
  c = cfg_of gen_frr st' /\ c <> None.
Proof.
  intros st o st' c H. destruct (step_ok_cfg gen_frr true st o st' c H) as [A|[X _]]; [exact A|discriminate].
Qed.

(* the session table always has distinct names, each entry under its own name *)
Theorem C14_mgr_table_invariant : forall ops st last st' oks last',
  kinv (ms_sessions st) -> mrun gen_frr true st last ops = (st', oks, last') -> kinv (ms_sessions st').
Proof. exact (table_invariant gen_frr true). Qed.

(* renderability = every session's own advertisement list merges (one local preference per prefix) *)
Theorem C14_render_some_iff : forall S, wf_lite S ->
  (render S <> None <-> forall s, In s S -> mk_neighbor s (s_advs s) <> None).
Proof. intros S W. split; [apply render_all; assumption|apply render_some; assumption]. Qed.

Example C14_mgr_hist_ok_nonvacuous :
  let p := mk_pfx "172.16.1.10/32" {| pfam := F4; pbase := 2886730010; plen := 32 |} in
  let q := mk_pfx "fc00:f853:ccd:e799::/64" {| pfam := F6; pbase := 334965454937798799971759379190646833152; plen := 64 |} in
  let s1 := mk_session 100 (Some "10.1.1.254") "" "10.2.2.254" true "" 200 "" None 179 None None None "" "" false false false [] ("", "") in
  let s2 := mk_session 100 (Some "10.1.1.254") "" "192.168.1.1" true "" 200 "" None 179 None None None "" "" false false true [] ("", "") in
  let ops := [MNew s1; MSet s1 [mk_adv p 300 [(false, "65000:200")]; mk_adv q 0 []]; MNew s2;
              MSet s2 [mk_adv p 300 []; mk_adv p 200 []];      (* refused: two local preferences for p *)
              MSet s2 [mk_adv p 100 []]; MBfd [("b", 1%N)]; MExtra "x"; MClose s1] in
  hist_ok gen_frr true good_frr minit ops /\
  exists st last, mrun gen_frr true minit None ops = (st, [true; true; true; false; true; true; true; true], last) /\
                  map fst (ms_sessions st) = [sname s2] /\ last <> None /\ last = cfg_of gen_frr st.
Proof.
  intros p q s1 s2 ops. split; [apply hist_ok_frr_b_sound; vm_compute; reflexivity|].
  eexists. eexists. split; [vm_compute; reflexivity|]. split; [vm_compute; reflexivity|]. split; [discriminate|vm_compute; reflexivity].
Qed.

(* ===== further structure ===== *)

(* every route received from any rendered neighbor is rejected, whatever ft, um *)
Theorem C14_frr_in_denied : forall ft um S c rs n route acc fell,
  render S = Some c -> create_config S = Some rs -> in_out_distinct rs -> In n (all_nbrs rs) ->
  eval_rm ft um c (rm_entries c (rm_in (nc_s n))) route acc fell = None.
Proof. exact in_denied_rendered. Qed.

(* the in-map of a neighbor is never its out-map *)
Theorem C14_in_map_is_not_out_map : forall s, rm_in s <> rm_out s.
Proof. exact rm_in_neq_out. Qed.

(* session parameters and per-family activation on the rendered neighbor; the route-maps it is activated with are
   always its own in / out maps.  BY DEFINITION: the first eleven conjuncts restate the body of the model function
   render_nbr (their weight is the per-case equality of the parsed real text with the model, Run_Frr code 1); only
   the activation table says something beyond unfolding *)
Theorem C14_frr_params : forall asn n,
  let s := nc_s n in let r := render_nbr asn n in
  n_peer r = peer_tok s /\ n_iface r = nonempty (s_iface s) /\ n_asn r = asn_for s /\
  n_multihop r = s_multihop s /\ n_port r = (if N.eqb (s_port s) 0 then None else Some (s_port s)) /\
  n_timers r = (match s_keep s, s_hold s with Some k, Some h => Some ((k / second)%N, (h / second)%N) | _, _ => None end) /\
  n_connect r = (match s_connect s with Some c => if N.eqb (c / second) 0 then None else Some (c / second)%N | None => None end) /\
  n_password r = (if nonempty (s_password s) then Some (s_password s) else None) /\
  n_src r = (match s_src s with Some a => if nonempty a then Some a else None | None => None end) /\
  n_gr r = s_gr s /\ n_bfd r = (if nonempty (s_bfd s) then Some (s_bfd s) else None) /\
  (forall x, n_act4 r = Some x -> x = (rm_in s, rm_out s)) /\
  (forall x, n_act6 r = Some x -> x = (rm_in s, rm_out s)) /\
  (s_disable_mp s = false -> n_act4 r = Some (rm_in s, rm_out s) /\ n_act6 r = Some (rm_in s, rm_out s)) /\
  (s_disable_mp s = true -> nfam_of s = NF4 -> n_act4 r = Some (rm_in s, rm_out s) /\ n_act6 r = None) /\
  (s_disable_mp s = true -> nfam_of s = NF6 -> n_act4 r = None /\ n_act6 r = Some (rm_in s, rm_out s)) /\
  (s_disable_mp s = true -> nfam_of s = NFDual -> n_act4 r = None /\ n_act6 r = None).
Proof. exact render_nbr_params. Qed.

(* shape of the rendered configuration *)
Theorem C14_render_shape : forall S c, render S = Some c ->
  exists rs, create_config S = Some rs /\ routers c = map render_router rs /\ items c = number (filters_of rs) [].
Proof. exact render_routers. Qed.

Theorem C14_router_origin : forall S rs r, create_config S = Some rs -> In r rs ->
  exists k, In k (map rkey S) /\ mk_router S k = Some r.
Proof. exact create_config_router. Qed.

(* a router originates exactly the union of the prefixes requested on its
   sessions, per family, sorted, without duplicates; each of its neighbors is
   built from the sessions with one neighbor name *)
Theorem C14_frr_networks_exact : forall S k r, mk_router S k = Some r ->
  exists first rest, sessions_with rkey k S = first :: rest /\ rc_first r = first /\
    exact_pfx_set (rc_p4 r) (map a_pfx (advs_afi A4 (flat_map s_advs (first :: rest)))) /\
    exact_pfx_set (rc_p6 r) (map a_pfx (advs_afi A6 (flat_map s_advs (first :: rest)))) /\
    forall n, In n (rc_nbrs r) ->
      exists f more, sessions_with nname (nname f) (first :: rest) = f :: more /\
                     mk_neighbor f (flat_map s_advs (f :: more)) = Some n.
Proof. exact mk_router_spec. Qed.

(* [number] only fills in the sequence-number field (by construction; that the MODEL semantics does not read that
   field says nothing about FRR: the bridge to FRR's order is C14_seq_increasing above) *)
Theorem C14_number_only_sets_seq : forall l cnt,
  map strip (number l cnt) = map (fun x => strip (snd x)) l.
Proof. exact number_strip. Qed.

(* by construction of pl_lines / rm_entries *)
Theorem C14_model_sem_ignores_seq : forall its rs a name,
  pl_lines (mk_frr (map strip its) rs) a name = pl_lines (mk_frr its rs) a name /\
  rm_entries (mk_frr (map strip its) rs) name = rm_entries (mk_frr its rs) name.
Proof. intros. split; [apply pl_lines_strip|apply rm_entries_strip]. Qed.

(* the sorted sets the generator relies on: order-independent *)
Theorem C14_sorted_keys_perm : forall l l', Permutation l l' -> sort_s l = sort_s l'.
Proof. exact sort_s_perm. Qed.

(* frr_perm: the configuration is a function of the SET of sessions, independent
   of the creation order (= iteration order of the sessions map) ... *)
Theorem C14_frr_perm : forall S S', wf_perm S -> Permutation S S' -> render S = render S'.
Proof. exact render_perm. Qed.

(* ... and of the order of each session's advertisement list: [adv_perm s s']
   says s' is s with its advertisement list permuted *)
Theorem C14_frr_perm_advs : forall S S', wf_sessions S -> Forall2 adv_perm S S' -> render S = render S'.
Proof. exact render_advperm. Qed.

Theorem C14_frr_perm_full : forall S S1 S',
  wf_sessions S -> Permutation S S1 -> Forall2 adv_perm S1 S' -> render S = render S'.
Proof. exact render_perm_full. Qed.

(* the two facts behind it: addToAdvertisements commutes on a merged list, so the
   merged list does not depend on the order of the advertisements *)
Theorem C14_add_advertisements_commute : forall cur a b,
  ssorted atext cur -> tinj (a :: b :: cur) -> ins2 cur a b = ins2 cur b a.
Proof. exact ins2_comm. Qed.

Theorem C14_merged_advertisements_perm : forall l l', Permutation l l' ->
  forall cur, ssorted atext cur -> pinj (map ac_pfx (cur ++ l)) -> add_all cur l = add_all cur l'.
Proof. exact add_all_perm. Qed.

(* shape of the merged advertisement list of a neighbor (addToAdvertisements /
   mergeAdvertisements): every requested advertisement is covered by an entry
   with the same prefix text and family, the same local preference and at least
   its communities *)
Theorem C14_merged_advertisements_cover : forall f advs n, mk_neighbor f advs = Some n ->
  nc_s n = f /\ forall a, In a advs -> exists y, In y (nc_advs n) /\ covers y (advc_of a).
Proof. exact mk_neighbor_covers. Qed.

(* lists_defined, per neighbor block: every prefix-list a route-map entry of a
   neighbor references has a line (of that address family) in the same block *)
Theorem C14_block_lists_defined : forall f advs n, mk_neighbor f advs = Some n ->
  forall nm sq pm m st nx a name,
    In (IRm nm sq pm m st nx) (map snd (neighbor_filters n)) -> In (a, name) m -> has_line n a name.
Proof. exact block_lists_defined. Qed.

(* F15: without the hypothesis f15_shape s = false, frr_out_exact is REFUTED: the witness satisfies every OTHER
   hypothesis (well-formed, route_ok, canonical texts) and has the F15 shape - a neighbor peered by interface with
   DisableMP - and the requested route is offered under no reading of the semantics *)
Theorem C14_frr_out_exact_refuted : exists s route c,
  wf_sessions [s] /\ route_ok [s] route /\ canonical_texts [s] route /\ f15_shape s = true /\
  render [s] = Some c /\ intended s route <> None /\
  forall ft um, sem_out ft um c (s_vrf s) (peer_tok s) route = None.
Proof.
  exists f15_witness, (mk_pfx "2001:db8::1/128" {| pfam := F6; pbase := 42540766411282592856903984951653826561; plen := 128 |}).
  eexists. split; [apply wf_sessions_b_sound; vm_compute; reflexivity|]. split; [apply route_ok_b_sound; vm_compute; reflexivity|].
  split; [apply canonical_texts_b_sound; vm_compute; reflexivity|]. split; [reflexivity|].
  split; [vm_compute; reflexivity|]. split; [vm_compute; discriminate|].
  intros [|] [|]; vm_compute; reflexivity.
Qed.

(* instances, all four readings of the semantics: repeated prefix with merged
   communities, local preference, a second neighbor without advertisements *)
Example C14_frr_out_exact_instance :
  let p := mk_pfx "172.16.1.10/32" {| pfam := F4; pbase := 2886730010; plen := 32 |} in
  let q := mk_pfx "fc00:f853:ccd:e799::/64" {| pfam := F6; pbase := 334965454937798799971759379190646833152; plen := 64 |} in
  let s1 := mk_session 100 (Some "10.1.1.254") "" "10.2.2.254" true "" 200 "" None 179 None None None "" "" false false false
              [mk_adv p 300 [(false, "65000:200"); (true, "64512:1:2")]; mk_adv p 300 [(false, "65000:100")]; mk_adv q 0 [(false, "65000:100")]] ("", "") in
  let s2 := mk_session 100 (Some "10.1.1.254") "" "192.168.1.1" true "" 200 "" None 179 None None None "" "" false false true [] ("", "") in
  match render [s2; s1] with
  | Some c =>
      lists_defined_b c = true /\ seqs_increasing_b c = true /\
      forallb (fun fu => forallb (fun s => forallb (fun r =>
        attrs_equiv_b (sem_out (fst fu) (snd fu) c (s_vrf s) (peer_tok s) r) (intended s r)) [p; q]) [s1; s2])
        [(false, false); (false, true); (true, false); (true, true)] = true /\
      sem_out false false c "" "10.2.2.254" p = Some (mk_attrs (Some 300%N) ["65000:100"; "65000:200"] ["64512:1:2"]) /\
      sem_out true true c "" "192.168.1.1" p = None
  | None => False
  end.
Proof. vm_compute. repeat split. Qed.

(* non-vacuity of the premises and an application of the theorem *)
Example C14_wf_nonvacuous :
  let p := mk_pfx "172.16.1.10/32" {| pfam := F4; pbase := 2886730010; plen := 32 |} in
  let q := mk_pfx "fc00:f853:ccd:e799::/64" {| pfam := F6; pbase := 334965454937798799971759379190646833152; plen := 64 |} in
  let s1 := mk_session 100 (Some "10.1.1.254") "" "10.2.2.254" true "" 200 "" None 179 None None None "" "" false false false
              [mk_adv p 300 [(false, "65000:200"); (true, "64512:1:2")]; mk_adv p 300 [(false, "65000:100")]; mk_adv q 0 [(false, "65000:100")]] ("", "") in
  let s2 := mk_session 100 (Some "10.1.1.254") "" "192.168.1.1" true "" 200 "" None 179 None None None "" "" false false true [] ("", "") in
  wf_sessions [s2; s1] /\ route_ok [s2; s1] p /\ f15_shape s1 = false /\
  forall ft um c, render [s2; s1] = Some c ->
    attrs_equiv (sem_out ft um c (s_vrf s1) (peer_tok s1) p) (intended s1 p).
Proof.
  intros p q s1 s2.
  assert (W: wf_sessions [s2; s1]) by (apply wf_sessions_b_sound; vm_compute; reflexivity).
  assert (R: route_ok [s2; s1] p) by (apply route_ok_b_sound; vm_compute; reflexivity).
  split; [exact W|]. split; [exact R|]. split; [reflexivity|].
  intros ft um c Hr. apply (frr_out_exact ft um [s2; s1] c s1 p W Hr); [right; left; reflexivity|exact R|reflexivity].
Qed.
