(* C13 — Layer-2 responder answers exactly for the addresses it currently
   announces.  Statements only; proofs in Proofs/Announcer{P,NdpP,Top}.v.
   [reached ar nd us] is the announcer state after the history [us] of
   SetBalancer / DeleteBalancer calls, with ARP responders on the interfaces
   [ar] and NDP responders on [nd].  [holds s svc a]: service [svc] lists the
   advertisement [a] in Announce.ips.  Every theorem quantifies over all
   histories, services, addresses and interfaces. *)
From Coq Require Import List NArith ZArith Bool.
From Verif Require Import Model.Net Model.Announcer Proofs.AnnouncerP Proofs.AnnouncerNdpP Proofs.AnnouncerTop
  Model.AnnouncerExt Proofs.AnnouncerExtP Proofs.AnnouncerLockP Model.AnnouncerJoin Proofs.AnnouncerJoinP.
From Verif Require Model.Lock.
Import ListNotations.
Local Open Scope Z_scope.

(* ipRefcnt ip = number of services listing ip; a service lists an address at
   most once (and no service has an empty entry); keys are unique *)
Theorem C13_refcnt_inv : forall ar nd us, let s := reached ar nd us in
  (forall i, rc s i = Z.of_nat (services_with s i)) /\
  (forall svc advs, lookup svc (ips s) = Some advs -> NoDup (map a_ip advs) /\ advs <> []) /\
  NoDup (map fst (ips s)).
Proof. exact t_refcnt_inv. Qed.

(* the node answers for (address, interface) iff some announced service holds the
   address with an advertisement covering the interface *)
Theorem C13_answer_iff : forall ar nd us i intf, let s := reached ar nd us in
  should_announce s i intf = DNone <->
  exists svc a, holds s svc a /\ a_ip a = i /\ match_intf a intf = true.
Proof. exact t_answer_iff. Qed.

(* the two refusals: address not held at all / held but not on this interface *)
Theorem C13_drop_reason : forall ar nd us i intf, let s := reached ar nd us in
  (should_announce s i intf = DAnnounceIP <-> forall svc a, holds s svc a -> a_ip a <> i) /\
  (should_announce s i intf = DNone \/ should_announce s i intf = DAnnounceIP \/
   should_announce s i intf = DNotMatchIntf).
Proof. exact t_drop_reason. Qed.

(* Go's map iteration order does not influence the verdict *)
Theorem C13_order_independent : forall i intf l l',
  (forall a, In a l <-> In a l') -> scan i intf l false = scan i intf l' false.
Proof. exact scan_set_ext. Qed.

(* after the last service holding the address is withdrawn: no answer on any
   interface, no ARP reply to any packet, no unsolicited announcement *)
Theorem C13_withdraw_last : forall ar nd us name i, let s := reached ar nd us in
  (forall svc a, holds s svc a -> a_ip a = i -> svc = name) ->
  let s' := delete_balancer name s in
  (forall intf, should_announce s' i intf = DAnnounceIP) /\
  (forall intf mac op dst, arp_process s' intf mac op dst i <> DNone) /\
  (forall a, a_ip a = i -> gratuitous s' a = []) /\ rc s' i = 0.
Proof. exact t_withdraw_last. Qed.

(* withdrawing one of several services sharing the address does not interrupt
   answers nor unsolicited announcements *)
Theorem C13_withdraw_one_of_many : forall ar nd us name other a intf, let s := reached ar nd us in
  other <> name -> holds s other a -> match_intf a intf = true ->
  let s' := delete_balancer name s in
  should_announce s' (a_ip a) intf = DNone /\ 0 < rc s' (a_ip a) /\
  (forall b, a_ip b = a_ip a -> gratuitous s' b = match a_ip b with
     | V4 _ => map (pair true) (filter (match_intf b) (arps s'))
     | V6 _ => map (pair false) (filter (match_intf b) (ndps s')) end).
Proof. exact t_withdraw_one_of_many. Qed.

(* announce / re-announce with a changed interface set *)
Theorem C13_announce : forall ar nd us name a, let s := reached ar nd us in
  let s' := set_balancer name a s in
  holds s' name a /\
  (forall b, holds s' name b -> a_ip b = a_ip a -> b = a) /\
  (forall b, a_ip b <> a_ip a -> (holds s' name b <-> holds s name b)) /\
  (forall svc b, svc <> name -> (holds s' svc b <-> holds s svc b)) /\
  (forall intf, match_intf a intf = true -> should_announce s' (a_ip a) intf = DNone) /\
  (forall intf, (forall svc b, svc <> name -> holds s svc b -> a_ip b <> a_ip a) ->
                (should_announce s' (a_ip a) intf = DNone <-> match_intf a intf = true)).
Proof. exact t_announce. Qed.

(* unsolicited announcements: nothing is sent for an address nobody holds;
   whatever is sent goes to a responder covered by the advertisement *)
Theorem C13_gratuitous_guard : forall ar nd us a, let s := reached ar nd us in
  (rc s (a_ip a) <= 0 -> gratuitous s a = []) /\
  (rc s (a_ip a) = 0 <-> forall svc b, holds s svc b -> a_ip b <> a_ip a) /\
  (forall x, In x (gratuitous s a) ->
     (exists svc b, holds s svc b /\ a_ip b = a_ip a) /\ match_intf a (snd x) = true /\
     In (snd x) (if fst x then arps s else ndps s)).
Proof. exact t_gratuitous_guard. Qed.

(* ASSUMPTION of the two exact NDP group theorems (C13_ndp_groups_balanced here,
   C13_x_ndp_groups_balanced below), built into the model functions watch1 / unwatch1 and therefore
   not a hypothesis of their statements: conn.JoinGroup NEVER FAILS.  Histories in which joins fail
   are the subject of C13_j_groups below (Model/AnnouncerJoin.v; defect F30, fixed by 5ea1991).
   conn.LeaveGroup failing only produces an error message in Go: the counters are not affected.

   per NDP responder and solicited-node group: the watcher count equals the
   number of distinct announced IPv6 addresses mapping to the group, and the
   socket is a member of the group iff that number is positive *)
Theorem C13_ndp_groups_balanced : forall ar nd us intf g, NoDup nd -> In intf nd ->
  let s := reached ar nd us in
  grp s intf g = Z.of_nat (length (filter (in_group g) (announced s))) /\
  mem s intf g = (if 0 <? grp s intf g then 1 else 0) /\
  NoDup (announced s) /\
  (forall i, In i (announced s) <-> exists svc a, holds s svc a /\ a_ip a = i).
Proof. exact t_ndp_groups_balanced. Qed.

(* DEFINITIONAL (an unfolding of the three tests of the model's arp_process / ndp_process, which
   transcribe processRequest after a successful read; the content is the correspondence run that
   sends every operation x destination x target through the real responder): the ARP responder
   replies iff the packet is a request, addressed to the node or to broadcast, and the announcer
   answers for (target, interface); for every announcer state, reachable or not *)
Theorem C13_arp_reply_iff : forall s intf mac op dst t,
  arp_process s intf mac op dst t = DNone <->
  op = 1%N /\ (dst = bcast \/ dst = mac) /\ should_announce s t intf = DNone.
Proof. exact arp_reply_iff. Qed.

(* The same on the received FRAME, to make explicit which address the filter is about: "addressed
   to the node or to broadcast" is the destination of the ETHERNET header ([f_eth_dst]), not the
   target-hardware-address field of the ARP payload ([f_tha]).  A request sent to the node's MAC
   with a zero THA is answered for an announced address; a frame for another station whose THA is
   the node's MAC is not.  The Go generator chooses the two independently (own MAC / broadcast /
   another station / zero each) and ships both to [arp_process_frame]. *)
Theorem C13_arp_frame_reply_iff : forall s intf mac f,
  arp_process_frame s intf mac f = DNone <->
  f_op f = 1%N /\ (f_eth_dst f = bcast \/ f_eth_dst f = mac) /\ should_announce s (f_target f) intf = DNone.
Proof. exact arp_frame_reply_iff. Qed.

(* BY DEFINITION of [arp_process_frame] (the field is not read): the decision does not depend on the
   ARP payload's target hardware address.  What carries weight is that the real responder agrees
   with [arp_process_frame] on frames whose THA differs from the Ethernet destination (oracle). *)
Theorem C13_arp_tha_irrelevant : forall s intf mac f tha,
  arp_process_frame s intf mac (mk_arp_frame (f_eth_dst f) (f_op f) tha (f_target f)) = arp_process_frame s intf mac f.
Proof. exact arp_frame_tha_irrelevant. Qed.

(* WHICH drop label a responder reports for a packet it does not answer is free when several reasons
   apply (a reply addressed to another station is "a reply" and "not for us"; a solicitation for a
   foreign address without source link-layer option is "not ours" and "no source address"): the
   oracle accepts every label among the applicable ones ([arp_reasons] / [ndp_reasons], [admissible]).
   That freedom cannot change whether the packet is answered: any admissible label is DNone exactly
   when the model answers; and the label the model itself reports is admissible. *)
Theorem C13_arp_label_free : forall s intf mac op dst t d,
  admissible (arp_reasons s intf mac op dst t) d = true ->
  (d = DNone <-> arp_process s intf mac op dst t = DNone).
Proof. exact arp_label_free. Qed.

Theorem C13_arp_model_label_admissible : forall s intf mac op dst t,
  admissible (arp_reasons s intf mac op dst t) (arp_process s intf mac op dst t) = true.
Proof. exact arp_process_admissible. Qed.

Theorem C13_ndp_label_free : forall s intf ns ll t d,
  admissible (ndp_reasons s intf ns ll t) d = true ->
  (d = DNone <-> ndp_process s intf ns ll t = DNone).
Proof. exact ndp_label_free. Qed.

Theorem C13_ndp_model_label_admissible : forall s intf ns ll t,
  admissible (ndp_reasons s intf ns ll t) (ndp_process s intf ns ll t) = true.
Proof. exact ndp_process_admissible. Qed.

(* The responder LOOP (arpResponder.run: processRequest until dropReasonClosed).  A frame the parsers
   reject is a no-op: as long as the socket is not closed every frame is processed, and a
   well-formed request is answered exactly as if it were the only frame, whatever malformed frames
   came before it.  The variant that takes a malformed frame for the end of the socket
   ([arp_run_exit]) processes nothing after the first one (refuted).  The Go harness feeds runt /
   truncated / oversized-length / foreign-ethertype frames through the real read path between
   well-formed requests, and runs the real run() loop across a malformed frame. *)
Theorem C13_malformed_frame_noop : forall s intf mac rs i f,
  ~ In RxClosed rs -> nth_error rs i = Some (RxFrame f) ->
  nth_error (arp_run s intf mac rs) i = Some (arp_process_frame s intf mac f).
Proof. exact arp_run_frame. Qed.

Theorem C13_malformed_frame_loop_goes_on : forall s intf mac rs,
  ~ In RxClosed rs -> arp_run s intf mac rs = map (rx_drop s intf mac) rs.
Proof. exact arp_run_all. Qed.

Theorem C13_malformed_as_closed_refuted : forall s intf mac pre post,
  ~ In RxClosed pre -> ~ In RxMalformed pre ->
  length (arp_run_exit s intf mac (pre ++ RxMalformed :: post)) = S (length pre).
Proof. exact arp_run_exit_stops. Qed.

Theorem C13_ndp_reply_iff : forall s intf ns ll t,
  ndp_process s intf ns ll t = DNone <-> ns = true /\ ll = true /\ should_announce s t intf = DNone.
Proof. exact ndp_reply_iff. Qed.

(* "holds while announcements are changed concurrently with incoming requests" — PARTIAL, in two steps.

   (1) BY DEFINITION of [exec] (one event = one step of the state) a schedule of updates and
   requests ends in the state of the updates in schedule order and answers every request from a
   prefix of the updates: the theorem only equates two presentations of the same sequential
   fold.  It states what the Go oracle / trace validation of the concurrent harness compare
   against; it proves nothing about locks. *)
Theorem C13_rw_serial_by_definition : forall evs s0,
  exec evs s0 = (run (updates evs) s0, serial_answers evs [] s0) /\
  forall ans, In ans (snd (exec evs s0)) ->
    exists pre post q, updates evs = pre ++ post /\ ans = ask (run pre s0) q.
Proof. exact t_rw_atomic. Qed.

(* (2) at the level of the lock: in the reader/writer machine of Model/Lock.v (Lock / RLock, steps
   inside the sections, Unlock / RUnlock interleaved arbitrarily, readers may overlap) instantiated
   with THIS model's functions — writer k is one section performing [apply_upd _ (us k)], reader k
   one section computing [ask _ (qs k)] — every answer is [ask] on the state left by a prefix, in
   lock-acquisition order, of the COMPLETE updates, and outside writer sections the state is the
   serial run.  What remains outside Coq: that each Go method IS such a section
   (announcer_methods_are_critical_sections, decided on the facts regenerated from announcer.go for
   SetBalancer, DeleteBalancer, shouldAnnounce, gratuitous, AnnounceName — not for updateInterfaces,
   GetStatus, GetInterfaces) and that sync.RWMutex behaves like the machine. *)
Theorem C13_rw_lock_level : forall (us : nat -> upd) (qs : nat -> query) s0 h c,
  let wb := fun k => [fun s => apply_upd s (us k)] in
  let rq := fun k s => ask s (qs k) in
  Lock.rwinit st answer s0 h -> Lock.rwsteps st answer wb rq (Lock.mk_rwconfig st answer s0 h []) c ->
  (forall i a, Lock.rths st answer c i = Lock.RGot st answer a \/ Lock.rths st answer c i = Lock.RDone st answer a ->
     exists k, a = ask (Lock.serial st wb (skipn k (Lock.rorder st answer c)) s0) (qs i)) /\
  ((forall i, ~ Lock.writer_in st answer (Lock.rths st answer c i)) ->
   Lock.rsigma st answer c = Lock.serial st wb (Lock.rorder st answer c) s0).
Proof. exact t_rw_lock_level. Qed.

(* DeleteBalancer removes exactly the service's entries (the announce side is in C13_announce): with
   the two, [holds] is pinned down as "currently announced" by recursion over the history *)
Theorem C13_withdraw_frame : forall ar nd us name svc a, let s := reached ar nd us in
  holds (delete_balancer name s) svc a <-> svc <> name /\ holds s svc a.
Proof. intros ar nd us name svc a s. apply holds_delete. apply reached_inv. Qed.

(* ------------------------------------------------------------------------------------------
   The rest of announcer.go (Model/AnnouncerExt.v): control flow of the loops, the spam loop,
   the gratuitous sweeps and the interface rescan, interleaved in ANY order with SetBalancer /
   DeleteBalancer / requests ([xrun evs (xinit ar nd)], evs an arbitrary event list).
   ------------------------------------------------------------------------------------------ *)

(* MODEL = MODEL (no link to Go by themselves): the statement-by-statement transcriptions of
   DeleteBalancer and gratuitous, loops with their continue / return through [for_each], compute the
   same as the compact functions of Model/Announcer.v all theorems above speak about.  What this
   buys: the compact model may be read as the loop-level code; the link to Go is the correspondence
   run plus announcer_skeleton_matches (which loops exist and how they are left). *)
Theorem C13_delete_transcription : forall name s, delete_balancer_t name s = delete_balancer name s.
Proof. exact delete_balancer_t_eq. Qed.

Theorem C13_gratuitous_transcription : forall s a, gratuitous_t s a = gratuitous s a.
Proof. exact gratuitous_t_eq. Qed.

(* ([_refuted] here and in C13_gratuitous_return_refuted / C13_x_ndp_groups_balanced_prefix_refuted is
   about a MUTANT or PRE-FIX model, not about the faithful one.)
   ... and the same loops with `return` where the code says `continue` are NOT: withdrawing one of two
   services sharing an address leaves the service listed and the count wrong (seeded C13-4 / C09-4);
   a sweep that returns at the first uncovered responder skips the covered ones behind it *)
Theorem C13_delete_return_refuted :
  exists ar nd us name i,
    let s := reached ar nd us in let s' := delete_balancer_return name s in
    announce_name s' name = true /\ rc s' i = 1 /\ services_with s' i = 2%nat /\
    announce_name (delete_balancer name s) name = false.
Proof. exact delete_return_refuted. Qed.

Theorem C13_gratuitous_return_refuted :
  exists ar nd us a, let s := reached ar nd us in
    gratuitous_return s a = [] /\ gratuitous s a = [(true, 2%N)].
Proof. exact gratuitous_return_refuted. Qed.

(* in every state reachable by any interleaving of announce / withdraw / spam-loop receive / spam-loop
   tick (any expiry choice) / interface rescan (any responder sets) / requests: reference counts are
   exact, the node answers (address, interface) iff an announced service holds the address there,
   and refuses with "not announced" iff nobody holds it *)
Theorem C13_x_state : forall ar nd evs, let s := base (xrun evs (xinit ar nd)) in
  (forall i, rc s i = Z.of_nat (services_with s i)) /\
  (forall i intf, should_announce s i intf = DNone <->
                  exists svc a, holds s svc a /\ a_ip a = i /\ match_intf a intf = true) /\
  (forall i intf, should_announce s i intf = DAnnounceIP <-> forall svc a, holds s svc a -> a_ip a <> i).
Proof. exact t_x_state. Qed.

(* the packet log only grows, and every packet a step APPENDS (multiplicities count: a packet equal to
   an earlier one is a new element of the suffix) is for an address that an announced service holds
   at that moment, on a responder that exists at that moment *)
Theorem C13_x_unsolicited_sound : forall ar nd evs e, let x := xrun evs (xinit ar nd) in
  exists new, sent (xstep x e) = (sent x ++ new)%list /\
    forall y, In y new ->
      (exists svc b, holds (base x) svc b /\ a_ip b = snd y) /\
      In (snd (fst y)) (if fst (fst y) then arps (base x) else ndps (base x)).
Proof. exact t_x_unsolicited_sound_app. Qed.

(* after DeleteBalancer of the last holder of i: whatever the spam loop has queued or is still
   repeating, whatever is rescanned, and until i is announced again — no answer on any interface,
   no ARP reply to any packet, and NO further unsolicited announcement for i: everything appended
   to the packet log from then on is for other addresses *)
Theorem C13_x_withdraw_last : forall ar nd evs name i evs', let x := xrun evs (xinit ar nd) in
  (forall svc a, holds (base x) svc a -> a_ip a = i -> svc = name) ->
  Forall (not_set_of i) evs' ->
  let x' := xrun evs' (xstep x (XDel name)) in
  (forall intf, should_announce (base x') i intf = DAnnounceIP) /\
  (forall intf mac op dst, arp_process (base x') intf mac op dst i <> DNone) /\
  (exists new, sent x' = (sent x ++ new)%list /\ forall y, In y new -> snd y <> i).
Proof. exact t_x_withdraw_last_app. Qed.

(* the log is really a list with repetitions: the same address announced, received by the loop and
   repeated at a tick is logged twice *)
Example C13_x_sent_counts_repetitions :
  let a := mk_adv (V4 1) true [] in
  sent (xrun [XSet 1 a; XRecv; XTick (fun _ => false)] (xinit [1%N] [])) = [((true, 1%N), V4 1); ((true, 1%N), V4 1)].
Proof. vm_compute. reflexivity. Qed.

(* NDP groups, for ALL interleavings including rescans that create and close responders (the
   responder sets found have no duplicates: keys of a.ndps): on every responder that exists, the
   watcher counts equal the number of distinct announced IPv6 addresses per group, the socket is
   a member iff that number is positive, and once no announced address maps to a group it has
   been LEFT.  Holds since fix 437595c (defect F29): a new responder Watches what is in use.
   Same ASSUMPTION as C13_ndp_groups_balanced: JoinGroup never fails (failing joins: C13_j_groups). *)
Theorem C13_x_ndp_groups_balanced : forall ar nd evs intf g, NoDup nd -> Forall wf_ev evs ->
  let s := base (xrun evs (xinit ar nd)) in
  In intf (ndps s) ->
  grp s intf g = Z.of_nat (length (filter (in_group g) (announced s))) /\
  mem s intf g = (if 0 <? grp s intf g then 1 else 0) /\
  ((forall j, In j (announced s) -> in_group g j = false) -> mem s intf g = 0).
Proof. exact x_groups_balanced. Qed.

(* regression of the model for F29: with the rescan as it was BEFORE the fix (rescan_prefix), a
   responder created after an IPv6 address was announced is not joined to the address'
   solicited-node group although the announcer answers for it there *)
Theorem C13_x_ndp_groups_balanced_prefix_refuted :
  exists intf g i, let s := rescan_prefix [] [1%N] (set_balancer 1 (mk_adv (V6 1193046) true []) (init [] [])) in
    In intf (ndps s) /\ In i (announced s) /\ in_group g i = true /\
    should_announce s i intf = DNone /\ grp s intf g = 0 /\ mem s intf g = 0.
Proof. exact late_responder_not_joined_prefix. Qed.

Example C13_x_late_responder_joined :
  let s := base (xrun [XSet 1 (mk_adv (V6 1193046) true []); XRescan [] [1%N]] (xinit [] [])) in
  grp s 1 1193046 = 1 /\ mem s 1 1193046 = 1.
Proof. exact late_responder_joined. Qed.

(* ------------------------------------------------------------------------------------------
   Multicast joins that FAIL (Model/AnnouncerJoin.v): the outcome of conn.JoinGroup on every
   responder is an argument of each announce step ([JSet name a jok], any function jok).
   ------------------------------------------------------------------------------------------ *)

(* for every history with arbitrary join outcomes, every responder and group: the watcher count stays
   between 0 and the number n of distinct announced IPv6 addresses of the group; the socket is a
   member of the group iff the count is positive; if every join of the history succeeded the count
   is exactly n; and when no announced address maps to the group any more the count is 0 and the
   group has been left (nothing leaks, nothing goes negative: the next announcement joins again).
   What is NOT claimed, because it is not true of the code: that an address whose own join failed
   is listened for — it is only once a later Watch of its group succeeds (another address of the
   group, or the address itself after a withdraw), and withdrawing an address whose join had
   failed decrements the count that other addresses of the group built up. *)
Theorem C13_j_groups : forall ar nd us intf g, NoDup nd -> In intf nd ->
  let s := runj us (init ar nd) in
  let n := Z.of_nat (length (filter (in_group g) (announced s))) in
  0 <= grp s intf g <= n /\
  mem s intf g = (if 0 <? grp s intf g then 1 else 0) /\
  (all_joined nd us = true -> grp s intf g = n) /\
  (n = 0 -> grp s intf g = 0 /\ mem s intf g = 0).
Proof. exact t_j_groups. Qed.

(* join failures do not touch services, reference counts and answers: everything above about
   [reached] applies to the history with the outcomes erased *)
Theorem C13_j_same_services : forall ar nd us,
  let s := runj us (init ar nd) in let t := reached ar nd (map erase us) in
  ips s = ips t /\ refcnt s = refcnt t /\ (forall i intf, should_announce s i intf = should_announce t i intf).
Proof. exact t_j_same_services. Qed.

(* regression of the model for F30: BEFORE fix 5ea1991 Unwatch decremented unconditionally
   ([runj_prefix] withdraws with the old delete_balancer): one failed join, the withdrawal (count -1)
   and a new announcement whose join would succeed leave the address announced, the count 0 and the
   group not joined; with the fix the same history ends joined *)
Theorem C13_j_prefix_refuted :
  let a := mk_adv (V6 1193046) true [] in
  let us := [JSet 1 a (fun _ => false); JDel 1; JSet 1 a (fun _ => true)] in
  let s := runj_prefix us (init [] [1%N]) in
  should_announce s (V6 1193046) 1 = DNone /\ rc s (V6 1193046) = 1 /\ grp s 1 1193046 = 0 /\ mem s 1 1193046 = 0 /\
  grp (runj_prefix [JSet 1 a (fun _ => false); JDel 1] (init [] [1%N])) 1 1193046 = -1 /\
  grp (runj us (init [] [1%N])) 1 1193046 = 1 /\ mem (runj us (init [] [1%N])) 1 1193046 = 1.
Proof. exact j_prefix_refuted. Qed.

(* non-vacuity: two services share 10.0.0.1 (one on interface 1 only), a third
   address is IPv6; withdraw one, then the other *)
Example C13_nonvacuous :
  let a1 := mk_adv (V4 167772161) false [1%N] in
  let a2 := mk_adv (V4 167772161) true [] in
  let a6 := mk_adv (V6 1193046) true [] in
  let s := reached [1%N; 2%N] [1%N] [USet 1 a1; USet 2 a2; USet 2 a6] in
  rc s (V4 167772161) = 2 /\ should_announce s (V4 167772161) 2 = DNone /\
  should_announce (delete_balancer 2 s) (V4 167772161) 2 = DNotMatchIntf /\
  should_announce (delete_balancer 2 s) (V4 167772161) 1 = DNone /\
  should_announce (delete_balancer 1 (delete_balancer 2 s)) (V4 167772161) 1 = DAnnounceIP /\
  grp s 1 1193046 = 1 /\ mem s 1 1193046 = 1 /\ mem (delete_balancer 2 s) 1 1193046 = 0 /\
  gratuitous s a1 = [(true, 1%N)] /\ gratuitous (delete_balancer 1 (delete_balancer 2 s)) a1 = [] /\
  arp_process s 2 7 1 bcast (V4 167772161) = DNone /\ arp_process s 2 7 2 bcast (V4 167772161) = DArpReply /\
  arp_process s 2 7 1 8 (V4 167772161) = DEthDst.
Proof. vm_compute. repeat split. Qed.
