(* C15 — FRR-K8s mode.  Statements only; proofs in Proofs/FrrK8sP.v, FrrSortP.v.
   Model/FrrK8s.v: [k8s_render node S] is the FRRConfiguration updateConfig hands
   to the callback for the session set S (None = it returns an error);
   [k_neighbor s] the Neighbor built from session s.  [exact_pfx_set ps src]:
   ps is strictly sorted by prefix text, without duplicates, and holds exactly
   the prefixes of src.  [key_inj sname S]: session names are distinct (they are
   the keys of the map the sessions live in). *)
From Coq Require Import String NArith Bool List Permutation Sorted.
From Verif Require Import Model.FrrSpec Model.FrrK8s Proofs.FrrSortP Proofs.FrrK8sP Proofs.FrrK8sEqP Model.FrrMgr Proofs.FrrMgrP Proofs.FrrWfP Proofs.FrrAdvPermP Proofs.FrrK8sAdvP.
Import ListNotations.
Open Scope string_scope.

(* nothing leaks across neighbors: every neighbor of the configuration is the
   image of one session of S, placed in the router of that session *)
Theorem C15_k8s_neighbor_origin : forall node S c r n,
  k8s_render node S = Some c -> In r (kc_routers c) -> In n (kr_nbrs r) ->
  exists s, In s S /\ k_neighbor s = Some n /\ k_router S (rkey s) = Some r.
Proof. exact k8s_neighbor_origin. Qed.

(* ... and every session has its neighbor *)
Theorem C15_k8s_session_has_neighbor : forall node S c s,
  key_inj sname S -> k8s_render node S = Some c -> In s S ->
  exists r n, In r (kc_routers c) /\ In n (kr_nbrs r) /\ k_neighbor s = Some n /\ k_router S (rkey s) = Some r.
Proof. exact k8s_session_has_neighbor. Qed.

(* allowed = the requested prefixes, sorted, without duplicates *)
Theorem C15_k8s_allowed_exact : forall s n,
  k_neighbor s = Some n -> exact_pfx_set (kn_allowed n) (map a_pfx (s_advs s)).
Proof. exact k_neighbor_allowed. Qed.

(* each community is associated with exactly the prefixes that requested it;
   the communities listed are exactly the requested ones, sorted, once each *)
Theorem C15_k8s_comm_exact : forall s n,
  k_neighbor s = Some n ->
  map fst (kn_with_comm n) = comm_keys (s_advs s) /\
  StronglySorted slt (map fst (kn_with_comm n)) /\ NoDup (map fst (kn_with_comm n)) /\
  forall k ps, In (k, ps) (kn_with_comm n) ->
    exact_pfx_set ps (map a_pfx (filter (has_comm k) (s_advs s))).
Proof. exact k_neighbor_comm. Qed.

Theorem C15_k8s_comm_keys : forall advs k,
  In k (comm_keys advs) <-> exists a c, In a advs /\ In c (a_comms a) /\ comm_key c = k.
Proof. exact comm_keys_spec. Qed.

Theorem C15_k8s_has_comm : forall k a,
  has_comm k a = true <-> exists c, In c (a_comms a) /\ comm_key c = k.
Proof. exact has_comm_spec. Qed.

(* each non-zero local preference is associated with exactly its prefixes; 0 is never listed *)
Theorem C15_k8s_lp_exact : forall s n,
  k_neighbor s = Some n ->
  map fst (kn_with_lp n) = lp_keys (s_advs s) /\
  StronglySorted N.lt (map fst (kn_with_lp n)) /\ ~ In 0%N (map fst (kn_with_lp n)) /\
  forall l ps, In (l, ps) (kn_with_lp n) ->
    exact_pfx_set ps (map a_pfx (filter (fun a => N.eqb (a_lp a) l) (s_advs s))).
Proof. exact k_neighbor_lp. Qed.

Theorem C15_k8s_lp_keys : forall advs n,
  In n (lp_keys advs) <-> n <> 0%N /\ exists a, In a advs /\ a_lp a = n.
Proof. exact lp_keys_spec. Qed.

(* a router lists exactly the union of the prefixes requested on its sessions,
   and takes ASN / id / VRF from them *)
Theorem C15_k8s_router_prefixes_exact : forall S k r,
  k_router S k = Some r ->
  exists first rest, sessions_with rkey k S = first :: rest /\
    kr_asn r = s_myasn first /\ kr_vrf r = s_vrf first /\
    kr_id r = (match s_rid first with Some i => i | None => "" end) /\
    all_some (map k_neighbor (sort_k sname (first :: rest))) = Some (kr_nbrs r) /\
    exact_pfx_set (kr_prefixes r) (map a_pfx (flat_map s_advs (first :: rest))).
Proof. exact k_router_spec. Qed.

(* the configuration targets only this node (BY DEFINITION: the literal of k8s_render; weight = per-case equality) *)
Theorem C15_k8s_node_selector : forall node S c, k8s_render node S = Some c ->
  kc_node_selector c = [("kubernetes.io/hostname", node)] /\ kc_name c = "metallb-" ++ node.
Proof. exact k8s_render_selector. Qed.

(* session parameters are carried verbatim ... PARTIAL: all parameters but the source address (F24, refuted below).
   BY DEFINITION: restates the neighbor literal of the model function k_neighbor; its weight is the per-case
   equality of the real FRRConfiguration with the model (Run_FrrK8s code 1) *)
Theorem C15_k8s_params_partial : forall s n, k_neighbor s = Some n ->
  kn_address n = s_addr s /\ kn_interface n = s_iface s /\ kn_asn n = s_peerasn s /\ kn_dynasn n = s_dynasn s /\
  kn_port n = s_port s /\ kn_hold n = s_hold s /\ kn_keep n = s_keep s /\ kn_connect n = s_connect s /\
  kn_bfd n = s_bfd s /\ kn_gr n = s_gr s /\ kn_multihop n = s_multihop s /\ kn_disable_mp n = s_disable_mp s /\
  kn_password n = s_password s /\ kn_secret n = s_secret s.
Proof. exact k_neighbor_params. Qed.

(* ... except the source address (finding F24): "all session parameters are
   carried" is refuted; C15_k8s_params_partial above is the partial statement *)
Theorem C15_k8s_params_source_refuted : exists s n,
  k_neighbor s = Some n /\ s_src s = Some "10.1.1.254" /\ kn_source n = "".
Proof.
  exists (mk_session 100 None "" "10.2.2.254" true "" 200 "" (Some "10.1.1.254") 179 None None None "" "" false false false [] ("", "")).
  eexists. split; [vm_compute; reflexivity|]. split; reflexivity.
Qed.

(* by definition of k_neighbor *)
Theorem C15_k8s_source_always_dropped : forall s n, k_neighbor s = Some n -> kn_source n = "".
Proof. exact k_neighbor_source_dropped. Qed.

(* either the password or the secret reference, never both (by definition: the guard of k_neighbor = the guard
   in updateConfig; "neither" is allowed) *)
Theorem C15_k8s_password_xor : forall s n, k_neighbor s = Some n ->
  nonempty (kn_password n) && negb (secret_empty (kn_secret n)) = false.
Proof. exact k_neighbor_password_xor. Qed.

Theorem C15_k8s_refuses_both : forall s,
  nonempty (s_password s) = true -> secret_empty (s_secret s) = false -> k_neighbor s = None.
Proof. exact k_neighbor_refuses_both. Qed.

Theorem C15_password_for_session : forall p t h pw ref,
  password_for_session p t h = Some (pw, ref) ->
  match t, h with
  | BgpFrrK8s, SecretPassThrough => pw = pw_password p /\ ref = pw_ref p
  | BgpOther, _ => pw = "" /\ ref = ("", "")
  | _, _ => ref = ("", "") /\ pw = (if nonempty (pw_secret_password p) then pw_secret_password p else pw_password p)
  end.
Proof. exact password_for_session_spec. Qed.

Theorem C15_password_for_session_xor : forall p t h pw ref,
  (nonempty (pw_password p) && negb (secret_empty (pw_ref p)) = false) ->
  password_for_session p t h = Some (pw, ref) ->
  nonempty pw && negb (secret_empty ref) = false.
Proof. exact password_for_session_xor. Qed.

(* deterministic function of the session SET: independent of the creation order *)
Theorem C15_k8s_perm : forall node S S',
  key_inj sname S -> rkey_fields S -> pfx_texts_inj S -> Permutation S S' ->
  k8s_render node S = k8s_render node S'.
Proof. exact k8s_render_perm. Qed.

(* ... and of the order of each session's advertisement list ([adv_perm s s']: s' is s with its list permuted);
   only "a prefix text determines the prefix" is needed *)
Theorem C15_k8s_perm_advs : forall node S S',
  key_inj p_text (map a_pfx (flat_map s_advs S)) -> Forall2 adv_perm S S' -> k8s_render node S = k8s_render node S'.
Proof. exact k8s_render_advperm. Qed.

(* the FRRConfiguration, read per neighbor ([sem_k8s]: Allowed, PrefixesWithLocalPref,
   PrefixesWithCommunity with the "large:" marker, DisableMP activation), offers each
   neighbor exactly what its session requests in the activated families.
   [comms_ok]: texts of standard communities do not start with "large:";
   [lp_consistent s]: a prefix is requested with one local preference *)
Theorem C15_k8s_out_offered : forall node S c s p,
  wf_sessions S -> key_inj sname S -> comms_ok S -> k8s_render node S = Some c -> In s S -> lp_consistent s ->
  attrs_equiv (sem_k8s c s p) (offered s p).
Proof. exact k8s_out_offered. Qed.

(* k8s_eq_frr: it denotes the same per-neighbor routes as the FRR-mode configuration generated from the same
   sessions, for both values of both parameters of the FRR semantics.
   WHAT THIS COMPARES: two MODEL semantics.  [sem_out] is the FRR route-map semantics of FrrSem.v (H-frr);
   [sem_k8s] / [read_nbr] is MY reading of the CRD (Allowed / PrefixesWithLocalPref / PrefixesWithCommunity with the
   "large:" marker) - frr-k8s itself is not in this repository, its renderer is not modelled.  In particular the
   per-family activation [k_activated] re-uses the FRR-mode function [activate] verbatim, so the F15 behaviour is
   ASSUMED on the frr-k8s side as well and that part of the equality holds by construction.  What the theorem
   establishes: updateConfig puts into the resource exactly the (prefix, local preference, communities) content
   that the FRR-mode templates turn into route-maps.  C15_k8s_eq_frr_nonvacuous: the premises are jointly satisfiable *)
Theorem C15_k8s_eq_frr : forall ft um node S f c s p,
  wf_sessions S -> key_inj sname S -> comms_ok S -> route_ok S p ->
  render S = Some f -> k8s_render node S = Some c -> In s S ->
  attrs_equiv (sem_k8s c s p) (sem_out ft um f (s_vrf s) (peer_tok s) p).
Proof. exact k8s_eq_frr. Qed.

(* when FRR mode accepts the session set, every prefix has one local preference *)
Theorem C15_render_lp_consistent : forall S c s, wf_sessions S -> render S = Some c -> In s S -> lp_consistent s.
Proof. exact render_lp_consistent. Qed.

(* ===== the session manager (Model/FrrMgr.v), frr-k8s mode: histories =====
   NOT for arbitrary operation sequences: [hist_ok] = NewSession only for a name not in the table (necessary:
   C15_mgr_history_in_sync_refuted; such histories exist: C15_mgr_hist_ok_nonvacuous) *)
Theorem C15_mgr_history_in_sync : forall node ops st oks last,
  hist_ok (gen_k8s node) false (fun _ => True) minit ops -> mrun (gen_k8s node) false minit None ops = (st, oks, last) ->
  cfg_of (gen_k8s node) st <> None /\ ((last = None /\ st = minit) \/ last = cfg_of (gen_k8s node) st).
Proof. exact k8s_history_in_sync. Qed.

Theorem C15_mgr_history_independent : forall node ops1 ops2 st1 st2 oks1 oks2 last1 last2,
  hist_ok (gen_k8s node) false (fun _ => True) minit ops1 -> hist_ok (gen_k8s node) false (fun _ => True) minit ops2 ->
  mrun (gen_k8s node) false minit None ops1 = (st1, oks1, last1) -> mrun (gen_k8s node) false minit None ops2 = (st2, oks2, last2) ->
  Permutation (ms_sessions st1) (ms_sessions st2) -> ms_bfd st1 = ms_bfd st2 -> ms_extra st1 = ms_extra st2 ->
  rkey_fields (sessions_of st1) -> pfx_texts_inj (sessions_of st1) -> kinv (ms_sessions st1) ->
  last1 <> None -> last2 <> None -> last1 = last2.
Proof. exact k8s_history_independent. Qed.

Theorem C15_mgr_set_refused : forall node st p advs st' c,
  mstep (gen_k8s node) false st (MSet p advs) = (st', false, c) -> st' = st /\ c = None.
Proof. intro node. exact (set_refused (gen_k8s node) false). Qed.

Theorem C15_mgr_set_invalid_refused : forall node st p advs,
  forallb valid_adv advs = false -> mstep (gen_k8s node) false st (MSet p advs) = (st, false, None).
Proof. intro node. exact (set_invalid_refused (gen_k8s node) false). Qed.

(* updateConfig succeeds iff no session carries both a password and a secret reference *)
Theorem C15_k8s_render_some : forall node S, (forall s, In s S -> k_neighbor s <> None) -> k8s_render node S <> None.
Proof. exact k8s_render_some. Qed.

Example C15_k8s_eq_frr_nonvacuous :
  let p := mk_pfx "172.16.1.10/32" {| pfam := F4; pbase := 2886730010; plen := 32 |} in
  let q := mk_pfx "fc00:f853:ccd:e799::/64" {| pfam := F6; pbase := 334965454937798799971759379190646833152; plen := 64 |} in
  let s1 := mk_session 100 (Some "10.1.1.254") "" "10.2.2.254" true "" 200 "" None 179 None None None "" "" false false false
              [mk_adv p 300 [(false, "65000:200"); (true, "64512:1:2")]; mk_adv p 300 [(false, "65000:100")]; mk_adv q 0 [(false, "65000:100")]] ("", "") in
  let s2 := mk_session 100 (Some "10.1.1.254") "" "192.168.1.1" true "" 200 "" None 179 None None None "" "" false false true [] ("", "") in
  let S := [s2; s1] in
  wf_sessions S /\ key_inj sname S /\ comms_ok S /\ route_ok S p /\
  exists f c, render S = Some f /\ k8s_render "n" S = Some c /\
    sem_k8s c s1 p = Some (mk_attrs (Some 300%N) ["65000:100"; "65000:200"] ["64512:1:2"]) /\
    forall ft um, attrs_equiv (sem_k8s c s1 p) (sem_out ft um f (s_vrf s1) (peer_tok s1) p).
Proof.
  intros p q s1 s2 S.
  assert (W: wf_sessions S) by (apply wf_sessions_b_sound; vm_compute; reflexivity).
  assert (K: key_inj sname S).
  { intros x y Hx Hy E. simpl in Hx, Hy. destruct Hx as [<-|[<-|[]]], Hy as [<-|[<-|[]]]; try reflexivity; vm_compute in E; discriminate. }
  assert (Cm: comms_ok S) by (apply comms_ok_b_sound; vm_compute; reflexivity).
  assert (R: route_ok S p) by (apply route_ok_b_sound; vm_compute; reflexivity).
  split; [exact W|]. split; [exact K|]. split; [exact Cm|]. split; [exact R|].
  destruct (render S) as [f|] eqn:Ef; [|vm_compute in Ef; discriminate].
  destruct (k8s_render "n" S) as [c|] eqn:Ec; [|vm_compute in Ec; discriminate].
  exists f, c. split; [reflexivity|]. split; [reflexivity|]. split.
  - vm_compute in Ec. inversion Ec; subst c. vm_compute. reflexivity.
  - intros ft um. apply (k8s_eq_frr ft um "n" S f c s1 p W K Cm R Ef Ec). right; left; reflexivity.
Qed.

(* the fresh-name premise of the history theorems is NECESSARY in frr-k8s mode: a NewSession that FAILS (password
   and secret reference both set) for a name that is already in the table deletes the EXISTING session by name
   (deleteSession(s) in the error branch of NewSession, frrk8s.go) and hands nothing on: the last configuration
   handed on still contains that session while the manager's state no longer does *)
Theorem C15_mgr_history_in_sync_refuted : exists node ops st oks last,
  mrun (gen_k8s node) false minit None ops = (st, oks, last) /\ oks = [true; true; false] /\
  ms_sessions st = [] /\ last <> None /\ last <> cfg_of (gen_k8s node) st.
Proof.
  pose (p := mk_pfx "172.16.1.10/32" {| pfam := F4; pbase := 2886730010; plen := 32 |}).
  pose (s := mk_session 100 (Some "10.1.1.254") "" "10.2.2.254" true "" 200 "" None 179 None None None "" "" false false false [] ("", "")).
  pose (s' := mk_session 100 (Some "10.1.1.254") "" "10.2.2.254" true "" 200 "" None 179 None None None "pw" "" false false false [] ("sec", "ns")).
  exists "n", [MNew s; MSet s [mk_adv p 0 []]; MNew s']. eexists. eexists. eexists.
  split; [vm_compute; reflexivity|]. split; [reflexivity|]. split; [reflexivity|]. split; [discriminate|]. vm_compute. discriminate.
Qed.

Example C15_mgr_hist_ok_nonvacuous :
  let p := mk_pfx "172.16.1.10/32" {| pfam := F4; pbase := 2886730010; plen := 32 |} in
  let s1 := mk_session 100 (Some "10.1.1.254") "" "10.2.2.254" true "" 200 "" None 179 None None None "pw" "" false false false [] ("", "") in
  let s2 := mk_session 100 (Some "10.1.1.254") "" "192.168.1.1" true "" 200 "" None 179 None None None "" "" false false true [] ("sec", "ns") in
  let many := mk_adv p 0 (map (fun k => (false, "65000:1")) (seq 0 64)) in
  let ops := [MNew s1; MNew s2; MSet s2 [mk_adv p 100 []]; MSet s2 [mk_adv p 100 []; many]; MBfd [("b", 1%N)]; MExtra ""; MClose s1] in
  hist_ok (gen_k8s "n") false (fun _ => True) minit ops /\
  exists st last, mrun (gen_k8s "n") false minit None ops = (st, [true; true; true; false; true; true; true], last) /\
                  map fst (ms_sessions st) = [sname s2] /\ last <> None /\ last = cfg_of (gen_k8s "n") st.
Proof.
  intros p s1 s2 many ops. split; [apply hist_ok_k8s_b_sound; vm_compute; reflexivity|].
  eexists. eexists. split; [vm_compute; reflexivity|]. split; [vm_compute; reflexivity|]. split; [discriminate|vm_compute; reflexivity].
Qed.

(* non-vacuity *)
Example C15_nonvacuous :
  let p := mk_pfx "172.16.1.10/32" {| pfam := F4; pbase := 2886730010; plen := 32 |} in
  let q := mk_pfx "10.10.0.0/16" {| pfam := F4; pbase := 168427520; plen := 16 |} in
  let s := mk_session 100 (Some "10.1.1.254") "" "10.2.2.254" true "" 200 "" None 179 None None None "pw" "" false false false
             [mk_adv p 300 [(false, "65000:100")]; mk_adv q 0 []; mk_adv p 300 [(true, "1:2:3")]] ("", "") in
  match k_neighbor s with
  | Some n => map p_text (kn_allowed n) = ["10.10.0.0/16"; "172.16.1.10/32"] /\
              map fst (kn_with_comm n) = ["65000:100"; "large:1:2:3"] /\
              map fst (kn_with_lp n) = [300%N]
  | None => False
  end.
Proof. vm_compute. repeat split. Qed.
