(* C05 — BGP: each peer is offered exactly the intended routes and attributes.
   Statements only; proofs in Proofs/BgpAdsP.v (current code) and Proofs/BgpAdsPrefix.v (the code before
   the F12 fix).

   SCOPE / what is and is not modelled.
   * [brun me evs] is the bgpController of node [me] after the event list [evs] (SetBalancer /
     DeleteBalancer / SetConfig / SetNode, any order, any length); [ps_sess q = Some l]: peer q has a live
     session whose last Set argument list was l.  Which pool's advertisements a Service gets
     (speaker/main.go) is a parameter of the event here; it is covered by C10_session_routes_iff_partial.
   * Route sets are compared AS SETS ([In ad l <-> ...]).  "Equal aggregates are one route" holds only in
     that sense: the list passed to Session.Set repeats an aggregate produced twice, and the same prefix with
     different attributes stays two routes (C05_equal_aggregates_repeat_in_the_list,
     C05_same_prefix_different_attributes_two_routes); compaction is left to the session implementations
     (C14 / C16).
   * ALL session-manager calls succeed: NewSession / Session.Set / Close failures, SyncBFDProfiles and
     SyncExtraInfo errors (SetConfig returning after the peers were replaced) are NOT modelled.  A removed
     peer's session is closed by dropping it from the list (a leaked session is inexpressible in the model;
     the harness checks it).  Node selectors are matchLabels lists (no matchExpressions); communities are a
     canonical list (Go sorts a set); aggregation lengths are within the address width (C08).
   * [ps_made] is a ghost field set where the model opens a session; the theorems about it are close to
     definitional inside the model - their weight is the correspondence (`o_made`: the arguments of
     NewSession observed on the real controller at every step).
   announced_as / intended / svc_prefix / session_expected are defined on the event list alone
   (Model/BgpAds.v, "statement's vocabulary"). *)
From Coq Require Import List NArith.
From Verif Require Import Model.BgpAds Proofs.BgpAdsP Proofs.BgpAdsPrefix.
Local Open Scope N_scope.

(* AS A SET, every live session is offered exactly: for each announced service, each of
   its addresses, each advertisement selecting this node and naming the peer
   (or naming nobody), the address truncated to the aggregation length with
   that advertisement's local preference and communities *)
Theorem C05_offered_exact : forall me evs q l,
  In q (bs_peers (brun me evs)) -> ps_sess q = Some l ->
  forall ad, In ad l <->
    exists name ips advs x a,
      announced_as evs name = Some (ips, advs) /\ In x ips /\ In a advs /\
      In me (ba_nodes a) /\ (ba_peers a = [] \/ In (pc_name (ps_cfg q)) (ba_peers a)) /\
      ad = {| ad_pfx := mask_to (match x with V4 _ => ba_agg4 a | V6 _ => ba_agg6 a end) x;
              ad_lp := ba_lp a; ad_comms := ba_comms a; ad_peers := ba_peers a |}.
Proof. exact offered_exact. Qed.

Theorem C05_offered_exact_by_name : forall me evs p l,
  sess_of (brun me evs) p = Some l -> forall ad, In ad l <-> intended me evs p ad.
Proof. exact offered_exact_by_name. Qed.

(* no route is offered to a peer the advertisement does not name *)
Theorem C05_nothing_to_unnamed_peer : forall me evs q l ad,
  In q (bs_peers (brun me evs)) -> ps_sess q = Some l -> In ad l ->
  ad_peers ad = [] \/ In (pc_name (ps_cfg q)) (ad_peers ad).
Proof. exact nothing_to_unnamed_peer. Qed.

(* a route is withdrawn as soon as no announced service produces it (equal
   aggregates of several services/addresses are one element of the set) *)
Theorem C05_withdrawn_when_last_producer_leaves : forall me evs name q l,
  In q (bs_peers (brun me (evs ++ [BDel name]))) -> ps_sess q = Some l ->
  forall ad, In ad l <->
    exists name' ips advs x a, name' <> name /\ announced_as evs name' = Some (ips, advs) /\ In x ips /\ In a advs /\
      In me (ba_nodes a) /\ (ba_peers a = [] \/ In (pc_name (ps_cfg q)) (ba_peers a)) /\ ad = mk_adv x a.
Proof. exact withdrawn_when_last_producer_leaves. Qed.

(* sessions: exactly the peers of the last configuration whose node selectors admit this node *)
Theorem C05_sessions_exact : forall me evs,
  map ps_cfg (bs_peers (brun me evs)) = last_cfg evs /\
  forall q, In q (bs_peers (brun me evs)) -> (ps_sess q <> None <-> should_run (last_labels me evs) (ps_cfg q) = true).
Proof. exact sessions_exact. Qed.

(* session (re)creation: after any event list, every configured peer selected for this node has exactly
   one session and it was created from the peer's CURRENT configuration (every field, incl. the secret
   reference: SetConfig keeps a running session only when the whole peer configuration is unchanged);
   a peer not selected has none *)
Theorem C05_selected_peer_has_one_current_session : forall me evs c,
  NoDup (map pc_name (last_cfg evs)) -> In c (last_cfg evs) ->
  exists q, In q (bs_peers (brun me evs)) /\ ps_cfg q = c /\
            (forall q', In q' (bs_peers (brun me evs)) -> pc_name (ps_cfg q') = pc_name c -> q' = q) /\
            (should_run (last_labels me evs) c = true -> ps_sess q <> None /\ ps_made q = Some c) /\
            (should_run (last_labels me evs) c = false -> ps_sess q = None).
Proof. exact selected_peer_has_one_current_session. Qed.

Theorem C05_live_session_made_from_current_config : forall me evs q,
  In q (bs_peers (brun me evs)) -> ps_sess q <> None -> ps_made q = Some (ps_cfg q).
Proof. exact made_run. Qed.

(* a Service is reported as advertised to exactly the peers that are offered one of its prefixes *)
Theorem C05_peers_for_service_exact : forall me evs svc p,
  In p (bs_active (brun me evs) svc) <->
  exists q l, In q (bs_peers (brun me evs)) /\ pc_name (ps_cfg q) = p /\ ps_sess q = Some l /\
              exists ad, In ad l /\ svc_prefix me evs svc (ad_pfx ad).
Proof. exact peers_for_service_exact. Qed.

(* what is REPORTED as advertised (ServiceBGPStatus of the service on this node, [published_status] of
   PeersForService): no resource iff no peer is offered one of its prefixes, else exactly those peers.  The
   reconciler that stores it is not modelled beyond [published_status] (a function of PeersForService only, never of
   the previously stored status); the real ServiceBGPStatusReconciler is driven on a fake API server at every step
   of the C05 histories and its stored status compared with the sessions (oracle bgp-status-differs-from-sessions) *)
Theorem C05_reported_status_exact : forall me evs svc,
  let offered p := exists q l, In q (bs_peers (brun me evs)) /\ pc_name (ps_cfg q) = p /\ ps_sess q = Some l /\
                               exists ad, In ad l /\ svc_prefix me evs svc (ad_pfx ad) in
  match published_status (bs_active (brun me evs) svc) with
  | None => forall p, ~ offered p
  | Some l => forall p, In p l <-> offered p
  end.
Proof. exact reported_status_exact. Qed.

(* "one route": the list repeats an aggregate produced by two Services; it is one route as a set element *)
Theorem C05_equal_aggregates_repeat_in_the_list :
  exists ad, sess_of (brun 0 (one_route_hist 100 100)) 1 = Some [ad; ad].
Proof. exact equal_aggregates_repeat_in_the_list. Qed.

(* ... and the same prefix with different attributes is two routes ("one route per prefix" refuted) *)
Theorem C05_same_prefix_different_attributes_two_routes :
  exists a1 a2, sess_of (brun 0 (one_route_hist 100 200)) 1 = Some [a1; a2] /\
                ad_pfx a1 = ad_pfx a2 /\ ad_lp a1 <> ad_lp a2.
Proof. exact same_prefix_different_attributes_two_routes. Qed.

(* F12 (fixed by 25c43b3): on the model of the code before the fix a closed session stays reported *)
Theorem C05_peers_for_service_exact_prefix_refuted :
  exists me evs svc p, In p (bs_active (brun_prefix me evs) svc) /\ sess_of (brun_prefix me evs) p = None.
Proof. exact peers_for_service_prefix_refuted. Qed.

(* truncation: the offered aggregate contains the address and stays inside any
   pool CIDR that is not longer than the aggregation length *)
Theorem C05_mask_inside : forall x a, contains (ad_pfx (mk_adv x a)) x = true.
Proof. exact mask_inside. Qed.
Theorem C05_aggregate_inside_cidr : forall c x a y,
  plen c <= (match x with V4 _ => ba_agg4 a | V6 _ => ba_agg6 a end) ->
  (match x with V4 _ => ba_agg4 a | V6 _ => ba_agg6 a end) <= width (pfam c) ->
  contains c x = true -> contains (ad_pfx (mk_adv x a)) y = true -> contains c y = true.
Proof. exact aggregate_inside_cidr. Qed.

(* non-vacuity: two services producing the same /24, one peer named, one unknown peer;
   withdrawing one service keeps the aggregate, withdrawing both removes it *)
Definition C05_ex_adv : badv :=
  {| ba_agg4 := 24; ba_agg6 := 128; ba_lp := 100; ba_comms := [1]; ba_nodes := [0]; ba_peers := [1] |}.
Definition C05_ex_hist : list bev :=
  [ BCfg [ {| pc_name := 1; pc_sels := []; pc_attr := 0; pc_ref := 0 |}; {| pc_name := 2; pc_sels := []; pc_attr := 0; pc_ref := 0 |} ];
    BSet 0 [V4 169090561] [C05_ex_adv]; BSet 1 [V4 169090562] [C05_ex_adv] ].
Example C05_nonvacuous :
  option_map (@length adv) (sess_of (brun 0 C05_ex_hist) 1) = Some 2%nat /\
  sess_of (brun 0 C05_ex_hist) 2 = Some [] /\
  bs_active (brun 0 C05_ex_hist) 0 = [1] /\
  option_map (@length adv) (sess_of (brun 0 (C05_ex_hist ++ [BDel 0])) 1) = Some 1%nat /\
  sess_of (brun 0 (C05_ex_hist ++ [BDel 0; BDel 1])) 1 = Some [].
Proof. vm_compute. repeat split. Qed.

Example C05_nonvacuous_secret_reference :
  let p r := {| pc_name := 1; pc_sels := []; pc_attr := 0; pc_ref := r |} in
  option_map ps_made (find (fun q => pc_name (ps_cfg q) =? 1) (bs_peers (brun 0 [BCfg [p 1]; BCfg [p 2]]))) = Some (Some (p 2)).
Proof. vm_compute. reflexivity. Qed.
