(* C06 — restarts and failed status writes.  Statements only; proofs in
   Proofs/CtrlWorldP.v, CtrlThmP.v, CtrlRestartP.v.
   SCOPE.  Safety at quiescence + the restart theorem + (last section) progress: after a
   restart and the delivery of a well-formed configuration the new instance runs out of
   work within a proved bound once writes succeed, and then memory equals the statuses
   (C06_restart_settles; Services with explicitly requested addresses excluded, see
   Proofs/CtrlProgressP.v).  Fairness of the work queue and timers is the runtime's.
   The model handles a full pass atomically; in the Go code a configuration change (a
   separate reconciler) can be handled between two Services of a pass, a pass can be
   aborted by a List error, and a handler can see a stale copy of a Service: these are
   outside the events of the model (each single handler call preserves the invariants,
   which is what the proofs use).  [wrun rank evs world0] is the world
   (API objects, controller memory, initial-load gate, pending work) after any
   finite history of: user create/update/delete, configuration delivery, one
   pending Service request reconciled (its status write may fail), a full pass
   over the listed Services in any order with most-recorded-addresses first
   (any of its writes may fail), a re-sync request, a process restart. *)
From Coq Require Import List NArith.
From Verif Require Import Model.Alloc Model.Ctrl Proofs.AllocP Proofs.CtrlP Proofs.CtrlWorldP Proofs.CtrlThmP.

(* once writes succeed and no work is pending, the controller's memory equals the
   statuses: every Service's status is exactly what memory records for it, and
   nothing is recorded for Services that no longer exist (no leak) *)
Theorem C06_quiescent_memory_eq_status : forall rank evs w,
  wrun rank evs world0 = Some w -> quiescent w ->
  forall s, match aget (w_api w) s with
            | Some o => same_ips (ips_of (c_mem (w_ctl w)) s) (o_status o)
            | None => get_alloc (c_mem (w_ctl w)) s = None
            end.
Proof. exact quiescent_memory_eq_status. Qed.

(* the invariant behind it holds after every single event *)
Theorem C06_invariant_step : forall rank w e w', WInv w -> wstep rank w e = Some w' -> WInv w'.
Proof. exact wstep_WInv. Qed.

(* ... and then exclusivity and pool policy hold for the statuses *)
Theorem C06_quiescent_statuses_exclusive : forall rank evs w s1 s2 o1 o2 x,
  wrun rank evs world0 = Some w -> quiescent w -> s1 <> s2 ->
  aget (w_api w) s1 = Some o1 -> aget (w_api w) s2 = Some o2 ->
  In x (o_status o1) -> In x (o_status o2) ->
  exists al1 al2, get_alloc (c_mem (w_ctl w)) s1 = Some al1 /\ get_alloc (c_mem (w_ctl w)) s2 = Some al2 /\
                  shareable al1 al2.
Proof. exact quiescent_status_exclusive. Qed.

(* events of existing Services that arrive before the first complete pass change nothing *)
Theorem C06_gate_drops_early_events : forall rank w s k w' rs o,
  wstep_t rank w (ESvc s k) = Some (w', rs) -> w_gate w = false -> api_get w s = Some o ->
  w_api w' = w_api w /\ w_ctl w' = w_ctl w /\ rs = [].
Proof. exact gate_drops_early_events. Qed.

(* the gate only opens, and a re-sync is only requested, once a configuration was delivered *)
Theorem C06_gate_open_implies_pools : forall rank evs w,
  wrun rank evs world0 = Some w -> w_gate w = true -> c_have_pools (w_ctl w) = true.
Proof. intros rank evs w H. exact (wi_gate_pools _ (wrun_WInv rank evs world0 w WInv_world0 H)). Qed.

(* in a full pass every Service with a recorded address is handled before any
   Service without one ... *)
Theorem C06_first_pass_assigned_first : forall w order l1 s l2,
  desc_by_status w order = true -> order = l1 ++ s :: l2 -> nstatus w s = O ->
  forall t, In t l2 -> nstatus w t = O.
Proof. exact first_pass_assigned_first. Qed.

(* ... and handling a later Service never touches what was re-assigned to an
   earlier one (this is C03_handler_frame again; the statement that a Service
   without recorded address cannot TAKE a recorded one is
   C06_restart_unrecorded_cannot_take below) *)
Theorem C06_later_handler_keeps_earlier : forall rank w s k w' r t,
  apply_handler rank w s k = Some (w', r) -> t <> s ->
  aget (w_api w') t = aget (w_api w) t /\
  get_alloc (c_mem (w_ctl w')) t = get_alloc (c_mem (w_ctl w)) t.
Proof. exact handler_frame. Qed.

(* The clause "every Service whose recorded addresses are still admissible keeps
   them across a restart, whatever the delivery order" as written (per Service) is
   FALSE for the code (findings F14, F21, reproduced on the implementation on every
   run).  What holds is the theorem below: ALL recorded statuses jointly admissible
   and no PreferDualStack Service holding a single address; the two refuted
   theorems at the end show that neither hypothesis can be dropped. *)

(* ==== the restart clause ==== *)
From Coq Require Import Bool.
From Verif Require Import Model.Net Proofs.AllocPolicyP Proofs.AllocMonoP Proofs.CtrlStarveP Proofs.CtrlRestartP.
Import ListNotations.
Local Open Scope N_scope.

(* A new instance (ECrash), the configuration (EPools), any early events of
   existing Services (dropped by the gate), then the first full pass in ANY order
   admitted by "more recorded addresses first" and with ANY allocator choices for
   the other Services: every Service with a recorded status gets exactly its
   recorded addresses back - in the API and in the new instance's memory -
   provided the recorded statuses are jointly admissible (M is the allocation
   state they describe: pairwise exclusive or shareable, each inside a compatible
   pool of the new configuration, matching the Service's own request) and no
   Service is a PreferDualStack one holding a single address. *)
Theorem C06_restart_keeps_recorded : forall rank M w ps evs order ks wc wp we w',
  Inv M -> PoolCoh M -> s_pools M = ps ->
  NoDup (map fst (w_api w)) ->
  (forall s o, recd (w_api w) s o -> recorded_ok rank M s o) ->
  wstep rank w ECrash = Some wc -> wstep rank wc (EPools ps) = Some wp ->
  (forall s k, In (s, k) evs -> aget (w_api w) s <> None) -> early rank wp evs = Some we ->
  wstep rank we (EReload order ks) = Some w' ->
  forall s o, aget (w_api w) s = Some o -> o_status o <> [] ->
    (exists o', aget (w_api w') s = Some o' /\ same_ips (o_status o') (o_status o)) /\
    same_ips (ips_of (c_mem (w_ctl w')) s) (o_status o).
Proof. exact restart_keeps_recorded. Qed.

(* a Service without a recorded address cannot take an address recorded for another
   Service: whatever it holds after the pass that a recorded Service has in its
   status, it holds as an admitted co-tenant *)
Theorem C06_restart_unrecorded_cannot_take : forall rank M w ps evs order ks wc wp we w',
  Inv M -> PoolCoh M -> s_pools M = ps ->
  NoDup (map fst (w_api w)) ->
  (forall s o, recd (w_api w) s o -> recorded_ok rank M s o) ->
  wstep rank w ECrash = Some wc -> wstep rank wc (EPools ps) = Some wp ->
  (forall s k, In (s, k) evs -> aget (w_api w) s <> None) -> early rank wp evs = Some we ->
  wstep rank we (EReload order ks) = Some w' ->
  forall s o x t alt, aget (w_api w) s = Some o -> In x (o_status o) -> t <> s ->
    get_alloc (c_mem (w_ctl w')) t = Some alt -> In x (a_ips alt) ->
    exists al, get_alloc (c_mem (w_ctl w')) s = Some al /\ same_ips (a_ips al) (o_status o) /\ shareable alt al.
Proof. exact restart_unrecorded_cannot_take. Qed.

(* the per-Service step it rests on *)
Theorem C06_recorded_service_reassigned_exactly : forall rank a s o k v ok,
  admissible_now rank a s o -> additional_applies (o_req o) (o_status o) = false ->
  converge rank a s o k = CR v ok ->
  ok = true /\ cv_mem v = fst (assign a s (o_req o) (o_status o)) /\ same_ips (cv_status v) (o_status o) /\
  (cv_status v = o_status o \/ cv_status v = sort2 rank (o_status o)).
Proof. exact converge_recorded. Qed.

Definition yrank (x : ip) : N := ip_val x.
Definition v6a : ip := V6 334965455017026962486023716784190783488.
Definition v4a : ip := V4 167772160.
Definition v4b : ip := V4 167772161.
Definition ypool : pool := {| p_name := 1; p_cidrs := [ {| pfam := F4; pbase := 167772160; plen := 30 |}; {| pfam := F6; pbase := 334965455017026962486023716784190783488; plen := 128 |} ];
                             p_avoid := false; p_auto := true; p_pin := None |}.
Definition ypools : pools := {| by_name := [ypool]; by_ns := []; by_sel := [] |}.
Definition yreq (f : sfam) (pol : policy) (first6 : bool) (port : N) : req :=
  {| r_ns := 1; r_labels := []; r_fam := f; r_pol := pol; r_first6 := first6;
     r_ports := [ {| proto := 0; pnum := port |} ]; r_key := {| sharing := 0; backend := 0 |} |}.
Definition yobj (r : req) : svcobj :=
  {| o_lb := true; o_req := r; o_cluster_ok := true; o_want := WNone; o_want_pool := None; o_status := []; o_annot := None |}.
Definition six := yobj (yreq S6 Single true 80).
Definition dualp := yobj (yreq SDual Prefer false 81).
Definition kk (c : option (poolid * list ip)) : oracle := {| k_write := true; k_final := c |}.
(* before the restart: a holds the only IPv6 address, b (PreferDualStack) one IPv4 address *)
Definition yevs0 : list ev :=
  [EPools ypools; UPut 1 six; EReload [1] [kk (Some (1, [v6a]))]; ESvc 1 (kk None); UPut 2 dualp; ESvc 2 (kk (Some (1, [v4a])))].

Definition v4only := yobj (yreq S4 Single false 81).

(* non-vacuity: a reachable quiescent world whose memory is the M of the theorem *)
Definition yevs_ok : list ev :=
  [EPools ypools; UPut 1 six; EReload [1] [kk (Some (1, [v6a]))]; ESvc 1 (kk None); UPut 2 v4only; ESvc 2 (kk (Some (1, [v4a])))].
Example C06_restart_hypotheses_nonvacuous :
  exists w, wrun yrank yevs_ok world0 = Some w /\ quiescent w /\
    Inv (c_mem (w_ctl w)) /\ PoolCoh (c_mem (w_ctl w)) /\ NoDup (map fst (w_api w)) /\
    (exists s o, recd (w_api w) s o) /\
    (forall s o, recd (w_api w) s o -> recorded_ok yrank (c_mem (w_ctl w)) s o).
Proof.
  destruct (wrun yrank yevs_ok world0) as [w|] eqn:E; [|vm_compute in E; discriminate].
  exists w. split; [reflexivity|].
  pose proof (wrun_WInv yrank yevs_ok world0 w WInv_world0 E) as [[HI HP] _ _ _ _].
  vm_compute in E. injection E as <-. cbn [w_ctl c_mem] in HI, HP.
  split; [repeat split|]. split; [exact HI|]. split; [exact HP|].
  split; [repeat constructor; cbn; intuition discriminate|].
  split; [exists 1, (with_status six [v6a] (Some 1)); unfold recd; split; [reflexivity|cbn; discriminate]|].
  intros s o [Hs Hst]. unfold aget in Hs.
  match type of Hs with option_map _ ?f = _ => destruct f as [[s' o']|] eqn:F; [|discriminate Hs] end.
  cbn [option_map snd] in Hs. injection Hs as ->. apply find_some in F. destruct F as [Hin Heq].
  cbn [fst] in Heq. apply N.eqb_eq in Heq. subst s'.
  destruct Hin as [Hin|[Hin|[]]]; injection Hin as <- <-.
  - constructor; [|eexists; repeat split; reflexivity|reflexivity].
    repeat split; try reflexivity; try discriminate. eexists. split; [vm_compute; reflexivity|]. split; [intros p Hp; discriminate|left; reflexivity].
  - constructor; [|eexists; repeat split; reflexivity|reflexivity].
    repeat split; try reflexivity; try discriminate. eexists. split; [vm_compute; reflexivity|]. split; [intros p Hp; discriminate|left; reflexivity].
Qed.

(* and the four step premises of the theorem are satisfiable from that world: restart,
   configuration, an early event of an existing Service, a full pass in the order [2; 1] *)
Example C06_restart_premises_nonvacuous :
  exists w wc wp we w', wrun yrank yevs_ok world0 = Some w /\
    wstep yrank w ECrash = Some wc /\ wstep yrank wc (EPools ypools) = Some wp /\
    early yrank wp [(1, kk None)] = Some we /\
    wstep yrank we (EReload [2; 1] [kk None; kk None]) = Some w'.
Proof.
  destruct (wrun yrank yevs_ok world0) as [w|] eqn:E; [|vm_compute in E; discriminate].
  vm_compute in E. injection E as <-.
  eexists _, _, _, _, _. split; [reflexivity|]. split; [reflexivity|]. split; [reflexivity|].
  split; [vm_compute; reflexivity|]. vm_compute. reflexivity.
Qed.

(* F14: with a PreferDualStack Service holding one address the clause is false of
   the faithful model: handled first, it takes the IPv6 address recorded for the
   other Service, whose own (individually admissible) status is then cleared *)
Theorem C06_restart_prefer_single_address_refuted :
  exists evs0 evs1 w w' o, wrun yrank evs0 world0 = Some w /\ quiescent w /\
    wrun yrank evs1 w = Some w' /\ evs1 = [ECrash; EPools ypools; EReload [2; 1] [kk (Some (1, [v4a; v6a])); kk None]] /\
    aget (w_api w) 1 = Some o /\ o_status o = [v6a] /\ admissible_now yrank (c_mem (w_ctl w)) 1 o /\
    exists o', aget (w_api w') 1 = Some o' /\ o_status o' = [].
Proof.
  destruct (wrun yrank yevs0 world0) as [w|] eqn:E; [|vm_compute in E; discriminate].
  set (evs1 := [ECrash; EPools ypools; EReload [2; 1] [kk (Some (1, [v4a; v6a])); kk None]]).
  destruct (wrun yrank evs1 w) as [w'|] eqn:E'; [|vm_compute in E; injection E as <-; vm_compute in E'; discriminate].
  exists yevs0, evs1, w, w', (with_status six [v6a] (Some 1)).
  vm_compute in E. injection E as <-. vm_compute in E'. injection E' as <-.
  split; [reflexivity|]. split; [repeat split|]. split; [reflexivity|]. split; [reflexivity|].
  split; [reflexivity|]. split; [reflexivity|]. split.
  - repeat split; try reflexivity; try discriminate. eexists. split; [vm_compute; reflexivity|]. split; [intros p Hp; discriminate|left; reflexivity].
  - eexists. split; reflexivity.
Qed.

(* F21: when another Service's recorded address is NOT admissible any more (its
   pool was shrunk), that Service is re-allocated during the same pass and, handled
   first, takes the address recorded for a Service handled later *)
Definition zpool (len : N) (base : N) : pool :=
  {| p_name := 1; p_cidrs := [ {| pfam := F4; pbase := base; plen := len |} ]; p_avoid := false; p_auto := true; p_pin := None |}.
Definition zpools (len base : N) : pools := {| by_name := [zpool len base]; by_ns := []; by_sel := [] |}.
Definition zevs0 : list ev :=
  [EPools (zpools 30 167772160); UPut 1 v4only; EReload [1] [kk (Some (1, [v4a]))]; ESvc 1 (kk None);
   UPut 2 v4only; ESvc 2 (kk (Some (1, [v4b])))].
Theorem C06_restart_inadmissible_neighbour_refuted :
  exists evs0 evs1 w w' o, wrun yrank evs0 world0 = Some w /\ quiescent w /\
    wrun yrank evs1 w = Some w' /\ evs1 = [ECrash; EPools (zpools 32 167772161); EReload [1; 2] [kk (Some (1, [v4b])); kk None]] /\
    aget (w_api w) 2 = Some o /\ o_status o = [v4b] /\
    admissible_now yrank (set_pools (c_mem (w_ctl w)) (zpools 32 167772161)) 2 o /\
    exists o', aget (w_api w') 2 = Some o' /\ o_status o' = [].
Proof.
  destruct (wrun yrank zevs0 world0) as [w|] eqn:E; [|vm_compute in E; discriminate].
  set (evs1 := [ECrash; EPools (zpools 32 167772161); EReload [1; 2] [kk (Some (1, [v4b])); kk None]]).
  destruct (wrun yrank evs1 w) as [w'|] eqn:E'; [|vm_compute in E; injection E as <-; vm_compute in E'; discriminate].
  exists zevs0, evs1, w, w', (with_status v4only [v4b] (Some 1)).
  vm_compute in E. injection E as <-. vm_compute in E'. injection E' as <-.
  split; [reflexivity|]. split; [repeat split|]. split; [reflexivity|]. split; [reflexivity|].
  split; [reflexivity|]. split; [reflexivity|]. split.
  - repeat split; try reflexivity; try discriminate. eexists. split; [vm_compute; reflexivity|]. split; [intros p Hp; discriminate|left; reflexivity].
  - eexists. split; reflexivity.
Qed.


(* ---------- progress after a restart ---------- *)
From Verif Require Import Proofs.CtrlTotalP Proofs.CtrlProgressP.

(* Any reachable world, then a restart and the first configuration delivery (distinct
   names, disjoint pools; no Service requests explicit addresses): some run of at most
   [budget] reconciler steps with successful writes - and, by C07_resync_loop_terminates,
   every such run is at most that long - ends with nothing pending and the first pass
   done, and there the controller's memory is exactly what the statuses record. *)
Theorem C06_restart_settles : forall rank evs0 w ps,
  wrun rank evs0 world0 = Some w ->
  names_unique ps -> pools_disjoint (by_name ps) ->
  (forall s o, aget (w_api w) s = Some o -> o_want o = WNone) ->
  exists wp evs w', wrun rank [ECrash; EPools ps] w = Some wp /\
    Forall rev_ev evs /\ (length evs <= budget wp)%nat /\
    wrun rank (evs0 ++ [ECrash; EPools ps] ++ evs) world0 = Some w' /\ quiescent w' /\
    forall s, match aget (w_api w') s with
              | Some o => same_ips (ips_of (c_mem (w_ctl w')) s) (o_status o)
              | None => get_alloc (c_mem (w_ctl w')) s = None
              end.
Proof. exact restart_settles. Qed.
Print Assumptions C06_restart_settles.

(* ---------- the restart hypothesis, derived from reachability ---------- *)
From Verif Require Import Proofs.CtrlExactP.

(* at every quiescent point of every history a Service without explicit request holds
   nothing, or addresses that its request and the configuration admit and that memory
   records exactly as the status lists them *)
Theorem C06_quiescent_service_is_settled : forall rank evs w s o,
  wrun rank evs world0 = Some w -> quiescent w -> aget (w_api w) s = Some o ->
  pools_wf (w_ctl w) -> o_want o = WNone ->
  (pempty w s o \/ pgood rank w s o) /\
  match get_alloc (c_mem (w_ctl w)) s with Some al => a_ips al | None => [] end = o_status o.
Proof. exact quiescent_settled. Qed.

(* hence the joint-admissibility hypothesis of C06_restart_keeps_recorded holds at every
   quiescent reachable world ... *)
Theorem C06_quiescent_recorded_ok : forall rank evs w,
  wrun rank evs world0 = Some w -> quiescent w -> pools_wf (w_ctl w) ->
  forall s o, recd (w_api w) s o -> o_want o = WNone ->
    additional_applies (o_req o) (o_status o) = false ->
    recorded_ok rank (c_mem (w_ctl w)) s o.
Proof. exact quiescent_recorded_ok. Qed.

(* ... and a controller that restarts at a quiescent point, is given the same configuration
   again and runs its first full pass (in any admitted order, with any allocator choices,
   after any early Service events) keeps every recorded address.  Remaining hypotheses:
   no explicitly requested addresses; no PreferDualStack Service holding a single address
   (necessary: C06_restart_prefer_single_address_refuted, F14). *)
Theorem C06_restart_at_quiescence_keeps_all : forall rank evs0 w evs order ks wc wp we w',
  wrun rank evs0 world0 = Some w -> quiescent w -> pools_wf (w_ctl w) ->
  (forall s o, aget (w_api w) s = Some o -> o_want o = WNone) ->
  (forall s o, aget (w_api w) s = Some o -> o_status o <> [] -> additional_applies (o_req o) (o_status o) = false) ->
  wstep rank w ECrash = Some wc -> wstep rank wc (EPools (s_pools (c_mem (w_ctl w)))) = Some wp ->
  (forall s k, In (s, k) evs -> aget (w_api w) s <> None) -> early rank wp evs = Some we ->
  wstep rank we (EReload order ks) = Some w' ->
  forall s o, aget (w_api w) s = Some o -> o_status o <> [] ->
    (exists o', aget (w_api w') s = Some o' /\ same_ips (o_status o') (o_status o)) /\
    same_ips (ips_of (c_mem (w_ctl w')) s) (o_status o).
Proof. exact restart_at_quiescence_keeps_all. Qed.
Print Assumptions C06_restart_at_quiescence_keeps_all.

(* its hypotheses are met by the reachable quiescent world of the Examples above (two
   Services holding addresses) *)
Example C06_restart_at_quiescence_nonvacuous :
  exists w, wrun yrank yevs_ok world0 = Some w /\ quiescent w /\ pools_wf (w_ctl w) /\
    (forall s o, aget (w_api w) s = Some o -> o_want o = WNone) /\
    (forall s o, aget (w_api w) s = Some o -> o_status o <> [] -> additional_applies (o_req o) (o_status o) = false) /\
    (exists s o, aget (w_api w) s = Some o /\ o_status o <> []).
Proof.
  destruct (wrun yrank yevs_ok world0) as [w|] eqn:E; [|vm_compute in E; discriminate].
  exists w. vm_compute in E. injection E as <-.
  split; [reflexivity|]. split; [repeat split|]. split.
  { split; [repeat constructor; intros []|]. intros p q x [<-|[]] [<-|[]] _ _. reflexivity. }
  assert (H : forall s o, aget [(2, with_status v4only [v4a] (Some 1)); (1, with_status six [v6a] (Some 1))] s = Some o ->
              o = with_status v4only [v4a] (Some 1) \/ o = with_status six [v6a] (Some 1)).
  { intros s o. unfold aget. cbn [find fst snd option_map].
    destruct (2 =? s); [intros [= <-]; left; reflexivity|]. destruct (1 =? s); [intros [= <-]; right; reflexivity|discriminate]. }
  split; [|split].
  - intros s o Ho. destruct (H s o Ho) as [->| ->]; reflexivity.
  - intros s o Ho _. destruct (H s o Ho) as [->| ->]; reflexivity.
  - exists 1, (with_status six [v6a] (Some 1)). split; [reflexivity|discriminate].
Qed.
