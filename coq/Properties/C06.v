(* C06 — restarts and failed status writes.  Statements only; proofs in
   Proofs/CtrlWorldP.v, Proofs/CtrlThmP.v.  [wrun rank evs world0] is the world
   (API objects, controller memory, initial-load gate, pending work) after any
   finite history of: user create/update/delete, configuration delivery, one
   pending Service request reconciled (its status write may fail), a full pass
   over the listed Services in any order with most-recorded-addresses first
   (any of its writes may fail), a re-sync request, a process restart. *)
From Coq Require Import List NArith.
From Verif Require Import Model.Alloc Model.Ctrl Proofs.AllocP Proofs.CtrlP Proofs.CtrlWorldP Proofs.CtrlThmP.

(* once writes succeed and no work is pending, the controller's memory equals the
   statuses: every Service's status is exactly what memory records for it, and
   nothing is recorded for Services that no longer exist (no leak) *)
Theorem C06_quiescent_memory_eq_status : forall rank evs w,
  wrun rank evs world0 = Some w -> quiescent w ->
  forall s, match aget (w_api w) s with
            | Some o => same_ips (ips_of (c_mem (w_ctl w)) s) (o_status o)
            | None => get_alloc (c_mem (w_ctl w)) s = None
            end.
Proof. exact quiescent_memory_eq_status. Qed.

(* the invariant behind it holds after every single event *)
Theorem C06_invariant_step : forall rank w e w', WInv w -> wstep rank w e = Some w' -> WInv w'.
Proof. exact wstep_WInv. Qed.

(* ... and then exclusivity and pool policy hold for the statuses *)
Theorem C06_quiescent_statuses_exclusive : forall rank evs w s1 s2 o1 o2 x,
  wrun rank evs world0 = Some w -> quiescent w -> s1 <> s2 ->
  aget (w_api w) s1 = Some o1 -> aget (w_api w) s2 = Some o2 ->
  In x (o_status o1) -> In x (o_status o2) ->
  exists al1 al2, get_alloc (c_mem (w_ctl w)) s1 = Some al1 /\ get_alloc (c_mem (w_ctl w)) s2 = Some al2 /\
                  shareable al1 al2.
Proof. exact quiescent_status_exclusive. Qed.

(* events of existing Services that arrive before the first complete pass change nothing *)
Theorem C06_gate_drops_early_events : forall rank w s k w' rs o,
  wstep_t rank w (ESvc s k) = Some (w', rs) -> w_gate w = false -> api_get w s = Some o ->
  w_api w' = w_api w /\ w_ctl w' = w_ctl w /\ rs = [].
Proof. exact gate_drops_early_events. Qed.

(* the gate only opens, and a re-sync is only requested, once a configuration was delivered *)
Theorem C06_gate_open_implies_pools : forall rank evs w,
  wrun rank evs world0 = Some w -> w_gate w = true -> c_have_pools (w_ctl w) = true.
Proof. intros rank evs w H. exact (wi_gate_pools _ (wrun_WInv rank evs world0 w WInv_world0 H)). Qed.

(* in a full pass every Service with a recorded address is handled before any
   Service without one ... *)
Theorem C06_first_pass_assigned_first : forall w order l1 s l2,
  desc_by_status w order = true -> order = l1 ++ s :: l2 -> nstatus w s = O ->
  forall t, In t l2 -> nstatus w t = O.
Proof. exact first_pass_assigned_first. Qed.

(* ... and handling a later Service never touches what was re-assigned to an
   earlier one (so a Service without recorded address cannot take an address a
   recorded Service has re-assigned: the allocator refuses it, C01) *)
Theorem C06_later_handler_keeps_earlier : forall rank w s k w' r t,
  apply_handler rank w s k = Some (w', r) -> t <> s ->
  aget (w_api w') t = aget (w_api w) t /\
  get_alloc (c_mem (w_ctl w')) t = get_alloc (c_mem (w_ctl w)) t.
Proof. exact handler_frame. Qed.

(* The clause "every Service whose recorded addresses are still admissible keeps
   them across a restart, whatever the delivery order" is FALSE for the code
   (findings F14, F21: a Service that itself has a recorded address may be
   re-allocated before a later Service of the same pass has re-assigned its own);
   it is reproduced on the implementation on every run and listed in
   KNOWN_FINDINGS.txt; the ordering theorem above is the part that holds. *)
