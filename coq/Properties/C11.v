(* C11 — released addresses are reusable, reported pool usage is exact.
   Statements only; proofs in Proofs/AllocP.v, Proofs/AllocCountP.v. *)
From Coq Require Import List NArith ZArith.
From Verif Require Import Model.Alloc Proofs.AllocP Proofs.AllocCountP.
Local Open Scope Z_scope.

Theorem C11_released_free : forall a s x t ports k,
  Inv a ->
  (forall e, In e (allocated a) -> fst e <> s -> ~ In x (a_ips (snd e))) ->
  check_sharing (unassign a s) t x ports k = true.
Proof. exact released_free. Qed.

(* the reservation test is a function of the surviving assignments only (the
   model's bookkeeping IS the rebuild from [allocated]); its meaning: *)
Theorem C11_reservation_iff_surviving_assignments : forall a s x ports k,
  Inv a ->
  (check_sharing a s x ports k = true <->
   forall e, In e (allocated a) -> fst e <> s -> In x (a_ips (snd e)) ->
     sharing_ok (a_key (snd e)) k = true /\ forall p, In p ports -> ~ In p (a_ports (snd e))).
Proof. exact check_sharing_iff. Qed.

Theorem C11_counters_sum : forall a n p,
  find_pool (s_pools a) n = Some p ->
  c_assigned4 (counters_for a n) + c_avail4 (counters_for a n) = pool_capacity p F4 /\
  c_assigned6 (counters_for a n) + c_avail6 (counters_for a n) = pool_capacity p F6 /\
  0 <= c_assigned4 (counters_for a n) /\ 0 <= c_assigned6 (counters_for a n).
Proof. exact counters_sum. Qed.

(* assigned counts distinct addresses (a shared address once) *)
Theorem C11_in_use_distinct : forall a n, NoDup (ips_in_use a n).
Proof. exact ips_in_use_NoDup. Qed.
Theorem C11_in_use_exact : forall a n x,
  In x (ips_in_use a n) <-> exists e, In e (allocated a) /\ a_pool (snd e) = n /\ In x (a_ips (snd e)).
Proof. exact ips_in_use_spec. Qed.

(* capacity = min(MaxInt64, exact sum); a prefix with >= 62 host bits counts as
   unbounded; never negative *)
Theorem C11_capacity_saturating : forall p f,
  wf_pool_lens p ->
  pool_capacity p f = match exact_sum (p_avoid p) f (p_cidrs p) with
                      | Some m => Z.min max_i64 m
                      | None => max_i64
                      end.
Proof. exact pool_capacity_saturating. Qed.
Theorem C11_capacity_bounds : forall p f, wf_pool_lens p -> 0 <= pool_capacity p f <= max_i64.
Proof. exact pool_capacity_bounds. Qed.

(* regression of the two repaired defects: the arithmetic before the fixes *)
Theorem C11_F3_overflow_refuted_before_fix : pool_capacity_prefix f3_pool F6 < 0.
Proof. exact F3_prefix_refuted. Qed.
Theorem C11_F16_double_subtraction_refuted_before_fix : cidr_count_prefix true f16_cidr = Some (-1).
Proof. exact F16_prefix_refuted. Qed.
Example C11_fixed_witnesses : pool_capacity f3_pool F6 = max_i64 /\ cidr_count true f16_cidr = Some 0.
Proof. split; [exact F3_fixed|exact F16_fixed]. Qed.

(* ---- the closed form used by poolCount is the number of usable addresses ---- *)
From Verif Require Import Proofs.AllocPolicyP Proofs.AllocFormulaP.

(* for every CIDR: what poolCount computes (2^(bits-len), minus 2 per /24 for
   prefixes up to /24, minus the buggy first/last address for longer ones, a /32
   counted once) equals the length of the list of its addresses that are not
   avoided *)
Theorem C11_poolcount_formula : forall avoid c n,
  (plen c <= width (pfam c))%N -> cidr_count avoid c = Some n ->
  n = Z.of_nat (length (filter (usable avoid) (cidr_addrs c))).
Proof. exact poolcount_formula. Qed.

(* assigned never exceeds the exact number of usable addresses of the pool, so
   "available" is never negative (below the saturation bound) *)
Theorem C11_assigned_le_capacity : forall a n p f m,
  Inv a -> PoolCoh a -> NoDup (map p_name (by_name (s_pools a))) ->
  find_pool (s_pools a) n = Some p -> wf_pool_lens p ->
  exact_sum (p_avoid p) f (p_cidrs p) = Some m ->
  assigned a n f <= m.
Proof. exact assigned_le_capacity. Qed.
