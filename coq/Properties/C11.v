(* C11 — released addresses are reusable, reported pool usage is exact.
   Statements only; proofs in Proofs/AllocP.v, Proofs/AllocCountP.v. *)
From Coq Require Import List NArith ZArith.
From Verif Require Import Model.Alloc Proofs.AllocP Proofs.AllocCountP.
Local Open Scope Z_scope.

Theorem C11_released_free : forall a s x t ports k,
  Inv a ->
  (forall e, In e (allocated a) -> fst e <> s -> ~ In x (a_ips (snd e))) ->
  check_sharing (unassign a s) t x ports k = true.
Proof. exact released_free. Qed.

(* the reservation test is a function of the surviving assignments only (the
   model's bookkeeping IS the rebuild from [allocated]); its meaning: *)
Theorem C11_reservation_iff_surviving_assignments : forall a s x ports k,
  Inv a ->
  (check_sharing a s x ports k = true <->
   forall e, In e (allocated a) -> fst e <> s -> In x (a_ips (snd e)) ->
     sharing_ok (a_key (snd e)) k = true /\ forall p, In p ports -> ~ In p (a_ports (snd e))).
Proof. exact check_sharing_iff. Qed.

(* by definition of [counters_for] (available := capacity - assigned); the content is in
   C11_counters_from_maps, C11_capacity_saturating, C11_poolcount_formula, C11_counters_nonneg *)
Theorem C11_counters_sum : forall a n p,
  find_pool (s_pools a) n = Some p ->
  c_assigned4 (counters_for a n) + c_avail4 (counters_for a n) = pool_capacity p F4 /\
  c_assigned6 (counters_for a n) + c_avail6 (counters_for a n) = pool_capacity p F6 /\
  0 <= c_assigned4 (counters_for a n) /\ 0 <= c_assigned6 (counters_for a n).
Proof. exact counters_sum. Qed.

(* assigned counts distinct addresses (a shared address once) *)
Theorem C11_in_use_distinct : forall a n, NoDup (ips_in_use a n).
Proof. exact ips_in_use_NoDup. Qed.
Theorem C11_in_use_exact : forall a n x,
  In x (ips_in_use a n) <-> exists e, In e (allocated a) /\ a_pool (snd e) = n /\ In x (a_ips (snd e)).
Proof. exact ips_in_use_spec. Qed.

(* capacity = min(MaxInt64, exact sum); a prefix with >= 62 host bits counts as
   unbounded; never negative *)
Theorem C11_capacity_saturating : forall p f,
  wf_pool_lens p ->
  pool_capacity p f = match exact_sum (p_avoid p) f (p_cidrs p) with
                      | Some m => Z.min max_i64 m
                      | None => max_i64
                      end.
Proof. exact pool_capacity_saturating. Qed.
Theorem C11_capacity_bounds : forall p f, wf_pool_lens p -> 0 <= pool_capacity p f <= max_i64.
Proof. exact pool_capacity_bounds. Qed.

(* regression of the two repaired defects: the arithmetic before the fixes *)
Theorem C11_F3_overflow_refuted_before_fix : pool_capacity_prefix f3_pool F6 < 0.
Proof. exact F3_prefix_refuted. Qed.
Theorem C11_F16_double_subtraction_refuted_before_fix : cidr_count_prefix true f16_cidr = Some (-1).
Proof. exact F16_prefix_refuted. Qed.
Example C11_fixed_witnesses : pool_capacity f3_pool F6 = max_i64 /\ cidr_count true f16_cidr = Some 0.
Proof. split; [exact F3_fixed|exact F16_fixed]. Qed.

(* ---- the closed form used by poolCount is the number of usable addresses ---- *)
From Verif Require Import Proofs.AllocPolicyP Proofs.AllocFormulaP.

(* for every CIDR: what poolCount computes (2^(bits-len), minus 2 per /24 for
   prefixes up to /24, minus the buggy first/last address for longer ones, a /32
   counted once) equals the length of the list of its addresses that are not
   avoided *)
Theorem C11_poolcount_formula : forall avoid c n,
  (plen c <= width (pfam c))%N -> cidr_count avoid c = Some n ->
  n = Z.of_nat (length (filter (usable avoid) (cidr_addrs c))).
Proof. exact poolcount_formula. Qed.

(* assigned never exceeds the exact number of usable addresses of the pool, so
   "available" is never negative (below the saturation bound) *)
Theorem C11_assigned_le_capacity : forall a n p f m,
  Inv a -> PoolCoh a -> NoDup (map p_name (by_name (s_pools a))) ->
  find_pool (s_pools a) n = Some p -> wf_pool_lens p ->
  exact_sum (p_avoid p) f (p_cidrs p) = Some m ->
  assigned a n f <= m.
Proof. exact assigned_le_capacity. Qed.

(* "no reported count is ever negative": for every reachable allocator state the four
   reported numbers are >= 0 (the bound on assigned only matters in the saturated case) *)
Theorem C11_counters_nonneg : forall a n p,
  Inv a -> PoolCoh a -> NoDup (map p_name (by_name (s_pools a))) ->
  find_pool (s_pools a) n = Some p -> wf_pool_lens p ->
  assigned a n F4 <= max_i64 -> assigned a n F6 <= max_i64 ->
  let c := counters_for a n in
  0 <= c_assigned4 c /\ 0 <= c_assigned6 c /\ 0 <= c_avail4 c /\ 0 <= c_avail6 c.
Proof. exact counters_nonneg. Qed.

(* ==== allocmaps: the derived maps of the Go allocator as a refinement ====
   (section appended by the allocmaps builder; proofs in Proofs/AllocMaps*.v)

   Model/AllocMaps.v carries allocated, sharingKeyForIP, portsInUse, servicesOnIP,
   poolIPsInUse, poolIPV4InUse and poolIPV6InUse as the Go code does and transcribes assign / Unassign /
   checkSharing / Assign / the re-homing loop of SetPools on them.  [abs] forgets
   the derived maps.  [MCoh m]: every derived map equals what is rebuilt from
   [allocated]; [MInv m] = MCoh m + the invariant [Inv] of Model/Alloc.v on the
   abstraction + the domain (every recorded service has at least one port, no
   port twice, no address twice).  [wf_op]: the request of the operation has at
   least one port and no port twice (what the API server guarantees). *)
From Verif Require Import Model.AllocMaps Proofs.AllocMapsCohP Proofs.AllocMapsRefP Proofs.AllocMapsCongP
  Proofs.AllocMapsTopP.

Theorem C11_maps_coherent_initially : MInv m_init.
Proof. exact MInv_init. Qed.

(* every operation, whatever result the implementation reported for it *)
Theorem C11_maps_coherent_preserved : forall m o, MInv m -> wf_op o -> MInv (fst (m_step m o)).
Proof. exact MInv_step. Qed.

(* the unconditional internal assign keeps the maps coherent exactly under the
   obligation its comment puts on the caller *)
Theorem C11_internal_assign_coherent : forall m s al,
  MInv m -> AllocOk al -> compat (m_alloc m) s al -> MInv (m_assign m s al).
Proof. exact MInv_assign. Qed.
Theorem C11_unassign_coherent : forall m s, MInv m -> MInv (m_unassign m s).
Proof. exact MInv_unassign. Qed.

(* for every finite history: memory = rebuild (no ghost reservation, no lost
   one), in all four derived maps, and neither the "incoherent state" panic of
   Unassign nor a write to a nil map is reached *)
Theorem C11_memory_equals_rebuild : forall ops,
  Forall wf_op ops ->
  let m := m_run ops m_init in
  MCoh m /\ maps_equiv m (rebuild (abs m)) /\ abs (rebuild (abs m)) = abs m /\ m_panic m = false.
Proof. exact memory_equals_rebuild. Qed.

(* two coherent states recording the same allocations hold the same maps *)
Theorem C11_coherent_maps_determined : forall m1 m2,
  MCoh m1 -> MCoh m2 -> Inv (abs m1) -> Inv (abs m2) -> st_equiv (abs m1) (abs m2) -> maps_equiv m1 m2.
Proof. exact MCoh_determines. Qed.

(* checkSharing as Go evaluates it on the maps = the reservation test of
   Model/Alloc.v on the surviving assignments *)
Theorem C11_check_sharing_on_maps : forall m s x ports k,
  MCoh m -> m_check_sharing m s x ports k = check_sharing (abs m) s x ports k.
Proof. exact m_check_sharing_eq. Qed.

(* every operation commutes with the abstraction, on results and states *)
Theorem C11_op_commutes_with_abs : forall m o,
  MCoh m -> not_setpools o -> (abs (fst (m_step m o)), snd (m_step m o)) = step (abs m) o.
Proof. exact lift_step. Qed.

(* SetPools, for EVERY order in which the range statement visits the services:
   coherent again, and the recorded allocations are those of the abstract
   SetPools.  (List equality would be too strong: re-homed services are
   re-inserted, the concrete list is a permutation - C11_setpools_order_witness.) *)
Theorem C11_setpools_commutes_with_abs : forall m ps order,
  MInv m -> NoDup (map fst order) -> (forall e, In e order <-> In e (m_alloc m)) ->
  MInv (m_set_pools m ps order) /\ st_equiv (abs (m_set_pools m ps order)) (set_pools (abs m) ps).
Proof. exact m_set_pools_sim. Qed.

(* a service produced a second time by the range statement (its entry was
   re-inserted during the iteration) is left alone *)
Theorem C11_setpools_revisit_is_noop : forall ps m e e', rehome ps e = Some e' -> rehome_step ps m e' = m.
Proof. exact rehome_step_revisit. Qed.

Theorem C11_op_commutes_with_abs_any : forall m o, MInv m ->
  snd (m_step m o) = snd (step (abs m) o) /\ st_equiv (abs (fst (m_step m o))) (fst (step (abs m) o)).
Proof. exact lift_step_equiv. Qed.

(* Model/Alloc.v cannot tell two equivalent states apart *)
Theorem C11_abstract_step_respects_equiv : forall a b o,
  Inv a -> Inv b -> st_equiv a b ->
  snd (step a o) = snd (step b o) /\ st_equiv (fst (step a o)) (fst (step b o)).
Proof. exact step_equiv. Qed.

(* so whole histories agree: same results, equivalent states; every theorem of
   C01/C02/C07/C11 about Model/Alloc.v speaks about the allocator with its maps *)
Theorem C11_history_refines : forall ops,
  Forall wf_op ops ->
  m_trace ops m_init = trace ops init /\ st_equiv (abs (m_run ops m_init)) (run ops init).
Proof.
  intros ops H. apply m_run_sim; [exact H|exact MInv_init|exact Inv_init|apply st_equiv_refl].
Qed.

Theorem C11_concrete_records_exclusive : forall ops, Forall wf_op ops -> Inv (abs (m_run ops m_init)).
Proof. intros ops H. exact (proj1 (proj2 (m_run_MInv ops m_init H MInv_init))). Qed.

(* counters computed from the maps: len(poolIPV4InUse[n]) / len(poolIPV6InUse[n]) *)
Theorem C11_counters_from_maps : forall m n, MCoh m -> m_counters_for m n = counters_for (abs m) n.
Proof. exact m_counters_eq. Qed.

Local Open Scope N_scope.
(* the boundary of the domain: a tenant without ports makes Unassign forget the
   sharing key of an address that is still held (MCoh fails; a service with
   another sharing key is then accepted on the address) *)
Example C11_zero_port_tenant_breaks_coherence :
  let m := m_run zero_port_ops m_init in
  get_alloc (abs m) 2 <> None /\ tenants (abs m) ex_ip <> [] /\ key_of m ex_ip = None /\ ~ MCoh m /\
  m_check_sharing m 3 ex_ip [p80] {| sharing := 9; backend := 0 |} = true /\
  check_sharing (abs m) 3 ex_ip [p80] {| sharing := 9; backend := 0 |} = false.
Proof. exact zero_port_incoherent. Qed.

(* the same port twice in one service: Unassign reaches its panic *)
Example C11_duplicate_port_panics : m_panic (m_run dup_port_ops m_init) = true.
Proof. exact dup_port_panics. Qed.

(* non-vacuity: the maps of a sharing history, stage by stage *)
Example C11_sharing_maps_witness :
  let m := m_run sharing_ops m_init in
  key_of m ex_ip = Some {| sharing := 7; backend := 0 |} /\
  owner m ex_ip p80 = Some 1%N /\ owner m ex_ip p443 = Some 2%N /\
  count m 1%N ex_ip = Some 2%Z /\ aget ip_eqb ex_ip (use4_of m 1%N) = Some 2%Z /\ use6_of m 1%N = [] /\ m_len_fam m 1%N F4 = 1%Z /\
  let m2 := m_run [OUnassign 1%N; OAssign 2%N (ex_req [p443] 9%N) [ex_ip];
                   OSetPools {| by_name := [ex_pool2]; by_ns := []; by_sel := [] |}] m in
  key_of m2 ex_ip = Some {| sharing := 9; backend := 0 |} /\ owner m2 ex_ip p80 = None /\
  svcs_on m2 ex_ip = [2%N] /\ count m2 1%N ex_ip = None /\ count m2 2%N ex_ip = Some 1%Z /\ m_panic m2 = false.
Proof. exact sharing_maps_witness. Qed.

Example C11_setpools_order_witness :
  let ops := sharing_ops ++ [OSetPools {| by_name := [ex_pool2]; by_ns := []; by_sel := [] |}] in
  map fst (allocated (abs (m_run ops m_init))) = [1%N; 2%N] /\ map fst (allocated (run ops init)) = [2%N; 1%N].
Proof. exact setpools_order_witness. Qed.
