"""Common machinery for /verif checks (see DESIGN.md section 2.4).

A property module props/Cxx.py defines  run(ctx)  and uses the helpers below.
Protocol printed on stdout:
  VIOLATION property=<id> replay=<path> [no-failing-input-found]
  KNOWN-FINDING: property=<id> <what fails>
Exit status: 0 held / only known findings, 1 violation, 2 broken check (my bug).
"""
import json, os, re, subprocess, sys, time, shutil, hashlib, glob

VERIF = os.path.dirname(os.path.dirname(os.path.abspath(__file__)))
COQ = os.path.join(VERIF, "coq")
WORK = os.path.join(VERIF, ".work")

ALLOWED_AXIOMS = {
    # axioms declared by Coq's standard library that a development may rely on;
    # each one actually used is copied into the evidence file
    "functional_extensionality_dep", "proof_irrelevance", "classic", "JMeq_eq",
    "Eqdep.Eq_rect_eq.eq_rect_eq", "eq_rect_eq", "propositional_extensionality",
}
# kernel primitives (not axioms) that Print Assumptions may list
PRIMITIVE_PREFIXES = ("Uint63.", "PrimInt63.", "PrimFloat.", "PArray.", "int ", "int:")


class Broken(Exception):
    """the check itself is broken (not a property violation)"""


def sh(cmd, cwd=None, env=None, timeout=None, input=None):
    e = dict(os.environ)
    if env:
        e.update(env)
    t0 = time.time()
    try:
        p = subprocess.run(cmd, cwd=cwd, env=e, shell=isinstance(cmd, str), input=input,
                           stdout=subprocess.PIPE, stderr=subprocess.STDOUT, timeout=timeout, text=True)
        return p.returncode, p.stdout, time.time() - t0
    except subprocess.TimeoutExpired as ex:
        out = ex.stdout if isinstance(ex.stdout, str) else (ex.stdout or b"").decode("utf8", "replace")
        return 124, (out or "") + "\n[timeout]", time.time() - t0


class Ctx:
    def __init__(self, prop, tier, seed, replay=None):
        self.prop = prop
        self.tier = tier
        self.seed = seed
        self.replay_in = replay
        self.repo = os.environ.get("VERIF_REPO", "/repo")
        # runs against a scratch copy of the repository (mutation / seeded runs) get their own work directory
        self.work = os.path.join(WORK, prop if self.repo == "/repo" else "%s-alt%d" % (prop, os.getpid()))
        if os.path.isdir(self.work):
            shutil.rmtree(self.work, ignore_errors=True)
        os.makedirs(self.work, exist_ok=True)
        os.makedirs(os.path.join(VERIF, "evidence"), exist_ok=True)
        os.makedirs(os.path.join(VERIF, "replays"), exist_ok=True)
        self.t0 = time.time()
        self.violations = []      # (replay_path, note)
        self.known_hits = {}      # sig -> count
        self.cov = {"correspondence": {}, "samples": []}
        self.trusted = []
        self.assumptions = []
        self.theorems = []
        self.obligations = 0
        self.discharged = 0
        self.checker_cmds = []
        self.proof_broken = None  # text
        self.corr_broken = []     # list of descriptions
        self.known = load_known(prop)
        self.level = "proof"

    # ---------------------------------------------------------------- Coq
    def coq_build(self, vfiles, timeout=1500):
        """build the given .v files (paths relative to coq/) and what they need.
        Returns True when every target compiled.  A failure is a broken proof
        obligation: recorded, reported by finish()."""
        ensure_makefile()
        targets = [f[:-2] + ".vo" for f in vfiles]
        cmd = ["make", "-C", COQ, "-j16"] + targets
        self.checker_cmds.append("make -C coq -j16 " + " ".join(targets))
        rc, out, dt = sh(cmd, timeout=timeout)
        open(os.path.join(self.work, "coq_build.log"), "w").write(out)
        if rc != 0:
            m = re.search(r'File "([^"]+)", line (\d+)', out)
            where = "%s:%s" % (m.group(1), m.group(2)) if m else "?"
            self.proof_broken = "coq build failed at %s\n%s" % (where, out[-3000:])
            return False
        return True

    def coq_theorems(self, propfile, closure):
        """propfile: coq/Properties/Cxx.v (only statements).  closure: the .v files
        whose lemmas the property's theorems rest on.  Counts obligations and runs
        Print Assumptions on every theorem of the property file."""
        src = open(os.path.join(COQ, propfile)).read()
        names = re.findall(r'^\s*(?:Theorem|Corollary)\s+([A-Za-z0-9_\']+)', src, re.M)
        self.theorems = names
        nobl = 0
        for f in [propfile] + list(closure):
            s = open(os.path.join(COQ, f)).read()
            s = re.sub(r'\(\*.*?\*\)', '', s, flags=re.S)
            nobl += len(re.findall(r'^\s*(?:Theorem|Lemma|Corollary|Example|Fact|Remark|Proposition)\s', s, re.M))
            for bad in ("Admitted", "admit.", "Axiom ", "Parameter ", "Conjecture ", "Unset Guard", "bypass_check"):
                if bad in s:
                    raise Broken("forbidden construct %r in %s" % (bad, f))
        self.obligations = nobl
        if self.proof_broken:
            self.discharged = 0
            return
        mod = "Verif." + propfile[:-2].replace("/", ".")
        v = os.path.join(self.work, "assum.v")
        with open(v, "w") as fh:
            fh.write("From Verif Require Import %s.\n" % propfile[:-2].replace("/", "."))
            for n in names:
                fh.write('Print Assumptions %s.\n' % n)
        rc, out, dt = sh(["coqc", "-Q", COQ, "Verif", v], cwd=self.work, timeout=600)
        self.checker_cmds.append("coqc -Q coq Verif .work/%s/assum.v  (Print Assumptions of %d theorems)" % (self.prop, len(names)))
        if rc != 0:
            self.proof_broken = "Print Assumptions run failed:\n" + out[-2000:]
            self.discharged = 0
            return
        axioms = set()
        for line in out.splitlines():
            line = line.strip()
            m = re.match(r'^([A-Za-z0-9_\.\']+)\s*:', line)
            if m:
                axioms.add(m.group(1))
        closed = out.count("Closed under the global context")
        bad = []
        used = []
        for a in sorted(axioms):
            base = a.split(".")[-1]
            if a in ALLOWED_AXIOMS or base in ALLOWED_AXIOMS:
                used.append(a)
            elif a.startswith(PRIMITIVE_PREFIXES) or base in PRIMS:
                used.append(a + " (kernel primitive)")
            else:
                bad.append(a)
        if bad:
            raise Broken("theorems of %s depend on undeclared assumptions: %s" % (propfile, bad))
        self.discharged = nobl
        if used:
            self.trusted.append("axioms/primitives reported by Print Assumptions: " + ", ".join(used))
        else:
            self.trusted.append("axioms: none (Print Assumptions: %d of %d theorems 'Closed under the global context')" % (closed, len(names)))

    def coq_cases(self, runmod, casetype, terms, ids=None, shard=400, header="", timeout=1500, fn="mismatches"):
        """terms: list of Coq terms of type `casetype`; evaluates
        Verif.Corr.<runmod>.<fn> on them with vm_compute, returns the list of
        mismatching case ids (as ints).  [] means model and implementation agree."""
        if not terms:
            return []
        files = []
        for k in range(0, len(terms), shard):
            chunk = terms[k:k + shard]
            v = os.path.join(self.work, "cases_%s_%d.v" % (runmod, k // shard))
            with open(v, "w") as fh:
                fh.write("From Coq Require Import List NArith ZArith Uint63 String.\nImport ListNotations.\n")
                fh.write("From Verif Require Import Corr.%s.\n%s\n" % (runmod, header))
                fh.write("Definition cases : list %s := [\n" % casetype)
                fh.write(";\n".join(chunk))
                fh.write("\n].\nDefinition M := Eval vm_compute in %s cases.\nPrint M.\n" % fn)
            files.append(v)
        self.checker_cmds.append("coqc -Q coq Verif .work/%s/cases_%s_*.v  (%d cases, vm_compute)" % (self.prop, runmod, len(terms)))
        procs = []
        mism = []
        for i in range(0, len(files), 16):
            batch = files[i:i + 16]
            ps = [subprocess.Popen(["timeout", str(timeout), "coqc", "-Q", COQ, "Verif", f], cwd=self.work,
                                   stdout=subprocess.PIPE, stderr=subprocess.STDOUT, text=True) for f in batch]
            for f, p in zip(batch, ps):
                out, _ = p.communicate()
                if p.returncode != 0:
                    self.corr_broken.append("coqc failed on %s: %s" % (os.path.basename(f), out[-1500:]))
                    continue
                m = re.search(r'M\s*=\s*\[(.*?)\]', out, re.S)
                if not m:
                    self.corr_broken.append("cannot parse coqc output of %s: %s" % (os.path.basename(f), out[-500:]))
                    continue
                body = m.group(1).strip()
                if body:
                    mism += [int(x) for x in re.findall(r'\d+', re.sub(r'%\w+', '', body))]
        return mism

    def coqchk_all(self, timeout=3400):
        """thorough tier only: rebuild the whole development from clean in a scratch copy
        and re-check every compiled property module with the independent checker coqchk;
        returns (ok, summary lines incl. the axioms it lists)"""
        dst = os.path.join(self.work, "coqchk")
        shutil.rmtree(dst, ignore_errors=True)
        for sub in ("Base", "Model", "Proofs", "Properties", "Corr"):
            os.makedirs(os.path.join(dst, sub), exist_ok=True)
            for v in glob.glob(os.path.join(COQ, sub, "*.v")):
                shutil.copy(v, os.path.join(dst, sub))
        shutil.copy(os.path.join(COQ, "_CoqProject"), dst)
        rc, out, _ = sh("coq_makefile -f _CoqProject -o Makefile && make -j16", cwd=dst, timeout=timeout)
        if rc != 0:
            self.proof_broken = "clean rebuild for coqchk failed:\n" + out[-2000:]
            return False, []
        mods = sorted("Verif.Properties." + os.path.basename(v)[:-2] for v in glob.glob(os.path.join(dst, "Properties", "*.v")))
        cmd = "coqchk -silent -o -Q . Verif " + " ".join(mods)
        self.checker_cmds.append("(clean copy) make -j16 && " + cmd)
        rc, out, dt = sh(cmd, cwd=dst, timeout=timeout)
        lines = [l.rstrip() for l in out.splitlines() if l.strip()]
        # with -silent coqchk prints only the context summary; success = exit status 0 and a summary
        ok = rc == 0 and any(l.startswith("* Axioms:") for l in lines)
        if not ok:
            self.proof_broken = "coqchk failed:\n" + out[-2000:]
        shutil.rmtree(dst, ignore_errors=True)
        return ok, lines[-40:] + ["coqchk wall %.0fs" % dt]

    # ---------------------------------------------------------------- Go
    def go_harness(self, pkg, files, run, n=None, env=None, race=False, timeout=1500, extra_overlay=None, seed=None, tag="h"):
        """pkg: package dir relative to the repo ('speaker').  files: harness files
        under /verif/harness/<pkg>/ to overlay into the package (plus the common
        emitter).  Returns (records, ok, log)."""
        repo = self.repo
        ovdir = os.path.join(self.work, "overlay_" + tag)
        os.makedirs(ovdir, exist_ok=True)
        replace = {}
        pkgname = go_pkgname(os.path.join(repo, pkg))
        emit = open(os.path.join(VERIF, "harness", "common", "emit.go")).read().replace("package PKG", "package " + pkgname)
        ep = os.path.join(ovdir, "zz_verif_emit_test.go")
        open(ep, "w").write(emit)
        replace[os.path.join(repo, pkg, "zz_verif_emit_test.go")] = ep
        for f in files:
            src = os.path.join(VERIF, "harness", pkg, f)
            replace[os.path.join(repo, pkg, f)] = src
        for k, v in (extra_overlay or {}).items():
            replace[os.path.join(repo, k)] = v
        ov = os.path.join(ovdir, "overlay.json")
        json.dump({"Replace": replace}, open(ov, "w"), indent=1)
        outp = os.path.join(self.work, "out_%s.jsonl" % tag)
        if os.path.exists(outp):
            os.remove(outp)
        e = {"GOWORK": "off", "GOFLAGS": "-mod=mod", "GOPROXY": "off", "VERIF_OUT": outp,
             "VERIF_SEED": str(self.seed if seed is None else seed), "VERIF_TIER": self.tier}
        for k in ("GOTOOLCHAIN", "GOSUMDB"):
            os.environ.pop(k, None)
        if n is not None:
            e["VERIF_N"] = str(n)
        if self.replay_in:
            e["VERIF_REPLAY"] = self.replay_in
        if env:
            e.update(env)
        cmd = ["go", "test", "-tags", "verif", "-vet=off", "-count=1", "-overlay", ov, "-run", run,
               "-timeout", "%ds" % timeout]
        if race:
            cmd.append("-race")
        cmd.append("./" + pkg)
        self.checker_cmds.append("(cd $REPO && go test -tags verif -vet=off -count=1 -overlay <harness> -run %s%s ./%s)" % (run, " -race" if race else "", pkg))
        rc, out, dt = sh(cmd, cwd=repo, env=e, timeout=timeout + 120)
        open(os.path.join(self.work, "go_%s.log" % tag), "w").write(out)
        recs = []
        if os.path.exists(outp):
            for line in open(outp):
                line = line.strip()
                if line:
                    try:
                        recs.append(json.loads(line))
                    except Exception:
                        pass
        # keep /repo clean (go may touch e2etest/go.work.sum)
        sh("git checkout -- e2etest/go.work.sum 2>/dev/null", cwd=repo)
        ok = rc == 0
        if not ok and "[build failed]" in out or "[setup failed]" in out:
            self.corr_broken.append("harness for ./%s does not build against the current tree:\n%s" % (pkg, out[-2500:]))
        return recs, ok, out

    # ---------------------------------------------------------------- verdicts
    def oracle_fail(self, sig, what, replay_obj):
        """a concrete failing input found on the implementation"""
        if sig in self.known:
            self.known_hits[sig] = self.known_hits.get(sig, 0) + 1
            return
        for (_, s, _) in self.violations:
            if s == sig:
                return
        path = os.path.join(VERIF, "replays", "%s-%s-%d.json" % (self.prop, re.sub(r'[^A-Za-z0-9_.-]', '_', sig)[:60], self.seed))
        json.dump({"property": self.prop, "signature": sig, "what": what, "seed": self.seed, "tier": self.tier,
                   "replay": replay_obj}, open(path, "w"), indent=1, default=str)
        self.violations.append((path, sig, what))

    def handle_records(self, recs):
        """generic handling of harness records: fails -> oracle_fail, stats -> coverage.
        returns (cases, stats)"""
        cases = [r for r in recs if r.get("t") == "case"]
        stats = {}
        for r in recs:
            if r.get("t") == "fail":
                self.oracle_fail(r.get("sig", "?"), r.get("what", ""), r.get("replay"))
            elif r.get("t") == "stat":
                stats[r["k"]] = stats.get(r["k"], 0) + r["v"]
        return cases, stats

    def finish(self, evaluations, distinct, rule, samples, extra=None, search=None):
        """decide, print the protocol lines, write evidence, exit."""
        broken_notes = []
        if self.proof_broken:
            broken_notes.append(("proof", self.proof_broken))
        for c in self.corr_broken:
            broken_notes.append(("correspondence", c))
        if broken_notes and not self.violations and search is not None:
            # intensified search for a concrete failing input
            try:
                search()
            except Broken:
                raise
            except Exception as ex:  # search trouble must not hide the report
                broken_notes.append(("search", "intensified search raised %r" % (ex,)))
        for sig, cnt in sorted(self.known_hits.items()):
            print("KNOWN-FINDING: property=%s %s (sig=%s, %d hits this run)" % (self.prop, self.known[sig], sig, cnt))
        rc = 0
        for (path, sig, what) in self.violations:
            print("VIOLATION property=%s replay=%s" % (self.prop, path))
            print("  what: %s" % what)
            rc = 1
        if broken_notes and not self.violations:
            path = os.path.join(VERIF, "replays", "%s-unproved-%d.json" % (self.prop, self.seed))
            json.dump({"property": self.prop, "no_failing_input_found": True,
                       "broken": [{"kind": k, "detail": d} for k, d in broken_notes],
                       "theorems": self.theorems,
                       "note": "the proof obligation or the model/code correspondence named here no longer checks; "
                               "the search on model and implementation found no concrete failing input"},
                      open(path, "w"), indent=1)
            print("VIOLATION property=%s replay=%s no-failing-input-found" % (self.prop, path))
            for k, d in broken_notes:
                print("  broken %s: %s" % (k, d.strip().splitlines()[0] if d.strip() else ""))
            rc = 1
        cov = dict(self.cov)
        cov.update({
            "obligations": self.obligations, "discharged": self.discharged if not self.proof_broken else 0,
            "checker_cmd": " && ".join(self.checker_cmds) or "none",
            "trusted_base": BASE_TRUST + self.trusted,
            "evaluations": int(evaluations), "distinct_nontrivial": int(distinct), "rule": rule,
            "samples": samples[:5] if samples else [{"note": "no sample"}],
            "theorems": self.theorems,
            "known_finding_hits": self.known_hits,
        })
        if extra:
            cov.update(extra)
        ev = {"property_id": self.prop, "tier": self.tier, "seed": int(self.seed), "level": self.level,
              "coverage": cov, "assumptions": self.assumptions, "wall_s": round(time.time() - self.t0, 2),
              "violations": len(self.violations) + (1 if (broken_notes and not self.violations) else 0)}
        # evidence/<id>.json describes the tree under /repo; a run against another tree (VERIF_REPO, used by the seeded /
        # harmless campaigns) keeps its evidence in its scratch directory, which is removed unless VERIF_KEEP_WORK is set
        alt = self.repo != "/repo"
        evpath = os.path.join(self.work, "evidence.json") if alt else os.path.join(VERIF, "evidence", self.prop + ".json")
        json.dump(ev, open(evpath, "w"), indent=1, default=str)
        if rc == 0:
            print("OK property=%s tier=%s obligations=%d cases=%d wall=%.1fs" % (self.prop, self.tier, self.obligations, evaluations, time.time() - self.t0))
        if alt and not os.environ.get("VERIF_KEEP_WORK"):
            import shutil
            shutil.rmtree(self.work, ignore_errors=True)
        sys.exit(rc)


PRIMS = {"int", "add", "sub", "mul", "land", "lor", "lxor", "lsl", "lsr", "ltb", "leb", "eqb", "div", "mod",
         "of_Z", "to_Z", "compare", "float", "array", "mulc", "diveucl", "addc", "subc", "head0", "tail0"}

BASE_TRUST = [
    "Coq 8.16.1 kernel; vm_compute (bytecode VM) for cases.v; no native_compute",
    "hand-written Gallina model (coq/Model) tied to /repo by differential execution on this run (correspondence), not by proof",
    "Go harness under /verif/harness (overlay, build tag verif), lib/vlib.py, Go toolchain, the modelled Go std/k8s libraries",
]


def load_known(prop):
    known = {}
    p = os.path.join(VERIF, "KNOWN_FINDINGS.txt")
    if os.path.exists(p):
        for line in open(p):
            line = line.strip()
            m = re.match(r'^finding:\s+property=(\S+)\s+sig=(\S+)\s+(.*)$', line)
            if m and m.group(1) == prop:
                known[m.group(2)] = m.group(3)
    return known


def go_pkgname(d):
    for f in sorted(glob.glob(os.path.join(d, "*.go"))):
        if f.endswith("_test.go"):
            continue
        for line in open(f):
            m = re.match(r'^package\s+(\w+)', line)
            if m:
                return m.group(1)
    raise Broken("no package clause in " + d)


def ensure_makefile():
    """_CoqProject and Makefile are regenerated from the files on disk"""
    vs = []
    for sub in ("Base", "Model", "Proofs", "Properties", "Corr"):
        vs += sorted(glob.glob(os.path.join(COQ, sub, "*.v")))
    rel = [os.path.relpath(v, COQ) for v in vs]
    want = "-Q . Verif\n" + "\n".join(rel) + "\n"
    cp = os.path.join(COQ, "_CoqProject")
    if not os.path.exists(cp) or open(cp).read() != want or not os.path.exists(os.path.join(COQ, "Makefile")):
        open(cp, "w").write(want)
        rc, out, _ = sh(["coq_makefile", "-f", "_CoqProject", "-o", "Makefile"], cwd=COQ)
        if rc != 0:
            raise Broken("coq_makefile failed: " + out)


def main():
    import argparse, importlib.util
    ap = argparse.ArgumentParser()
    ap.add_argument("prop")
    ap.add_argument("--tier", default=os.environ.get("VERIF_TIER", "quick"))
    ap.add_argument("--replay", default=None)
    a = ap.parse_args()
    seed = int(os.environ.get("VERIF_SEED", "1") or "1")
    tier = a.tier if a.tier in ("quick", "thorough") else "quick"
    ctx = Ctx(a.prop, tier, seed, a.replay)
    spec = importlib.util.spec_from_file_location("prop_" + a.prop, os.path.join(VERIF, "props", a.prop + ".py"))
    mod = importlib.util.module_from_spec(spec)
    try:
        spec.loader.exec_module(mod)
        mod.run(ctx)
        raise Broken("props/%s.py returned without calling ctx.finish" % a.prop)
    except Broken as b:
        print("BROKEN-CHECK property=%s: %s" % (a.prop, b))
        sys.exit(2)
