//go:build verif

package config

// Harness for C08 (accepted configuration is sound).  Drives the REAL
// config.For / ParseCIDR / cidrsOverlap on generated snapshots and address
// strings;
//  (a) oracle written from the property statement, evaluated on the returned
//      *Config with plain integer arithmetic (never with the model, never with
//      net.IPNet.Contains): exact address sets on boundary and sampled
//      addresses, pairwise disjointness, no node IP inside a pool, attachment
//      of advertisements, node sets, aggregate containment, local-pref
//      collisions;
//  (b) ships snapshot + projected result to Coq (Model/Cfg.v).
// Generator: zz_verif_cfggen_test.go (shared with C18).

import (
	"encoding/json"
	"fmt"
	"math/big"
	"math/rand"
	"net"
	"os"
	"sort"
	"strings"
	"testing"
)

type vClusterResources = ClusterResources
type vConfig = Config

// ---------------------------------------------------------------- integer view
type vRange struct {
	fam    int
	lo, hi *big.Int
}

func vPow2(k int) *big.Int { return new(big.Int).Lsh(big.NewInt(1), uint(k)) }
func vW(fam int) int {
	if fam == 4 {
		return 32
	}
	return 128
}
func vCidrRange(fam int, addr *big.Int, l int) vRange {
	blk := vPow2(vW(fam) - l)
	lo := new(big.Int).Div(addr, blk)
	lo.Mul(lo, blk)
	hi := new(big.Int).Add(lo, blk)
	hi.Sub(hi, big.NewInt(1))
	return vRange{fam, lo, hi}
}
func (a vRange) has(fam int, x *big.Int) bool {
	return a.fam == fam && a.lo.Cmp(x) <= 0 && x.Cmp(a.hi) <= 0
}
func (a vRange) meets(b vRange) bool {
	return a.fam == b.fam && a.lo.Cmp(b.hi) <= 0 && b.lo.Cmp(a.hi) <= 0
}
func (a vRange) within(b vRange) bool {
	return a.fam == b.fam && b.lo.Cmp(a.lo) <= 0 && a.hi.Cmp(b.hi) <= 0
}

var vMappedBase = new(big.Int).Lsh(big.NewInt(0xffff), 32)

// what the user wrote (ok=false: the entry has no meaning: start after end, mixed families)
func vWritten(a vAddr) (vRange, bool) {
	switch a.Kind {
	case 0:
		if a.Len > vW(a.Fam) {
			return vRange{}, false
		}
		return vCidrRange(a.Fam, vBig(a.A), a.Len), true
	case 1:
		if a.Len >= 96 {
			return vCidrRange(4, vBig(a.A), a.Len-96), true
		}
		return vCidrRange(6, new(big.Int).Add(vMappedBase, vBig(a.A)), a.Len), true
	}
	if a.Fam != a.Fam2 || vBig(a.A).Cmp(vBig(a.B)) > 0 {
		return vRange{}, false
	}
	return vRange{a.Fam, vBig(a.A), vBig(a.B)}, true
}

// a parsed *net.IPNet as a range, from its bytes only
func vNetRange(n *net.IPNet) (vRange, bool) {
	ones, bits := n.Mask.Size()
	if ones == 0 && bits == 0 {
		return vRange{}, false
	}
	if ip4 := n.IP.To4(); ip4 != nil {
		if bits == 128 { // IPv4-mapped form with a 16-byte mask
			if ones < 96 {
				return vRange{}, false
			}
			ones -= 96
		}
		return vCidrRange(4, new(big.Int).SetBytes(ip4), ones), true
	}
	if bits != 128 {
		return vRange{}, false
	}
	return vCidrRange(6, new(big.Int).SetBytes(n.IP.To16()), ones), true
}

func vProbe(r *rand.Rand, rs ...vRange) []*big.Int {
	var out []*big.Int
	one := big.NewInt(1)
	for _, x := range rs {
		max := new(big.Int).Sub(vPow2(vW(x.fam)), one)
		for _, p := range []*big.Int{x.lo, x.hi} {
			for d := int64(-1); d <= 1; d++ {
				q := new(big.Int).Add(p, big.NewInt(d))
				if q.Sign() >= 0 && q.Cmp(max) <= 0 {
					out = append(out, q)
				}
			}
		}
		span := new(big.Int).Sub(x.hi, x.lo)
		span.Add(span, one)
		for k := 0; k < 3; k++ {
			out = append(out, new(big.Int).Add(x.lo, new(big.Int).Rand(r, span)))
		}
	}
	return out
}

func vSelMatches(s vSel, labels []vKV) bool {
	for _, kv := range s {
		ok := false
		for _, l := range labels {
			ok = ok || l == kv
		}
		if !ok {
			return false
		}
	}
	return true
}
func vAnyMatches(ss []vSel, labels []vKV) bool {
	for _, s := range ss {
		if vSelMatches(s, labels) {
			return true
		}
	}
	return false
}
func vHas(l []int, x int) bool {
	for _, y := range l {
		if x == y {
			return true
		}
	}
	return false
}
func vSetEq(a, b []int) bool {
	m := map[int]int{}
	for _, x := range a {
		m[x] |= 1
	}
	for _, x := range b {
		m[x] |= 2
	}
	for _, v := range m {
		if v != 3 {
			return false
		}
	}
	return true
}

// ---------------------------------------------------------------- the oracle
func vOracle(out *vOut, r *rand.Rand, s vSnap, cfg *Config) {
	replay := map[string]any{"snap": s}
	fail := func(sig, what string) { out.Fail(sig, what, replay) }
	pools := map[int]vPool{}
	for _, p := range s.Pools {
		pools[p.Name] = p
	}
	type pr struct {
		pool string
		r    vRange
	}
	var all []pr
	// (1) exact address sets
	for name, p := range cfg.Pools.ByName {
		sp, ok := pools[vIndex(vPoolNames, name)]
		if !ok {
			fail("c08-unknown-pool", "accepted configuration has pool "+name+" that was not in the snapshot")
			continue
		}
		var parsed, written []vRange
		for _, c := range p.CIDR {
			x, ok := vNetRange(c)
			if !ok {
				fail("c08-malformed-cidr", fmt.Sprintf("pool %s: parsed CIDR %v has no consistent address/mask", name, c))
				continue
			}
			parsed = append(parsed, x)
			all = append(all, pr{name, x})
		}
		for _, a := range sp.Addrs {
			w, ok := vWritten(a)
			if !ok {
				sig := "c08-meaningless-address-accepted"
				if a.Kind == 2 && a.Fam != a.Fam2 {
					sig = "c08-mixed-family-range-accepted"
				}
				fail(sig, fmt.Sprintf("pool %s: address entry %q denotes no address set (families mixed inside a range / start after end) yet the configuration was accepted", name, a.Text))
				continue
			}
			written = append(written, w)
		}
		for _, set := range [][]vRange{parsed, written} {
			for _, x := range vProbe(r, set...) {
				for _, fam := range []int{4, 6} {
					if fam == 4 && x.BitLen() > 32 {
						continue
					}
					inP, inW := false, false
					for _, c := range parsed {
						inP = inP || c.has(fam, x)
					}
					for _, c := range written {
						inW = inW || c.has(fam, x)
					}
					out.Stat("membership_probes", 1)
					if inP != inW {
						fail("c08-pool-address-set-not-exact", fmt.Sprintf("pool %s: address %s (family %d) in parsed CIDRs=%v, in what was written=%v (written %v)", name, vText(fam, x, false), fam, inP, inW, vTexts(sp.Addrs)))
					}
				}
			}
		}
		// (6) aggregates stay inside the CIDR the user wrote
		for _, a := range sp.Addrs {
			if a.Kind == 2 {
				continue
			}
			w, ok := vWritten(a)
			if !ok {
				continue
			}
			for _, adv := range p.BGPAdvertisements {
				l := adv.AggregationLength
				if w.fam == 6 {
					l = adv.AggregationLengthV6
				}
				for _, x := range []*big.Int{w.lo, w.hi, new(big.Int).Add(w.lo, new(big.Int).Rand(r, new(big.Int).Add(new(big.Int).Sub(w.hi, w.lo), big.NewInt(1))))} {
					out.Stat("aggregate_probes", 1)
					if l < 0 || l > vW(w.fam) || !vCidrRange(w.fam, x, l).within(w) {
						fail("c08-aggregate-leaves-pool-cidr", fmt.Sprintf("pool %s written %q, advertisement %s aggregates %s to /%d which is not inside the CIDR", name, a.Text, adv.Name, vText(w.fam, x, false), l))
					}
				}
			}
		}
	}
	// (2) disjoint
	for i := range all {
		for j := i + 1; j < len(all); j++ {
			out.Stat("disjointness_pairs", 1)
			if all[i].r.meets(all[j].r) {
				fail("c08-pools-overlap", fmt.Sprintf("accepted CIDRs overlap: pool %s [%s,%s] and pool %s [%s,%s]", all[i].pool, vText(all[i].r.fam, all[i].r.lo, false), vText(all[i].r.fam, all[i].r.hi, false), all[j].pool, vText(all[j].r.fam, all[j].r.lo, false), vText(all[j].r.fam, all[j].r.hi, false)))
			}
		}
	}
	// (3) node IPs
	for _, n := range s.Nodes {
		for _, ip := range n.IPs {
			if !ip.Internal {
				continue
			}
			for _, c := range all {
				if c.r.has(ip.Fam, vBig(ip.A)) {
					fail("c08-node-ip-in-pool", fmt.Sprintf("node %s internal IP %s lies in pool %s", vNodeNames[n.Name], vText(ip.Fam, vBig(ip.A), false), c.pool))
				}
			}
		}
	}
	// (4)(5) advertisements: attached exactly where named / selected, exact node sets
	nodesFor := func(ss []vSel) []int {
		var o []int
		for _, n := range s.Nodes {
			if len(ss) == 0 || vAnyMatches(ss, n.Labels) {
				o = append(o, n.Name)
			}
		}
		return o
	}
	wants := func(names []int, ss []vSel, p vPool) bool {
		if len(names) == 0 && len(ss) == 0 {
			return true
		}
		return vHas(names, p.Name) || vAnyMatches(ss, p.Labels)
	}
	for name, p := range cfg.Pools.ByName {
		sp := pools[vIndex(vPoolNames, name)]
		for _, a := range s.BGP {
			cnt := 0
			for _, x := range p.BGPAdvertisements {
				if x.Name == vAdvNames[a.Name] {
					cnt++
					if !vSetEq(vKeysIdx(vNodeNames, x.Nodes), nodesFor(a.NodeSels)) {
						fail("c08-adv-nodes-not-exact", fmt.Sprintf("BGP advertisement %s: nodes %v, node selectors match %v", x.Name, vKeysIdx(vNodeNames, x.Nodes), nodesFor(a.NodeSels)))
					}
				}
			}
			out.Stat("attach_checks", 1)
			if (cnt > 0) != wants(a.Pools, a.PoolSels, sp) {
				fail("c08-bgp-adv-attachment-not-exact", fmt.Sprintf("BGP advertisement %s attached to pool %s: %v, names/selects it: %v", vAdvNames[a.Name], name, cnt > 0, !(cnt > 0)))
			}
			if cnt > 0 {
				out.Stat("bgp_adv_attached", 1)
			}
		}
		for _, x := range p.BGPAdvertisements {
			if vIndex(vAdvNames, x.Name) == 999 {
				fail("c08-bgp-adv-attachment-not-exact", "unknown advertisement "+x.Name+" on pool "+name)
			}
		}
		l2key := func(nodes, ifaces []int) string {
			n := append([]int(nil), nodes...)
			sort.Ints(n)
			m := map[int]bool{}
			for _, i := range ifaces {
				m[i] = true
			}
			var f []int
			for i := range m {
				f = append(f, i)
			}
			sort.Ints(f)
			return fmt.Sprint(n, f)
		}
		want := map[string]bool{}
		for _, a := range s.L2 {
			if wants(a.Pools, a.PoolSels, sp) {
				want[l2key(nodesFor(a.NodeSels), a.Ifaces)] = true
			}
		}
		have := map[string]bool{}
		for _, x := range p.L2Advertisements {
			var ifs []int
			for _, i := range x.Interfaces {
				ifs = append(ifs, vIndex(vIfaceNames, i))
			}
			k := l2key(vKeysIdx(vNodeNames, x.Nodes), ifs)
			if have[k] {
				fail("c08-l2-adv-attachment-not-exact", "pool "+name+" carries the same L2 advertisement twice")
			}
			have[k] = true
			if x.AllInterfaces != (len(x.Interfaces) == 0) {
				fail("c08-l2-adv-attachment-not-exact", "AllInterfaces inconsistent on pool "+name)
			}
		}
		out.Stat("attach_checks", 1)
		if len(have) > 0 {
			out.Stat("l2_adv_attached", 1)
		}
		for k := range want {
			if !have[k] {
				fail("c08-l2-adv-attachment-not-exact", fmt.Sprintf("pool %s: an L2 advertisement that names/selects it (nodes,interfaces %s) is missing", name, k))
			}
		}
		for k := range have {
			if !want[k] {
				fail("c08-l2-adv-attachment-not-exact", fmt.Sprintf("pool %s: carries an L2 advertisement (nodes,interfaces %s) that no resource names/selects for it", name, k))
			}
		}
		// (7) one route, one local preference: for an address of every family the pool has,
		// every advertisement announces the aggregate (family, masked address, length) on its
		// nodes to its peers (no peer list = every peer); two advertisements that announce the
		// same aggregate on a common node to a common peer must carry the same local preference
		type sample struct {
			fam int
			x   *big.Int
		}
		var samples []sample
		fams := map[int]bool{}
		for _, c := range p.CIDR {
			if x, ok := vNetRange(c); ok {
				samples = append(samples, sample{x.fam, x.lo}, sample{x.fam, x.hi})
				fams[x.fam] = true
			}
		}
		if fams[4] && fams[6] {
			out.Stat("dualstack_pools_accepted", 1)
		}
		aggOf := func(a *BGPAdvertisement, fam int) int {
			if fam == 4 {
				return a.AggregationLength
			}
			return a.AggregationLengthV6
		}
		for i, a := range p.BGPAdvertisements {
			for _, b := range p.BGPAdvertisements[i+1:] {
				if a.LocalPref == b.LocalPref {
					continue
				}
				out.Stat("localpref_pairs", 1)
				if fams[4] && fams[6] {
					out.Stat("localpref_pairs_on_dualstack_pool", 1)
				}
				common := false
				for n := range a.Nodes {
					common = common || b.Nodes[n]
				}
				peers := len(a.Peers) == 0 || len(b.Peers) == 0
				for _, x := range a.Peers {
					for _, y := range b.Peers {
						peers = peers || x == y
					}
				}
				if !common || !peers {
					continue
				}
				for _, sm := range samples {
					la, lb := aggOf(a, sm.fam), aggOf(b, sm.fam)
					out.Stat(fmt.Sprintf("route_probes_ipv%d", sm.fam), 1)
					if la < 0 || lb < 0 || la > vW(sm.fam) || lb > vW(sm.fam) {
						continue
					}
					ra, rb := vCidrRange(sm.fam, sm.x, la), vCidrRange(sm.fam, sm.x, lb)
					if la == lb && ra.lo.Cmp(rb.lo) == 0 {
						fail("c08-localpref-collision-accepted", fmt.Sprintf("pool %s: advertisements %s (localpref %d) and %s (localpref %d) both announce %s/%d (IPv%d) on a common node to a common peer: one route, two local preferences", name, a.Name, a.LocalPref, b.Name, b.LocalPref, vText(sm.fam, ra.lo, false), la, sm.fam))
						break
					}
				}
			}
		}
	}
}

// (8) the same clause ACROSS pools: validateBGPAdvPerPool looks at one pool at a time.  For address
// entries that are one CIDR the aggregate stays inside the entry, so two pools can never share
// a route (theorem C08_disjoint_cidr_entries_share_no_route); for range-written entries they
// can (known finding, C08_localpref_cross_pool_refuted) - the signature tells the two apart.
func vOracleCrossPool(out *vOut, s vSnap, cfg *Config) {
	type ann struct {
		pool   string
		adv    *BGPAdvertisement
		x      vRange // the parsed CIDR the sample address comes from
		oneCID bool   // ... which belongs to an entry that is a single CIDR
		route  vRange
	}
	written := map[string][]vRange{}
	single := map[string][]bool{}
	for _, p := range s.Pools {
		for _, a := range p.Addrs {
			if w, ok := vWritten(a); ok {
				written[vPoolNames[p.Name]] = append(written[vPoolNames[p.Name]], w)
				single[vPoolNames[p.Name]] = append(single[vPoolNames[p.Name]], len(vBlocks(w.fam, w.lo, w.hi)) == 1)
			}
		}
	}
	var anns []ann
	for name, p := range cfg.Pools.ByName {
		for _, c := range p.CIDR {
			x, ok := vNetRange(c)
			if !ok {
				continue
			}
			one := false
			for i, w := range written[name] {
				if x.within(w) {
					one = single[name][i]
				}
			}
			for _, a := range p.BGPAdvertisements {
				l := a.AggregationLength
				if x.fam == 6 {
					l = a.AggregationLengthV6
				}
				if l < 0 || l > vW(x.fam) {
					continue
				}
				anns = append(anns, ann{name, a, x, one, vCidrRange(x.fam, x.lo, l)}, ann{name, a, x, one, vCidrRange(x.fam, x.hi, l)})
			}
		}
	}
	for i, a := range anns {
		for _, b := range anns[i+1:] {
			if a.pool == b.pool || a.adv.LocalPref == b.adv.LocalPref || a.route.fam != b.route.fam ||
				a.route.lo.Cmp(b.route.lo) != 0 || a.route.hi.Cmp(b.route.hi) != 0 {
				continue
			}
			out.Stat("cross_pool_same_route_pairs", 1)
			common := false
			for n := range a.adv.Nodes {
				common = common || b.adv.Nodes[n]
			}
			peers := len(a.adv.Peers) == 0 || len(b.adv.Peers) == 0
			for _, x := range a.adv.Peers {
				for _, y := range b.adv.Peers {
					peers = peers || x == y
				}
			}
			if !common || !peers {
				continue
			}
			sig := "c08-localpref-collision-across-range-pools"
			if a.oneCID && b.oneCID {
				sig = "c08-localpref-collision-across-cidr-pools"
			}
			out.Fail(sig, fmt.Sprintf("pools %s and %s: advertisements %s (localpref %d) and %s (localpref %d) both announce %s - %s (IPv%d) on a common node to a common peer: one route, two local preferences", a.pool, b.pool, a.adv.Name, a.adv.LocalPref, b.adv.Name, b.adv.LocalPref, vText(a.route.fam, a.route.lo, false), vText(a.route.fam, a.route.hi, false), a.route.fam), map[string]any{"snap": s})
			return
		}
	}
}

// ---------------------------------------------------------------- directed layouts
type vBlock struct {
	lo  *big.Int
	len int
}

// the maximal aligned blocks that tile [lo,hi], left to right (written from the definition of
// "summarise a range", not from ipaddr)
func vBlocks(fam int, lo, hi *big.Int) []vBlock {
	w := vW(fam)
	var out []vBlock
	cur := new(big.Int).Set(lo)
	for cur.Cmp(hi) <= 0 {
		k := 0
		for k < w {
			sz := vPow2(k + 1)
			if new(big.Int).Mod(cur, sz).Sign() != 0 || new(big.Int).Add(cur, new(big.Int).Sub(sz, big.NewInt(1))).Cmp(hi) > 0 {
				break
			}
			k++
		}
		out = append(out, vBlock{new(big.Int).Set(cur), w - k})
		cur = new(big.Int).Add(cur, vPow2(k))
	}
	return out
}

func vMkCidr(r *rand.Rand, fam int, addr *big.Int, l int) vAddr {
	a := vAddr{Kind: 0, Fam: fam, Fam2: fam, A: addr.String(), Len: l}
	if fam == 4 && r.Intn(5) == 0 {
		a.Kind, a.Len = 1, l+96
	}
	vAddrText(r, &a)
	return a
}
func vMkRange(r *rand.Rand, fam int, lo, hi *big.Int) vAddr {
	a := vAddr{Kind: 2, Fam: fam, Fam2: fam, A: lo.String(), B: hi.String()}
	vAddrText(r, &a)
	return a
}

// vGenNotation: two address entries X and Y, in two pools (sometimes one), mixing notations.
//   X (k%4):      CIDR block | the same block as a range | ragged range inside | ragged range across
//   Y ((k/4)%6):  one summarised block of X as CIDR | the same as a range | a longer CIDR inside a
//                 block of X | a range overlapping X's end | adjacent, disjoint | a CIDR containing X
//   (k/36)%2: order of the pools, (k/72)%2: family, k >= 144: a BGP advertisement on top
// Only "adjacent, disjoint" may be accepted.
func vGenNotation(r *rand.Rand, k int) vSnap {
	fam := 4
	if (k/72)%2 == 1 {
		fam = 6
	}
	w := vW(fam)
	reg := r.Intn(5)
	lb := w - 6 - r.Intn(4)
	base := vCidrRange(fam, new(big.Int).Add(vRegion(fam, reg), big.NewInt(256)), lb) // aligned block, room on both sides
	n := func(x int64) *big.Int { return big.NewInt(x) }
	var X vAddr
	xlo, xhi := base.lo, base.hi
	switch k % 4 {
	case 0:
		X = vMkCidr(r, fam, new(big.Int).Add(base.lo, n(int64(r.Intn(8)))), lb)
	case 1:
		X = vMkRange(r, fam, xlo, xhi)
	case 2:
		xlo, xhi = new(big.Int).Add(base.lo, n(int64(1+r.Intn(3)))), new(big.Int).Sub(base.hi, n(int64(1+r.Intn(3))))
		X = vMkRange(r, fam, xlo, xhi)
	default:
		xlo, xhi = new(big.Int).Add(base.lo, n(int64(5+r.Intn(20)))), new(big.Int).Add(base.hi, n(int64(3+r.Intn(40))))
		X = vMkRange(r, fam, xlo, xhi)
	}
	blocks := vBlocks(fam, xlo, xhi)
	b := blocks[r.Intn(len(blocks))]
	brg := vCidrRange(fam, b.lo, b.len)
	var Y vAddr
	rel := (k / 4) % 9
	switch rel {
	case 0:
		Y = vMkCidr(r, fam, b.lo, b.len)
	case 1:
		Y = vMkRange(r, fam, brg.lo, brg.hi)
	case 2:
		l := b.len + 1 + r.Intn(3)
		if l > w {
			l = w
		}
		Y = vMkCidr(r, fam, new(big.Int).Add(b.lo, new(big.Int).Rand(r, vPow2(w-b.len))), l)
	case 3:
		Y = vMkRange(r, fam, new(big.Int).Sub(xhi, n(int64(r.Intn(6)))), new(big.Int).Add(xhi, n(int64(1+r.Intn(20)))))
	case 4:
		lo := new(big.Int).Add(xhi, n(1))
		if r.Intn(2) == 0 {
			Y = vMkRange(r, fam, lo, new(big.Int).Add(lo, n(int64(r.Intn(30)))))
		} else {
			Y = vMkCidr(r, fam, lo, w)
		}
	case 5:
		Y = vMkCidr(r, fam, base.lo, lb-1-r.Intn(2))
	case 6: // shares exactly ONE address with X: a range that starts on X's last address
		Y = vMkRange(r, fam, xhi, new(big.Int).Add(xhi, n(int64(1+r.Intn(20)))))
	case 7: // ... a host prefix on X's last (or first) address
		if r.Intn(2) == 0 {
			Y = vMkCidr(r, fam, xhi, w)
		} else {
			Y = vMkCidr(r, fam, xlo, w)
		}
	default: // ... a range that ends on X's first address
		Y = vMkRange(r, fam, new(big.Int).Sub(xlo, n(int64(1+r.Intn(20)))), xlo)
	}
	s := vSnap{Modelled: true, Directed: fmt.Sprintf("notation_x%d_y%d", k%4, rel), Nodes: []vNode{{Name: 0}}}
	px, py := vPool{Name: 1, Addrs: []vAddr{X}}, vPool{Name: 3, Addrs: []vAddr{Y}}
	switch {
	case k%7 == 0: // both entries in one pool
		px.Addrs = []vAddr{X, Y}
		if (k/36)%2 == 1 {
			px.Addrs = []vAddr{Y, X}
		}
		s.Pools = []vPool{px}
	case (k/36)%2 == 1:
		s.Pools = []vPool{py, px}
	default:
		s.Pools = []vPool{px, py}
	}
	if k >= 144 {
		s.BGP = []vBGP{{Name: 0}}
	}
	return s
}

// vGenAggSweep: aggregationLength = k%34 (0..33), aggregationLengthV6 = k%130 (0..129) against an
// IPv4 entry and an IPv6 entry (one dual-stack pool or two pools; CIDR, IPv4-mapped CIDR or the
// block written as a range).  !tight: every entry's prefix is at most the aggregation length
// (acceptable); tight: one family's entry is longer than the aggregation length (must be refused).
func vGenAggSweep(r *rand.Rand, k int, tight bool) vSnap {
	a4, a6 := k%34, k%130
	clamp := func(x, w int) int {
		if x < 0 {
			return 0
		}
		if x > w {
			return w
		}
		return x
	}
	d := []int{0, 1, 5, 0, 2}[(k/3)%5]
	l4, l6 := clamp(a4-d, 32), clamp(a6-d, 128)
	if k >= 130 { // further rounds: random distance below
		l4, l6 = clamp(a4-r.Intn(12), 32), clamp(a6-r.Intn(40), 128)
	}
	kind := "loose"
	if tight {
		kind = "tight"
		longer := func(a, w int) int {
			c := []int{a + 1, w / 2, w - 4, w, a + 9, a + 1 + r.Intn(w)}[(k/2+r.Intn(2))%6]
			if c <= a {
				c = a + 1
			}
			return clamp(c, w)
		}
		if k%2 == 0 {
			l6 = longer(a6, 128)
		} else {
			l4 = longer(a4, 32)
		}
	}
	entry := func(fam, l int) vAddr {
		base := new(big.Int).Add(vRegion(fam, 0), big.NewInt(int64(k%97)*4096))
		c := vCidrRange(fam, base, l)
		if l >= vW(fam)-10 && (k+fam)%4 == 1 {
			return vMkRange(r, fam, c.lo, c.hi)
		}
		return vMkCidr(r, fam, new(big.Int).Add(c.lo, new(big.Int).Rand(r, vPow2(vW(fam)-l))), l)
	}
	s := vSnap{Modelled: true, Directed: "aggsweep_" + kind}
	e4, e6 := entry(4, l4), entry(6, l6)
	if k%2 == 0 {
		s.Pools = []vPool{{Name: 0, Addrs: []vAddr{e4, e6}}}
	} else {
		s.Pools = []vPool{{Name: 2, Addrs: []vAddr{e6}}, {Name: 0, Addrs: []vAddr{e4}}}
	}
	adv := vBGP{Name: 0}
	if a4 != 32 || k%3 == 0 {
		adv.Agg4 = &a4
	}
	if a6 != 128 || k%3 == 0 {
		adv.Agg6 = &a6
	}
	s.BGP = []vBGP{adv}
	return s
}

// vRejectReason: for a directed snapshot (everything not under test is valid by construction)
// the reason, from the property, why it may be refused; "" = there is none.
func vRejectReason(s vSnap) string {
	type ent struct {
		pool int
		w    vRange
	}
	var all []ent
	for pi, p := range s.Pools {
		for _, a := range p.Addrs {
			w, ok := vWritten(a)
			if !ok {
				return "malformed address entry"
			}
			for _, e := range all {
				if e.w.meets(w) {
					return "address entries share addresses"
				}
			}
			all = append(all, ent{pi, w})
		}
	}
	for _, n := range s.Nodes {
		for _, ip := range n.IPs {
			for _, e := range all {
				if ip.Internal && e.w.has(ip.Fam, vBig(ip.A)) {
					return "a node internal IP lies in an address entry"
				}
			}
		}
	}
	// two advertisements on a common pool that would give one route two local preferences
	nodesOf := func(ss []vSel) map[int]bool {
		m := map[int]bool{}
		for _, n := range s.Nodes {
			if len(ss) == 0 || vAnyMatches(ss, n.Labels) {
				m[n.Name] = true
			}
		}
		return m
	}
	onPool := func(a vBGP, p vPool) bool {
		return (len(a.Pools) == 0 && len(a.PoolSels) == 0) || vHas(a.Pools, p.Name) || vAnyMatches(a.PoolSels, p.Labels)
	}
	agg := func(a vBGP, fam int) int {
		if fam == 4 {
			if a.Agg4 != nil {
				return *a.Agg4
			}
			return 32
		}
		if a.Agg6 != nil {
			return *a.Agg6
		}
		return 128
	}
	for i, a := range s.BGP {
		for _, b := range s.BGP[i+1:] {
			if a.LP == b.LP {
				continue
			}
			peers := len(a.Peers) == 0 || len(b.Peers) == 0
			for _, x := range a.Peers {
				peers = peers || vHas(b.Peers, x)
			}
			common := false
			nb := nodesOf(b.NodeSels)
			for n := range nodesOf(a.NodeSels) {
				common = common || nb[n]
			}
			for pi, p := range s.Pools {
				if !onPool(a, p) || !onPool(b, p) || !peers || !common {
					continue
				}
				for _, e := range all {
					if e.pool == pi && agg(a, e.w.fam) == agg(b, e.w.fam) {
						return "two advertisements give one route two local preferences"
					}
				}
			}
		}
	}
	for _, adv := range s.BGP {
		for _, e := range all {
			l, w := 32, 32
			if adv.Agg4 != nil {
				l = *adv.Agg4
			}
			if e.w.fam == 6 {
				l, w = 128, 128
				if adv.Agg6 != nil {
					l = *adv.Agg6
				}
			}
			if a4, a6 := adv.Agg4, adv.Agg6; (a4 != nil && *a4 > 32) || (a6 != nil && *a6 > 128) {
				return "aggregation length beyond the address width"
			}
			_ = w
			// the aggregate of the first address of the largest block of the entry must stay in the entry
			best := vBlock{nil, 1000}
			for _, b := range vBlocks(e.w.fam, e.w.lo, e.w.hi) {
				if b.len < best.len {
					best = b
				}
			}
			if !vCidrRange(e.w.fam, best.lo, l).within(e.w) {
				return "an aggregate leaves the address entry"
			}
		}
	}
	return ""
}

func vTexts(as []vAddr) []string {
	var o []string
	for _, a := range as {
		o = append(o, a.Text)
	}
	return o
}

func vFor(res ClusterResources) (cfg *Config, err error, panicked bool) {
	defer func() {
		if p := recover(); p != nil {
			cfg, err, panicked = nil, fmt.Errorf("panic: %v", p), true
		}
	}()
	cfg, err = For(res, DontValidate)
	return
}

// ---------------------------------------------------------------- corpus: the F4 and F5 witnesses
func vCorpusCfg() []vSnap {
	mk := func(name int, as ...vAddr) vPool { return vPool{Name: name, Addrs: as} }
	ip := func(s string) string { return new(big.Int).SetBytes(net.ParseIP(s).To4()).String() }
	f4 := vSnap{Modelled: true, Pools: []vPool{
		mk(0, vAddr{Kind: 1, Fam: 4, Fam2: 4, A: ip("1.2.3.0"), Len: 120, Text: "::ffff:1.2.3.0/120"}),
		mk(1, vAddr{Kind: 0, Fam: 4, Fam2: 4, A: ip("1.2.3.128"), Len: 25, Text: "1.2.3.128/25"})}}
	f4b := vSnap{Modelled: true, Pools: []vPool{f4.Pools[1], f4.Pools[0]}}
	f4b.Pools[0].Name, f4b.Pools[1].Name = 0, 1
	v6 := new(big.Int).SetBytes(net.ParseIP("ffff::1").To16()).String()
	f5 := vSnap{Modelled: true, Pools: []vPool{
		mk(0, vAddr{Kind: 2, Fam: 4, Fam2: 6, A: ip("1.2.3.4"), B: v6, Text: "1.2.3.4-ffff::1"})}}
	// F5 + two BGP advertisements with different local preferences used to panic
	f5b := vSnap{Modelled: true, Pools: f5.Pools, BGP: []vBGP{{Name: 0, LP: 100}, {Name: 1, LP: 200}}}
	// F4: an IPv4-mapped pool refused every BGP advertisement (mask size 120 > 32)
	f4c := vSnap{Modelled: true, Pools: []vPool{f4.Pools[0]}, BGP: []vBGP{{Name: 0}}}
	// dual-stack pool, two advertisements with different local preferences whose aggregation
	// length differs in IPv4 only / IPv6 only: the other family's route would get two local
	// preferences, so both must be rejected (seeded/C08-2); differing in both is fine
	v6b := new(big.Int).SetBytes(net.ParseIP("fc00:f853:ccd:e799::").To16()).String()
	dualPool := mk(0, vAddr{Kind: 0, Fam: 4, Fam2: 4, A: ip("10.20.30.0"), Len: 24, Text: "10.20.30.0/24"},
		vAddr{Kind: 0, Fam: 6, Fam2: 6, A: v6b, Len: 112, Text: "fc00:f853:ccd:e799::/112"})
	i24, i30, i32, i120, i128 := 24, 30, 32, 120, 128
	nodes := []vNode{{Name: 0}, {Name: 1}}
	d1 := vSnap{Modelled: true, DualClash: 2, Nodes: nodes, Pools: []vPool{dualPool}, BGP: []vBGP{{Name: 0, LP: 100, Agg4: &i24, Agg6: &i128}, {Name: 1, LP: 200, Agg4: &i32, Agg6: &i128}}}
	d2 := vSnap{Modelled: true, DualClash: 3, Nodes: nodes, Pools: []vPool{dualPool}, BGP: []vBGP{{Name: 0, LP: 100, Agg4: &i32, Agg6: &i120}, {Name: 1, LP: 200, Agg4: &i32, Agg6: &i128}}}
	d3 := vSnap{Modelled: true, DualClash: 4, Nodes: nodes, Pools: []vPool{dualPool}, BGP: []vBGP{{Name: 0, LP: 100, Agg4: &i24, Agg6: &i120}, {Name: 1, LP: 200, Agg4: &i32, Agg6: &i128}}}
	// known finding: two range-written pools whose aggregates coincide (10.0.0.8/30), one
	// advertisement each, local preference 100 / 200: accepted by config.For
	x1 := vSnap{Modelled: true, Nodes: []vNode{{Name: 0}}, Pools: []vPool{
		mk(0, vAddr{Kind: 2, Fam: 4, Fam2: 4, A: ip("10.0.0.10"), B: ip("10.0.0.15"), Text: "10.0.0.10-10.0.0.15"}),
		mk(1, vAddr{Kind: 2, Fam: 4, Fam2: 4, A: ip("10.0.0.4"), B: ip("10.0.0.9"), Text: "10.0.0.4-10.0.0.9"})},
		BGP: []vBGP{{Name: 0, LP: 100, Agg4: &i30, Pools: []int{0}}, {Name: 1, LP: 200, Agg4: &i30, Pools: []int{1}}}}
	return []vSnap{f4, f4b, f5, f5b, f4c, d1, d2, d3, x1}
}

// ---------------------------------------------------------------- address strings on their own
func vRandAddr(r *rand.Rand) vAddr {
	fam := 4
	if r.Intn(3) == 0 {
		fam = 6
	}
	w := vW(fam)
	max := vPow2(w)
	pick := func() *big.Int {
		switch r.Intn(6) {
		case 0:
			return new(big.Int).Rand(r, big.NewInt(300))
		case 1:
			return new(big.Int).Sub(max, new(big.Int).Add(big.NewInt(1), new(big.Int).Rand(r, big.NewInt(300))))
		case 2: // near a power of two
			p := vPow2(r.Intn(w))
			d := big.NewInt(int64(r.Intn(5) - 2))
			x := new(big.Int).Add(p, d)
			if x.Sign() < 0 {
				x.SetInt64(0)
			}
			return x
		}
		return new(big.Int).Rand(r, max)
	}
	ok := func(x *big.Int) bool { return fam == 4 || !vIsMappedRange(x) }
	a := vAddr{Fam: fam, Fam2: fam}
	switch r.Intn(5) {
	case 0:
		x := pick()
		for !ok(x) {
			x = pick()
		}
		a.Kind, a.A, a.Len = 0, x.String(), r.Intn(w+1)
		if r.Intn(30) == 0 {
			a.Len = w + 1
		}
		if fam == 4 && r.Intn(4) == 0 {
			a.Kind, a.Len = 1, 96+r.Intn(33)
			if r.Intn(5) == 0 {
				a.Len = r.Intn(96)
			}
		}
	default:
		x, y := pick(), pick()
		for !ok(x) || !ok(y) {
			x, y = pick(), pick()
		}
		if x.Cmp(y) > 0 && r.Intn(10) != 0 {
			x, y = y, x
		}
		switch r.Intn(4) {
		case 0: // short range
			y = new(big.Int).Add(x, big.NewInt(int64(r.Intn(70))))
			if y.Cmp(max) >= 0 {
				y = new(big.Int).Sub(max, big.NewInt(1))
			}
			if !ok(y) {
				y = x
			}
		case 1: // whole space
			if r.Intn(4) == 0 {
				x, y = big.NewInt(0), new(big.Int).Sub(max, big.NewInt(1))
				if fam == 6 {
					x = big.NewInt(1)
				}
			}
		}
		a.Kind, a.A, a.B = 2, x.String(), y.String()
		if r.Intn(25) == 0 {
			a.Fam2 = 10 - fam
			z := new(big.Int).Rand(r, vPow2(vW(a.Fam2)))
			if a.Fam2 == 6 && vIsMappedRange(z) {
				z.SetInt64(77)
			}
			a.B = z.String()
		}
	}
	vAddrText(r, &a)
	return a
}

func TestVerifCfg(t *testing.T) {
	out := vOpen()
	defer out.Close()
	r := vRand()
	n := vN(220)
	var snaps []vSnap
	if p := os.Getenv("VERIF_REPLAY"); p != "" {
		var f struct {
			Replay struct {
				Snap vSnap `json:"snap"`
			} `json:"replay"`
		}
		b, err := os.ReadFile(p)
		if err == nil && json.Unmarshal(b, &f) == nil && len(f.Replay.Snap.Pools) > 0 {
			snaps = append(snaps, f.Replay.Snap)
			n = 0
		}
	}
	snaps = append(snaps, vCorpusCfg()...)
	if n > 0 {
		for k := 0; k < 144; k++ {
			snaps = append(snaps, vGenNotation(r, k+144*r.Intn(2)))
		}
		for k := 0; k < 12; k++ {
			snaps = append(snaps, vGenPeerClash(r, k))
		}
		for k := 0; k < 64; k++ {
			snaps = append(snaps, vGenMixedNode(r, k))
		}
		for k := 0; k < 24; k++ {
			snaps = append(snaps, vGenSelGroup(r, k), vGenL2Nested(r, k))
		}
		nsweep := 130
		if vThorough() {
			nsweep = 130 * 6
		}
		for k := 0; k < nsweep; k++ {
			snaps = append(snaps, vGenAggSweep(r, k, false), vGenAggSweep(r, k, true))
		}
	}
	for i := 0; i < n; i++ {
		o := vGenOpts{MinObj: 1 + i%3, MaxObj: 3 + i%3}
		if i%8 == 7 {
			o.DualClash = 1 + (i/8)%8
		}
		s := vGenSnap(r, o)
		s.DualClash = o.DualClash
		snaps = append(snaps, s)
	}
	id := 0
	for _, s := range snaps {
		// config.For is called on the listing order of the snapshot (not sorted): the
		// property is about every accepted resource set
		cfg, err, panicked := vFor(vBuild(s))
		id++
		if panicked {
			out.Fail("c08-config-for-panics", fmt.Sprintf("config.For panics: %v", err), map[string]any{"snap": s})
			out.Stat("panics", 1)
			continue
		}
		res := cNone
		if s.DualClash > 0 {
			k := []string{"none", "ipv4_only", "ipv6_only", "both"}[(s.DualClash-1)%4]
			if err == nil {
				out.Stat("dualclash_lengths_differ_in_"+k+"_accepted", 1)
			} else {
				out.Stat("dualclash_lengths_differ_in_"+k+"_rejected", 1)
			}
		}
		if s.Directed != "" {
			out.Stat("directed_"+s.Directed, 1)
		}
		if err == nil {
			if s.Directed != "" {
				out.Stat("directed_accepted", 1)
			}
			out.Stat("accepted", 1)
			vOracle(out, r, s, cfg)
			vOracleCrossPool(out, s, cfg)
			res = cSome(vObsCoq(vProject(cfg)))
			for _, p := range s.Pools {
				for _, a := range p.Addrs {
					out.Stat(fmt.Sprintf("accepted_addr_kind_%d", a.Kind), 1)
				}
			}
		} else {
			out.Stat("rejected", 1)
			if s.Directed != "" {
				out.Stat("directed_rejected", 1)
				if why := vRejectReason(s); why == "" {
					out.Fail("c08-valid-config-rejected", fmt.Sprintf("config.For rejects (%v) a resource set whose pools are disjoint, whose ranges and CIDRs are well formed and whose aggregation lengths keep every aggregate inside the address entry it comes from", err), map[string]any{"snap": s})
				} else {
					out.Stat("directed_rejected: "+why, 1)
				}
			}
			e := err.Error()
			for _, k := range []string{"overlaps with already", "contains nodeIp", "invalid aggregation length", "invalid local preference", "duplicate definition", "invalid CIDR", "no prefixes"} {
				if strings.Contains(e, k) {
					out.Stat("rejected: "+k, 1)
				}
			}
		}
		out.Case(id, "for", cCtor("CFor", cNi(id), vSnapCoq(s), res), map[string]any{"snap": s, "accepted": err == nil, "err": fmt.Sprint(err)})
		if s.Directed == "" && (id%4 < 2 || vThorough()) { // the whole Config on half of the random snapshots: Model/CfgFull.v full_for
			id++
			resF := cNone
			if err == nil {
				resF = cSome(vFullCoq(cfg))
			}
			out.Case(id, "fullfor", cCtor("CFullFor", cNi(id), "VNone", vSnapCoqFull(s), resF), map[string]any{"snap": s, "accepted": err == nil})
		}
	}

	// ---- ParseCIDR on its own: exactness of ipaddr.Summarize on wide ranges
	na := n * 3
	for i := 0; i < na; i++ {
		a := vRandAddr(r)
		nets, err := ParseCIDR(a.Text)
		id++
		res := cNone
		w, meaningful := vWritten(a)
		replay := map[string]any{"addr": a}
		if err == nil {
			out.Stat("parse_ok", 1)
			var parsed []vRange
			var it []string
			okAll := true
			for _, c := range nets {
				x, ok := vNetRange(c)
				okAll = okAll && ok
				parsed = append(parsed, x)
				o := vNetObs(c)
				f := 4
				if o[0] == "6" {
					f = 6
				}
				it = append(it, cCtor("Build_prefix", cFam(f), o[1]+"%N", o[2]+"%N"))
			}
			res = cSome(cList(it))
			if len(nets) > 1 {
				out.Stat("parse_multi_cidr_range", 1)
			}
			if len(nets) > 40 {
				out.Stat("parse_range_over_40_cidrs", 1)
			}
			if !meaningful {
				sig := "c08-meaningless-address-accepted"
				if a.Kind == 2 && a.Fam != a.Fam2 {
					sig = "c08-mixed-family-range-accepted"
				}
				out.Fail(sig, fmt.Sprintf("ParseCIDR(%q) succeeds with %d CIDRs although the entry denotes no address set", a.Text, len(nets)), replay)
			} else if !okAll {
				out.Fail("c08-malformed-cidr", fmt.Sprintf("ParseCIDR(%q) returns a CIDR whose address and mask disagree", a.Text), replay)
			} else {
				// exact, disjoint, aligned: the parsed blocks must tile [lo,hi] in order
				sort.Slice(parsed, func(i, j int) bool { return parsed[i].lo.Cmp(parsed[j].lo) < 0 })
				cur := new(big.Int).Set(w.lo)
				bad := ""
				for _, c := range parsed {
					if c.fam != w.fam || c.lo.Cmp(cur) != 0 {
						bad = fmt.Sprintf("block starting at %s where %s was expected", vText(c.fam, c.lo, false), vText(w.fam, cur, false))
						break
					}
					cur = new(big.Int).Add(c.hi, big.NewInt(1))
				}
				if bad == "" && cur.Cmp(new(big.Int).Add(w.hi, big.NewInt(1))) != 0 {
					bad = fmt.Sprintf("blocks end at %s, written end %s", vText(w.fam, new(big.Int).Sub(cur, big.NewInt(1)), false), vText(w.fam, w.hi, false))
				}
				out.Stat("tiling_checks", 1)
				if bad != "" {
					out.Fail("c08-pool-address-set-not-exact", fmt.Sprintf("ParseCIDR(%q): %s", a.Text, bad), replay)
				}
			}
		} else {
			out.Stat("parse_err", 1)
			if meaningful {
				out.Fail("c08-valid-address-rejected", fmt.Sprintf("ParseCIDR(%q) fails (%v) although the entry is a well-formed CIDR/range", a.Text, err), replay)
			}
		}
		out.Case(id, "parse", cCtor("CParse", cNi(id), cAddr(a), res), map[string]any{"addr": a, "ok": err == nil})
	}

	// ---- cidrsOverlap against interval intersection
	for i := 0; i < n*2; i++ {
		fam := 4
		if r.Intn(4) == 0 {
			fam = 6
		}
		w := vW(fam)
		base := new(big.Int).Rand(r, vPow2(w))
		if fam == 6 && vIsMappedRange(base) {
			base.SetInt64(12345)
		}
		var lastF, lastL int
		var lastX *big.Int
		again := false
		mk := func() (*net.IPNet, vRange, int) {
			l := w - r.Intn(12)
			if r.Intn(6) == 0 {
				l = r.Intn(w + 1)
			}
			x := new(big.Int).Add(base, big.NewInt(int64(r.Intn(4096))))
			x.Mod(x, vPow2(w))
			if fam == 6 && vIsMappedRange(x) {
				x.SetInt64(999)
			}
			f := fam
			if r.Intn(15) == 0 {
				f = 10 - fam
				x = new(big.Int).Rand(r, vPow2(32))
				if l > vW(f) {
					l = vW(f)
				}
			}
			if again { // the previous block once more; the notation is drawn afresh below
				f, x, l = lastF, lastX, lastL
			}
			lastF, lastX, lastL = f, x, l
			rg := vCidrRange(f, x, l)
			text := fmt.Sprintf("%s/%d", vText(f, rg.lo, false), l)
			if f == 4 && r.Intn(5) == 0 {
				text = fmt.Sprintf("::ffff:%s/%d", vText(4, rg.lo, false), l+96)
			} else if r.Intn(3) == 0 && !(f == 6 && (vIsMappedRange(rg.lo) || vIsMappedRange(rg.hi))) {
				// the same block written as a range: ipaddr.Summarize returns it with a
				// different in-memory representation than net.ParseCIDR
				text = vText(f, rg.lo, false) + "-" + vText(f, rg.hi, false)
				out.Stat("overlap_net_from_range", 1)
			}
			ns, err := ParseCIDR(text)
			if err != nil || len(ns) != 1 {
				t.Fatalf("ParseCIDR(%q): %v", text, err)
			}
			return ns[0], rg, f
		}
		a, ra, _ := mk()
		again = r.Intn(4) == 0 // the same block again, in whatever notation comes out
		b, rb, _ := mk()
		again = false
		if r.Intn(5) == 0 { // exactly one shared address: the host prefix of a's first or last address
			edge := ra.lo
			if r.Intn(2) == 0 {
				edge = ra.hi
			}
			if !(ra.fam == 6 && vIsMappedRange(edge)) {
				if ns, err := ParseCIDR(fmt.Sprintf("%s/%d", vText(ra.fam, edge, false), vW(ra.fam))); err == nil && len(ns) == 1 {
					b, rb = ns[0], vCidrRange(ra.fam, edge, vW(ra.fam))
					out.Stat("overlap_one_shared_address", 1)
				}
			}
		}
		got := cidrsOverlap(a, b)
		want := ra.meets(rb)
		out.Stat("overlap_checks", 1)
		if want {
			out.Stat("overlap_true", 1)
		}
		if ra.fam == rb.fam && ra.lo.Cmp(rb.lo) == 0 && ra.hi.Cmp(rb.hi) == 0 {
			out.Stat("overlap_equal_blocks", 1)
		}
		if got != want {
			out.Fail("c08-cidrs-overlap-wrong", fmt.Sprintf("cidrsOverlap(%v, %v) = %v but the address sets intersect: %v", a, b, got, want), map[string]any{"a": a.String(), "b": b.String()})
		}
		oa, ob := vNetObs(a), vNetObs(b)
		fa, fb := 4, 4
		if oa[0] == "6" {
			fa = 6
		}
		if ob[0] == "6" {
			fb = 6
		}
		id++
		out.Case(id, "overlap", cCtor("COverlap", cNi(id), cCtor("Build_prefix", cFam(fa), oa[1]+"%N", oa[2]+"%N"), cCtor("Build_prefix", cFam(fb), ob[1]+"%N", ob[2]+"%N"), cBool(got)),
			map[string]any{"a": a.String(), "b": b.String(), "got": got})
	}
}
