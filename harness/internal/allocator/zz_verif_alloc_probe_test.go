//go:build verif

package allocator

// The ONLY compile-time dependency of the allocator harnesses on unexported
// identifiers: the reservation probe calls checkSharing directly.  When this file
// does not build against the tree under test (method renamed, other signature,
// key type changed), props/alloc_common.py overlays zz_verif_alloc_noprobe_test.go
// instead and the harnesses go on without white-box probes
// (stat whitebox_skipped:checkSharing).
func gProbeSharing(a *Allocator, svc, ip string, ports []Port, sharing, backend string) (ok, available bool) {
	return a.checkSharing(svc, ip, ports, &key{sharing: sharing, backend: backend}) == nil, true
}
