//go:build verif

package allocator

// Harness for C01 / C02 / C07 (allocator half) / C11: random operation
// histories on a real Allocator.  After every operation it records the result,
// IPs()/Pool() of every service, CountersForPool of every pool and checkSharing
// probes (shipped to Coq, Model/Alloc.v), and evaluates the properties directly
// (oracle written from the statements, with its own bookkeeping).

import (
	"fmt"
	"strings"
	"math"
	"math/big"
	"math/rand"
	"net"
	"sort"
	"testing"

	v1 "k8s.io/api/core/v1"
	metav1 "k8s.io/apimachinery/pkg/apis/meta/v1"
	"k8s.io/apimachinery/pkg/labels"
	"k8s.io/apimachinery/pkg/util/sets"

	"go.universe.tf/metallb/internal/config"
	"go.universe.tf/metallb/internal/ipfamily"
)

// ---------- generated configuration ----------

type gPin struct {
	Prio int                 `json:"prio"`
	Nss  []string            `json:"nss"`
	Sels []map[string]string `json:"sels"`
}
type gPool struct {
	Name  string   `json:"name"`
	CIDRs []string `json:"cidrs"`
	Avoid bool     `json:"avoid"`
	Auto  bool     `json:"auto"`
	Pin   *gPin    `json:"pin"`
}
type gReq struct {
	Ns      string            `json:"ns"`
	Labels  map[string]string `json:"labels"`
	Fam     string            `json:"fam"` // ipv4 ipv6 dual
	Pol     string            `json:"pol"` // single prefer require
	First6  bool              `json:"first6"`
	Ports   []Port            `json:"ports"`
	Sharing string            `json:"sharing"`
	Backend string            `json:"backend"`
}
type gOp struct {
	Kind  string   `json:"kind"`
	Svc   string   `json:"svc"`
	Req   *gReq    `json:"req,omitempty"`
	IPs   []string `json:"ips,omitempty"`
	Pool  string   `json:"pool,omitempty"`
	Pools []gPool  `json:"pools,omitempty"`
	// observed
	Err    string   `json:"err,omitempty"`
	ResIPs []string `json:"res_ips,omitempty"`
}

var gCidrLib4 = []string{"10.0.0.0/30", "10.0.0.4/30", "10.0.0.252/30", "10.0.1.0/31", "10.0.2.255/32", "10.0.3.0/32",
	"10.0.4.8/29", "192.168.9.254/31", "10.0.5.6/32", "10.0.6.0/24"}
var gCidrLib6 = []string{"fc00::/126", "fc00::4/126", "fc00:1::/127", "fc00:2::ff/128"}
var gCidrBig = []string{"fd00::/64", "fd01::/120", "fd02::/67", "fd03::/67", "fd04::/67", "fd05::/67", "10.8.0.0/16", "10.9.0.0/25", "10.9.0.128/25", "fd06::/66", "fd07::/70"}
var gPoolNames = []string{"pa", "pb", "pc", "pd", "pe"}
var gNss = []string{"ns1", "ns2"}
var gSvcNames = []string{"ns1/a", "ns1/b", "ns2/c", "ns2/d", "ns1/e"}
var gPortLib = []Port{{"TCP", 80}, {"TCP", 443}, {"UDP", 53}, {"TCP", 53}, {"UDP", 80}}
var gLabelLib = []map[string]string{{}, {"app": "a"}, {"app": "b"}, {"app": "a", "tier": "x"}}
var gSelLib = []map[string]string{{"app": "a"}, {"app": "b"}, {"tier": "x"}}

func gGenPools(r *rand.Rand, big bool) []gPool {
	n := 1 + r.Intn(4)
	var lib []string
	lib = append(lib, gCidrLib4...)
	lib = append(lib, gCidrLib6...)
	if big {
		lib = append([]string{}, gCidrBig...)
	}
	r.Shuffle(len(lib), func(i, j int) { lib[i], lib[j] = lib[j], lib[i] })
	// one layout in four: every pool is single-family and pinned with a priority, so that
	// PreferDualStack requests fall back to "primary family only" and the order among such pools matters
	singleFam := !big && r.Intn(4) == 0
	names := append([]string{}, gPoolNames...)
	r.Shuffle(len(names), func(i, j int) { names[i], names[j] = names[j], names[i] })
	var out []gPool
	k := 0
	for i := 0; i < n && k < len(lib); i++ {
		p := gPool{Name: names[i], Avoid: r.Intn(3) == 0, Auto: r.Intn(5) != 0}
		nc := 1 + r.Intn(3)
		for c := 0; c < nc && k < len(lib); c++ {
			if singleFam && len(p.CIDRs) > 0 && strings.Contains(lib[k], ":") != strings.Contains(p.CIDRs[0], ":") {
				k++
				c--
				continue
			}
			p.CIDRs = append(p.CIDRs, lib[k])
			k++
		}
		if len(p.CIDRs) == 0 {
			continue
		}
		if singleFam {
			p.Auto = true
			p.Pin = &gPin{Prio: r.Intn(4), Nss: []string{"ns1", "ns2"}}
		} else if r.Intn(2) == 0 {
			pin := &gPin{Prio: r.Intn(4)}
			switch r.Intn(3) {
			case 0:
				pin.Nss = []string{gNss[r.Intn(2)]}
			case 1:
				pin.Nss = []string{"ns1", "ns2"}
			}
			ns := r.Intn(3)
			if len(pin.Nss) == 0 && ns == 0 {
				ns = 1
			}
			for s := 0; s < ns; s++ {
				pin.Sels = append(pin.Sels, gSelLib[r.Intn(len(gSelLib))])
			}
			if r.Intn(6) == 0 { // a ServiceAllocation with a priority only
				pin.Nss, pin.Sels = nil, nil
			}
			p.Pin = pin
		}
		out = append(out, p)
	}
	sort.Slice(out, func(i, j int) bool { return out[i].Name < out[j].Name })
	return out
}

func gBuildPools(ps []gPool) *config.Pools {
	res := &config.Pools{ByName: map[string]*config.Pool{}}
	for _, g := range ps {
		p := &config.Pool{Name: g.Name, AvoidBuggyIPs: g.Avoid, AutoAssign: g.Auto}
		for _, c := range g.CIDRs {
			_, n, err := net.ParseCIDR(c)
			if err != nil {
				panic(err)
			}
			p.CIDR = append(p.CIDR, n)
		}
		if g.Pin != nil {
			sa := &config.ServiceAllocation{Priority: g.Pin.Prio, Namespaces: sets.New(g.Pin.Nss...)}
			for _, s := range g.Pin.Sels {
				sa.ServiceSelectors = append(sa.ServiceSelectors, labels.SelectorFromSet(labels.Set(s)))
			}
			p.ServiceAllocations = sa
			for _, ns := range g.Pin.Nss {
				if res.ByNamespace == nil {
					res.ByNamespace = map[string][]string{}
				}
				res.ByNamespace[ns] = append(res.ByNamespace[ns], g.Name)
			}
			if len(g.Pin.Sels) > 0 {
				res.ByServiceSelector = append(res.ByServiceSelector, g.Name)
			}
		}
		res.ByName[g.Name] = p
	}
	for _, l := range res.ByNamespace {
		sort.Strings(l)
	}
	sort.Strings(res.ByServiceSelector)
	return res
}

func gGenReq(r *rand.Rand, svc string) *gReq {
	q := &gReq{Ns: svc[:3], Labels: gLabelLib[r.Intn(len(gLabelLib))]}
	switch r.Intn(6) {
	case 0, 1, 2:
		q.Fam, q.Pol = "ipv4", "single"
	case 3:
		q.Fam, q.Pol = "ipv6", "single"
	case 4:
		q.Fam, q.Pol = "dual", "prefer"
	default:
		q.Fam, q.Pol = "dual", []string{"require", "prefer"}[r.Intn(2)]
	}
	if r.Intn(12) == 0 { // PreferDualStack on a single-family cluster
		q.Pol = "prefer"
	}
	q.First6 = q.Fam == "ipv6" || (q.Fam == "dual" && r.Intn(3) == 0)
	np := 1 + r.Intn(2)
	perm := r.Perm(len(gPortLib))
	for i := 0; i < np; i++ {
		q.Ports = append(q.Ports, gPortLib[perm[i]])
	}
	q.Sharing = []string{"", "k1", "k1", "k2"}[r.Intn(4)]
	q.Backend = []string{"", "", "b1", "b2"}[r.Intn(4)]
	return q
}

func gSvcObj(name string, q *gReq) *v1.Service {
	s := &v1.Service{ObjectMeta: metav1.ObjectMeta{Namespace: q.Ns, Name: name[4:], Labels: q.Labels}}
	s.Spec.Type = v1.ServiceTypeLoadBalancer
	var pol v1.IPFamilyPolicy
	switch q.Pol {
	case "single":
		pol = v1.IPFamilyPolicySingleStack
	case "prefer":
		pol = v1.IPFamilyPolicyPreferDualStack
	default:
		pol = v1.IPFamilyPolicyRequireDualStack
	}
	s.Spec.IPFamilyPolicy = &pol
	if q.First6 {
		s.Spec.IPFamilies = []v1.IPFamily{v1.IPv6Protocol, v1.IPv4Protocol}
	} else {
		s.Spec.IPFamilies = []v1.IPFamily{v1.IPv4Protocol, v1.IPv6Protocol}
	}
	return s
}

func gFam(q *gReq) ipfamily.Family {
	switch q.Fam {
	case "ipv4":
		return ipfamily.IPv4
	case "ipv6":
		return ipfamily.IPv6
	}
	return ipfamily.DualStack
}

// all addresses of the small CIDR library plus a few outside
func gAddrUniverse(ps []gPool) []string {
	var out []string
	for _, p := range ps {
		for _, c := range p.CIDRs {
			ip, n, _ := net.ParseCIDR(c)
			ones, bits := n.Mask.Size()
			if bits-ones > 4 {
				out = append(out, ip.Mask(n.Mask).String())
				continue
			}
			cur := new(big.Int).SetBytes(gNorm(ip.Mask(n.Mask)))
			for i := 0; i < 1<<(bits-ones); i++ {
				out = append(out, gFromBig(cur, bits == 32).String())
				cur.Add(cur, big.NewInt(1))
			}
		}
	}
	out = append(out, "10.99.0.1", "fc99::1", "10.0.6.0", "10.0.6.255", "10.0.6.7")
	return out
}

func gNorm(ip net.IP) []byte {
	if v4 := ip.To4(); v4 != nil {
		return v4
	}
	return ip.To16()
}
func gFromBig(n *big.Int, v4 bool) net.IP {
	l := 16
	if v4 {
		l = 4
	}
	b := n.Bytes()
	out := make([]byte, l)
	copy(out[l-len(b):], b)
	return net.IP(out)
}

// ---------- Coq terms ----------

type gNumbering struct {
	svc, pool, ns, lab, proto, str map[string]int
}

func gNum(m map[string]int, k string) int {
	if k == "" {
		return 0
	}
	if v, ok := m[k]; ok {
		return v
	}
	m[k] = len(m) + 1
	return m[k]
}

var gN = gNumbering{svc: map[string]int{}, pool: map[string]int{}, ns: map[string]int{}, lab: map[string]int{}, proto: map[string]int{}, str: map[string]int{}}

func init() {
	// stable numbering: pool ids follow name order
	for _, n := range gPoolNames {
		gNum(gN.pool, n)
	}
	for _, n := range gSvcNames {
		gNum(gN.svc, n)
	}
	gNum(gN.svc, "ns1/probe")
	gNum(gN.svc, "ns2/probe")
}

func cIP(ip net.IP) string {
	if ip == nil {
		return "(V4 4294967296%N)" // never equal to a real address
	}
	if v4 := ip.To4(); v4 != nil {
		return cCtor("V4", cBigN(new(big.Int).SetBytes(v4)))
	}
	return cCtor("V6", cBigN(new(big.Int).SetBytes(ip.To16())))
}
func cIPs(ips []net.IP) string {
	var l []string
	for _, ip := range ips {
		l = append(l, cIP(ip))
	}
	return cList(l)
}
func cIPstrs(ips []string) string {
	var l []string
	for _, s := range ips {
		l = append(l, cIP(net.ParseIP(s)))
	}
	return cList(l)
}
func cPrefix(c string) string {
	ip, n, _ := net.ParseCIDR(c)
	ones, _ := n.Mask.Size()
	fam := "F6"
	b := gNorm(ip)
	if len(b) == 4 {
		fam = "F4"
	}
	return cCtor("Build_prefix", fam, cBigN(new(big.Int).SetBytes(b)), cNi(ones))
}
func cLabels(m map[string]string) string {
	var ks []string
	for k := range m {
		ks = append(ks, k)
	}
	sort.Strings(ks)
	var l []string
	for _, k := range ks {
		l = append(l, cPair(cNi(gNum(gN.lab, "k:"+k)), cNi(gNum(gN.lab, "v:"+m[k]))))
	}
	return cList(l)
}
func cPorts(ps []Port) string {
	var l []string
	for _, p := range ps {
		l = append(l, cCtor("Build_port", cNi(gNum(gN.proto, p.Proto)), cNi(p.Port)))
	}
	return cList(l)
}
func cKey(sharing, backend string) string {
	return cCtor("Build_skey", cNi(gNum(gN.str, sharing)), cNi(gNum(gN.str, backend)))
}
func cReq(q *gReq) string {
	fam := map[string]string{"ipv4": "S4", "ipv6": "S6", "dual": "SDual"}[q.Fam]
	pol := map[string]string{"single": "Single", "prefer": "Prefer", "require": "Require"}[q.Pol]
	return cCtor("Build_req", cNi(gNum(gN.ns, q.Ns)), cLabels(q.Labels), fam, pol, cBool(q.First6), cPorts(q.Ports), cKey(q.Sharing, q.Backend))
}
func cPools(ps []gPool) string {
	var l []string
	byNs := map[string][]string{}
	var bySel []string
	for _, p := range ps {
		var cs []string
		for _, c := range p.CIDRs {
			cs = append(cs, cPrefix(c))
		}
		pin := cNone
		if p.Pin != nil {
			var nss, sels []string
			for _, n := range p.Pin.Nss {
				nss = append(nss, cNi(gNum(gN.ns, n)))
				byNs[n] = append(byNs[n], p.Name)
			}
			for _, s := range p.Pin.Sels {
				sels = append(sels, cLabels(s))
			}
			if len(p.Pin.Sels) > 0 {
				bySel = append(bySel, p.Name)
			}
			pin = cSome(cCtor("Build_pin", cNi(p.Pin.Prio), cList(nss), cList(sels)))
		}
		l = append(l, cCtor("Build_pool", cNi(gNum(gN.pool, p.Name)), cList(cs), cBool(p.Avoid), cBool(p.Auto), pin))
	}
	var nsl []string
	var nsk []string
	for k := range byNs {
		nsk = append(nsk, k)
	}
	sort.Strings(nsk)
	for _, k := range nsk {
		var ids []string
		for _, n := range byNs[k] {
			ids = append(ids, cNi(gNum(gN.pool, n)))
		}
		nsl = append(nsl, cPair(cNi(gNum(gN.ns, k)), cList(ids)))
	}
	var sl []string
	for _, n := range bySel {
		sl = append(sl, cNi(gNum(gN.pool, n)))
	}
	return cCtor("Build_pools", cList(l), cList(nsl), cList(sl))
}

// ---------- oracle bookkeeping (independent of the allocator's maps) ----------

type oHolder struct {
	req *gReq
}

type oState struct {
	pools   []gPool
	holders map[string]*oHolder // service -> request that produced its current allocation
}

func oContains(p gPool, ip net.IP) bool {
	if p.Avoid && oBuggy(ip) {
		return false
	}
	for _, c := range p.CIDRs {
		_, n, _ := net.ParseCIDR(c)
		if n.Contains(ip) {
			return true
		}
	}
	return false
}
func oBuggy(ip net.IP) bool {
	v4 := ip.To4()
	return v4 != nil && (v4[3] == 0 || v4[3] == 255)
}
func oCompatible(p gPool, q *gReq) bool {
	if p.Pin == nil {
		return true
	}
	if len(p.Pin.Nss) > 0 {
		ok := false
		for _, n := range p.Pin.Nss {
			if n == q.Ns {
				ok = true
			}
		}
		if !ok {
			return false
		}
	}
	if len(p.Pin.Sels) > 0 {
		for _, s := range p.Pin.Sels {
			m := true
			for k, v := range s {
				if q.Labels[k] != v {
					m = false
				}
			}
			if m {
				return true
			}
		}
		return false
	}
	return true
}
func oPinnedTo(p gPool, q *gReq) bool {
	if p.Pin == nil || (len(p.Pin.Nss) == 0 && len(p.Pin.Sels) == 0) {
		return false
	}
	return oCompatible(p, q)
}
func oShareable(a, b *gReq) bool {
	if a.Sharing == "" || a.Sharing != b.Sharing || a.Backend != b.Backend {
		return false
	}
	for _, x := range a.Ports {
		for _, y := range b.Ports {
			if x == y {
				return false
			}
		}
	}
	return true
}

// oFree: may service svc with request q hold ip, given everybody else's holdings?
func (o *oState) oFree(a *Allocator, svc string, q *gReq, ip net.IP) bool {
	for t, h := range o.holders {
		if t == svc {
			continue
		}
		for _, x := range a.IPs(t) {
			if x.Equal(ip) && !oShareable(h.req, q) {
				return false
			}
		}
	}
	return true
}

// enumerate the usable addresses of a pool (small pools only)
func oPoolAddrs(p gPool, v4 bool) []net.IP {
	var out []net.IP
	for _, c := range p.CIDRs {
		ip, n, _ := net.ParseCIDR(c)
		ones, bits := n.Mask.Size()
		if (bits == 32) != v4 || bits-ones > 10 {
			continue
		}
		cur := new(big.Int).SetBytes(gNorm(ip.Mask(n.Mask)))
		for i := 0; i < 1<<(bits-ones); i++ {
			x := gFromBig(cur, v4)
			if !(p.Avoid && oBuggy(x)) {
				out = append(out, x)
			}
			cur.Add(cur, big.NewInt(1))
		}
	}
	return out
}
func (o *oState) oHasFree(a *Allocator, p gPool, svc string, q *gReq, v4 bool) bool {
	for _, x := range oPoolAddrs(p, v4) {
		if o.oFree(a, svc, q, x) {
			return true
		}
	}
	return false
}

// can pool p serve request q (per the statement's family rules)?
func (o *oState) oCanServe(a *Allocator, p gPool, svc string, q *gReq) bool {
	h4, h6 := o.oHasFree(a, p, svc, q, true), o.oHasFree(a, p, svc, q, false)
	switch q.Fam {
	case "ipv4":
		return h4
	case "ipv6":
		return h6
	}
	switch q.Pol {
	case "require":
		return h4 && h6
	case "prefer":
		return h4 || h6
	}
	return false
}

func gIPStrs(ips []net.IP) []string {
	var s []string
	for _, ip := range ips {
		s = append(s, ip.String())
	}
	return s
}

// ---------- the test ----------

func TestVerifAlloc(t *testing.T) {
	out := vOpen()
	defer out.Close()
	r := vRand()
	n := vN(120)
	for id := 1; id <= n; id++ {
		gRunHistory(out, r, id, false)
	}
	// pool layouts with large prefixes: counters only (C11 arithmetic)
	for id := n + 1; id <= n+n/2+1; id++ {
		gRunHistory(out, r, id, true)
	}
}

func gRunHistory(out *vOut, r *rand.Rand, id int, big bool) {
	changed := map[string]int{}
	a := New(func(p string) { changed[p]++ })
	o := &oState{holders: map[string]*oHolder{}}
	nsvc := 2 + r.Intn(4)
	svcs := gSvcNames[:nsvc]
	nops := 10 + r.Intn(25)
	if big {
		nops = 3 + r.Intn(4)
	}
	var steps []string
	var human []gOp
	allPoolNames := map[string]bool{}
	fail := func(sig, what string) {
		out.Fail(sig, what, map[string]any{"history": human, "big": big})
	}
	setPools := func(ps []gPool) {
		for _, p := range ps {
			allPoolNames[p.Name] = true
		}
		a.SetPools(gBuildPools(ps))
		o.pools = ps
		// oracle bookkeeping: holders whose addresses are no longer in any pool are dropped
		for s := range o.holders {
			if a.Pool(s) == "" {
				delete(o.holders, s)
			}
		}
	}
	doOp := func(op gOp) {
		var coqOp string
		var resIPs []net.IP
		var err error
		gotRes := false
		var svcObj *v1.Service
		if op.Req != nil {
			svcObj = gSvcObj(op.Svc, op.Req)
		}
		prevIPs := append([]net.IP{}, a.IPs(op.Svc)...)
		hadAlloc := a.Pool(op.Svc) != ""
		switch op.Kind {
		case "setpools":
			setPools(op.Pools)
			coqOp = cCtor("OSetPools", cPools(op.Pools))
			out.Stat("op_setpools", 1)
		case "unassign":
			a.Unassign(op.Svc)
			delete(o.holders, op.Svc)
			coqOp = cCtor("OUnassign", cNi(gNum(gN.svc, op.Svc)))
			out.Stat("op_unassign", 1)
		case "assign":
			var ips []net.IP
			for _, s := range op.IPs {
				ips = append(ips, net.ParseIP(s))
			}
			err = a.Assign(op.Svc, svcObj, ips, op.Req.Ports, op.Req.Sharing, op.Req.Backend)
			gotRes = true
			if err == nil {
				resIPs = ips
			}
			coqOp = cCtor("OAssign", cNi(gNum(gN.svc, op.Svc)), cReq(op.Req), cIPs(ips))
			out.Stat("op_assign", 1)
		case "allocate":
			resIPs, err = a.Allocate(op.Svc, svcObj, gFam(op.Req), op.Req.Ports, op.Req.Sharing, op.Req.Backend)
			gotRes = true
			choice := cNone
			if err == nil {
				choice = cSome(cPair(cNi(gNum(gN.pool, a.Pool(op.Svc))), cIPs(resIPs)))
			}
			coqOp = cCtor("OAllocate", cNi(gNum(gN.svc, op.Svc)), cReq(op.Req), choice)
			out.Stat("op_allocate", 1)
		case "frompool":
			resIPs, err = a.AllocateFromPool(op.Svc, svcObj, gFam(op.Req), op.Pool, op.Req.Ports, op.Req.Sharing, op.Req.Backend)
			gotRes = true
			choice := cNone
			if err == nil {
				choice = cSome(cIPs(resIPs))
			}
			coqOp = cCtor("OAllocateFromPool", cNi(gNum(gN.svc, op.Svc)), cReq(op.Req), cNi(gNum(gN.pool, op.Pool)), choice)
			out.Stat("op_frompool", 1)
		case "additional":
			have := net.ParseIP(op.IPs[0])
			var x net.IP
			x, err = a.AllocateFromPoolForAdditionalFamily(op.Svc, svcObj, have, op.Pool, op.Req.Ports, op.Req.Sharing, op.Req.Backend)
			gotRes = true
			choice := cNone
			if err == nil {
				resIPs = []net.IP{x}
				choice = cSome(cIP(x))
			}
			coqOp = cCtor("OAdditional", cNi(gNum(gN.svc, op.Svc)), cReq(op.Req), cIP(have), cNi(gNum(gN.pool, op.Pool)), choice)
			out.Stat("op_additional", 1)
		}
		if gotRes {
			if err != nil {
				op.Err = "error"
				out.Stat("res_error", 1)
			} else {
				op.ResIPs = gIPStrs(resIPs)
				out.Stat("res_ok", 1)
				o.holders[op.Svc] = &oHolder{req: op.Req}
			}
		}
		human = append(human, op)

		// ---- observation for Coq
		resTerm := cNone
		if gotRes && err == nil {
			resTerm = cSome(cIPs(resIPs))
		}
		var allocs []string
		every := append(append([]string{}, svcs...), "ns1/probe", "ns2/probe")
		for _, s := range every {
			if a.Pool(s) != "" {
				allocs = append(allocs, cPair(cNi(gNum(gN.svc, s)), cPair(cNi(gNum(gN.pool, a.Pool(s))), cIPs(a.IPs(s)))))
			}
		}
		var ctrs []string
		var pnames []string
		for p := range allPoolNames {
			pnames = append(pnames, p)
		}
		sort.Strings(pnames)
		for _, p := range pnames {
			c := a.CountersForPool(p)
			ctrs = append(ctrs, cPair(cNi(gNum(gN.pool, p)), cCtor("Build_counters", cZ(c.AssignedIPv4), cZ(c.AssignedIPv6), cZ(c.AvailableIPv4), cZ(c.AvailableIPv6))))
		}
		var probes []string
		if !big {
			univ := gAddrUniverse(o.pools)
			for k := 0; k < 6 && len(univ) > 0; k++ {
				ps := svcs[r.Intn(len(svcs))]
				pq := gGenReq(r, ps)
				pip := net.ParseIP(univ[r.Intn(len(univ))])
				if k < 3 && len(o.holders) > 0 { // bias towards addresses in use
					var hs []string
					for h := range o.holders {
						hs = append(hs, h)
					}
					sort.Strings(hs)
					hips := a.IPs(hs[r.Intn(len(hs))])
					if len(hips) > 0 {
						pip = hips[r.Intn(len(hips))]
					}
				}
				ok, avail := gProbeSharing(a, ps, pip.String(), pq.Ports, pq.Sharing, pq.Backend)
				if !avail { // checkSharing cannot be called on this tree: no white-box probes
					out.Stat("whitebox_skipped:checkSharing", 1)
					break
				}
				probes = append(probes, cCtor("Build_probe", cNi(gNum(gN.svc, ps)), cIP(pip), cPorts(pq.Ports), cKey(pq.Sharing, pq.Backend), cBool(ok)))
				// C11 oracle half: the allocator's verdict equals the statement's sharing rule
				want := o.oFree(a, ps, pq, pip)
				if ok != want {
					fail("alloc-checksharing-vs-statement", fmt.Sprintf("checkSharing(%s,%s,%v,%q/%q)=%v, but by the holders' requests it should be %v", ps, pip, pq.Ports, pq.Sharing, pq.Backend, ok, want))
				}
			}
		}
		steps = append(steps, cPair(coqOp, cCtor("Build_obs", resTerm, cList(allocs), cList(ctrs), cList(probes))))

		// ---- oracles (from the property statements)
		// C01: exclusivity on the recorded addresses after every operation
		hs := []string{}
		for h := range o.holders {
			hs = append(hs, h)
		}
		sort.Strings(hs)
		for i, s1 := range hs {
			for _, s2 := range hs[i+1:] {
				for _, x := range a.IPs(s1) {
					for _, y := range a.IPs(s2) {
						if x.Equal(y) {
							out.Stat("shared_address_pairs", 1)
							if !oShareable(o.holders[s1].req, o.holders[s2].req) {
								fail("alloc-exclusivity", fmt.Sprintf("%s and %s both hold %s but may not share it", s1, s2, x))
							}
						}
					}
				}
			}
		}
		// the allocator must not hold anything the oracle does not know about, and vice versa
		for _, s := range every {
			_, known := o.holders[s]
			if known != (a.Pool(s) != "") {
				fail("alloc-ghost-or-lost", fmt.Sprintf("service %s: oracle says held=%v, allocator Pool()=%q", s, known, a.Pool(s)))
			}
		}
		if !big {
		// C02: policy of what was just assigned
		if gotRes && err == nil {
			ips := a.IPs(op.Svc)
			owners := 0
			var owner gPool
			for _, p := range o.pools {
				all := true
				for _, x := range ips {
					if !oContains(p, x) {
						all = false
					}
				}
				if all {
					owners++
					owner = p
				}
			}
			if owners != 1 {
				fail("alloc-not-in-exactly-one-pool", fmt.Sprintf("%s got %v which lies in %d pools", op.Svc, ips, owners))
			} else {
				if owner.Name != a.Pool(op.Svc) {
					fail("alloc-pool-name-wrong", fmt.Sprintf("%s holds %v of pool %s but Pool() says %s", op.Svc, ips, owner.Name, a.Pool(op.Svc)))
				}
				if !oCompatible(owner, op.Req) {
					fail("alloc-pool-not-compatible", fmt.Sprintf("%s (ns %s labels %v) got %v from pool %s whose selectors do not admit it", op.Svc, op.Req.Ns, op.Req.Labels, ips, owner.Name))
				}
				if op.Kind == "allocate" && !hadAlloc {
					if !owner.Auto {
						fail("alloc-from-non-autoassign-pool", fmt.Sprintf("Allocate gave %s %v from pool %s with autoAssign=false", op.Svc, ips, owner.Name))
					}
				}
			}
			// families
			n4, n6 := 0, 0
			for _, x := range ips {
				if x.To4() != nil {
					n4++
				} else {
					n6++
				}
			}
			if op.Kind != "assign" && !(op.Kind != "additional" && hadAlloc) {
				okFam := false
				switch op.Req.Fam {
				case "ipv4":
					okFam = n4 == 1 && n6 == 0
				case "ipv6":
					okFam = n4 == 0 && n6 == 1
				default:
					if op.Req.Pol == "require" {
						okFam = n4 == 1 && n6 == 1
					} else {
						okFam = n4 <= 1 && n6 <= 1 && n4+n6 >= 1
					}
				}
				if op.Kind == "additional" {
					okFam = n4 == 1 && n6 == 1
				}
				if !okFam {
					fail("alloc-wrong-families", fmt.Sprintf("%s (%s/%s) got %v", op.Svc, op.Req.Fam, op.Req.Pol, ips))
				}
			}
			if op.Kind == "frompool" && !hadAlloc && a.Pool(op.Svc) != op.Pool {
				fail("alloc-frompool-other-pool", fmt.Sprintf("AllocateFromPool(%s) gave an address of %s", op.Pool, a.Pool(op.Svc)))
			}
			if op.Kind == "assign" {
				if len(gIPStrs(ips)) != len(op.IPs) {
					fail("alloc-assign-not-exact", fmt.Sprintf("Assign %v recorded %v", op.IPs, ips))
				}
				for i := range ips {
					if !ips[i].Equal(net.ParseIP(op.IPs[i])) {
						fail("alloc-assign-not-exact", fmt.Sprintf("Assign %v recorded %v", op.IPs, ips))
					}
				}
			}
		}
		// C02 priority + C07 completeness for a fresh Allocate
		if op.Kind == "allocate" && !hadAlloc {
			var pinnedOK, unpinnedOK []gPool
			for _, p := range o.pools {
				if !p.Auto {
					continue
				}
				// state before the allocation: remove our own new holding
				saved, had := o.holders[op.Svc]
				delete(o.holders, op.Svc)
				cs := o.oCanServeBefore(a, p, op.Svc, op.Req, resIPs)
				if had {
					o.holders[op.Svc] = saved
				}
				if !cs {
					continue
				}
				if oPinnedTo(p, op.Req) {
					pinnedOK = append(pinnedOK, p)
				} else if p.Pin == nil {
					unpinnedOK = append(unpinnedOK, p)
				}
			}
			if err != nil {
				out.Stat("allocate_failed", 1)
				if len(pinnedOK)+len(unpinnedOK) > 0 {
					fail("alloc-failed-though-admissible", fmt.Sprintf("Allocate failed for %s (%+v) but pools %v %v can serve it", op.Svc, *op.Req, pinnedOK, unpinnedOK))
				}
			} else {
				got := a.Pool(op.Svc)
				var gp gPool
				for _, p := range o.pools {
					if p.Name == got {
						gp = p
					}
				}
				if !oPinnedTo(gp, op.Req) && gp.Pin == nil && len(pinnedOK) > 0 && op.Req.Pol != "prefer" {
					fail("alloc-unpinned-before-pinned", fmt.Sprintf("%s got pool %s (unpinned) although pinned pools %v could serve it", op.Svc, got, pinnedOK))
				}
				if oPinnedTo(gp, op.Req) {
					out.Stat("allocated_from_pinned", 1)
					key := func(p gPool) int {
						if p.Pin.Prio == 0 {
							return math.MaxInt32
						}
						return p.Pin.Prio
					}
					for _, p := range pinnedOK {
						if key(p) < key(gp) && op.Req.Pol != "prefer" {
							fail("alloc-priority-order", fmt.Sprintf("%s got pool %s (prio %d) although pool %s (prio %d) could serve it", op.Svc, got, gp.Pin.Prio, p.Name, p.Pin.Prio))
						}
					}
					if op.Req.Pol == "prefer" && op.Req.Fam == "dual" {
						// PreferDualStack: a pinned pool of strictly better priority that offers at least the
						// same families as the result should have been taken instead
						for _, p := range o.pools {
							if !p.Auto || !oPinnedTo(p, op.Req) || key(p) >= key(gp) {
								continue
							}
							h4, h6 := o.oHasFree(a, p, op.Svc, op.Req, true), o.oHasFree(a, p, op.Svc, op.Req, false)
							better := false
							if len(resIPs) == 2 {
								better = h4 && h6
							} else if len(resIPs) == 1 {
								better = (resIPs[0].To4() != nil && h4) || (resIPs[0].To4() == nil && h6)
							}
							if better {
								fail("alloc-priority-order", fmt.Sprintf("%s (PreferDualStack) got %v from pool %s (prio %d) although pinned pool %s (prio %d) offers the same families", op.Svc, resIPs, got, gp.Pin.Prio, p.Name, p.Pin.Prio))
							}
						}
					}
				}
			}
		}
		if op.Kind == "frompool" && !hadAlloc && err != nil {
			for _, p := range o.pools {
				if p.Name == op.Pool && oCompatible(p, op.Req) && o.oCanServe(a, p, op.Svc, op.Req) {
					fail("alloc-frompool-failed-though-admissible", fmt.Sprintf("AllocateFromPool(%s) failed for %s (%+v) but the pool can serve it", op.Pool, op.Svc, *op.Req))
				}
			}
		}
		// C11: released addresses are reusable at once
		if op.Kind == "unassign" || (gotRes && err == nil) {
			for _, x := range prevIPs {
				still := false
				for _, y := range a.IPs(op.Svc) {
					if y.Equal(x) {
						still = true
					}
				}
				if still {
					continue
				}
				out.Stat("released_addresses", 1)
				pq := gGenReq(r, "ns1/probe")
				want := o.oFree(a, "ns1/probe", pq, x)
				got, avail := gProbeSharing(a, "ns1/probe", x.String(), pq.Ports, pq.Sharing, pq.Backend)
				if avail && want && !got {
					fail("alloc-released-not-reusable", fmt.Sprintf("%s released %s but it is still reserved", op.Svc, x))
				}
			}
		}
		}
		// C11: counters
		for _, p := range o.pools {
			c := a.CountersForPool(p.Name)
			in4, in6 := map[string]bool{}, map[string]bool{}
			for _, s := range every {
				if a.Pool(s) == p.Name {
					for _, x := range a.IPs(s) {
						if x.To4() != nil {
							in4[x.String()] = true
						} else {
							in6[x.String()] = true
						}
					}
				}
			}
			if c.AssignedIPv4 != int64(len(in4)) || c.AssignedIPv6 != int64(len(in6)) {
				fail("counters-assigned-wrong", fmt.Sprintf("pool %s: assigned %d/%d reported, %d/%d distinct addresses in use", p.Name, c.AssignedIPv4, c.AssignedIPv6, len(in4), len(in6)))
			}
			if c.AssignedIPv4 < 0 || c.AssignedIPv6 < 0 || c.AvailableIPv4 < 0 || c.AvailableIPv6 < 0 {
				fail("counters-negative", fmt.Sprintf("pool %s (%v avoid=%v): %+v", p.Name, p.CIDRs, p.Avoid, c))
			}
			u4, u6 := oUsable(p, true), oUsable(p, false)
			if c.AssignedIPv4+c.AvailableIPv4 != u4 || c.AssignedIPv6+c.AvailableIPv6 != u6 {
				if !(c.AvailableIPv4 < 0 || c.AvailableIPv6 < 0) { // reported above
					fail("counters-sum-wrong", fmt.Sprintf("pool %s (%v avoid=%v): %+v but usable is %d/%d", p.Name, p.CIDRs, p.Avoid, c, u4, u6))
				}
			}
		}
	}

	doOp(gOp{Kind: "setpools", Pools: gGenPools(r, big)})
	for k := 0; k < nops; k++ {
		s := svcs[r.Intn(len(svcs))]
		q := gGenReq(r, s)
		univ := gAddrUniverse(o.pools)
		pick := func() string { return univ[r.Intn(len(univ))] }
		x := r.Intn(100)
		if big {
			switch {
			case x < 40:
				doOp(gOp{Kind: "setpools", Pools: gGenPools(r, true)})
			case x < 85:
				doOp(gOp{Kind: "assign", Svc: s, Req: q, IPs: []string{pick()}})
			default:
				doOp(gOp{Kind: "unassign", Svc: s})
			}
			continue
		}
		switch {
		case x < 30:
			doOp(gOp{Kind: "allocate", Svc: s, Req: q})
		case x < 48:
			ips := []string{pick()}
			if q.Fam == "dual" {
				ips = append(ips, pick())
			}
			if r.Intn(3) == 0 && len(o.holders) > 0 { // aim at an address somebody holds
				for h := range o.holders {
					if hi := a.IPs(h); len(hi) > 0 {
						ips[0] = hi[0].String()
					}
					break
				}
			}
			if r.Intn(15) == 0 {
				ips = append(ips, pick(), pick())
			}
			doOp(gOp{Kind: "assign", Svc: s, Req: q, IPs: ips})
		case x < 60:
			pn := gPoolNames[r.Intn(len(gPoolNames))]
			if len(o.pools) > 0 && r.Intn(4) != 0 {
				pn = o.pools[r.Intn(len(o.pools))].Name
			}
			doOp(gOp{Kind: "frompool", Svc: s, Req: q, Pool: pn})
		case x < 68:
			if ips := a.IPs(s); len(ips) == 1 {
				h := o.holders[s]
				q2 := *h.req
				q2.Pol, q2.Fam = "prefer", "dual"
				doOp(gOp{Kind: "additional", Svc: s, Req: &q2, IPs: []string{ips[0].String()}, Pool: a.Pool(s)})
			} else {
				doOp(gOp{Kind: "allocate", Svc: s, Req: q})
			}
		case x < 82:
			doOp(gOp{Kind: "unassign", Svc: s})
		case x < 90:
			// re-allocate with the request it already has (idempotence) or a changed one
			if h, ok := o.holders[s]; ok && r.Intn(2) == 0 {
				doOp(gOp{Kind: "allocate", Svc: s, Req: h.req})
			} else {
				doOp(gOp{Kind: "allocate", Svc: s, Req: q})
			}
		default:
			np := gGenPools(r, false)
			if v := r.Intn(5); v < 2 && len(o.pools) > 0 { // same names, same CIDRs: only attributes change
				np = append([]gPool{}, o.pools...)
				for i := range np {
					switch r.Intn(4) {
					case 0:
						np[i].Avoid = !np[i].Avoid
					case 1:
						np[i].Auto = !np[i].Auto
					case 2:
						if np[i].Pin == nil {
							np[i].Pin = &gPin{Prio: r.Intn(4), Nss: []string{"ns1", "ns2"}}
						} else {
							np[i].Pin = nil
						}
					}
				}
				out.Stat("setpools_attr_only", 1)
			} else if v < 4 && len(o.pools) > 0 { // rename / regroup: same CIDRs under other names
				np = append([]gPool{}, o.pools...)
				perm := r.Perm(len(gPoolNames))
				for i := range np {
					np[i].Name = gPoolNames[perm[i]]
				}
				if len(np) > 1 && r.Intn(2) == 0 { // move one CIDR to another pool
					if len(np[0].CIDRs) > 1 {
						c := np[0].CIDRs[0]
						np[0].CIDRs = append([]string{}, np[0].CIDRs[1:]...)
						np[1].CIDRs = append(append([]string{}, np[1].CIDRs...), c)
					}
				}
				sort.Slice(np, func(i, j int) bool { return np[i].Name < np[j].Name })
			}
			doOp(gOp{Kind: "setpools", Pools: np})
		}
	}
	var univ []string
	for _, s := range append(append([]string{}, svcs...), "ns1/probe", "ns2/probe") {
		univ = append(univ, cNi(gNum(gN.svc, s)))
	}
	kind := "history"
	if big {
		kind = "counters"
	}
	out.Case(id, kind, cCtor("Build_acase", cNi(id), cList(univ), cList(steps)), human)
}

// pools that could have served the request *before* this allocation took place:
// the addresses just given to the service count as free for it
func (o *oState) oCanServeBefore(a *Allocator, p gPool, svc string, q *gReq, got []net.IP) bool {
	return o.oCanServe(a, p, svc, q)
}

// usable addresses of a pool per the statement: addresses of its CIDRs of that
// family, minus .0/.255 when avoided; prefixes with 62 or more host bits count as
// "unbounded"; the sum saturates at MaxInt64
func oUsable(p gPool, v4 bool) int64 {
	total := new(big.Int)
	unbounded := false
	for _, c := range p.CIDRs {
		ip, n, _ := net.ParseCIDR(c)
		ones, bits := n.Mask.Size()
		if (bits == 32) != v4 {
			continue
		}
		if bits-ones >= 62 {
			unbounded = true
			continue
		}
		cnt := new(big.Int).Lsh(big.NewInt(1), uint(bits-ones))
		if p.Avoid && v4 {
			first := new(big.Int).SetBytes(gNorm(ip.Mask(n.Mask)))
			last := new(big.Int).Add(first, cnt)
			// buggy addresses in [first, last): those = 0 or 255 mod 256
			bug := func(m *big.Int) *big.Int { // number of buggy addresses in [0, m)
				q, rem := new(big.Int).DivMod(m, big.NewInt(256), new(big.Int))
				res := new(big.Int).Mul(q, big.NewInt(2))
				if rem.Sign() > 0 {
					res.Add(res, big.NewInt(1))
				}
				return res
			}
			cnt.Sub(cnt, new(big.Int).Sub(bug(last), bug(first)))
		}
		total.Add(total, cnt)
	}
	maxv := big.NewInt(math.MaxInt64)
	if unbounded || total.Cmp(maxv) > 0 {
		return math.MaxInt64
	}
	return total.Int64()
}
