//go:build verif

package allocator

// Stand-in for zz_verif_alloc_probe_test.go when that file does not build against
// the tree under test: no white-box reservation probe is available.
func gProbeSharing(a *Allocator, svc, ip string, ports []Port, sharing, backend string) (ok, available bool) {
	return false, false
}
