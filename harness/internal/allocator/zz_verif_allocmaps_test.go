//go:build verif

package allocator

// Harness for C11 "memory = rebuild" at the level of the allocator's own maps
// (refinement Model/AllocMaps.v).  Random histories, biased towards shared
// addresses, in-place key changes, moves and pool renames, on a real Allocator.
// After every operation it
//   (a) dumps the ACTUAL contents of allocated, sharingKeyForIP, portsInUse,
//       servicesOnIP, poolIPsInUse, poolIPV4InUse, poolIPV6InUse (sorted),
//       CountersForPool of every pool and a few checkSharing probes, shipped to
//       Coq (Corr/Run_AllocMaps.v compares them with the concrete model's maps);
//   (b) evaluates the property directly: every derived map equals what is
//       rebuilt from `allocated` (written from the statement), and equals the
//       maps of a FRESH allocator into which the surviving allocations are
//       re-assigned.
// Domain: services with 1..3 distinct ports (what the API server admits).
// The generator helpers (gGenPools, gBuildPools, gSvcObj, cReq, cPools, ...) are
// those of zz_verif_alloc_test.go, overlaid into the same package.

import (
	"fmt"
	"math/rand"
	"net"
	"reflect"
	"sort"
	"testing"

	v1 "k8s.io/api/core/v1"
)

var mPortLib = []Port{{"TCP", 80}, {"TCP", 443}, {"UDP", 53}, {"TCP", 8080}, {"UDP", 123}}

// requests that share more often than gGenReq's
func mGenReq(r *rand.Rand, svc string) *gReq {
	q := gGenReq(r, svc)
	np := 1 + r.Intn(3)
	if r.Intn(3) != 0 {
		np = 1
	}
	perm := r.Perm(len(mPortLib))
	q.Ports = nil
	for i := 0; i < np; i++ {
		q.Ports = append(q.Ports, mPortLib[perm[i]])
	}
	q.Sharing = []string{"k1", "k1", "k1", "k1", "k2", ""}[r.Intn(6)]
	q.Backend = []string{"", "", "", "b1"}[r.Intn(4)]
	return q
}

// ---------- the dump ----------

type mDump struct {
	Alloc map[string]mAlloc           `json:"allocated"`
	Key   map[string][2]string        `json:"sharingKeyForIP"`
	Ports map[string]map[string]string `json:"portsInUse"`
	Svcs  map[string][]string         `json:"servicesOnIP"`
	Use   map[string]map[string]int   `json:"poolIPsInUse"`
	Use4  map[string]map[string]int   `json:"poolIPV4InUse"`
	Use6  map[string]map[string]int   `json:"poolIPV6InUse"`
}
type mAlloc struct {
	Pool  string   `json:"pool"`
	IPs   []string `json:"ips"`
	Ports []string `json:"ports"`
	Key   [2]string `json:"key"`
}

func mCopyCounts(m map[string]map[string]int) map[string]map[string]int {
	out := map[string]map[string]int{}
	for p, im := range m {
		if len(im) == 0 {
			continue
		}
		out[p] = map[string]int{}
		for ip, c := range im {
			out[p][ip] = c
		}
	}
	return out
}

// the actual maps, with empty inner maps dropped (human-readable form, also the
// value compared with the rebuild)
func mSnapshot(a *Allocator) mDump {
	d := mDump{Alloc: map[string]mAlloc{}, Key: map[string][2]string{}, Ports: map[string]map[string]string{}, Svcs: map[string][]string{}}
	for s, al := range a.allocated {
		ma := mAlloc{Pool: al.pool, IPs: gIPStrs(al.ips), Key: [2]string{al.sharing, al.backend}}
		for _, p := range al.ports {
			ma.Ports = append(ma.Ports, p.String())
		}
		d.Alloc[s] = ma
	}
	for ip, k := range a.sharingKeyForIP {
		if k != nil {
			d.Key[ip] = [2]string{k.sharing, k.backend}
		}
	}
	for ip, pm := range a.portsInUse {
		if len(pm) == 0 {
			continue
		}
		d.Ports[ip] = map[string]string{}
		for p, s := range pm {
			d.Ports[ip][p.String()] = s
		}
	}
	for ip, sm := range a.servicesOnIP {
		var l []string
		for s, on := range sm {
			if on {
				l = append(l, s)
			}
		}
		if len(l) == 0 {
			continue
		}
		sort.Strings(l)
		d.Svcs[ip] = l
	}
	d.Use, d.Use4, d.Use6 = mCopyCounts(a.poolIPsInUse), mCopyCounts(a.poolIPV4InUse), mCopyCounts(a.poolIPV6InUse)
	return d
}

func mSortedKeys[V any](m map[string]V) []string {
	var ks []string
	for k := range m {
		ks = append(ks, k)
	}
	sort.Strings(ks)
	return ks
}

func mCountsTerm(m map[string]map[string]int) string {
	var l []string
	for _, p := range mSortedKeys(m) {
		var il []string
		for _, ip := range mSortedKeys(m[p]) {
			il = append(il, cPair(cIP(net.ParseIP(ip)), cZ(int64(m[p][ip]))))
		}
		l = append(l, cPair(cNi(gNum(gN.pool, p)), cList(il)))
	}
	return cList(l)
}

// the Coq term of the dump: built from the Go maps themselves (typed values),
// including inner maps that are present but empty
func mDumpTerm(a *Allocator, counters, probes []string) string {
	var al []string
	for _, s := range mSortedKeys(a.allocated) {
		x := a.allocated[s]
		al = append(al, cPair(cNi(gNum(gN.svc, s)), cCtor("Build_alloc", cNi(gNum(gN.pool, x.pool)), cIPs(x.ips), cPorts(x.ports), cKey(x.sharing, x.backend))))
	}
	var kl []string
	for _, ip := range mSortedKeys(a.sharingKeyForIP) {
		if k := a.sharingKeyForIP[ip]; k != nil {
			kl = append(kl, cPair(cIP(net.ParseIP(ip)), cKey(k.sharing, k.backend)))
		}
	}
	var pl []string
	for _, ip := range mSortedKeys(a.portsInUse) {
		pm := a.portsInUse[ip]
		var ports []Port
		for p := range pm {
			ports = append(ports, p)
		}
		sort.Slice(ports, func(i, j int) bool { return ports[i].String() < ports[j].String() })
		var il []string
		for _, p := range ports {
			il = append(il, cPair(cCtor("Build_port", cNi(gNum(gN.proto, p.Proto)), cNi(p.Port)), cNi(gNum(gN.svc, pm[p]))))
		}
		pl = append(pl, cPair(cIP(net.ParseIP(ip)), cList(il)))
	}
	var sl []string
	for _, ip := range mSortedKeys(a.servicesOnIP) {
		var il []string
		for _, s := range mSortedKeys(a.servicesOnIP[ip]) {
			if a.servicesOnIP[ip][s] {
				il = append(il, cNi(gNum(gN.svc, s)))
			}
		}
		sl = append(sl, cPair(cIP(net.ParseIP(ip)), cList(il)))
	}
	return cCtor("Build_mdump", cList(al), cList(kl), cList(pl), cList(sl),
		mCountsTerm(a.poolIPsInUse), mCountsTerm(a.poolIPV4InUse), mCountsTerm(a.poolIPV6InUse), cList(counters), cList(probes))
}

// ---------- oracle: the maps a rebuild from `allocated` gives, from the statement ----------

func mRebuild(a *Allocator) (mDump, []string) {
	var notes []string
	d := mDump{Alloc: map[string]mAlloc{}, Key: map[string][2]string{}, Ports: map[string]map[string]string{}, Svcs: map[string][]string{},
		Use: map[string]map[string]int{}, Use4: map[string]map[string]int{}, Use6: map[string]map[string]int{}}
	for _, s := range mSortedKeys(a.allocated) {
		al := a.allocated[s]
		for _, ip := range al.ips {
			x := ip.String()
			// the key stored for an address is the key of all its tenants
			k := [2]string{al.sharing, al.backend}
			if prev, ok := d.Key[x]; ok && prev != k {
				notes = append(notes, fmt.Sprintf("tenants of %s have different keys %v / %v", x, prev, k))
			}
			d.Key[x] = k
			// a (ip, port) owner is the tenant having that port
			if d.Ports[x] == nil {
				d.Ports[x] = map[string]string{}
			}
			for _, p := range al.ports {
				if prev, ok := d.Ports[x][p.String()]; ok && prev != s {
					notes = append(notes, fmt.Sprintf("port %s on %s is held by %s and %s", p, x, prev, s))
				}
				d.Ports[x][p.String()] = s
			}
			// the services on an address are its tenants
			d.Svcs[x] = append(d.Svcs[x], s)
			// counts = number of allocations recorded under that pool name holding the address
			tw := d.Use6
			if ip.To4() != nil {
				tw = d.Use4
			}
			for _, m := range []map[string]map[string]int{d.Use, tw} {
				if m[al.pool] == nil {
					m[al.pool] = map[string]int{}
				}
				m[al.pool][x]++
			}
		}
	}
	for x := range d.Svcs {
		sort.Strings(d.Svcs[x])
	}
	return d, notes
}

// a fresh allocator into which the surviving allocations are re-assigned
func mFresh(a *Allocator, order []string) (f *Allocator) {
	defer func() {
		if recover() != nil { // a recorded pool name that is not configured: reported by the rebuild oracle
			f = nil
		}
	}()
	f = New(func(string) {})
	f.pools = a.pools
	for _, s := range order {
		al := a.allocated[s]
		cp := &alloc{pool: al.pool, ips: append([]net.IP{}, al.ips...), ports: append([]Port{}, al.ports...), key: al.key}
		f.assign(s, cp)
	}
	return f
}

func mDiff(got, want mDump) (which, detail string) {
	switch {
	case !reflect.DeepEqual(got.Key, want.Key):
		return "sharingKeyForIP", fmt.Sprintf("sharingKeyForIP: have %v, rebuilt %v", got.Key, want.Key)
	case !reflect.DeepEqual(got.Ports, want.Ports):
		return "portsInUse", fmt.Sprintf("portsInUse: have %v, rebuilt %v", got.Ports, want.Ports)
	case !reflect.DeepEqual(got.Svcs, want.Svcs):
		return "servicesOnIP", fmt.Sprintf("servicesOnIP: have %v, rebuilt %v", got.Svcs, want.Svcs)
	case !reflect.DeepEqual(got.Use, want.Use):
		return "poolIPsInUse", fmt.Sprintf("poolIPsInUse: have %v, rebuilt %v", got.Use, want.Use)
	case !reflect.DeepEqual(got.Use4, want.Use4):
		return "poolIPV4InUse", fmt.Sprintf("poolIPV4InUse: have %v, rebuilt %v", got.Use4, want.Use4)
	case !reflect.DeepEqual(got.Use6, want.Use6):
		return "poolIPV6InUse", fmt.Sprintf("poolIPV6InUse: have %v, rebuilt %v", got.Use6, want.Use6)
	}
	return "", ""
}

// ---------- the test ----------

func TestVerifAllocMaps(t *testing.T) {
	out := vOpen()
	defer out.Close()
	r := vRand()
	n := vN(60)
	for id := 1; id <= n; id++ {
		mRunHistory(out, r, id)
	}
}

func mRunHistory(out *vOut, r *rand.Rand, id int) {
	a := New(func(string) {})
	nsvc := 2 + r.Intn(4)
	svcs := gSvcNames[:nsvc]
	nops := 10 + r.Intn(22)
	var steps []string
	var human []gOp
	var pools []gPool
	allPoolNames := map[string]bool{}
	reqs := map[string]*gReq{} // request that produced the current allocation
	failed := false
	fail := func(sig, what string) {
		out.Fail(sig, what, map[string]any{"history": human, "maps": mSnapshot(a)})
		failed = true
	}

	doOp := func(op gOp) (ok bool) {
		var coqOp string
		var resIPs []net.IP
		var err error
		gotRes := false
		var svcObj *v1.Service
		if op.Req != nil {
			svcObj = gSvcObj(op.Svc, op.Req)
		}
		before := mSnapshot(a)
		panicked := func() (p any) {
			defer func() { p = recover() }()
			switch op.Kind {
			case "setpools":
				for _, p := range op.Pools {
					allPoolNames[p.Name] = true
				}
				a.SetPools(gBuildPools(op.Pools))
				pools = op.Pools
				coqOp = cCtor("OSetPools", cPools(op.Pools))
				out.Stat("m_op_setpools", 1)
			case "unassign":
				a.Unassign(op.Svc)
				coqOp = cCtor("OUnassign", cNi(gNum(gN.svc, op.Svc)))
				out.Stat("m_op_unassign", 1)
			case "assign":
				var ips []net.IP
				for _, s := range op.IPs {
					ips = append(ips, net.ParseIP(s))
				}
				err = a.Assign(op.Svc, svcObj, ips, op.Req.Ports, op.Req.Sharing, op.Req.Backend)
				gotRes = true
				if err == nil {
					resIPs = ips
				}
				coqOp = cCtor("OAssign", cNi(gNum(gN.svc, op.Svc)), cReq(op.Req), cIPs(ips))
				out.Stat("m_op_assign", 1)
			case "allocate":
				resIPs, err = a.Allocate(op.Svc, svcObj, gFam(op.Req), op.Req.Ports, op.Req.Sharing, op.Req.Backend)
				gotRes = true
				choice := cNone
				if err == nil {
					choice = cSome(cPair(cNi(gNum(gN.pool, a.Pool(op.Svc))), cIPs(resIPs)))
				}
				coqOp = cCtor("OAllocate", cNi(gNum(gN.svc, op.Svc)), cReq(op.Req), choice)
				out.Stat("m_op_allocate", 1)
			case "frompool":
				resIPs, err = a.AllocateFromPool(op.Svc, svcObj, gFam(op.Req), op.Pool, op.Req.Ports, op.Req.Sharing, op.Req.Backend)
				gotRes = true
				choice := cNone
				if err == nil {
					choice = cSome(cIPs(resIPs))
				}
				coqOp = cCtor("OAllocateFromPool", cNi(gNum(gN.svc, op.Svc)), cReq(op.Req), cNi(gNum(gN.pool, op.Pool)), choice)
				out.Stat("m_op_frompool", 1)
			case "additional":
				have := net.ParseIP(op.IPs[0])
				var x net.IP
				x, err = a.AllocateFromPoolForAdditionalFamily(op.Svc, svcObj, have, op.Pool, op.Req.Ports, op.Req.Sharing, op.Req.Backend)
				gotRes = true
				choice := cNone
				if err == nil {
					resIPs = []net.IP{x}
					choice = cSome(cIP(x))
				}
				coqOp = cCtor("OAdditional", cNi(gNum(gN.svc, op.Svc)), cReq(op.Req), cIP(have), cNi(gNum(gN.pool, op.Pool)), choice)
				out.Stat("m_op_additional", 1)
			}
			return nil
		}()
		if gotRes && panicked == nil {
			if err != nil {
				op.Err = "error"
				out.Stat("m_res_error", 1)
			} else {
				op.ResIPs = gIPStrs(resIPs)
				out.Stat("m_res_ok", 1)
				reqs[op.Svc] = op.Req
			}
		}
		human = append(human, op)
		if panicked != nil {
			fail("allocmaps-panic", fmt.Sprintf("operation %d (%s %s) panicked: %v", len(human), op.Kind, op.Svc, panicked))
			return false
		}
		for s := range reqs {
			if a.allocated[s] == nil {
				delete(reqs, s)
			}
		}

		// ---- oracle: memory = rebuild
		got := mSnapshot(a)
		want, notes := mRebuild(a)
		if which, d := mDiff(got, want); d != "" {
			fail("allocmaps-"+which+"-differs-from-rebuild", fmt.Sprintf("after operation %d (%s %s): %s", len(human), op.Kind, op.Svc, d))
		}
		for _, n := range notes {
			fail("allocmaps-allocated-inconsistent", fmt.Sprintf("after operation %d (%s %s): %s", len(human), op.Kind, op.Svc, n))
		}
		// a fresh allocator, the surviving allocations re-assigned in two different orders
		order := mSortedKeys(a.allocated)
		for pass := 0; pass < 2 && !failed; pass++ {
			fa := mFresh(a, order)
			if fa == nil {
				break
			}
			f := mSnapshot(fa)
			if _, d := mDiff(got, f); d != "" {
				fail("allocmaps-fresh-allocator-differs", fmt.Sprintf("after operation %d (%s %s): long-running vs fresh allocator: %s", len(human), op.Kind, op.Svc, d))
			}
			for i, j := 0, len(order)-1; i < j; i, j = i+1, j-1 {
				order[i], order[j] = order[j], order[i]
			}
		}
		// a failed operation changes nothing
		if gotRes && err != nil && !reflect.DeepEqual(before, got) {
			fail("allocmaps-failed-op-changed-maps", fmt.Sprintf("operation %d (%s %s) failed but the maps changed", len(human), op.Kind, op.Svc))
		}
		// branch counters (of the history, independent of the code's bookkeeping)
		holders := map[string]int{}
		for _, al := range a.allocated {
			for _, ip := range al.ips {
				holders[ip.String()]++
			}
		}
		for _, c := range holders {
			if c >= 2 {
				out.Stat("m_shared_address_states", 1)
				break
			}
		}

		// ---- observation for Coq
		resTerm := cNone
		if gotRes && err == nil {
			resTerm = cSome(cIPs(resIPs))
		}
		var ctrs []string
		for _, p := range mSortedKeys(allPoolNames) {
			c := a.CountersForPool(p)
			ctrs = append(ctrs, cPair(cNi(gNum(gN.pool, p)), cCtor("Build_counters", cZ(c.AssignedIPv4), cZ(c.AssignedIPv6), cZ(c.AvailableIPv4), cZ(c.AvailableIPv6))))
		}
		var probes []string
		univ := gAddrUniverse(pools)
		for k := 0; k < 4 && len(univ) > 0; k++ {
			ps := svcs[r.Intn(len(svcs))]
			pq := mGenReq(r, ps)
			pip := net.ParseIP(univ[r.Intn(len(univ))])
			if k < 3 && len(a.allocated) > 0 {
				hs := mSortedKeys(a.allocated)
				hips := a.allocated[hs[r.Intn(len(hs))]].ips
				if len(hips) > 0 {
					pip = hips[r.Intn(len(hips))]
				}
			}
			okp := a.checkSharing(ps, pip.String(), pq.Ports, &key{sharing: pq.Sharing, backend: pq.Backend}) == nil
			probes = append(probes, cCtor("Build_mprobe", cNi(gNum(gN.svc, ps)), cIP(pip), cPorts(pq.Ports), cKey(pq.Sharing, pq.Backend), cBool(okp)))
		}
		steps = append(steps, cPair(coqOp, cCtor("Build_mobs", resTerm, mDumpTerm(a, ctrs, probes))))
		return true
	}

	holderOf := func() (string, []net.IP) {
		hs := mSortedKeys(a.allocated)
		if len(hs) == 0 {
			return "", nil
		}
		h := hs[r.Intn(len(hs))]
		return h, a.allocated[h].ips
	}

	if !doOp(gOp{Kind: "setpools", Pools: gGenPools(r, false)}) {
		return
	}
	for k := 0; k < nops && !failed; k++ {
		s := svcs[r.Intn(len(svcs))]
		q := mGenReq(r, s)
		univ := gAddrUniverse(pools)
		pick := func() string { return univ[r.Intn(len(univ))] }
		x := r.Intn(100)
		ok := true
		switch {
		case x < 22:
			ok = doOp(gOp{Kind: "allocate", Svc: s, Req: q})
		case x < 44:
			ips := []string{pick()}
			if q.Fam == "dual" {
				ips = append(ips, pick())
			}
			if h, hips := holderOf(); h != "" && len(hips) > 0 && r.Intn(2) == 0 { // aim at an address somebody holds
				ips[0] = hips[r.Intn(len(hips))].String()
				if hq := reqs[h]; hq != nil && r.Intn(3) != 0 { // and at sharing it
					q.Sharing, q.Backend = hq.Sharing, hq.Backend
				}
			}
			if r.Intn(20) == 0 {
				ips = append(ips, pick(), pick())
			}
			ok = doOp(gOp{Kind: "assign", Svc: s, Req: q, IPs: ips})
		case x < 54: // the service keeps its addresses and changes its key and/or ports
			if al := a.allocated[s]; al != nil {
				out.Stat("m_reassign_same_addresses", 1)
				ok = doOp(gOp{Kind: "assign", Svc: s, Req: q, IPs: gIPStrs(al.ips)})
			} else {
				ok = doOp(gOp{Kind: "allocate", Svc: s, Req: q})
			}
		case x < 62:
			pn := gPoolNames[r.Intn(len(gPoolNames))]
			if len(pools) > 0 && r.Intn(4) != 0 {
				pn = pools[r.Intn(len(pools))].Name
			}
			ok = doOp(gOp{Kind: "frompool", Svc: s, Req: q, Pool: pn})
		case x < 68:
			if al := a.allocated[s]; al != nil && len(al.ips) == 1 && reqs[s] != nil {
				q2 := *reqs[s]
				q2.Pol, q2.Fam = "prefer", "dual"
				ok = doOp(gOp{Kind: "additional", Svc: s, Req: &q2, IPs: []string{al.ips[0].String()}, Pool: al.pool})
			} else {
				ok = doOp(gOp{Kind: "allocate", Svc: s, Req: q})
			}
		case x < 84:
			if a.allocated[s] != nil {
				out.Stat("m_unassign_of_holder", 1)
			}
			ok = doOp(gOp{Kind: "unassign", Svc: s})
		default:
			np := gGenPools(r, false)
			if r.Intn(3) != 0 && len(pools) > 0 { // rename / regroup: same CIDRs under other names
				np = append([]gPool{}, pools...)
				perm := r.Perm(len(gPoolNames))
				for i := range np {
					np[i].Name = gPoolNames[perm[i]]
				}
				if len(np) > 1 && r.Intn(2) == 0 && len(np[0].CIDRs) > 1 { // move one CIDR to another pool
					c := np[0].CIDRs[0]
					np[0].CIDRs = append([]string{}, np[0].CIDRs[1:]...)
					np[1].CIDRs = append(append([]string{}, np[1].CIDRs...), c)
				}
				sort.Slice(np, func(i, j int) bool { return np[i].Name < np[j].Name })
				if len(a.allocated) > 0 {
					out.Stat("m_rename_with_holders", 1)
				}
			}
			ok = doOp(gOp{Kind: "setpools", Pools: np})
		}
		if !ok {
			return
		}
	}
	out.Case(id, "maps", cCtor("Build_mcase", cNi(id), cList(steps)), human)
}
