//go:build verif

package allocator

// Harness for C11 "memory = rebuild" at the level of the allocator's own maps
// (refinement Model/AllocMaps.v).  Random histories, biased towards shared
// addresses, in-place key changes, moves and pool renames, on a real Allocator.
// After every operation it
//   (a) dumps the ACTUAL contents of allocated, sharingKeyForIP, portsInUse,
//       servicesOnIP, poolIPsInUse, poolIPV4InUse, poolIPV6InUse (read through
//       reflection, normalised, sorted), Pool()/IPs() of every service and
//       CountersForPool of every pool, shipped to Coq (Corr/Run_AllocMaps.v
//       compares them with the concrete model's maps); reservation probes are
//       ordinary Assign+Unassign operations of a probe service in the history;
//   (b) evaluates the property directly: every derived map equals what is
//       rebuilt from `allocated` (written from the statement), and equals the
//       maps of a FRESH allocator into which the surviving allocations are
//       re-assigned.
// Domain: services with 1..3 distinct ports (what the API server admits).
// The generator helpers (gGenPools, gBuildPools, gSvcObj, cReq, cPools, ...) are
// those of zz_verif_alloc_test.go, overlaid into the same package.
// Only exported functions of the allocator are called; its private state is read
// through reflection, so a change of representation neither breaks the build nor
// alarms.

import (
	"fmt"
	"math/rand"
	"net"
	"reflect"
	"sort"
	"testing"

	v1 "k8s.io/api/core/v1"
)

var mPortLib = []Port{{"TCP", 80}, {"TCP", 443}, {"UDP", 53}, {"TCP", 8080}, {"UDP", 123}}

// requests that share more often than gGenReq's
func mGenReq(r *rand.Rand, svc string) *gReq {
	q := gGenReq(r, svc)
	np := 1 + r.Intn(3)
	if r.Intn(3) != 0 {
		np = 1
	}
	perm := r.Perm(len(mPortLib))
	q.Ports = nil
	for i := 0; i < np; i++ {
		q.Ports = append(q.Ports, mPortLib[perm[i]])
	}
	q.Sharing = []string{"k1", "k1", "k1", "k1", "k2", ""}[r.Intn(6)]
	q.Backend = []string{"", "", "", "b1"}[r.Intn(4)]
	return q
}

// ---------- reading the allocator's memory ----------
//
// The seven bookkeeping maps are private state: they are read through
// reflection (FieldByName on the Allocator, MapRange/Len/String/Int/Bool/Field on
// the unexported values, never Interface()) and normalised to their
// representation-independent content:
//   - a set is the keys whose value is `true`, or all keys when the value type is
//     struct{} (or the elements of a slice of strings);
//   - an inner map that is absent or empty is no entry;
//   - a sharing key is (sharing, backend) whether stored by pointer or by value,
//     a nil pointer is no entry;
//   - counts are ints whatever the integer type.
// A field that is absent or has another shape is skipped (nil map below, stat
// whitebox_skipped:<field>); the history is then still checked on the remaining
// maps and on the exported behaviour.

type mAlloc struct {
	Pool  string
	IPs   []string
	Ports []Port
	Key   [2]string
}

type mMaps struct {
	Alloc   map[string]mAlloc
	Key     map[string][2]string
	Ports   map[string]map[Port]string
	Svcs    map[string][]string
	Use     map[string]map[string]int
	Use4    map[string]map[string]int
	Use6    map[string]map[string]int
	Skipped []string
}

var mFields = []string{"allocated", "sharingKeyForIP", "portsInUse", "servicesOnIP", "poolIPsInUse", "poolIPV4InUse", "poolIPV6InUse"}

type mShape struct{ what string }

func mBad(what string) { panic(mShape{what}) }

func mStr(v reflect.Value) string {
	if v.Kind() != reflect.String {
		mBad("not a string")
	}
	return v.String()
}
func mInt(v reflect.Value) int {
	switch v.Kind() {
	case reflect.Int, reflect.Int8, reflect.Int16, reflect.Int32, reflect.Int64:
		return int(v.Int())
	case reflect.Uint, reflect.Uint8, reflect.Uint16, reflect.Uint32, reflect.Uint64:
		return int(v.Uint())
	}
	mBad("not an integer")
	return 0
}

// follows pointers / interfaces; ok=false for nil
func mDeref(v reflect.Value) (reflect.Value, bool) {
	for v.Kind() == reflect.Ptr || v.Kind() == reflect.Interface {
		if v.IsNil() {
			return v, false
		}
		v = v.Elem()
	}
	return v, true
}
func mMapOf(v reflect.Value) (reflect.Value, bool) {
	v, ok := mDeref(v)
	if !ok {
		return v, false
	}
	if v.Kind() != reflect.Map {
		mBad("not a map")
	}
	return v, true
}
func mFieldOf(v reflect.Value, name string) reflect.Value {
	if v.Kind() != reflect.Struct {
		mBad("not a struct")
	}
	f := v.FieldByName(name)
	if !f.IsValid() {
		mBad("no field " + name)
	}
	return f
}
func mPortOf(v reflect.Value) Port {
	v, ok := mDeref(v)
	if !ok {
		mBad("nil port")
	}
	return Port{Proto: mStr(mFieldOf(v, "Proto")), Port: mInt(mFieldOf(v, "Port"))}
}
func mKeyOf(v reflect.Value) ([2]string, bool) {
	v, ok := mDeref(v)
	if !ok {
		return [2]string{}, false
	}
	return [2]string{mStr(mFieldOf(v, "sharing")), mStr(mFieldOf(v, "backend"))}, true
}

func mReadCounts(v reflect.Value) map[string]map[string]int {
	out := map[string]map[string]int{}
	m, ok := mMapOf(v)
	if !ok {
		return out
	}
	for it := m.MapRange(); it.Next(); {
		inner, ok := mMapOf(it.Value())
		if !ok || inner.Len() == 0 {
			continue
		}
		im := map[string]int{}
		for jt := inner.MapRange(); jt.Next(); {
			im[mStr(jt.Key())] = mInt(jt.Value())
		}
		out[mStr(it.Key())] = im
	}
	return out
}

func mReadSets(v reflect.Value) map[string][]string {
	out := map[string][]string{}
	m, ok := mMapOf(v)
	if !ok {
		return out
	}
	for it := m.MapRange(); it.Next(); {
		var l []string
		inner, ok := mDeref(it.Value())
		if !ok {
			continue
		}
		switch inner.Kind() {
		case reflect.Map:
			for jt := inner.MapRange(); jt.Next(); {
				val := jt.Value()
				switch {
				case val.Kind() == reflect.Bool:
					if val.Bool() {
						l = append(l, mStr(jt.Key()))
					}
				case val.Kind() == reflect.Struct && val.NumField() == 0:
					l = append(l, mStr(jt.Key()))
				default:
					mBad("set value neither bool nor struct{}")
				}
			}
		case reflect.Slice, reflect.Array:
			for i := 0; i < inner.Len(); i++ {
				l = append(l, mStr(inner.Index(i)))
			}
		default:
			mBad("not a set")
		}
		if len(l) == 0 {
			continue
		}
		sort.Strings(l)
		out[mStr(it.Key())] = l
	}
	return out
}

func mReadKeys(v reflect.Value) map[string][2]string {
	out := map[string][2]string{}
	m, ok := mMapOf(v)
	if !ok {
		return out
	}
	for it := m.MapRange(); it.Next(); {
		if k, ok := mKeyOf(it.Value()); ok {
			out[mStr(it.Key())] = k
		}
	}
	return out
}

func mReadPorts(v reflect.Value) map[string]map[Port]string {
	out := map[string]map[Port]string{}
	m, ok := mMapOf(v)
	if !ok {
		return out
	}
	for it := m.MapRange(); it.Next(); {
		inner, ok := mMapOf(it.Value())
		if !ok || inner.Len() == 0 {
			continue
		}
		pm := map[Port]string{}
		for jt := inner.MapRange(); jt.Next(); {
			pm[mPortOf(jt.Key())] = mStr(jt.Value())
		}
		out[mStr(it.Key())] = pm
	}
	return out
}

func mReadAlloc(v reflect.Value) map[string]mAlloc {
	out := map[string]mAlloc{}
	m, ok := mMapOf(v)
	if !ok {
		return out
	}
	for it := m.MapRange(); it.Next(); {
		al, ok := mDeref(it.Value())
		if !ok {
			continue
		}
		ma := mAlloc{Pool: mStr(mFieldOf(al, "pool"))}
		ips := mFieldOf(al, "ips")
		if ips.Kind() != reflect.Slice {
			mBad("ips not a slice")
		}
		for i := 0; i < ips.Len(); i++ {
			b := ips.Index(i)
			if b.Kind() != reflect.Slice {
				mBad("ip not a byte slice")
			}
			raw := make([]byte, b.Len())
			for j := range raw {
				raw[j] = byte(mInt(b.Index(j)))
			}
			ma.IPs = append(ma.IPs, net.IP(raw).String())
		}
		ports := mFieldOf(al, "ports")
		if ports.Kind() != reflect.Slice {
			mBad("ports not a slice")
		}
		for i := 0; i < ports.Len(); i++ {
			ma.Ports = append(ma.Ports, mPortOf(ports.Index(i)))
		}
		k, ok := mKeyOf(al) // sharing / backend are promoted through the embedded key
		if !ok {
			mBad("no key")
		}
		ma.Key = k
		out[mStr(it.Key())] = ma
	}
	return out
}

func mSnapshot(a *Allocator) mMaps {
	var d mMaps
	rv := reflect.ValueOf(a).Elem()
	read := func(name string, f func(v reflect.Value)) {
		defer func() {
			if recover() != nil {
				d.Skipped = append(d.Skipped, name)
			}
		}()
		v := rv.FieldByName(name)
		if !v.IsValid() {
			mBad("absent")
		}
		f(v)
	}
	read("allocated", func(v reflect.Value) { d.Alloc = mReadAlloc(v) })
	read("sharingKeyForIP", func(v reflect.Value) { d.Key = mReadKeys(v) })
	read("portsInUse", func(v reflect.Value) { d.Ports = mReadPorts(v) })
	read("servicesOnIP", func(v reflect.Value) { d.Svcs = mReadSets(v) })
	read("poolIPsInUse", func(v reflect.Value) { d.Use = mReadCounts(v) })
	read("poolIPV4InUse", func(v reflect.Value) { d.Use4 = mReadCounts(v) })
	read("poolIPV6InUse", func(v reflect.Value) { d.Use6 = mReadCounts(v) })
	return d
}

// readable form for replays
func (d mMaps) human() map[string]any {
	ports := map[string]map[string]string{}
	for ip, pm := range d.Ports {
		ports[ip] = map[string]string{}
		for p, s := range pm {
			ports[ip][p.String()] = s
		}
	}
	al := map[string]any{}
	for s, x := range d.Alloc {
		var ps []string
		for _, p := range x.Ports {
			ps = append(ps, p.String())
		}
		al[s] = map[string]any{"pool": x.Pool, "ips": x.IPs, "ports": ps, "key": x.Key}
	}
	return map[string]any{"allocated": al, "sharingKeyForIP": d.Key, "portsInUse": ports, "servicesOnIP": d.Svcs,
		"poolIPsInUse": d.Use, "poolIPV4InUse": d.Use4, "poolIPV6InUse": d.Use6, "whitebox_skipped": d.Skipped}
}

func mSortedKeys[V any](m map[string]V) []string {
	var ks []string
	for k := range m {
		ks = append(ks, k)
	}
	sort.Strings(ks)
	return ks
}

func mOpt(present bool, term string) string {
	if !present {
		return cNone
	}
	return cSome(term)
}

func mCountsTerm(m map[string]map[string]int) string {
	var l []string
	for _, p := range mSortedKeys(m) {
		var il []string
		for _, ip := range mSortedKeys(m[p]) {
			il = append(il, cPair(cIP(net.ParseIP(ip)), cZ(int64(m[p][ip]))))
		}
		l = append(l, cPair(cNi(gNum(gN.pool, p)), cList(il)))
	}
	return mOpt(m != nil, cList(l))
}

// exported view: Pool() / IPs() of every service of the universe
type mHolding struct {
	Pool string
	IPs  []string
}

func mExported(a *Allocator, universe []string) map[string]mHolding {
	out := map[string]mHolding{}
	for _, s := range universe {
		if p := a.Pool(s); p != "" {
			out[s] = mHolding{Pool: p, IPs: gIPStrs(a.IPs(s))}
		}
	}
	return out
}

// the Coq term of the dump
func mDumpTerm(d mMaps, bb map[string]mHolding, counters []string) string {
	var bl []string
	for _, s := range mSortedKeys(bb) {
		bl = append(bl, cPair(cNi(gNum(gN.svc, s)), cPair(cNi(gNum(gN.pool, bb[s].Pool)), cIPstrs(bb[s].IPs))))
	}
	var al []string
	for _, s := range mSortedKeys(d.Alloc) {
		x := d.Alloc[s]
		al = append(al, cPair(cNi(gNum(gN.svc, s)), cCtor("Build_alloc", cNi(gNum(gN.pool, x.Pool)), cIPstrs(x.IPs), cPorts(x.Ports), cKey(x.Key[0], x.Key[1]))))
	}
	var kl []string
	for _, ip := range mSortedKeys(d.Key) {
		kl = append(kl, cPair(cIP(net.ParseIP(ip)), cKey(d.Key[ip][0], d.Key[ip][1])))
	}
	var pl []string
	for _, ip := range mSortedKeys(d.Ports) {
		pm := d.Ports[ip]
		var ports []Port
		for p := range pm {
			ports = append(ports, p)
		}
		sort.Slice(ports, func(i, j int) bool { return ports[i].String() < ports[j].String() })
		var il []string
		for _, p := range ports {
			il = append(il, cPair(cCtor("Build_port", cNi(gNum(gN.proto, p.Proto)), cNi(p.Port)), cNi(gNum(gN.svc, pm[p]))))
		}
		pl = append(pl, cPair(cIP(net.ParseIP(ip)), cList(il)))
	}
	var sl []string
	for _, ip := range mSortedKeys(d.Svcs) {
		var il []string
		for _, s := range d.Svcs[ip] {
			il = append(il, cNi(gNum(gN.svc, s)))
		}
		sl = append(sl, cPair(cIP(net.ParseIP(ip)), cList(il)))
	}
	return cCtor("Build_mdump", cList(bl), mOpt(d.Alloc != nil, cList(al)), mOpt(d.Key != nil, cList(kl)), mOpt(d.Ports != nil, cList(pl)),
		mOpt(d.Svcs != nil, cList(sl)), mCountsTerm(d.Use), mCountsTerm(d.Use4), mCountsTerm(d.Use6), cList(counters))
}

// ---------- oracle: the maps a rebuild from the recorded allocations gives, from the statement ----------

func mRebuild(recs map[string]mAlloc) (mMaps, []string) {
	var notes []string
	d := mMaps{Key: map[string][2]string{}, Ports: map[string]map[Port]string{}, Svcs: map[string][]string{},
		Use: map[string]map[string]int{}, Use4: map[string]map[string]int{}, Use6: map[string]map[string]int{}}
	for _, s := range mSortedKeys(recs) {
		al := recs[s]
		for _, x := range al.IPs {
			// the key stored for an address is the key of all its tenants
			if prev, ok := d.Key[x]; ok && prev != al.Key {
				notes = append(notes, fmt.Sprintf("tenants of %s have different keys %v / %v", x, prev, al.Key))
			}
			d.Key[x] = al.Key
			// a (ip, port) owner is the tenant having that port
			if d.Ports[x] == nil {
				d.Ports[x] = map[Port]string{}
			}
			for _, p := range al.Ports {
				if prev, ok := d.Ports[x][p]; ok && prev != s {
					notes = append(notes, fmt.Sprintf("port %s on %s is held by %s and %s", p, x, prev, s))
				}
				d.Ports[x][p] = s
			}
			// the services on an address are its tenants
			d.Svcs[x] = append(d.Svcs[x], s)
			// counts = number of allocations recorded under that pool name holding the address
			tw := d.Use6
			if net.ParseIP(x).To4() != nil {
				tw = d.Use4
			}
			for _, m := range []map[string]map[string]int{d.Use, tw} {
				if m[al.Pool] == nil {
					m[al.Pool] = map[string]int{}
				}
				m[al.Pool][x]++
			}
		}
	}
	for x := range d.Svcs {
		sort.Strings(d.Svcs[x])
	}
	return d, notes
}

// a fresh allocator (exported API only) holding the surviving allocations;
// nil when one of them is not admissible any more under the current pools
func mFresh(pools []gPool, recs map[string]mAlloc, reqs map[string]*gReq, order []string) (f *Allocator) {
	defer func() {
		if recover() != nil {
			f = nil
		}
	}()
	f = New(func(string) {})
	f.SetPools(gBuildPools(pools))
	for _, s := range order {
		al, q := recs[s], reqs[s]
		if q == nil {
			return nil
		}
		var ips []net.IP
		for _, x := range al.IPs {
			ips = append(ips, net.ParseIP(x))
		}
		if f.Assign(s, gSvcObj(s, q), ips, al.Ports, al.Key[0], al.Key[1]) != nil {
			return nil
		}
	}
	return f
}

// compares the maps both sides could read
func mDiff(got, want mMaps) (which, detail string) {
	switch {
	case got.Key != nil && want.Key != nil && !reflect.DeepEqual(got.Key, want.Key):
		return "sharingKeyForIP", fmt.Sprintf("sharingKeyForIP: have %v, rebuilt %v", got.Key, want.Key)
	case got.Ports != nil && want.Ports != nil && !reflect.DeepEqual(got.Ports, want.Ports):
		return "portsInUse", fmt.Sprintf("portsInUse: have %v, rebuilt %v", got.Ports, want.Ports)
	case got.Svcs != nil && want.Svcs != nil && !reflect.DeepEqual(got.Svcs, want.Svcs):
		return "servicesOnIP", fmt.Sprintf("servicesOnIP: have %v, rebuilt %v", got.Svcs, want.Svcs)
	case got.Use != nil && want.Use != nil && !reflect.DeepEqual(got.Use, want.Use):
		return "poolIPsInUse", fmt.Sprintf("poolIPsInUse: have %v, rebuilt %v", got.Use, want.Use)
	case got.Use4 != nil && want.Use4 != nil && !reflect.DeepEqual(got.Use4, want.Use4):
		return "poolIPV4InUse", fmt.Sprintf("poolIPV4InUse: have %v, rebuilt %v", got.Use4, want.Use4)
	case got.Use6 != nil && want.Use6 != nil && !reflect.DeepEqual(got.Use6, want.Use6):
		return "poolIPV6InUse", fmt.Sprintf("poolIPV6InUse: have %v, rebuilt %v", got.Use6, want.Use6)
	}
	return "", ""
}

// ---------- the test ----------

func TestVerifAllocMaps(t *testing.T) {
	out := vOpen()
	defer out.Close()
	r := vRand()
	n := vN(60)
	for _, f := range mSnapshot(New(func(string) {})).Skipped {
		out.Stat("whitebox_skipped:"+f, 1)
	}
	for id := 1; id <= n; id++ {
		mRunHistory(out, r, id)
	}
}

var mProbeSvcs = []string{"ns1/probe", "ns2/probe"}

func mRunHistory(out *vOut, r *rand.Rand, id int) {
	a := New(func(string) {})
	nsvc := 2 + r.Intn(4)
	svcs := gSvcNames[:nsvc]
	universe := append(append([]string{}, svcs...), mProbeSvcs...)
	nops := 10 + r.Intn(22)
	var steps []string
	var human []gOp
	var pools []gPool
	allPoolNames := map[string]bool{}
	reqs := map[string]*gReq{} // request that produced the current allocation
	failed := false
	fail := func(sig, what string) {
		out.Fail(sig, what, map[string]any{"history": human, "maps": mSnapshot(a).human(), "exported": mExported(a, universe)})
		failed = true
	}

	doOp := func(op gOp) (ok bool, opErr error) {
		var coqOp string
		var resIPs []net.IP
		var err error
		gotRes := false
		var svcObj *v1.Service
		if op.Req != nil {
			svcObj = gSvcObj(op.Svc, op.Req)
		}
		before, bbBefore := mSnapshot(a), mExported(a, universe)
		panicked := func() (p any) {
			defer func() { p = recover() }()
			switch op.Kind {
			case "setpools":
				for _, p := range op.Pools {
					allPoolNames[p.Name] = true
				}
				a.SetPools(gBuildPools(op.Pools))
				pools = op.Pools
				coqOp = cCtor("OSetPools", cPools(op.Pools))
				out.Stat("m_op_setpools", 1)
			case "unassign":
				a.Unassign(op.Svc)
				coqOp = cCtor("OUnassign", cNi(gNum(gN.svc, op.Svc)))
				out.Stat("m_op_unassign", 1)
			case "assign":
				var ips []net.IP
				for _, s := range op.IPs {
					ips = append(ips, net.ParseIP(s))
				}
				err = a.Assign(op.Svc, svcObj, ips, op.Req.Ports, op.Req.Sharing, op.Req.Backend)
				gotRes = true
				if err == nil {
					resIPs = ips
				}
				coqOp = cCtor("OAssign", cNi(gNum(gN.svc, op.Svc)), cReq(op.Req), cIPs(ips))
				out.Stat("m_op_assign", 1)
			case "allocate":
				resIPs, err = a.Allocate(op.Svc, svcObj, gFam(op.Req), op.Req.Ports, op.Req.Sharing, op.Req.Backend)
				gotRes = true
				choice := cNone
				if err == nil {
					choice = cSome(cPair(cNi(gNum(gN.pool, a.Pool(op.Svc))), cIPs(resIPs)))
				}
				coqOp = cCtor("OAllocate", cNi(gNum(gN.svc, op.Svc)), cReq(op.Req), choice)
				out.Stat("m_op_allocate", 1)
			case "frompool":
				resIPs, err = a.AllocateFromPool(op.Svc, svcObj, gFam(op.Req), op.Pool, op.Req.Ports, op.Req.Sharing, op.Req.Backend)
				gotRes = true
				choice := cNone
				if err == nil {
					choice = cSome(cIPs(resIPs))
				}
				coqOp = cCtor("OAllocateFromPool", cNi(gNum(gN.svc, op.Svc)), cReq(op.Req), cNi(gNum(gN.pool, op.Pool)), choice)
				out.Stat("m_op_frompool", 1)
			case "additional":
				have := net.ParseIP(op.IPs[0])
				var x net.IP
				x, err = a.AllocateFromPoolForAdditionalFamily(op.Svc, svcObj, have, op.Pool, op.Req.Ports, op.Req.Sharing, op.Req.Backend)
				gotRes = true
				choice := cNone
				if err == nil {
					resIPs = []net.IP{x}
					choice = cSome(cIP(x))
				}
				coqOp = cCtor("OAdditional", cNi(gNum(gN.svc, op.Svc)), cReq(op.Req), cIP(have), cNi(gNum(gN.pool, op.Pool)), choice)
				out.Stat("m_op_additional", 1)
			}
			return nil
		}()
		if gotRes && panicked == nil {
			if err != nil {
				op.Err = "error"
				out.Stat("m_res_error", 1)
			} else {
				op.ResIPs = gIPStrs(resIPs)
				out.Stat("m_res_ok", 1)
				reqs[op.Svc] = op.Req
			}
		}
		human = append(human, op)
		if panicked != nil {
			fail("allocmaps-panic", fmt.Sprintf("operation %d (%s %s) panicked: %v", len(human), op.Kind, op.Svc, panicked))
			return false, nil
		}
		bb := mExported(a, universe)
		for s := range reqs {
			if _, held := bb[s]; !held {
				delete(reqs, s)
			}
		}
		where := fmt.Sprintf("after operation %d (%s %s)", len(human), op.Kind, op.Svc)

		// ---- the recorded allocations: the allocator's own map when it can be read,
		// otherwise the exported view + the requests that produced the holdings
		got := mSnapshot(a)
		recs := got.Alloc
		if recs != nil {
			for _, s := range universe {
				al, in := recs[s]
				h, held := bb[s]
				if in != held || (in && (al.Pool != h.Pool || !reflect.DeepEqual(al.IPs, h.IPs))) {
					fail("allocmaps-allocated-vs-exported", fmt.Sprintf("%s: service %s: allocated holds %v, Pool()/IPs() report %v", where, s, al, h))
				}
			}
		} else {
			recs = map[string]mAlloc{}
			for s, h := range bb {
				if q := reqs[s]; q != nil {
					recs[s] = mAlloc{Pool: h.Pool, IPs: h.IPs, Ports: q.Ports, Key: [2]string{q.Sharing, q.Backend}}
				}
			}
		}
		// ---- oracle: memory = rebuild
		want, notes := mRebuild(recs)
		if which, d := mDiff(got, want); d != "" {
			fail("allocmaps-"+which+"-differs-from-rebuild", where+": "+d)
		}
		for _, n := range notes {
			fail("allocmaps-allocated-inconsistent", where+": "+n)
		}
		// a fresh allocator, the surviving allocations re-assigned in two different orders
		order := mSortedKeys(recs)
		for pass := 0; pass < 2 && !failed; pass++ {
			fa := mFresh(pools, recs, reqs, order)
			if fa == nil {
				out.Stat("m_fresh_not_admissible", 1)
				break
			}
			out.Stat("m_fresh_compared", 1)
			if _, d := mDiff(got, mSnapshot(fa)); d != "" {
				fail("allocmaps-fresh-allocator-differs", where+": long-running vs fresh allocator: "+d)
			}
			if !reflect.DeepEqual(bb, mExported(fa, universe)) {
				fail("allocmaps-fresh-allocator-differs", fmt.Sprintf("%s: long-running allocator reports %v, fresh one %v", where, bb, mExported(fa, universe)))
			}
			for i, j := 0, len(order)-1; i < j; i, j = i+1, j-1 {
				order[i], order[j] = order[j], order[i]
			}
		}
		// a failed operation changes nothing
		if gotRes && err != nil && !(reflect.DeepEqual(before, got) && reflect.DeepEqual(bbBefore, bb)) {
			fail("allocmaps-failed-op-changed-maps", fmt.Sprintf("operation %d (%s %s) failed but the allocator's memory changed", len(human), op.Kind, op.Svc))
		}
		// branch counters (of the history, independent of the code's bookkeeping)
		holders := map[string]int{}
		for _, h := range bb {
			for _, x := range h.IPs {
				holders[x]++
			}
		}
		for _, c := range holders {
			if c >= 2 {
				out.Stat("m_shared_address_states", 1)
				break
			}
		}

		// ---- observation for Coq
		resTerm := cNone
		if gotRes && err == nil {
			resTerm = cSome(cIPs(resIPs))
		}
		var ctrs []string
		for _, p := range mSortedKeys(allPoolNames) {
			c := a.CountersForPool(p)
			ctrs = append(ctrs, cPair(cNi(gNum(gN.pool, p)), cCtor("Build_counters", cZ(c.AssignedIPv4), cZ(c.AssignedIPv6), cZ(c.AvailableIPv4), cZ(c.AvailableIPv6))))
		}
		steps = append(steps, cPair(coqOp, cCtor("Build_mobs", resTerm, mDumpTerm(got, bb, ctrs))))
		return true, err
	}

	held := func() []string { return mSortedKeys(mExported(a, svcs)) }
	holderOf := func() (string, []net.IP) {
		hs := held()
		if len(hs) == 0 {
			return "", nil
		}
		h := hs[r.Intn(len(hs))]
		return h, a.IPs(h)
	}
	// a reservation probe through the exported behaviour: a probe service tries to
	// take an address (mostly one somebody holds) and gives it back
	probe := func() bool {
		ps := mProbeSvcs[r.Intn(len(mProbeSvcs))]
		pq := mGenReq(r, ps)
		univ := gAddrUniverse(pools)
		if len(univ) == 0 {
			return true
		}
		pip := univ[r.Intn(len(univ))]
		if h, hips := holderOf(); h != "" && len(hips) > 0 && r.Intn(4) != 0 {
			pip = hips[r.Intn(len(hips))].String()
			if hq := reqs[h]; hq != nil && r.Intn(2) == 0 {
				pq.Sharing, pq.Backend = hq.Sharing, hq.Backend
			}
		}
		out.Stat("m_probes", 1)
		ok, err := doOp(gOp{Kind: "assign", Svc: ps, Req: pq, IPs: []string{pip}})
		if !ok {
			return false
		}
		if err == nil {
			out.Stat("m_probe_accepted", 1)
			ok, _ = doOp(gOp{Kind: "unassign", Svc: ps})
		}
		return ok
	}

	if ok, _ := doOp(gOp{Kind: "setpools", Pools: gGenPools(r, false)}); !ok {
		return
	}
	for k := 0; k < nops && !failed; k++ {
		s := svcs[r.Intn(len(svcs))]
		q := mGenReq(r, s)
		univ := gAddrUniverse(pools)
		pick := func() string { return univ[r.Intn(len(univ))] }
		x := r.Intn(100)
		ok := true
		switch {
		case x < 22:
			ok, _ = doOp(gOp{Kind: "allocate", Svc: s, Req: q})
		case x < 44:
			ips := []string{pick()}
			if q.Fam == "dual" {
				ips = append(ips, pick())
			}
			if h, hips := holderOf(); h != "" && len(hips) > 0 && r.Intn(2) == 0 { // aim at an address somebody holds
				ips[0] = hips[r.Intn(len(hips))].String()
				if hq := reqs[h]; hq != nil && r.Intn(3) != 0 { // and at sharing it
					q.Sharing, q.Backend = hq.Sharing, hq.Backend
				}
			}
			if r.Intn(20) == 0 {
				ips = append(ips, pick(), pick())
			}
			ok, _ = doOp(gOp{Kind: "assign", Svc: s, Req: q, IPs: ips})
		case x < 54: // the service keeps its addresses and changes its key and/or ports
			if a.Pool(s) != "" {
				out.Stat("m_reassign_same_addresses", 1)
				ok, _ = doOp(gOp{Kind: "assign", Svc: s, Req: q, IPs: gIPStrs(a.IPs(s))})
			} else {
				ok, _ = doOp(gOp{Kind: "allocate", Svc: s, Req: q})
			}
		case x < 62:
			pn := gPoolNames[r.Intn(len(gPoolNames))]
			if len(pools) > 0 && r.Intn(4) != 0 {
				pn = pools[r.Intn(len(pools))].Name
			}
			ok, _ = doOp(gOp{Kind: "frompool", Svc: s, Req: q, Pool: pn})
		case x < 68:
			if ips := a.IPs(s); a.Pool(s) != "" && len(ips) == 1 && reqs[s] != nil {
				q2 := *reqs[s]
				q2.Pol, q2.Fam = "prefer", "dual"
				ok, _ = doOp(gOp{Kind: "additional", Svc: s, Req: &q2, IPs: []string{ips[0].String()}, Pool: a.Pool(s)})
			} else {
				ok, _ = doOp(gOp{Kind: "allocate", Svc: s, Req: q})
			}
		case x < 84:
			if a.Pool(s) != "" {
				out.Stat("m_unassign_of_holder", 1)
			}
			ok, _ = doOp(gOp{Kind: "unassign", Svc: s})
		default:
			np := gGenPools(r, false)
			if r.Intn(3) != 0 && len(pools) > 0 { // rename / regroup: same CIDRs under other names
				np = append([]gPool{}, pools...)
				perm := r.Perm(len(gPoolNames))
				for i := range np {
					np[i].Name = gPoolNames[perm[i]]
				}
				if len(np) > 1 && r.Intn(2) == 0 && len(np[0].CIDRs) > 1 { // move one CIDR to another pool
					c := np[0].CIDRs[0]
					np[0].CIDRs = append([]string{}, np[0].CIDRs[1:]...)
					np[1].CIDRs = append(append([]string{}, np[1].CIDRs...), c)
				}
				sort.Slice(np, func(i, j int) bool { return np[i].Name < np[j].Name })
				if len(held()) > 0 {
					out.Stat("m_rename_with_holders", 1)
				}
			}
			ok, _ = doOp(gOp{Kind: "setpools", Pools: np})
		}
		if ok && !failed && r.Intn(2) == 0 {
			ok = probe()
		}
		if !ok {
			return
		}
	}
	var univ []string
	for _, s := range universe {
		univ = append(univ, cNi(gNum(gN.svc, s)))
	}
	out.Case(id, "maps", cCtor("Build_mcase", cNi(id), cList(univ), cList(steps)), human)
}
