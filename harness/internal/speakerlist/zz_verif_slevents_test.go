//go:build verif

package speakerlist

// Harness part for C04 (group l2lock): "it has a live speaker".  The speakers learn that the
// set of live speakers changed from memberlist events; SpeakerList.memberlistWatchEvents turns each
// event into client.ForceSync(), which makes the reconcilers reprocess every Service with the
// CURRENT membership.  Statement: every membership event is followed by a sync that starts after
// the event was delivered (a sync that ran before it has read the old membership).  Events that are
// coalesced are fine as long as a sync follows the last one.
//
// No sockets: the REAL memberlistWatchEvents goroutine is fed through its event channel (what
// memberlist.ChannelEventDelegate writes to) and k8s.Client.ForceSync is a function field.

import (
	"fmt"
	"net"
	"sync/atomic"
	"testing"
	"time"

	"github.com/go-kit/log"
	"github.com/hashicorp/memberlist"

	"go.universe.tf/metallb/internal/k8s"
)

func TestVerifSpeakerListEvents(t *testing.T) {
	out := vOpen()
	defer out.Close()
	var syncs atomic.Int64
	stop := make(chan struct{})
	defer close(stop)
	sl := &SpeakerList{
		l:         log.NewNopLogger(),
		client:    &k8s.Client{ForceSync: func() { syncs.Add(1) }},
		stopCh:    stop,
		mlEventCh: make(chan memberlist.NodeEvent, 1024),
	}
	go sl.memberlistWatchEvents()
	var trace []string
	// deliver one event; a sync must START after the delivery, within 20 s (a sync forced earlier has
	// read the membership as it was before this event)
	deliver := func(kind memberlist.NodeEventType, node string) bool {
		before := syncs.Load()
		sl.mlEventCh <- memberlist.NodeEvent{Event: kind, Node: &memberlist.Node{Name: node, Addr: net.IPv4(10, 0, 0, 9)}}
		trace = append(trace, fmt.Sprintf("%s %s (syncs so far %d)", []string{"join", "leave", "update"}[kind], node, before))
		for i := 0; i < 4000; i++ {
			if syncs.Load() > before {
				return true
			}
			time.Sleep(5 * time.Millisecond)
		}
		return false
	}
	fail := func(what string) {
		out.Fail("speakerlist-event-without-sync", what, map[string]any{"events": trace,
			"how": "./check C04 (TestVerifSpeakerListEvents: the real memberlistWatchEvents fed through its event channel)"})
	}
	// a speaker joins, and 50 ms later another one leaves (a rollout, a flapping link): the second event
	// changes the set of live speakers again and needs its own (or a later) sync
	steps := []struct {
		kind  memberlist.NodeEventType
		node  string
		pause time.Duration
	}{
		{memberlist.NodeJoin, "node-b", 50 * time.Millisecond},
		{memberlist.NodeLeave, "node-c", 200 * time.Millisecond},
		{memberlist.NodeLeave, "node-b", 0},
		{memberlist.NodeJoin, "node-c", 600 * time.Millisecond},
		{memberlist.NodeUpdate, "node-c", 0},
	}
	for i, s := range steps {
		if !deliver(s.kind, s.node) {
			fail(fmt.Sprintf("membership event %d (%s %s) is not followed by a sync within 20 s (syncs forced so far: %d): the speakers keep electing among the speakers that were alive BEFORE it — a dead speaker stays a candidate, a new one is ignored",
				i+1, []string{"join", "leave", "update"}[s.kind], s.node, syncs.Load()))
			return
		}
		out.Stat("speakerlist_events_followed_by_sync", 1)
		time.Sleep(s.pause)
	}
}
