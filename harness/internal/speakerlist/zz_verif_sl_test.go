//go:build verif

package speakerlist

// Harness part for C04: "it has a live speaker (every known node when membership
// tracking is disabled)".  The layer-2 election takes its candidates from
// SpeakerList.UsableSpeakers(); this drives the REAL function over real
// memberlist instances on the loopback interface (1..3 members, members leaving)
// and checks it returns exactly the live members, and Disabled only when
// memberlist is off.

import (
	"fmt"
	"sort"
	"testing"
	"time"

	"github.com/go-kit/log"
	"github.com/hashicorp/memberlist"
)

func vMember(t *testing.T, name string) *memberlist.Memberlist {
	c := memberlist.DefaultLocalConfig()
	c.Name = name
	c.BindAddr = "127.0.0.1"
	c.BindPort = 0
	c.AdvertisePort = 0
	c.LogOutput = discard{}
	m, err := memberlist.Create(c)
	if err != nil {
		t.Skipf("cannot create a loopback memberlist: %v", err)
	}
	return m
}

type discard struct{}

func (discard) Write(p []byte) (int, error) { return len(p), nil }

func vNames(m *memberlist.Memberlist) []string {
	var out []string
	for _, n := range m.Members() {
		out = append(out, n.Name)
	}
	sort.Strings(out)
	return out
}

func vUsable(sl *SpeakerList) ([]string, bool) {
	info := sl.UsableSpeakers()
	var out []string
	for n, ok := range info.Nodes {
		if ok {
			out = append(out, n)
		}
	}
	sort.Strings(out)
	return out, info.Disabled
}

func TestVerifSpeakerList(t *testing.T) {
	out := vOpen()
	defer out.Close()
	check := func(what string, sl *SpeakerList, m *memberlist.Memberlist) {
		got, dis := vUsable(sl)
		want := vNames(m)
		out.Stat("speakerlist_evaluations", 1)
		if dis || fmt.Sprint(got) != fmt.Sprint(want) {
			out.Fail("speakerlist-usable-differs-from-members",
				fmt.Sprintf("%s: UsableSpeakers() = %v (Disabled=%v), live memberlist members are %v", what, got, dis, want),
				map[string]any{"scenario": what, "members": want, "usable": got, "disabled": dis})
		}
	}
	// memberlist off
	off := &SpeakerList{l: log.NewNopLogger(), disabled: true}
	if got, dis := vUsable(off); !dis || len(got) != 0 {
		out.Fail("speakerlist-disabled-wrong", fmt.Sprintf("memberlist off: UsableSpeakers() = %v Disabled=%v", got, dis), nil)
	}
	out.Stat("speakerlist_disabled_case", 1)
	// one live member: the last surviving speaker is the only candidate
	a := vMember(t, "node-a")
	defer a.Shutdown()
	sla := &SpeakerList{l: log.NewNopLogger(), ml: a}
	check("single live member", sla, a)
	out.Stat("speakerlist_single_member", 1)
	// two and three members
	b := vMember(t, "node-b")
	if _, err := b.Join([]string{fmt.Sprintf("127.0.0.1:%d", a.LocalNode().Port)}); err != nil {
		t.Skipf("join: %v", err)
	}
	c := vMember(t, "node-c")
	if _, err := c.Join([]string{fmt.Sprintf("127.0.0.1:%d", a.LocalNode().Port)}); err != nil {
		t.Skipf("join: %v", err)
	}
	deadline := time.Now().Add(5 * time.Second)
	for (a.NumMembers() < 3 || b.NumMembers() < 3 || c.NumMembers() < 3) && time.Now().Before(deadline) {
		time.Sleep(20 * time.Millisecond)
	}
	for nm, m := range map[string]*memberlist.Memberlist{"a": a, "b": b, "c": c} {
		check("three members, view of "+nm, &SpeakerList{l: log.NewNopLogger(), ml: m}, m)
	}
	out.Stat("speakerlist_three_members", 1)
	// members leave: back to a single survivor
	_ = b.Leave(time.Second)
	_ = b.Shutdown()
	_ = c.Leave(time.Second)
	_ = c.Shutdown()
	deadline = time.Now().Add(8 * time.Second)
	for a.NumMembers() > 1 && time.Now().Before(deadline) {
		time.Sleep(50 * time.Millisecond)
	}
	check(fmt.Sprintf("after two members left (%d left)", a.NumMembers()), sla, a)
	if a.NumMembers() == 1 {
		out.Stat("speakerlist_last_survivor", 1)
	}
}
