//go:build verif

package controllers

// Harness for C19, frr-k8s variant: runs the REAL `debouncer` of
// frrk8s_config_controller.go (no payload) with a small interval, serialised
// notifiers and a receiver on `out`; logs KS / KD (notification about to be
// sent / sent), KO (event received), KQ (quiet) under one mutex; the trace is
// validated against Model/Debounce.v (kstep) in Coq, and the property is
// evaluated directly: every notification is followed by an emitted event, no
// event without a notification, notifications inside one window give one event.

import (
	"fmt"
	"math/rand"
	"sync"
	"testing"
	"time"

	"sigs.k8s.io/controller-runtime/pkg/event"
)

type vKItem struct {
	K  string `json:"k"`
	At int64  `json:"at_us"`
}

type vKScenario struct {
	IntervalUs int     `json:"interval_us"`
	Scripts    [][]int `json:"scripts"` // delays in us before each notification
	RecvUs     []int   `json:"recv_us"` // receiver's delay before taking the k-th event
	Burst      int     `json:"burst"`
}

func vKGen(r *rand.Rand) vKScenario {
	sc := vKScenario{IntervalUs: 3000 + r.Intn(5000), Burst: 2 + r.Intn(4)}
	for s, ns := 0, 1+r.Intn(3); s < ns; s++ {
		var ds []int
		for i, n := 0, 1+r.Intn(6); i < n; i++ {
			switch r.Intn(4) {
			case 0:
				ds = append(ds, 0)
			case 1:
				ds = append(ds, r.Intn(800))
			case 2:
				ds = append(ds, r.Intn(2*sc.IntervalUs))
			default:
				ds = append(ds, sc.IntervalUs-300+r.Intn(600))
			}
		}
		sc.Scripts = append(sc.Scripts, ds)
	}
	for i := 0; i < 8; i++ {
		sc.RecvUs = append(sc.RecvUs, r.Intn(3)*r.Intn(1500))
	}
	return sc
}

type vKRun struct {
	mu, smu sync.Mutex
	t0      time.Time
	trace   []vKItem
	outs    int
	blocked bool
}

func (d *vKRun) add(k string) {
	d.trace = append(d.trace, vKItem{K: k, At: time.Since(d.t0).Microseconds()})
}

func (d *vKRun) notify(in chan struct{}) {
	d.smu.Lock()
	defer d.smu.Unlock()
	d.mu.Lock()
	d.add("KS")
	d.mu.Unlock()
	select {
	case in <- struct{}{}:
	case <-time.After(4 * time.Second):
		d.mu.Lock()
		d.blocked = true
		d.mu.Unlock()
		in <- struct{}{}
	}
	d.mu.Lock()
	d.add("KD")
	d.mu.Unlock()
}

// settled: an event was received after the last completed notification
func (d *vKRun) settled() bool {
	pending := false
	for _, it := range d.trace {
		switch it.K {
		case "KS":
			pending = true
		case "KO":
			pending = false
		}
	}
	return !pending
}

func (d *vKRun) quiet(calm, patience time.Duration) {
	deadline := time.Now().Add(patience)
	for {
		d.mu.Lock()
		ok := d.settled()
		var lastAt int64
		if n := len(d.trace); n > 0 {
			lastAt = d.trace[n-1].At
		}
		now := time.Since(d.t0).Microseconds()
		d.mu.Unlock()
		if (ok && time.Duration(now-lastAt)*time.Microsecond >= calm) || time.Now().After(deadline) {
			break
		}
		time.Sleep(calm / 4)
	}
	d.mu.Lock()
	d.add("KQ")
	d.mu.Unlock()
}

func vKRunScenario(sc vKScenario) (*vKRun, map[string]int) {
	d := &vKRun{t0: time.Now()}
	info := map[string]int{}
	in := make(chan struct{})
	out := make(chan event.GenericEvent)
	interval := time.Duration(sc.IntervalUs) * time.Microsecond
	debouncer(in, out, interval)
	defer close(in)
	stop := make(chan struct{})
	defer close(stop)
	go func() {
		k := 0
		for {
			if us := sc.RecvUs[k%len(sc.RecvUs)]; us > 0 {
				time.Sleep(time.Duration(us) * time.Microsecond)
			}
			select {
			case <-out:
				d.mu.Lock()
				d.outs++
				d.add("KO")
				d.mu.Unlock()
				k++
			case <-stop:
				return
			}
		}
	}()
	calm := 6*interval + 80*time.Millisecond // generous: a loaded machine delays timers by tens of ms
	patience := 6 * time.Second
	var wg sync.WaitGroup
	for _, ds := range sc.Scripts {
		wg.Add(1)
		go func(ds []int) {
			defer wg.Done()
			for _, us := range ds {
				if us > 0 {
					time.Sleep(time.Duration(us) * time.Microsecond)
				}
				d.notify(in)
			}
		}(ds)
	}
	wg.Wait()
	d.quiet(calm, patience)
	// burst inside one window
	d.mu.Lock()
	n0 := d.outs
	d.mu.Unlock()
	b0 := time.Now()
	for i := 0; i < sc.Burst; i++ {
		d.notify(in)
	}
	burst := time.Since(b0)
	d.quiet(calm, patience)
	d.mu.Lock()
	info["burst_outs"] = d.outs - n0
	if burst < interval/2 {
		info["burst_fast"] = 1
	}
	d.mu.Unlock()
	return d, info
}

func vKOracle(out *vOut, sc vKScenario, d *vKRun, info map[string]int) {
	replay := map[string]any{"scenario": sc, "trace": d.trace}
	if d.blocked {
		out.Fail("kdeb-notify-blocked", "a notification was not accepted within 4 s", replay)
	}
	started, outs := 0, 0
	pendingDone := false // a completed notification not yet followed by an event
	inflightKO := false  // an event was logged while the current notification was in flight (it may cover it)
	for i, it := range d.trace {
		switch it.K {
		case "KS":
			started++
			inflightKO = false
		case "KD":
			if !inflightKO {
				pendingDone = true
			}
		case "KO":
			outs++
			pendingDone = false
			inflightKO = true
			if outs > started {
				out.Fail("kdeb-spurious-event", fmt.Sprintf("trace item %d: %d events emitted after %d notifications", i, outs, started), replay)
				return
			}
		case "KQ":
			if pendingDone {
				out.Fail("kdeb-lost-notification", fmt.Sprintf("trace item %d: quiet, but the last notification was never followed by an event", i), replay)
				return
			}
		}
	}
	if info["burst_fast"] == 1 {
		out.Stat("burst_checked", 1)
		if info["burst_outs"] != 1 {
			out.Fail("kdeb-not-coalesced", fmt.Sprintf("%d notifications inside one window caused %d events", sc.Burst, info["burst_outs"]), replay)
		}
	}
}

func TestVerifKDeb(t *testing.T) {
	out := vOpen()
	defer out.Close()
	r := vRand()
	n := vN(40)
	scs := make([]vKScenario, n)
	for i := range scs {
		scs[i] = vKGen(r)
	}
	type res struct {
		d    *vKRun
		info map[string]int
	}
	results := make([]res, n)
	sem := make(chan struct{}, 12)
	var wg sync.WaitGroup
	for i := range scs {
		wg.Add(1)
		sem <- struct{}{}
		go func(i int) {
			defer wg.Done()
			d, info := vKRunScenario(scs[i])
			results[i] = res{d, info}
			<-sem
		}(i)
	}
	wg.Wait()
	for i, rs := range results {
		id := 1000 + i
		var it []string
		nks, nko, unlogged := 0, 0, 0
		open := false
		for _, x := range rs.d.trace {
			it = append(it, x.K)
			switch x.K {
			case "KS":
				nks++
				open = true
			case "KD":
				open = false
			case "KO":
				nko++
				if open {
					unlogged++
				}
			}
		}
		out.Case(id, "k8s-debouncer", cCtor("DK8s", cNi(id), cList(it)), map[string]any{"scenario": scs[i], "trace": rs.d.trace})
		vKOracle(out, scs[i], rs.d, rs.info)
		out.Stat("ktraces", 1)
		out.Stat("notifications", nks)
		out.Stat("events", nko)
		out.Stat("events_logged_while_notify_in_flight", unlogged)
		if nko < nks {
			out.Stat("ktraces_with_coalescing", 1)
		}
	}
}
