//go:build verif

package controllers

// Harness for C19, frr-k8s variant: runs the REAL `debouncer` of
// frrk8s_config_controller.go (no payload) with a small interval, serialised
// notifiers and a receiver on `out`; logs KS / KD (notification about to be
// sent / sent), KO (event received), KQ (quiet) under one mutex; the trace is
// validated against Model/Debounce.v (kstep) in Coq, and the property is
// evaluated directly: every notification is followed by an emitted event, no
// event without a notification, notifications inside one window give one event.

import (
	"context"
	"encoding/json"
	"fmt"
	"math/rand"
	"sync"
	"testing"
	"time"

	"github.com/go-kit/log"
	frrv1beta1 "github.com/metallb/frr-k8s/api/v1beta1"
	frrk8s "go.universe.tf/metallb/internal/bgp/frrk8s"
	"go.universe.tf/metallb/internal/logging"
	metav1 "k8s.io/apimachinery/pkg/apis/meta/v1"
	"k8s.io/apimachinery/pkg/runtime"
	"k8s.io/apimachinery/pkg/types"
	ctrl "sigs.k8s.io/controller-runtime"
	"sigs.k8s.io/controller-runtime/pkg/client/fake"
	"sigs.k8s.io/controller-runtime/pkg/event"
)

type vKItem struct {
	K  string `json:"k"`
	At int64  `json:"at_us"`
}

type vKScenario struct {
	IntervalUs int     `json:"interval_us"`
	Scripts    [][]int `json:"scripts"` // delays in us before each notification
	RecvUs     []int   `json:"recv_us"` // receiver's delay before taking the k-th event
	Burst      int     `json:"burst"`
	// Stream > 0: first of all Stream notifications StreamGapUs (< IntervalUs) apart (the frr-k8s session manager
	// notifies on EVERY NewSession / Set / Close): events must keep coming during the stream
	Stream      int `json:"stream"`
	StreamGapUs int `json:"stream_gap_us"`
}

func vKGen(r *rand.Rand) vKScenario {
	sc := vKScenario{IntervalUs: 3000 + r.Intn(5000), Burst: 2 + r.Intn(4)}
	for s, ns := 0, 1+r.Intn(3); s < ns; s++ {
		var ds []int
		for i, n := 0, 1+r.Intn(6); i < n; i++ {
			switch r.Intn(4) {
			case 0:
				ds = append(ds, 0)
			case 1:
				ds = append(ds, r.Intn(800))
			case 2:
				ds = append(ds, r.Intn(2*sc.IntervalUs))
			default:
				ds = append(ds, sc.IntervalUs-300+r.Intn(600))
			}
		}
		sc.Scripts = append(sc.Scripts, ds)
	}
	// the consumer of `out`: RecvUs[0] is its start delay, RecvUs[k] how long it is busy after the k-th event;
	// sometimes longer than the debounce interval, so that the timer fires while nobody is receiving
	for i := 0; i < 8; i++ {
		switch r.Intn(5) {
		case 0:
			sc.RecvUs = append(sc.RecvUs, 0)
		case 1, 2:
			sc.RecvUs = append(sc.RecvUs, r.Intn(1500))
		case 3:
			sc.RecvUs = append(sc.RecvUs, sc.IntervalUs+r.Intn(sc.IntervalUs))
		default:
			sc.RecvUs = append(sc.RecvUs, r.Intn(2*sc.IntervalUs))
		}
	}
	return sc
}

type vKRun struct {
	mu, smu sync.Mutex
	t0      time.Time
	trace   []vKItem
	outs    int
	blocked bool
}

func (d *vKRun) add(k string) {
	d.trace = append(d.trace, vKItem{K: k, At: time.Since(d.t0).Microseconds()})
}

func (d *vKRun) notify(in chan struct{}) {
	d.smu.Lock()
	defer d.smu.Unlock()
	d.mu.Lock()
	d.add("KS")
	d.mu.Unlock()
	select {
	case in <- struct{}{}:
	case <-time.After(4 * time.Second):
		d.mu.Lock()
		d.blocked = true
		d.mu.Unlock()
		in <- struct{}{}
	}
	d.mu.Lock()
	d.add("KD")
	d.mu.Unlock()
}

// settled: an event was received after the last completed notification
func (d *vKRun) settled() bool {
	pending := false
	for _, it := range d.trace {
		switch it.K {
		case "KS":
			pending = true
		case "KO":
			pending = false
		}
	}
	return !pending
}

func (d *vKRun) quiet(calm, patience time.Duration) {
	deadline := time.Now().Add(patience)
	for {
		d.mu.Lock()
		ok := d.settled()
		var lastAt int64
		if n := len(d.trace); n > 0 {
			lastAt = d.trace[n-1].At
		}
		now := time.Since(d.t0).Microseconds()
		d.mu.Unlock()
		if (ok && time.Duration(now-lastAt)*time.Microsecond >= calm) || time.Now().After(deadline) {
			break
		}
		time.Sleep(calm / 4)
	}
	d.mu.Lock()
	d.add("KQ")
	d.mu.Unlock()
}

func vKRunScenario(sc vKScenario) (*vKRun, map[string]int) {
	d := &vKRun{t0: time.Now()}
	info := map[string]int{}
	in := make(chan struct{})
	out := make(chan event.GenericEvent)
	interval := time.Duration(sc.IntervalUs) * time.Microsecond
	debouncer(in, out, interval)
	defer close(in)
	stop := make(chan struct{})
	defer close(stop)
	go func() {
		k := 0
		for {
			if us := sc.RecvUs[k%len(sc.RecvUs)]; us > 0 {
				time.Sleep(time.Duration(us) * time.Microsecond)
			}
			select {
			case <-out:
				d.mu.Lock()
				d.outs++
				d.add("KO")
				d.mu.Unlock()
				k++
			case <-stop:
				return
			}
		}
	}()
	calm := 6*interval + 80*time.Millisecond // generous: a loaded machine delays timers by tens of ms
	patience := 6 * time.Second
	if sc.Stream > 0 {
		for i := 0; i < sc.Stream; i++ {
			time.Sleep(time.Duration(sc.StreamGapUs) * time.Microsecond)
			d.notify(in)
		}
		d.quiet(calm, patience)
	}
	var wg sync.WaitGroup
	for _, ds := range sc.Scripts {
		wg.Add(1)
		go func(ds []int) {
			defer wg.Done()
			for _, us := range ds {
				if us > 0 {
					time.Sleep(time.Duration(us) * time.Microsecond)
				}
				d.notify(in)
			}
		}(ds)
	}
	wg.Wait()
	d.quiet(calm, patience)
	// burst inside one window
	d.mu.Lock()
	n0 := d.outs
	d.mu.Unlock()
	b0 := time.Now()
	for i := 0; i < sc.Burst; i++ {
		d.notify(in)
	}
	burst := time.Since(b0)
	d.quiet(calm, patience)
	d.mu.Lock()
	info["burst_outs"] = d.outs - n0
	if burst < interval/2 {
		info["burst_fast"] = 1
	}
	d.mu.Unlock()
	return d, info
}

func vKOracle(out *vOut, sc vKScenario, d *vKRun, info map[string]int) {
	replay := map[string]any{"scenario": sc, "trace": d.trace}
	if d.blocked {
		out.Fail("kdeb-notify-blocked", "a notification was not accepted within 4 s", replay)
	}
	started, outs := 0, 0
	pendingDone := false // a completed notification not yet followed by an event
	inflightKO := false  // an event was logged while the current notification was in flight (it may cover it)
	for i, it := range d.trace {
		switch it.K {
		case "KS":
			started++
			inflightKO = false
		case "KD":
			if !inflightKO {
				pendingDone = true
			}
		case "KO":
			outs++
			pendingDone = false
			inflightKO = true
			if outs > started {
				out.Fail("kdeb-spurious-event", fmt.Sprintf("trace item %d: %d events emitted after %d notifications", i, outs, started), replay)
				return
			}
		case "KQ":
			if pendingDone {
				out.Fail("kdeb-lost-notification", fmt.Sprintf("trace item %d: quiet, but the last notification was never followed by an event", i), replay)
				return
			}
		}
	}
	// the event owed to a notification is not pushed back by further notifications (C19_k8s_debounce_not_postponed):
	// no run of >= 40 accepted notifications, spread over more than 3 debounce intervals plus the consumer's longest
	// busy period, without a single event
	{
		busy := int64(0)
		for _, us := range sc.RecvUs {
			if int64(us) > busy {
				busy = int64(us)
			}
		}
		lim := 3*int64(sc.IntervalUs) + busy
		cnt := 0
		since := int64(-1)
		for i, it := range d.trace {
			switch it.K {
			case "KO":
				cnt, since = 0, -1
			case "KD":
				if since < 0 {
					since = it.At
				}
				cnt++
				if cnt >= 40 && it.At-since > lim {
					out.Fail("kdeb-starved-by-notifications", fmt.Sprintf("trace item %d: %d notifications were accepted over %d us (debounce interval %d us) and no event was emitted: notifications keep pushing the pending event back",
						i, cnt, it.At-since, sc.IntervalUs), replay)
					return
				}
			}
		}
	}
	if sc.Stream > 0 {
		out.Stat("kstream_scenarios", 1)
	}
	if info["burst_fast"] == 1 {
		out.Stat("burst_checked", 1)
		if info["burst_outs"] != 1 {
			out.Fail("kdeb-not-coalesced", fmt.Sprintf("%d notifications inside one window caused %d events", sc.Burst, info["burst_outs"]), replay)
		}
	}
}

func TestVerifKDeb(t *testing.T) {
	out := vOpen()
	defer out.Close()
	r := vRand()
	n := vN(40)
	scs := make([]vKScenario, n)
	for i := range scs {
		scs[i] = vKGen(r)
	}
	if n >= 3 { // a steady stream of notifications closer together than the debounce interval
		scs[0] = vKScenario{IntervalUs: 40000, Scripts: [][]int{{0}}, RecvUs: []int{0}, Burst: 3, Stream: 110, StreamGapUs: 5000}
		scs[1] = vKScenario{IntervalUs: 30000, Scripts: [][]int{{0, 100}}, RecvUs: []int{0, 2000}, Burst: 2, Stream: 110, StreamGapUs: 4000}
	}
	type res struct {
		d    *vKRun
		info map[string]int
	}
	results := make([]res, n)
	sem := make(chan struct{}, 12)
	var wg sync.WaitGroup
	for i := range scs {
		wg.Add(1)
		sem <- struct{}{}
		go func(i int) {
			defer wg.Done()
			d, info := vKRunScenario(scs[i])
			results[i] = res{d, info}
			<-sem
		}(i)
	}
	wg.Wait()
	for i, rs := range results {
		id := 1000 + i
		var it []string
		nks, nko, unlogged := 0, 0, 0
		open := false
		for _, x := range rs.d.trace {
			it = append(it, x.K)
			switch x.K {
			case "KS":
				nks++
				open = true
			case "KD":
				open = false
			case "KO":
				nko++
				if open {
					unlogged++
				}
			}
		}
		out.Case(id, "k8s-debouncer", cCtor("DK8s", cNi(id), cList(it)), map[string]any{"scenario": scs[i], "trace": rs.d.trace})
		vKOracle(out, scs[i], rs.d, rs.info)
		out.Stat("ktraces", 1)
		out.Stat("notifications", nks)
		out.Stat("events", nko)
		out.Stat("events_logged_while_notify_in_flight", unlogged)
		if nko < nks {
			out.Stat("ktraces_with_coalescing", 1)
		}
	}
}

// ---------------------------------------------------------------------------
// Delivery end to end: the REAL FRRK8sReconciler.UpdateConfig -> its
// configChangedChan -> the REAL debouncer -> reconcileChan -> a consumer that
// plays controller-runtime's channel source (starts late / is busy between
// events) and a worker that runs the REAL Reconcile against a fake API server.
// Property (C19 statement): eventually (bounded wait) the FRRConfiguration in
// the API is the LAST submitted one.

type vKDelSchedule struct {
	IntervalUs int   `json:"interval_us"`
	StartUs    int   `json:"start_us"` // the consumer starts receiving this late
	BusyUs     []int `json:"busy_us"`  // busy time after the k-th event
	SubmitUs   []int `json:"submit_us"`
	// shape of the k-th submitted configuration: 0 = a router with a neighbor, prefixes and a BFD profile,
	// 1 = the same router with everything withdrawn, 2 = no router at all (every peer closed)
	Shapes []int `json:"shapes"`
	// content of the k-th submitted configuration (shape 0): equal ids = equal configurations, so that a
	// configuration which is already applied is submitted again while another one is still pending (A, B, A)
	Ids []int `json:"ids"`
}

func vKDelGen(r *rand.Rand) vKDelSchedule {
	sc := vKDelSchedule{IntervalUs: 3000 + r.Intn(4000)}
	switch r.Intn(3) {
	case 0:
		sc.StartUs = 0
	case 1:
		sc.StartUs = sc.IntervalUs + 2000 + r.Intn(4000) // not receiving yet when the first timer fires
	default:
		sc.StartUs = r.Intn(2 * sc.IntervalUs)
	}
	for i := 0; i < 6; i++ {
		if r.Intn(2) == 0 {
			sc.BusyUs = append(sc.BusyUs, sc.IntervalUs+r.Intn(2*sc.IntervalUs))
		} else {
			sc.BusyUs = append(sc.BusyUs, r.Intn(1000))
		}
	}
	for i, n := 0, 1+r.Intn(6); i < n; i++ {
		switch r.Intn(3) {
		case 0:
			sc.SubmitUs = append(sc.SubmitUs, 0) // burst
		case 1:
			sc.SubmitUs = append(sc.SubmitUs, r.Intn(sc.IntervalUs))
		default:
			sc.SubmitUs = append(sc.SubmitUs, sc.IntervalUs+r.Intn(2*sc.IntervalUs))
		}
	}
	for range sc.SubmitUs {
		sc.Shapes = append(sc.Shapes, []int{0, 0, 1, 2}[r.Intn(4)])
	}
	if n := len(sc.Shapes); n >= 2 && r.Intn(2) == 0 { // ends with a shrink: something, then (almost) nothing
		sc.Shapes[n-2] = 0
		sc.Shapes[n-1] = 1 + r.Intn(2)
	}
	if len(sc.Shapes) > 0 {
		sc.Shapes[0] = 0
	}
	for k := range sc.SubmitUs {
		if r.Intn(2) == 0 {
			sc.Ids = append(sc.Ids, r.Intn(2)) // small alphabet: an earlier configuration comes back
		} else {
			sc.Ids = append(sc.Ids, 10+k)
		}
	}
	if n := len(sc.SubmitUs); n >= 3 && r.Intn(2) == 0 {
		// A is applied (long gap, consumer idle), then B and, inside B's window, A again
		sc.StartUs = 0
		sc.BusyUs = []int{0}
		sc.SubmitUs[n-2] = 5*sc.IntervalUs + 10000
		sc.SubmitUs[n-1] = r.Intn(sc.IntervalUs / 2)
		sc.Shapes[n-3], sc.Shapes[n-2], sc.Shapes[n-1] = 0, []int{0, 1, 2}[r.Intn(3)], 0
		sc.Ids[n-3], sc.Ids[n-2], sc.Ids[n-1] = 0, 1, 0
	}
	return sc
}

func TestVerifKDeliver(t *testing.T) {
	out := vOpen()
	defer out.Close()
	r := vRand()
	n := vN(24)
	const node, ns = "node-a", "frr-k8s-system"
	scs := []vKDelSchedule{{IntervalUs: 4000, StartUs: 9000, BusyUs: []int{0}, SubmitUs: []int{0}, Shapes: []int{0}}, // consumer starts after the timer fired
		{IntervalUs: 3000, StartUs: 0, BusyUs: []int{0}, SubmitUs: []int{0, 9000}, Shapes: []int{0, 2}}, // advertise, later close everything
		{IntervalUs: 3000, StartUs: 0, BusyUs: []int{0}, SubmitUs: []int{0, 9000}, Shapes: []int{0, 1}}, // advertise, later withdraw everything
		// A applied; B and, before B was reconciled, A again (a prefix withdrawn and re-added quickly)
		{IntervalUs: 6000, StartUs: 0, BusyUs: []int{0}, SubmitUs: []int{0, 40000, 500}, Shapes: []int{0, 0, 0}, Ids: []int{0, 1, 0}},
		{IntervalUs: 6000, StartUs: 0, BusyUs: []int{0}, SubmitUs: []int{0, 40000, 500}, Shapes: []int{0, 1, 0}, Ids: []int{0, 1, 0}}}
	for len(scs) < n {
		scs = append(scs, vKDelGen(r))
	}
	var wg sync.WaitGroup
	sem := make(chan struct{}, 8)
	var omu sync.Mutex
	for si, sc := range scs {
		wg.Add(1)
		sem <- struct{}{}
		go func(si int, sc vKDelSchedule) {
			defer wg.Done()
			defer func() { <-sem }()
			scheme := runtime.NewScheme()
			if err := frrv1beta1.AddToScheme(scheme); err != nil {
				panic(err)
			}
			cl := fake.NewClientBuilder().WithScheme(scheme).Build()
			rec := &FRRK8sReconciler{Client: cl, Logger: log.NewNopLogger(), LogLevel: logging.LevelInfo, Scheme: scheme, NodeName: node,
				FRRK8sNamespace: ns, configChangedChan: make(chan struct{}), reconcileChan: make(chan event.GenericEvent)}
			debouncer(rec.configChangedChan, rec.reconcileChan, time.Duration(sc.IntervalUs)*time.Microsecond)
			key := types.NamespacedName{Name: frrk8s.ConfigName(node), Namespace: ns}
			stop := make(chan struct{})
			dirty := make(chan struct{}, 1)
			events := 0
			var emu sync.Mutex
			go func() { // the channel source
				time.Sleep(time.Duration(sc.StartUs) * time.Microsecond)
				for k := 0; ; k++ {
					select {
					case <-rec.reconcileChan:
						emu.Lock()
						events++
						emu.Unlock()
						select {
						case dirty <- struct{}{}:
						default:
						}
						if us := sc.BusyUs[k%len(sc.BusyUs)]; us > 0 {
							time.Sleep(time.Duration(us) * time.Microsecond)
						}
					case <-stop:
						return
					}
				}
			}()
			go func() { // the worker
				for {
					select {
					case <-dirty:
						_, _ = rec.Reconcile(context.TODO(), ctrl.Request{NamespacedName: key})
					case <-stop:
						return
					}
				}
			}()
			mk := func(k int) frrv1beta1.FRRConfiguration {
				c := frrv1beta1.FRRConfiguration{ObjectMeta: metav1.ObjectMeta{Name: key.Name, Namespace: ns}}
				shape := sc.Shapes[k]
				if k < len(sc.Ids) {
					k = sc.Ids[k]
				}
				switch shape {
				case 0:
					rx := uint32(100 + k)
					c.Spec.BGP.Routers = []frrv1beta1.Router{{ASN: 64512, ID: "10.0.0.1", Prefixes: []string{fmt.Sprintf("192.0.2.%d/32", k)},
						Neighbors: []frrv1beta1.Neighbor{{Address: "10.2.2.254", ASN: 200, Password: fmt.Sprintf("pw%d", k), EBGPMultiHop: true, BFDProfile: "p",
							ToAdvertise: frrv1beta1.Advertise{Allowed: frrv1beta1.AllowedOutPrefixes{Prefixes: []string{fmt.Sprintf("192.0.2.%d/32", k)}}}}}}}
					c.Spec.BGP.BFDProfiles = []frrv1beta1.BFDProfile{{Name: "p", ReceiveInterval: &rx}}
				case 1:
					c.Spec.BGP.Routers = []frrv1beta1.Router{{ASN: 64512, ID: "10.0.0.1", Neighbors: []frrv1beta1.Neighbor{{Address: "10.2.2.254", ASN: 200}}}}
				}
				return c
			}
			blocked := false
			for k, us := range sc.SubmitUs {
				if us > 0 {
					time.Sleep(time.Duration(us) * time.Microsecond)
				}
				done := make(chan struct{})
				go func() { rec.UpdateConfig(mk(k)); close(done) }()
				select {
				case <-done:
				case <-time.After(5 * time.Second):
					blocked = true
				}
				if blocked {
					break
				}
			}
			last := mk(len(sc.SubmitUs) - 1)
			want, _ := json.Marshal(last.Spec)
			var got []byte
			deadline := time.Now().Add(3 * time.Second)
			delivered := false
			read := func() bool {
				cur := frrv1beta1.FRRConfiguration{}
				// no object at all denotes the same as an object with an empty Spec (Reconcile does not create an
				// empty configuration when none exists)
				_ = cl.Get(context.TODO(), key, &cur)
				got, _ = json.Marshal(cur.Spec)
				return string(got) == string(want)
			}
			// "delivered" = the API holds the last submitted configuration AND still does after every pending
			// timer / busy period has run out (an OLDER pending configuration must not be applied over it)
			settle := 3 * time.Duration(sc.IntervalUs) * time.Microsecond
			for _, us := range sc.BusyUs {
				if d := time.Duration(us) * time.Microsecond; d > settle {
					settle = d
				}
			}
			settle += time.Duration(sc.StartUs)*time.Microsecond + 40*time.Millisecond
			for !blocked && !delivered && time.Now().Before(deadline) {
				if read() {
					time.Sleep(settle)
					delivered = read()
				}
				if !delivered {
					time.Sleep(2 * time.Millisecond)
				}
			}
			close(stop)
			emu.Lock()
			ev := events
			emu.Unlock()
			omu.Lock()
			defer omu.Unlock()
			out.Stat("deliver_schedules", 1)
			out.Stat("deliver_submissions", len(sc.SubmitUs))
			out.Stat("deliver_events", ev)
			if n := len(sc.Shapes); n >= 2 && sc.Shapes[n-1] != 0 {
				out.Stat("deliver_ends_with_shrink", 1)
			}
			if sc.StartUs > sc.IntervalUs {
				out.Stat("deliver_consumer_starts_after_first_timer", 1)
			}
			if n := len(sc.Ids); n >= 3 && sc.Ids[n-1] == sc.Ids[n-3] && sc.Ids[n-1] != sc.Ids[n-2] && sc.Shapes[n-1] == 0 && sc.Shapes[n-3] == 0 &&
				sc.SubmitUs[n-1] < sc.IntervalUs && sc.SubmitUs[n-2] > 3*sc.IntervalUs {
				out.Stat("deliver_applied_config_resubmitted_while_other_pending", 1)
			}
			if blocked {
				out.Fail("kdeb-update-blocked", fmt.Sprintf("schedule %d: UpdateConfig did not return within 5 s", si), sc)
			} else if !delivered {
				out.Fail("kdeb-config-not-delivered", fmt.Sprintf("schedule %d: 3 s after the last UpdateConfig the FRRConfiguration in the API is not (or, once every pending timer ran out, no longer) the last submitted one (%d reconcile events reached the consumer; in API: %s)",
					si, ev, string(got)), sc)
			}
		}(si, sc)
	}
	wg.Wait()
}
