//go:build verif

package controllers

// Harness for C15, reconciler part: the REAL frrk8s session manager hands its
// FRRConfiguration to the REAL FRRK8sReconciler.UpdateConfig; Reconcile runs
// several times against a fake API server, at info and at debug log level,
// without and with intervening updates.  Property (from the statement): the
// FRRConfiguration handed to frr-k8s - the object in the API - is what the
// session manager produced for the current sessions, every time (session
// parameters, password XOR secret reference, prefixes).  The object after the
// last Reconcile is also shipped to Coq / the Python oracle like the callback
// captures of internal/bgp/frrk8s.

import (
	"context"
	"encoding/json"
	"fmt"
	"sync"
	"testing"
	"time"

	"github.com/go-kit/log"
	frrv1beta1 "github.com/metallb/frr-k8s/api/v1beta1"
	"go.universe.tf/metallb/internal/bgp"
	metallbconfig "go.universe.tf/metallb/internal/config"
	metav1 "k8s.io/apimachinery/pkg/apis/meta/v1"
	frrk8s "go.universe.tf/metallb/internal/bgp/frrk8s"
	"go.universe.tf/metallb/internal/logging"
	"k8s.io/apimachinery/pkg/runtime"
	"k8s.io/apimachinery/pkg/types"
	ctrl "sigs.k8s.io/controller-runtime"
	"sigs.k8s.io/controller-runtime/pkg/client/fake"
	"sigs.k8s.io/controller-runtime/pkg/event"
)

func vRecSpecJSON(c *frrv1beta1.FRRConfiguration) string {
	if c == nil {
		c = &frrv1beta1.FRRConfiguration{}
	}
	b, err := json.Marshal(c.Spec)
	if err != nil {
		panic(err)
	}
	return string(b)
}

func TestVerifK8sRec(t *testing.T) {
	out := vOpen()
	defer out.Close()
	r := vRand()
	n := vN(40)
	const ns = "frr-k8s-system"
	nodes := []string{"node-a", "worker-1"}
	for id := 1; id <= n; id++ {
		ss := vGenSessions(r, false)
		// passwords and secret references (never both: updateConfig refuses that, covered elsewhere)
		for i := range ss {
			switch r.Intn(3) {
			case 0:
				ss[i].Password, ss[i].SecretN, ss[i].SecretNS = []string{"s3cr3t", "password"}[r.Intn(2)], "", ""
			case 1:
				ss[i].Password, ss[i].SecretN, ss[i].SecretNS = "", "bgp-secret", "metallb-system"
			default:
				ss[i].Password, ss[i].SecretN, ss[i].SecretNS = "", "", ""
			}
		}
		node := nodes[r.Intn(len(nodes))]
		var lvl logging.Level = logging.LevelDebug
		if id%4 == 0 {
			lvl = logging.LevelInfo
		}
		scheme := runtime.NewScheme()
		if err := frrv1beta1.AddToScheme(scheme); err != nil {
			t.Fatal(err)
		}
		cl := fake.NewClientBuilder().WithScheme(scheme).Build()
		rec := &FRRK8sReconciler{Client: cl, Logger: log.NewNopLogger(), LogLevel: lvl, Scheme: scheme, NodeName: node,
			FRRK8sNamespace: ns, configChangedChan: make(chan struct{}, 4096)}
		sm := frrk8s.NewSessionManager(log.NewNopLogger(), lvl, node, ns)
		var produced *frrv1beta1.FRRConfiguration
		sm.SetEventCallback(func(c interface{}) {
			cfg := c.(frrv1beta1.FRRConfiguration)
			produced = cfg.DeepCopy() // what the session manager produced, before anybody else touches it
			rec.UpdateConfig(c)
		})
		key := types.NamespacedName{Name: frrk8s.ConfigName(node), Namespace: ns}
		req := ctrl.Request{NamespacedName: key}
		bad := false
		reconcile := func(step string, times int) {
			for k := 1; k <= times && !bad; k++ {
				if _, err := rec.Reconcile(context.TODO(), req); err != nil {
					out.Fail("k8s-reconcile-error", fmt.Sprintf("%s, reconcile %d: %v", step, k, err), map[string]any{"sessions": ss})
					bad = true
					return
				}
				got := frrv1beta1.FRRConfiguration{}
				if err := cl.Get(context.TODO(), key, &got); err != nil {
					out.Fail("k8s-reconciled-missing", fmt.Sprintf("%s, reconcile %d: no FRRConfiguration in the API: %v", step, k, err), map[string]any{"sessions": ss})
					bad = true
					return
				}
				if a, b := vRecSpecJSON(&got), vRecSpecJSON(produced); a != b {
					out.Fail("k8s-reconciled-differs-from-produced",
						fmt.Sprintf("%s, reconcile %d at log level %s: the FRRConfiguration in the API differs from what the session manager produced", step, k, lvl),
						map[string]any{"sessions": ss, "node": node, "level": string(lvl), "in_api": json.RawMessage(a), "produced": json.RawMessage(b)})
					bad = true
				}
			}
		}
		out.Stat("reconciled_cases", 1)
		if lvl == logging.LevelDebug {
			out.Stat("reconciled_at_debug", 1)
		}
		for _, s := range ss {
			if s.Password != "" {
				out.Stat("reconciled_with_password", 1)
			}
			if s.SecretN != "" {
				out.Stat("reconciled_with_secret_ref", 1)
			}
		}
		sessions := make([]bgp.Session, len(ss))
		for i, s := range ss {
			se, err := sm.NewSession(log.NewNopLogger(), vParams(s))
			if err != nil {
				out.Fail("k8s-history-api-error", fmt.Sprintf("NewSession: %v", err), map[string]any{"sessions": ss})
				bad = true
				break
			}
			sessions[i] = se
			if err := se.Set(vAdvertisements(s)...); err != nil {
				out.Fail("k8s-history-api-error", fmt.Sprintf("Set: %v", err), map[string]any{"sessions": ss})
				bad = true
				break
			}
		}
		if bad || produced == nil {
			continue
		}
		// the debounced change, then the watch events of the reconciler's own write: same desired configuration
		reconcile("after the initial sessions", 3)
		// an update, then again several reconciles
		if len(ss) > 0 && !bad {
			i := r.Intn(len(ss))
			ss[i].Advs = vGenAdvs(r, false)
			if err := sessions[i].Set(vAdvertisements(ss[i])...); err == nil {
				reconcile("after a Set", 2+r.Intn(2))
			}
		}
		if bad {
			continue
		}
		got := frrv1beta1.FRRConfiguration{}
		if err := cl.Get(context.TODO(), key, &got); err != nil {
			continue
		}
		perm := vPermute(r, ss)
		out.Case(20000+id, "frrk8s-reconciled", cPair(cSessList(ss), cSessList(perm)),
			map[string]any{"sessions": ss, "node": node, "ok": true, "cfg": vKProject(got), "level": string(lvl)})

		// ---- successive desired configurations that differ in ONE field at a time, shrinking to empty and back;
		// after each: the Spec in the API must be the desired Spec
		desired := produced.DeepCopy()
		saved := produced.DeepCopy()
		nmut := 0
		apply := func(what string, mut func(c *frrv1beta1.FRRConfiguration)) {
			if bad {
				return
			}
			next := desired.DeepCopy()
			mut(next)
			if vRecSpecJSON(next) == vRecSpecJSON(desired) {
				return // nothing to change in this configuration
			}
			desired = next
			rec.UpdateConfig(*next.DeepCopy())
			nmut++
			for k := 1; k <= 2 && !bad; k++ {
				if _, err := rec.Reconcile(context.TODO(), req); err != nil {
					out.Fail("k8s-reconcile-error", fmt.Sprintf("after %s, reconcile %d: %v", what, k, err), map[string]any{"sessions": ss})
					bad = true
					return
				}
				cur := frrv1beta1.FRRConfiguration{}
				_ = cl.Get(context.TODO(), key, &cur)
				if a, b := vRecSpecJSON(&cur), vRecSpecJSON(desired); a != b {
					out.Fail("k8s-reconciled-differs-from-desired",
						fmt.Sprintf("after a change of %s only, reconcile %d at log level %s: the FRRConfiguration in the API is not the desired one", what, k, lvl),
						map[string]any{"sessions": ss, "node": node, "change": what, "in_api": json.RawMessage(a), "desired": json.RawMessage(b)})
					bad = true
				}
			}
		}
		nb := func(c *frrv1beta1.FRRConfiguration) *frrv1beta1.Neighbor {
			for i := range c.Spec.BGP.Routers {
				if len(c.Spec.BGP.Routers[i].Neighbors) > 0 {
					return &c.Spec.BGP.Routers[i].Neighbors[0]
				}
			}
			return nil
		}
		onNb := func(what string, f func(n *frrv1beta1.Neighbor)) {
			apply(what, func(c *frrv1beta1.FRRConfiguration) {
				if n := nb(c); n != nil {
					f(n)
				}
			})
		}
		dur := func(sec int) *metav1.Duration { return &metav1.Duration{Duration: time.Duration(sec) * time.Second} }
		onNb("the password (rotated)", func(n *frrv1beta1.Neighbor) { n.Password, n.PasswordSecret = "rotated-"+n.Password, frrv1beta1.SecretReference{} })
		onNb("the password (removed)", func(n *frrv1beta1.Neighbor) { n.Password = "" })
		onNb("the password (added)", func(n *frrv1beta1.Neighbor) { n.Password = "added" })
		onNb("the password secret reference (set instead of the password)", func(n *frrv1beta1.Neighbor) {
			n.Password, n.PasswordSecret = "", frrv1beta1.SecretReference{Name: "s1", Namespace: "metallb-system"}
		})
		onNb("the password secret reference (other name)", func(n *frrv1beta1.Neighbor) { n.PasswordSecret.Name = "s2" })
		onNb("the password secret reference (removed)", func(n *frrv1beta1.Neighbor) { n.PasswordSecret = frrv1beta1.SecretReference{} })
		onNb("the hold time", func(n *frrv1beta1.Neighbor) { n.HoldTime = dur(91) })
		onNb("the keepalive time", func(n *frrv1beta1.Neighbor) { n.KeepaliveTime = dur(31) })
		onNb("the connect time", func(n *frrv1beta1.Neighbor) { n.ConnectTime = dur(11) })
		onNb("the hold time (removed)", func(n *frrv1beta1.Neighbor) { n.HoldTime = nil })
		onNb("the keepalive time (removed)", func(n *frrv1beta1.Neighbor) { n.KeepaliveTime = nil })
		onNb("the connect time (removed)", func(n *frrv1beta1.Neighbor) { n.ConnectTime = nil })
		onNb("ebgpMultiHop (on)", func(n *frrv1beta1.Neighbor) { n.EBGPMultiHop = true })
		onNb("ebgpMultiHop (off)", func(n *frrv1beta1.Neighbor) { n.EBGPMultiHop = false })
		onNb("the BFD profile name", func(n *frrv1beta1.Neighbor) { n.BFDProfile = "other" })
		onNb("the BFD profile name (removed)", func(n *frrv1beta1.Neighbor) { n.BFDProfile = "" })
		onNb("graceful restart (on)", func(n *frrv1beta1.Neighbor) { n.EnableGracefulRestart = true })
		onNb("graceful restart (off)", func(n *frrv1beta1.Neighbor) { n.EnableGracefulRestart = false })
		onNb("disableMP (on)", func(n *frrv1beta1.Neighbor) { n.DisableMP = true })
		onNb("disableMP (off)", func(n *frrv1beta1.Neighbor) { n.DisableMP = false })
		onNb("one allowed prefix (added)", func(n *frrv1beta1.Neighbor) {
			n.ToAdvertise.Allowed.Prefixes = append(append([]string{}, n.ToAdvertise.Allowed.Prefixes...), "198.51.100.0/24")
		})
		onNb("a community of a prefix", func(n *frrv1beta1.Neighbor) {
			n.ToAdvertise.PrefixesWithCommunity = append(append([]frrv1beta1.CommunityPrefixes{}, n.ToAdvertise.PrefixesWithCommunity...),
				frrv1beta1.CommunityPrefixes{Community: "65000:999", Prefixes: []string{"198.51.100.0/24"}})
		})
		onNb("a local preference of a prefix", func(n *frrv1beta1.Neighbor) {
			n.ToAdvertise.PrefixesWithLocalPref = append(append([]frrv1beta1.LocalPrefPrefixes{}, n.ToAdvertise.PrefixesWithLocalPref...),
				frrv1beta1.LocalPrefPrefixes{LocalPref: 777, Prefixes: []string{"198.51.100.0/24"}})
		})
		onNb("the local preference value", func(n *frrv1beta1.Neighbor) {
			if k := len(n.ToAdvertise.PrefixesWithLocalPref); k > 0 {
				n.ToAdvertise.PrefixesWithLocalPref[k-1].LocalPref = 778
			}
		})
		onNb("the communities of the prefixes (all removed)", func(n *frrv1beta1.Neighbor) { n.ToAdvertise.PrefixesWithCommunity = nil })
		onNb("the local preferences of the prefixes (all removed)", func(n *frrv1beta1.Neighbor) { n.ToAdvertise.PrefixesWithLocalPref = nil })
		onNb("one allowed prefix (withdrawn)", func(n *frrv1beta1.Neighbor) {
			if k := len(n.ToAdvertise.Allowed.Prefixes); k > 0 {
				n.ToAdvertise.Allowed.Prefixes = append([]string{}, n.ToAdvertise.Allowed.Prefixes[:k-1]...)
			}
		})
		onNb("the allowed prefixes (all withdrawn)", func(n *frrv1beta1.Neighbor) { n.ToAdvertise.Allowed.Prefixes = nil })
		apply("the router prefixes (all withdrawn)", func(c *frrv1beta1.FRRConfiguration) {
			for i := range c.Spec.BGP.Routers {
				c.Spec.BGP.Routers[i].Prefixes = nil
			}
		})
		apply("the node selector value", func(c *frrv1beta1.FRRConfiguration) {
			c.Spec.NodeSelector.MatchLabels = map[string]string{"kubernetes.io/hostname": node + "-other"}
		})
		apply("the node selector (removed)", func(c *frrv1beta1.FRRConfiguration) { c.Spec.NodeSelector.MatchLabels = nil })
		apply("the BFD profiles (one added)", func(c *frrv1beta1.FRRConfiguration) {
			rx := uint32(123)
			c.Spec.BGP.BFDProfiles = []frrv1beta1.BFDProfile{{Name: "only", ReceiveInterval: &rx}}
		})
		apply("the BFD profile's receive interval", func(c *frrv1beta1.FRRConfiguration) {
			rx := uint32(321)
			c.Spec.BGP.BFDProfiles[0].ReceiveInterval = &rx
		})
		apply("the BFD profiles (the only one removed)", func(c *frrv1beta1.FRRConfiguration) { c.Spec.BGP.BFDProfiles = nil })
		apply("the neighbors (the last one of a router closed)", func(c *frrv1beta1.FRRConfiguration) {
			for i := range c.Spec.BGP.Routers {
				if k := len(c.Spec.BGP.Routers[i].Neighbors); k > 0 {
					c.Spec.BGP.Routers[i].Neighbors = c.Spec.BGP.Routers[i].Neighbors[:k-1]
					return
				}
			}
		})
		apply("the routers (all peers closed)", func(c *frrv1beta1.FRRConfiguration) { c.Spec.BGP.Routers = nil })
		apply("the routers (peers opened again)", func(c *frrv1beta1.FRRConfiguration) { c.Spec = *saved.Spec.DeepCopy() })
		out.Stat("reconciled_single_field_changes", nmut)

		// ---- the same through the real session manager: withdraw everything, close the only peers, BFD profile added and removed
		mgr := func(what string, f func() error) {
			if bad {
				return
			}
			if err := f(); err != nil {
				return
			}
			reconcile(what, 2)
		}
		for i := range sessions {
			i := i
			mgr("after withdrawing every advertisement of a session", func() error { return sessions[i].Set() })
		}
		rx := uint32(50)
		mgr("after adding the only BFD profile", func() error {
			return sm.SyncBFDProfiles(map[string]*metallbconfig.BFDProfile{"p": {Name: "p", ReceiveInterval: &rx}})
		})
		mgr("after removing the only BFD profile", func() error { return sm.SyncBFDProfiles(nil) })
		for i := range sessions {
			i := i
			mgr("after closing a session", func() error { return sessions[i].Close() })
		}
		out.Stat("reconciled_shrink_to_empty", 1)
	}
}

// ---------------------------------------------------------------------------
// Delivery: the real session manager -> UpdateConfig -> the REAL debouncer of the
// reconciler (unbuffered channels, short interval) -> a consumer that plays the
// channel source and is NOT receiving when the timer fires (started late, or busy)
// -> worker running the real Reconcile.  Property: the FRRConfiguration the
// session manager produced last reaches the API (bounded wait).
func TestVerifK8sRecDeliver(t *testing.T) {
	out := vOpen()
	defer out.Close()
	r := vRand()
	n := vN(12)
	const ns = "frr-k8s-system"
	node := "node-a"
	for id := 1; id <= n; id++ {
		ss := vGenSessions(r, false)
		for i := range ss {
			ss[i].SecretN, ss[i].SecretNS = "", ""
		}
		interval := time.Duration(3000+r.Intn(3000)) * time.Microsecond
		startLate := id%3 != 0 // two thirds of the runs: nobody receives when the first timer fires
		// every other run: the session manager logs at DEBUG level (it then dumps the configuration it has just
		// handed over, passwords retracted) and some peer has a plain-text password
		debug := id%2 == 1
		var lvl logging.Level = logging.LevelInfo
		if debug {
			lvl = logging.LevelDebug
			ss[0].Password = "s3cr3t"
		}
		// two runs: afterwards a steady stream of Sets closer together than the debounce interval
		stream := id == 2 || id == 5
		if stream {
			interval, startLate = 30*time.Millisecond, false
		}
		scheme := runtime.NewScheme()
		if err := frrv1beta1.AddToScheme(scheme); err != nil {
			t.Fatal(err)
		}
		cl := fake.NewClientBuilder().WithScheme(scheme).Build()
		rec := &FRRK8sReconciler{Client: cl, Logger: log.NewNopLogger(), LogLevel: lvl, Scheme: scheme, NodeName: node,
			FRRK8sNamespace: ns, configChangedChan: make(chan struct{}), reconcileChan: make(chan event.GenericEvent)}
		debouncer(rec.configChangedChan, rec.reconcileChan, interval)
		sm := frrk8s.NewSessionManager(log.NewNopLogger(), lvl, node, ns)
		var pmu sync.Mutex
		var produced *frrv1beta1.FRRConfiguration
		var producedAll []string // stream runs: every produced configuration, in order
		sm.SetEventCallback(func(c interface{}) {
			cfg := c.(frrv1beta1.FRRConfiguration)
			pmu.Lock()
			produced = cfg.DeepCopy()
			if stream {
				producedAll = append(producedAll, vRecSpecJSON(produced))
			}
			pmu.Unlock()
			rec.UpdateConfig(c)
		})
		key := types.NamespacedName{Name: frrk8s.ConfigName(node), Namespace: ns}
		stop := make(chan struct{})
		dirty := make(chan struct{}, 1)
		go func() { // the channel source
			if startLate {
				time.Sleep(4 * interval)
			}
			for {
				select {
				case <-rec.reconcileChan:
					select {
					case dirty <- struct{}{}:
					default:
					}
					if r := id % 4; r == 0 && !stream {
						time.Sleep(2 * interval) // busy pushing the event
					}
				case <-stop:
					return
				}
			}
		}()
		go func() { // the worker
			for {
				select {
				case <-dirty:
					_, _ = rec.Reconcile(context.TODO(), ctrl.Request{NamespacedName: key})
				case <-stop:
					return
				}
			}
		}()
		apiErr := false
		var first bgp.Session
		for _, s := range ss {
			se, err := sm.NewSession(log.NewNopLogger(), vParams(s))
			if err != nil {
				apiErr = true
				break
			}
			if first == nil {
				first = se
			}
			if err := se.Set(vAdvertisements(s)...); err != nil {
				apiErr = true
				break
			}
		}
		if stream && !apiErr {
			// 110 Sets 5 ms apart (each produces a DIFFERENT configuration): the API must keep up - after the k-th
			// Set it holds one of the last 40 produced configurations
			out.Stat("deliver_stream_runs", 1)
			b := ss[0]
			for k := 1; k <= 110 && !apiErr; k++ {
				time.Sleep(5 * time.Millisecond)
				b.Advs = []vAdv{{Prefix: "172.16.1.10/32", LP: uint32(k), Comms: []string{}}}
				if err := first.Set(vAdvertisements(b)...); err != nil {
					apiErr = true
					break
				}
				cur := frrv1beta1.FRRConfiguration{}
				_ = cl.Get(context.TODO(), key, &cur)
				got := vRecSpecJSON(&cur)
				pmu.Lock()
				lag := -1
				for j := len(producedAll) - 1; j >= 0; j-- {
					if producedAll[j] == got {
						lag = len(producedAll) - 1 - j
						break
					}
				}
				np := len(producedAll)
				pmu.Unlock()
				if k >= 40 && (lag < 0 || lag >= 40) {
					out.Fail("k8s-delivery-starved-by-updates", fmt.Sprintf("run %d: after %d session updates 5 ms apart (debounce interval %v, consumer idle) the FRRConfiguration in the API is %s: updates keep pushing the pending reconcile back",
						id, k, interval, map[bool]string{true: "none of the configurations produced so far", false: fmt.Sprintf("%d configurations behind", lag)}[lag < 0]),
						map[string]any{"sessions": ss, "produced_so_far": np, "in_api": json.RawMessage(got)})
					apiErr = true
				}
			}
		}
		out.Stat("deliver_runs", 1)
		if debug {
			out.Stat("deliver_debug_level_with_password", 1)
		}
		if startLate {
			out.Stat("deliver_consumer_started_late", 1)
		}
		if !apiErr {
			pmu.Lock()
			want := vRecSpecJSON(produced)
			pmu.Unlock()
			got := ""
			deadline := time.Now().Add(3 * time.Second)
			for time.Now().Before(deadline) {
				cur := frrv1beta1.FRRConfiguration{}
				_ = cl.Get(context.TODO(), key, &cur)
				got = vRecSpecJSON(&cur)
				if got == want {
					break
				}
				time.Sleep(2 * time.Millisecond)
			}
			// "the last successfully applied configuration equals the most recently submitted one" must keep holding
			// when the reconciler runs again with NO new submission: the watch event of the object it has just written,
			// a requeue, and the repair of an external modification of the resource
			if got == want {
				for step, what := range []string{"a second Reconcile (watch event of the object just written)", "an external modification of the resource + Reconcile", "a further Reconcile"} {
					if step == 1 {
						cur := frrv1beta1.FRRConfiguration{}
						if err := cl.Get(context.TODO(), key, &cur); err == nil {
							cur.Spec.BGP.Routers = nil
							cur.Spec.BGP.BFDProfiles = nil
							_ = cl.Update(context.TODO(), &cur)
						}
					}
					_, rerr := rec.Reconcile(context.TODO(), ctrl.Request{NamespacedName: key})
					cur := frrv1beta1.FRRConfiguration{}
					_ = cl.Get(context.TODO(), key, &cur)
					out.Stat("deliver_extra_reconciles", 1)
					if again := vRecSpecJSON(&cur); rerr != nil || again != want {
						out.Fail("k8s-applied-drifts-without-submission", fmt.Sprintf("run %d (session manager and reconciler at debug level: %v): after %s, with no new submission, the FRRConfiguration in the API is no longer the one the session manager produced (Reconcile error: %v)",
							id, debug, what, rerr), map[string]any{"sessions": ss, "in_api": json.RawMessage(again), "produced": json.RawMessage(want)})
						break
					}
				}
			}
			if got != want {
				out.Fail("k8s-produced-not-delivered", fmt.Sprintf("run %d: 3 s after the last session update the FRRConfiguration in the API is not the one the session manager produced (consumer started late: %v)", id, startLate),
					map[string]any{"sessions": ss, "in_api": json.RawMessage(got), "produced": json.RawMessage(want)})
			}
		}
		close(stop)
	}
}
