//go:build verif

package controllers

// Harness for C15, reconciler part: the REAL frrk8s session manager hands its
// FRRConfiguration to the REAL FRRK8sReconciler.UpdateConfig; Reconcile runs
// several times against a fake API server, at info and at debug log level,
// without and with intervening updates.  Property (from the statement): the
// FRRConfiguration handed to frr-k8s - the object in the API - is what the
// session manager produced for the current sessions, every time (session
// parameters, password XOR secret reference, prefixes).  The object after the
// last Reconcile is also shipped to Coq / the Python oracle like the callback
// captures of internal/bgp/frrk8s.

import (
	"context"
	"encoding/json"
	"fmt"
	"testing"

	"github.com/go-kit/log"
	frrv1beta1 "github.com/metallb/frr-k8s/api/v1beta1"
	"go.universe.tf/metallb/internal/bgp"
	frrk8s "go.universe.tf/metallb/internal/bgp/frrk8s"
	"go.universe.tf/metallb/internal/logging"
	"k8s.io/apimachinery/pkg/runtime"
	"k8s.io/apimachinery/pkg/types"
	ctrl "sigs.k8s.io/controller-runtime"
	"sigs.k8s.io/controller-runtime/pkg/client/fake"
)

func vRecSpecJSON(c *frrv1beta1.FRRConfiguration) string {
	b, err := json.Marshal(c.Spec)
	if err != nil {
		panic(err)
	}
	return string(b)
}

func TestVerifK8sRec(t *testing.T) {
	out := vOpen()
	defer out.Close()
	r := vRand()
	n := vN(40)
	const ns = "frr-k8s-system"
	nodes := []string{"node-a", "worker-1"}
	for id := 1; id <= n; id++ {
		ss := vGenSessions(r, false)
		// passwords and secret references (never both: updateConfig refuses that, covered elsewhere)
		for i := range ss {
			switch r.Intn(3) {
			case 0:
				ss[i].Password, ss[i].SecretN, ss[i].SecretNS = []string{"s3cr3t", "password"}[r.Intn(2)], "", ""
			case 1:
				ss[i].Password, ss[i].SecretN, ss[i].SecretNS = "", "bgp-secret", "metallb-system"
			default:
				ss[i].Password, ss[i].SecretN, ss[i].SecretNS = "", "", ""
			}
		}
		node := nodes[r.Intn(len(nodes))]
		var lvl logging.Level = logging.LevelDebug
		if id%4 == 0 {
			lvl = logging.LevelInfo
		}
		scheme := runtime.NewScheme()
		if err := frrv1beta1.AddToScheme(scheme); err != nil {
			t.Fatal(err)
		}
		cl := fake.NewClientBuilder().WithScheme(scheme).Build()
		rec := &FRRK8sReconciler{Client: cl, Logger: log.NewNopLogger(), LogLevel: lvl, Scheme: scheme, NodeName: node,
			FRRK8sNamespace: ns, configChangedChan: make(chan struct{}, 4096)}
		sm := frrk8s.NewSessionManager(log.NewNopLogger(), lvl, node, ns)
		var produced *frrv1beta1.FRRConfiguration
		sm.SetEventCallback(func(c interface{}) {
			cfg := c.(frrv1beta1.FRRConfiguration)
			produced = cfg.DeepCopy() // what the session manager produced, before anybody else touches it
			rec.UpdateConfig(c)
		})
		key := types.NamespacedName{Name: frrk8s.ConfigName(node), Namespace: ns}
		req := ctrl.Request{NamespacedName: key}
		bad := false
		reconcile := func(step string, times int) {
			for k := 1; k <= times && !bad; k++ {
				if _, err := rec.Reconcile(context.TODO(), req); err != nil {
					out.Fail("k8s-reconcile-error", fmt.Sprintf("%s, reconcile %d: %v", step, k, err), map[string]any{"sessions": ss})
					bad = true
					return
				}
				got := frrv1beta1.FRRConfiguration{}
				if err := cl.Get(context.TODO(), key, &got); err != nil {
					out.Fail("k8s-reconciled-missing", fmt.Sprintf("%s, reconcile %d: no FRRConfiguration in the API: %v", step, k, err), map[string]any{"sessions": ss})
					bad = true
					return
				}
				if a, b := vRecSpecJSON(&got), vRecSpecJSON(produced); a != b {
					out.Fail("k8s-reconciled-differs-from-produced",
						fmt.Sprintf("%s, reconcile %d at log level %s: the FRRConfiguration in the API differs from what the session manager produced", step, k, lvl),
						map[string]any{"sessions": ss, "node": node, "level": string(lvl), "in_api": json.RawMessage(a), "produced": json.RawMessage(b)})
					bad = true
				}
			}
		}
		out.Stat("reconciled_cases", 1)
		if lvl == logging.LevelDebug {
			out.Stat("reconciled_at_debug", 1)
		}
		for _, s := range ss {
			if s.Password != "" {
				out.Stat("reconciled_with_password", 1)
			}
			if s.SecretN != "" {
				out.Stat("reconciled_with_secret_ref", 1)
			}
		}
		sessions := make([]bgp.Session, len(ss))
		for i, s := range ss {
			se, err := sm.NewSession(log.NewNopLogger(), vParams(s))
			if err != nil {
				out.Fail("k8s-history-api-error", fmt.Sprintf("NewSession: %v", err), map[string]any{"sessions": ss})
				bad = true
				break
			}
			sessions[i] = se
			if err := se.Set(vAdvertisements(s)...); err != nil {
				out.Fail("k8s-history-api-error", fmt.Sprintf("Set: %v", err), map[string]any{"sessions": ss})
				bad = true
				break
			}
		}
		if bad || produced == nil {
			continue
		}
		// the debounced change, then the watch events of the reconciler's own write: same desired configuration
		reconcile("after the initial sessions", 3)
		// an update, then again several reconciles
		if len(ss) > 0 && !bad {
			i := r.Intn(len(ss))
			ss[i].Advs = vGenAdvs(r, false)
			if err := sessions[i].Set(vAdvertisements(ss[i])...); err == nil {
				reconcile("after a Set", 2+r.Intn(2))
			}
		}
		if bad {
			continue
		}
		got := frrv1beta1.FRRConfiguration{}
		if err := cl.Get(context.TODO(), key, &got); err != nil {
			continue
		}
		perm := vPermute(r, ss)
		out.Case(20000+id, "frrk8s-reconciled", cPair(cSessList(ss), cSessList(perm)),
			map[string]any{"sessions": ss, "node": node, "ok": true, "cfg": vKProject(got), "level": string(lvl)})
	}
}
