//go:build verif

package controllers

// TestVerifSpkCfgMemo (group spk): how the REAL ConfigReconciler treats the handler's result.
// SyncStateError: the memo (currentConfig) is reset and the reconciliation is retried.
// SyncStateErrorNoRetry: the memo keeps the new configuration and nil is returned, so later
// reconciliations of the same resources are ignored ("configuration did not change"):
// a configuration the speaker applied only half is never applied again.

import (
	"context"
	"fmt"
	"testing"

	"github.com/go-kit/log"
	metallbv1beta1 "go.universe.tf/metallb/api/v1beta1"
	"go.universe.tf/metallb/internal/config"
	metav1 "k8s.io/apimachinery/pkg/apis/meta/v1"
	"k8s.io/apimachinery/pkg/types"
	"k8s.io/client-go/kubernetes/scheme"
	"sigs.k8s.io/controller-runtime/pkg/client"
	"sigs.k8s.io/controller-runtime/pkg/reconcile"
)

func TestVerifSpkCfgMemo(t *testing.T) {
	out := vOpen()
	defer out.Close()
	pool := &metallbv1beta1.IPAddressPool{ObjectMeta: metav1.ObjectMeta{Name: "p", Namespace: testNamespace},
		Spec: metallbv1beta1.IPAddressPoolSpec{Addresses: []string{"10.20.30.0/24"}}}
	for _, first := range []SyncState{SyncStateError, SyncStateErrorNoRetry} {
		fc, err := newFakeClient([]client.Object{pool})
		if err != nil {
			t.Fatalf("fake client: %v", err)
		}
		calls := 0
		cr := &ConfigReconciler{Client: fc, Logger: log.NewNopLogger(), Scheme: scheme.Scheme, Namespace: testNamespace,
			ValidateConfig: config.DontValidate, ForceReload: func() {},
			Handler: func(_ log.Logger, _ *config.Config) SyncState {
				calls++
				if calls == 1 {
					return first
				}
				return SyncStateReprocessAll
			}}
		req := reconcile.Request{NamespacedName: types.NamespacedName{Namespace: testNamespace, Name: "p"}}
		_, err1 := cr.Reconcile(context.TODO(), req)
		_, err2 := cr.Reconcile(context.TODO(), req) // the requeue, or any later event on the same resources
		out.Stat(fmt.Sprintf("cfgmemo_first=%d_handler_calls=%d_err1=%v_err2=%v", first, calls, err1 != nil, err2 != nil), 1)
		if first == SyncStateErrorNoRetry && calls == 1 {
			out.Fail("config-reconciler-memo-keeps-unapplied-configuration",
				"after SyncStateErrorNoRetry the ConfigReconciler keeps the configuration in currentConfig: the second reconciliation of the same resources does not call the handler",
				map[string]any{"handler_calls": calls})
		}
		if first == SyncStateError && calls != 2 {
			out.Fail("config-reconciler-does-not-retry-after-error", fmt.Sprintf("handler calls: %d", calls), nil)
		}
	}
}
