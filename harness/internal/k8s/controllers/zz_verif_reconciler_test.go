//go:build verif

package controllers

// Harness for the reconciler glue (config_controller.go, pool_controller.go): the REAL
// ConfigReconciler and PoolReconciler on the controller-runtime fake client, driven by random
// histories of resource edits.  After every edit the Reconcile requests the real event sources
// would enqueue are issued (namespaced object -> its key, Node / Namespace -> cluster-scoped
// key; update events go through the package's own predicate functions, composed as in
// SetupWithManager); handler answers come from a script (Success, ReprocessAll, Error,
// ErrorNoRetry); a returned error is retried like the work queue does.
//  (a) every Reconcile call is shipped to Coq (Model/Reconciler.v): what the cluster state
//      rendered to at that moment (config.For on a DIRECT listing of the API server, as a class
//      id), the scripted answer, and what the reconciler did;
//  (b) oracle on the implementation: the configuration handed to the handler is DeepEqual to
//      config.For of a direct listing at that moment; at every quiescent point the configuration
//      last given to (ConfigReconciler) / accepted by (PoolReconciler) the handler is DeepEqual to
//      config.For of the current cluster state; the handler is not called again for an
//      unchanged configuration.
// Uses the snapshot generator (zz_verif_cfggen_test.go) and helpers of zz_verif_order_test.go.

import (
	"context"
	"encoding/json"
	"errors"
	"fmt"
	"math/rand"
	"os"
	"reflect"
	"sort"
	"testing"

	"github.com/go-kit/log"
	metallbv1beta1 "go.universe.tf/metallb/api/v1beta1"
	metallbv1beta2 "go.universe.tf/metallb/api/v1beta2"
	"go.universe.tf/metallb/internal/config"
	corev1 "k8s.io/api/core/v1"
	apierrors "k8s.io/apimachinery/pkg/api/errors"
	metav1 "k8s.io/apimachinery/pkg/apis/meta/v1"
	"k8s.io/apimachinery/pkg/types"
	"k8s.io/client-go/kubernetes/scheme"
	"sigs.k8s.io/controller-runtime/pkg/client"
	"sigs.k8s.io/controller-runtime/pkg/event"
	"sigs.k8s.io/controller-runtime/pkg/reconcile"
)

type vRecEvent struct {
	kind    string // for the statistics
	obj     client.Object
	old     client.Object // non-nil for updates
	cluster bool
	pool    bool // a kind the PoolReconciler watches
}

type vRecStep struct {
	Render  int    `json:"render"` // class id, -1 = toConfig fails
	H       string `json:"h"`
	Called  int    `json:"called"` // class id, -1 = handler not called
	Requeue bool   `json:"requeue"`
	Reload  bool   `json:"reload"`
	After   string `json:"after"`
}

var vHNames = []string{"HSuccess", "HReprocessAll", "HError", "HErrorNoRetry"}
var vHStates = []SyncState{SyncStateSuccess, SyncStateReprocessAll, SyncStateError, SyncStateErrorNoRetry}

type vRecSide struct {
	pool      bool
	steps     []vRecStep
	seen      []*config.Config
	given     *config.Config // last configuration handed to the handler
	accepted  *config.Config // last one answered Success / ReprocessAll
	lastH     int
	calledCfg *config.Config // set by the handler during one Reconcile
	reloaded  bool
	script    int
	filtered  map[string]int // edits not observed since the last Reconcile, by kind
	lastRender int           // what the cluster state rendered to at the last Reconcile (-1 = error)
}

func (s *vRecSide) idOf(c *config.Config) int {
	for i, x := range s.seen {
		if reflect.DeepEqual(x, c) {
			return i
		}
	}
	s.seen = append(s.seen, c)
	return len(s.seen) - 1
}

func vRecTruth(fc client.Client, pool bool) (*config.Config, error) {
	ctx := context.TODO()
	var res config.ClusterResources
	var pl metallbv1beta1.IPAddressPoolList
	var cl metallbv1beta1.CommunityList
	var nl corev1.NamespaceList
	if fc.List(ctx, &pl, client.InNamespace(testNamespace)) != nil || fc.List(ctx, &cl, client.InNamespace(testNamespace)) != nil || fc.List(ctx, &nl) != nil {
		return nil, errors.New("list")
	}
	res.Pools, res.Communities, res.Namespaces = pl.Items, cl.Items, nl.Items
	if !pool {
		var peers metallbv1beta2.BGPPeerList
		var bfds metallbv1beta1.BFDProfileList
		var l2 metallbv1beta1.L2AdvertisementList
		var bgp metallbv1beta1.BGPAdvertisementList
		var secs corev1.SecretList
		var nodes corev1.NodeList
		for _, l := range []client.ObjectList{&peers, &bfds, &l2, &bgp, &secs} {
			if fc.List(ctx, l, client.InNamespace(testNamespace)) != nil {
				return nil, errors.New("list")
			}
		}
		if fc.List(ctx, &nodes) != nil {
			return nil, errors.New("list")
		}
		res.Peers, res.BFDProfiles, res.L2Advs, res.BGPAdvs, res.Nodes = peers.Items, bfds.Items, l2.Items, bgp.Items, nodes.Items
		res.PasswordSecrets = map[string]corev1.Secret{}
		for _, x := range secs.Items {
			res.PasswordSecrets[x.Name] = x
		}
		var cm corev1.ConfigMap
		if err := fc.Get(ctx, types.NamespacedName{Namespace: testNamespace, Name: bgpExtrasConfigName}, &cm); err == nil {
			res.BGPExtras = cm
		} else if !apierrors.IsNotFound(err) {
			return nil, err
		}
	}
	return toConfig(res, config.DontValidate)
}

func TestVerifReconciler(t *testing.T) {
	out := vOpen()
	defer out.Close()
	r := vRand()
	n := vN(40)
	only := -1
	if p := os.Getenv("VERIF_REPLAY"); p != "" {
		var f struct {
			Seed   int64 `json:"seed"`
			Replay struct {
				History *int `json:"history"`
			} `json:"replay"`
		}
		if b, err := os.ReadFile(p); err == nil && json.Unmarshal(b, &f) == nil && f.Replay.History != nil {
			r = rand.New(rand.NewSource(f.Seed))
			only = *f.Replay.History
			n = only + 1
		}
	}
	for h := 0; h < n; h++ {
		vRecHistory(t, out, r, h, only >= 0 && h != only)
	}
}

func vRecHistory(t *testing.T, out *vOut, r *rand.Rand, hid int, silent bool) {
	ctx := context.TODO()
	// ---- initial cluster
	var s vSnap
	for try := 0; ; try++ {
		s = vGenSnap(r, vGenOpts{MinObj: 2, MaxObj: 4})
		if _, err := vToConfig(vBuild(s), config.DontValidate); err == nil || try > 6 || r.Intn(4) == 0 {
			break
		}
	}
	{ // the API server holds one object per name
		seen := map[int]bool{}
		var ps []vPool
		for _, p := range s.Pools {
			if !seen[p.Name] {
				seen[p.Name] = true
				ps = append(ps, p)
			}
		}
		s.Pools = ps
	}
	res := vBuild(s)
	for i := range res.Pools {
		res.Pools[i].Namespace, res.Pools[i].Generation = testNamespace, 1
	}
	for i := range res.Peers {
		res.Peers[i].Namespace = testNamespace
	}
	for i := range res.BFDProfiles {
		res.BFDProfiles[i].Namespace = testNamespace
	}
	for i := range res.L2Advs {
		res.L2Advs[i].Namespace = testNamespace
	}
	for i := range res.BGPAdvs {
		res.BGPAdvs[i].Namespace = testNamespace
	}
	for i := range res.Communities {
		res.Communities[i].Namespace = testNamespace
	}
	fc, err := newFakeClient(vObjects(res))
	if err != nil {
		t.Fatalf("fake client: %v", err)
	}
	origAddrs := map[string][]string{}
	for _, p := range res.Pools {
		origAddrs[p.Name] = append([]string(nil), p.Spec.Addresses...)
	}
	type gone struct {
		spec metallbv1beta1.IPAddressPoolSpec
		name string
	}
	var deleted []gone

	sides := [2]*vRecSide{{pool: false, filtered: map[string]int{}}, {pool: true, filtered: map[string]int{}}}
	answer := func(sd *vRecSide) SyncState {
		k := sd.script
		return vHStates[k]
	}
	cr := &ConfigReconciler{Client: fc, Logger: log.NewNopLogger(), Scheme: scheme.Scheme, Namespace: testNamespace, ValidateConfig: config.DontValidate,
		Handler:     func(_ log.Logger, c *config.Config) SyncState { sides[0].calledCfg = c; return answer(sides[0]) },
		ForceReload: func() { sides[0].reloaded = true }}
	// the handler sees only cfg.Pools; wrap it to compare like with like
	pr := &PoolReconciler{Client: fc, Logger: log.NewNopLogger(), Scheme: scheme.Scheme, Namespace: testNamespace, ValidateConfig: config.DontValidate,
		Handler: func(_ log.Logger, p *config.Pools) SyncState {
			sides[1].calledCfg = &config.Config{Pools: p}
			return answer(sides[1])
		},
		ForceReload: func() { sides[1].reloaded = true }}
	fail := func(sig, what string) {
		if !silent {
			out.Fail(sig, fmt.Sprintf("history %d: %s", hid, what), map[string]any{"history": hid})
		}
	}
	poolsOnly := func(c *config.Config) *config.Config {
		if c == nil {
			return nil
		}
		return &config.Config{Pools: c.Pools}
	}
	// one Reconcile call (plus the retries the work queue would make)
	reconcileOne := func(si int, req reconcile.Request, after string) {
		sd := sides[si]
		for try := 0; ; try++ {
			sd.script = []int{0, 0, 0, 0, 0, 1, 1, 2, 2, 3}[r.Intn(10)]
			if try >= 3 {
				sd.script = 0
			}
			truth, terr := vRecTruth(fc, sd.pool)
			if sd.pool {
				truth = poolsOnly(truth)
			}
			render := -1
			if terr == nil {
				render = sd.idOf(truth)
			}
			sd.calledCfg, sd.reloaded = nil, false
			var rerr error
			if sd.pool {
				_, rerr = pr.Reconcile(ctx, req)
			} else {
				_, rerr = cr.Reconcile(ctx, req)
			}
			st := vRecStep{Render: render, H: vHNames[sd.script], Called: -1, Requeue: rerr != nil, Reload: sd.reloaded, After: after}
			out.Stat("reconcile_calls", 1)
			if sd.calledCfg != nil {
				st.Called = sd.idOf(sd.calledCfg)
				out.Stat("handler_called_"+vHNames[sd.script], 1)
				// the handler must be given what a direct listing renders to, now
				if terr != nil || !reflect.DeepEqual(sd.calledCfg, truth) {
					fail("reconciler-handler-given-stale-config", fmt.Sprintf("%s after %s: the handler was given a configuration that is not config.For of the current cluster state (direct listing: err=%v, differs in %s)", vRecName(sd.pool), after, terr, vDiffPart(sd.calledCfg, truth)))
				}
				prev := sd.given
				if sd.pool {
					prev = sd.accepted
				}
				if prev != nil && reflect.DeepEqual(prev, sd.calledCfg) && (sd.pool || sd.lastH != 2) {
					fail("reconciler-handler-called-without-change", fmt.Sprintf("%s after %s: the handler is called again with the configuration it already holds", vRecName(sd.pool), after))
				}
				sd.given, sd.lastH = sd.calledCfg, sd.script
				if sd.script <= 1 {
					sd.accepted = sd.calledCfg
				}
			} else {
				out.Stat("handler_skipped", 1)
				if terr != nil {
					out.Stat("render_failed", 1)
				}
			}
			if (rerr != nil) != (sd.calledCfg != nil && sd.script == 2) {
				fail("reconciler-requeue-not-iff-handler-error", fmt.Sprintf("%s after %s: Reconcile returned err=%v, handler called=%v answered %s", vRecName(sd.pool), after, rerr, sd.calledCfg != nil, vHNames[sd.script]))
			}
			if sd.reloaded != (sd.calledCfg != nil && sd.script == 1) {
				fail("reconciler-reload-not-iff-reprocessall", fmt.Sprintf("%s after %s: ForceReload called=%v, handler called=%v answered %s", vRecName(sd.pool), after, sd.reloaded, sd.calledCfg != nil, vHNames[sd.script]))
			}
			sd.steps = append(sd.steps, st)
			sd.lastRender = render
			if rerr == nil {
				break
			}
			out.Stat("requeues", 1)
		}
		sd.filtered = map[string]int{}
	}
	// at a quiescent point: what the handler holds is config.For of the cluster as it is now
	quiescent := func(si int, after string) {
		sd := sides[si]
		truth, terr := vRecTruth(fc, sd.pool)
		if sd.pool {
			truth = poolsOnly(truth)
		}
		// an edit whose event the predicates drop must not change what the cluster renders to
		if len(sd.filtered) > 0 {
			now := -1
			if terr == nil {
				now = sd.idOf(truth)
			}
			out.Stat("filtered_event_checks", 1)
			if now != sd.lastRender {
				what := fmt.Sprintf("%s: the update predicate dropped the %s event, yet config.For of the cluster state changed with it (render error before: %v, now: %v): the handler keeps a configuration that is not config.For of the current state", vRecName(sd.pool), after, sd.lastRender < 0, terr)
				sd.lastRender = now
				if after == "node_address" && !sd.pool {
					fail("reconciler-node-address-change-not-observed", what)
				} else {
					fail("reconciler-handler-config-stale", what)
				}
				return
			}
			return // nothing observable changed and no Reconcile ran: the handler state is as before
		}
		if terr != nil {
			return
		}
		holds := sd.given
		if sd.pool {
			holds = sd.accepted
			if sd.lastH == 3 && sd.given != sd.accepted {
				return // ErrorNoRetry: the PoolReconciler keeps its memo (see Model/Reconciler.v)
			}
		}
		out.Stat("quiescent_checks", 1)
		if holds != nil && reflect.DeepEqual(holds, truth) {
			return
		}
		fail("reconciler-handler-config-stale", fmt.Sprintf("%s after %s: at quiescence the handler holds a configuration that is not config.For of the current cluster state (differs in %s; unobserved edits %v)", vRecName(sd.pool), after, vDiffPart(holds, truth), sd.filtered))
	}
	// the events of a burst of edits: each passes the predicates or not; the work queue keeps one
	// entry per request key, the reconciles run after the burst
	deliver := func(evs []vRecEvent) {
		type pend struct {
			req  reconcile.Request
			kind string
		}
		var queue [2][]pend
		var filteredNow [2][]string
		for _, ev := range evs {
			out.Stat("edit_"+ev.kind, 1)
			key := types.NamespacedName{Namespace: ev.obj.GetNamespace(), Name: ev.obj.GetName()}
			if ev.cluster {
				key.Namespace = ""
			}
			for si, sd := range sides {
				if sd.pool && !ev.pool {
					continue
				}
				pass := true
				if ev.old != nil {
					e := event.UpdateEvent{ObjectOld: ev.old, ObjectNew: ev.obj}
					if sd.pool {
						pass = filterNodeEvent(e) && filterNamespaceEvent(e) && filterPoolStatusEvent(e)
					} else {
						pass = filterNodeEvent(e) && filterNamespaceEvent(e) && filterConfigmapEvent(e)
					}
				}
				if !pass {
					sd.filtered[ev.kind]++
					filteredNow[si] = append(filteredNow[si], ev.kind)
					out.Stat("filtered_"+vRecName(sd.pool)+"_"+ev.kind, 1)
					continue
				}
				dup := false
				for _, q := range queue[si] {
					dup = dup || q.req.NamespacedName == key
				}
				if dup {
					out.Stat("requests_coalesced", 1)
					continue
				}
				queue[si] = append(queue[si], pend{reconcile.Request{NamespacedName: key}, ev.kind})
			}
		}
		for si := range sides {
			for _, q := range queue[si] {
				reconcileOne(si, q.req, q.kind)
			}
			after := evs[len(evs)-1].kind
			if len(queue[si]) == 0 && len(filteredNow[si]) > 0 {
				after = filteredNow[si][len(filteredNow[si])-1]
				if len(filteredNow[si]) > 1 { // several dropped events at once: cannot blame one kind
					after = "several"
				}
			}
			quiescent(si, after)
		}
	}

	// ---- start: one request per reconciler (the informers' initial sync)
	reconcileOne(0, reconcile.Request{NamespacedName: types.NamespacedName{Namespace: testNamespace, Name: "initial"}}, "start")
	reconcileOne(1, reconcile.Request{NamespacedName: types.NamespacedName{Namespace: testNamespace, Name: "initial"}}, "start")
	quiescent(0, "start")
	quiescent(1, "start")

	nEdits := 8 + r.Intn(14)
	for k := 0; k < nEdits; k++ {
		ev, ok := vRecEdit(t, r, fc, k, hid, origAddrs, func(name string, spec metallbv1beta1.IPAddressPoolSpec) { deleted = append(deleted, gone{spec, name}) },
			func() (string, metallbv1beta1.IPAddressPoolSpec, bool) {
				if len(deleted) == 0 {
					return "", metallbv1beta1.IPAddressPoolSpec{}, false
				}
				g := deleted[len(deleted)-1]
				deleted = deleted[:len(deleted)-1]
				return g.name, g.spec, true
			})
		if !ok {
			continue
		}
		burst := []vRecEvent{ev}
		for r.Intn(4) == 0 && len(burst) < 3 { // further edits before the reconciler gets to run
			if ev2, ok2 := vRecEdit(t, r, fc, k, hid, origAddrs, func(name string, spec metallbv1beta1.IPAddressPoolSpec) { deleted = append(deleted, gone{spec, name}) },
				func() (string, metallbv1beta1.IPAddressPoolSpec, bool) {
					if len(deleted) == 0 {
						return "", metallbv1beta1.IPAddressPoolSpec{}, false
					}
					g := deleted[len(deleted)-1]
					deleted = deleted[:len(deleted)-1]
					return g.name, g.spec, true
				}); ok2 {
				burst = append(burst, ev2)
				out.Stat("burst_edits", 1)
			}
		}
		deliver(burst)
	}
	if silent {
		return
	}
	for si, sd := range sides {
		var it []string
		for _, st := range sd.steps {
			rd, cl := cNone, cNone
			if st.Render >= 0 {
				rd = cSome(cNi(st.Render))
			}
			if st.Called >= 0 {
				cl = cSome(cNi(st.Called))
			}
			it = append(it, cCtor("Build_rstepc", rd, st.H, cl, cBool(st.Requeue), cBool(st.Reload)))
		}
		id := 2*hid + si + 1
		out.Case(id, "reconciler", cCtor("Build_rcase", cNi(id), cBool(sd.pool), cList(it)), map[string]any{"history": hid, "pool": sd.pool, "steps": sd.steps})
		out.Stat("histories_"+vRecName(sd.pool), 1)
		if len(sd.seen) >= 3 {
			out.Stat("histories_with_3_or_more_configurations", 1)
		}
	}
}

func vRecName(pool bool) string {
	if pool {
		return "PoolReconciler"
	}
	return "ConfigReconciler"
}

// one random edit of the cluster; returns the event the API server would emit
func vRecEdit(t *testing.T, r *rand.Rand, fc client.WithWatch, k, hid int, orig map[string][]string,
	remember func(string, metallbv1beta1.IPAddressPoolSpec), recall func() (string, metallbv1beta1.IPAddressPoolSpec, bool)) (vRecEvent, bool) {
	ctx := context.TODO()
	must := func(err error) {
		if err != nil {
			t.Fatalf("history %d edit %d: %v", hid, k, err)
		}
	}
	var pools metallbv1beta1.IPAddressPoolList
	var nodes corev1.NodeList
	var nss corev1.NamespaceList
	must(fc.List(ctx, &pools, client.InNamespace(testNamespace)))
	must(fc.List(ctx, &nodes))
	must(fc.List(ctx, &nss))
	sort.Slice(pools.Items, func(i, j int) bool { return pools.Items[i].Name < pools.Items[j].Name })
	sort.Slice(nodes.Items, func(i, j int) bool { return nodes.Items[i].Name < nodes.Items[j].Name })
	sort.Slice(nss.Items, func(i, j int) bool { return nss.Items[i].Name < nss.Items[j].Name })
	toggle := func(m map[string]string, key, a, b string) map[string]string {
		o := map[string]string{}
		for k, v := range m {
			o[k] = v
		}
		if o[key] == a {
			o[key] = b
		} else {
			o[key] = a
		}
		return o
	}
	// create-or-delete of a fixed-name namespaced object
	flip := func(kind string, obj client.Object, make func() client.Object, pool bool) (vRecEvent, bool) {
		err := fc.Get(ctx, types.NamespacedName{Namespace: testNamespace, Name: obj.GetName()}, obj)
		if err == nil {
			must(fc.Delete(ctx, obj))
			return vRecEvent{kind: kind + "_delete", obj: obj, pool: pool}, true
		}
		o := make()
		must(fc.Create(ctx, o))
		return vRecEvent{kind: kind + "_create", obj: o, pool: pool}, true
	}
	meta := func(name string) metav1.ObjectMeta { return metav1.ObjectMeta{Name: name, Namespace: testNamespace} }
	switch op := r.Intn(30); {
	case op < 3 && len(pools.Items) > 0: // pool addresses (spec change: generation + 1)
		p := pools.Items[r.Intn(len(pools.Items))]
		old := p.DeepCopy()
		alt := fmt.Sprintf("10.77.%d.0/28", vIndex(vPoolNames, p.Name)+1)
		if len(p.Spec.Addresses) == 1 && p.Spec.Addresses[0] == alt && len(orig[p.Name]) > 0 {
			p.Spec.Addresses = append([]string(nil), orig[p.Name]...)
		} else {
			p.Spec.Addresses = []string{alt}
		}
		p.Generation++
		must(fc.Update(ctx, &p))
		return vRecEvent{kind: "pool_addresses", obj: &p, old: old, pool: true}, true
	case op < 5 && len(pools.Items) > 0: // pool pinning
		p := pools.Items[r.Intn(len(pools.Items))]
		old := p.DeepCopy()
		if p.Spec.AllocateTo == nil {
			p.Spec.AllocateTo = &metallbv1beta1.ServiceAllocation{Priority: r.Intn(3), Namespaces: []string{vNsNames[1]},
				NamespaceSelectors: []metav1.LabelSelector{{MatchLabels: map[string]string{"k0": "v1"}}}}
		} else {
			p.Spec.AllocateTo = nil
		}
		p.Generation++
		must(fc.Update(ctx, &p))
		return vRecEvent{kind: "pool_allocation", obj: &p, old: old, pool: true}, true
	case op < 6 && len(pools.Items) > 0: // status only: generation unchanged
		p := pools.Items[r.Intn(len(pools.Items))]
		old := p.DeepCopy()
		p.Status.AssignedIPv4++
		must(fc.Update(ctx, &p))
		return vRecEvent{kind: "pool_status_only", obj: &p, old: old, pool: true}, true
	case op < 7 && len(pools.Items) > 0: // kubectl replace --force: deleted and created again under the same name with another spec, served by ONE reconcile
		p := pools.Items[r.Intn(len(pools.Items))]
		must(fc.Delete(ctx, &p))
		np := &metallbv1beta1.IPAddressPool{ObjectMeta: meta(p.Name), Spec: p.Spec}
		np.Generation = 1
		alt := fmt.Sprintf("10.79.%d.0/29", vIndex(vPoolNames, p.Name)+1)
		if len(p.Spec.Addresses) == 1 && p.Spec.Addresses[0] == alt {
			alt = fmt.Sprintf("10.79.%d.8/29", vIndex(vPoolNames, p.Name)+1)
		}
		np.Spec.Addresses = []string{alt}
		must(fc.Create(ctx, np))
		return vRecEvent{kind: "pool_replace_same_name", obj: np, pool: true}, true
	case op < 8 && len(pools.Items) > 0: // delete
		p := pools.Items[r.Intn(len(pools.Items))]
		remember(p.Name, p.Spec)
		must(fc.Delete(ctx, &p))
		return vRecEvent{kind: "pool_delete", obj: &p, pool: true}, true
	case op < 10: // re-create a deleted pool under the same name (generation starts again at 1)
		name, spec, ok := recall()
		if !ok {
			return vRecEvent{}, false
		}
		p := &metallbv1beta1.IPAddressPool{ObjectMeta: meta(name), Spec: spec}
		p.Generation = 1
		kind := "pool_recreate_same_spec"
		if r.Intn(3) != 0 {
			p.Spec.Addresses = []string{fmt.Sprintf("10.78.%d.0/29", vIndex(vPoolNames, name)+1)}
			kind = "pool_recreate_other_spec"
		}
		must(fc.Create(ctx, p))
		return vRecEvent{kind: kind, obj: p, pool: true}, true
	case op < 12 && len(nodes.Items) > 0: // node labels
		n := nodes.Items[r.Intn(len(nodes.Items))]
		old := n.DeepCopy()
		n.Labels = toggle(n.Labels, "k0", "v0", "v1")
		must(fc.Update(ctx, &n))
		return vRecEvent{kind: "node_labels", obj: &n, old: old, cluster: true}, true
	case op < 14 && len(nodes.Items) > 0: // node InternalIP only
		n := nodes.Items[r.Intn(len(nodes.Items))]
		old := n.DeepCopy()
		target := "192.168.9.9"
		if len(pools.Items) > 0 && r.Intn(2) == 0 {
			if nets, err := config.ParseCIDR(pools.Items[0].Spec.Addresses[0]); err == nil && len(nets) > 0 {
				target = nets[0].IP.String()
			}
		}
		if len(n.Status.Addresses) > 0 && n.Status.Addresses[0].Address == target {
			target = "192.168.9.10"
		}
		n.Status.Addresses = []corev1.NodeAddress{{Type: corev1.NodeInternalIP, Address: target}}
		must(fc.Status().Update(ctx, &n)) // the fake API server keeps a Node's status behind the status subresource
		var chk corev1.Node
		must(fc.Get(ctx, types.NamespacedName{Name: n.Name}, &chk))
		if len(chk.Status.Addresses) != 1 || chk.Status.Addresses[0].Address != target {
			t.Fatalf("node address edit did not reach the fake API server: %v", chk.Status.Addresses)
		}
		return vRecEvent{kind: "node_address", obj: &n, old: old, cluster: true}, true
	case op < 15 && len(nodes.Items) > 0: // node annotation
		n := nodes.Items[r.Intn(len(nodes.Items))]
		old := n.DeepCopy()
		n.Annotations = toggle(n.Annotations, "x", "1", "2")
		must(fc.Update(ctx, &n))
		return vRecEvent{kind: "node_annotation", obj: &n, old: old, cluster: true}, true
	case op < 16: // node create / delete
		n := &corev1.Node{ObjectMeta: metav1.ObjectMeta{Name: "zz-node", Labels: map[string]string{"k0": "v1"}},
			Status: corev1.NodeStatus{Addresses: []corev1.NodeAddress{{Type: corev1.NodeInternalIP, Address: "192.168.9.77"}}}}
		if err := fc.Get(ctx, types.NamespacedName{Name: "zz-node"}, n); err == nil {
			must(fc.Delete(ctx, n))
			return vRecEvent{kind: "node_delete", obj: n, cluster: true}, true
		}
		must(fc.Create(ctx, n))
		return vRecEvent{kind: "node_create", obj: n, cluster: true}, true
	case op < 18 && len(nss.Items) > 0: // namespace labels
		n := nss.Items[r.Intn(len(nss.Items))]
		old := n.DeepCopy()
		n.Labels = toggle(n.Labels, "k0", "v0", "v1")
		must(fc.Update(ctx, &n))
		return vRecEvent{kind: "namespace_labels", obj: &n, old: old, cluster: true, pool: true}, true
	case op < 19 && len(nss.Items) > 0:
		n := nss.Items[r.Intn(len(nss.Items))]
		old := n.DeepCopy()
		n.Annotations = toggle(n.Annotations, "x", "1", "2")
		must(fc.Update(ctx, &n))
		return vRecEvent{kind: "namespace_annotation", obj: &n, old: old, cluster: true, pool: true}, true
	case op < 20:
		n := &corev1.Namespace{ObjectMeta: metav1.ObjectMeta{Name: "zz-ns", Labels: map[string]string{"k0": "v1"}}}
		if err := fc.Get(ctx, types.NamespacedName{Name: "zz-ns"}, n); err == nil {
			must(fc.Delete(ctx, n))
			return vRecEvent{kind: "namespace_delete", obj: n, cluster: true, pool: true}, true
		}
		must(fc.Create(ctx, n))
		return vRecEvent{kind: "namespace_create", obj: n, cluster: true, pool: true}, true
	case op < 22:
		return flip("l2adv", &metallbv1beta1.L2Advertisement{ObjectMeta: meta("zz-l2")}, func() client.Object {
			return &metallbv1beta1.L2Advertisement{ObjectMeta: meta("zz-l2"), Spec: metallbv1beta1.L2AdvertisementSpec{NodeSelectors: []metav1.LabelSelector{{MatchLabels: map[string]string{"k0": "v1"}}}}}
		}, false)
	case op < 24:
		return flip("bgpadv", &metallbv1beta1.BGPAdvertisement{ObjectMeta: meta("zz-bgp")}, func() client.Object {
			return &metallbv1beta1.BGPAdvertisement{ObjectMeta: meta("zz-bgp"), Spec: metallbv1beta1.BGPAdvertisementSpec{NodeSelectors: []metav1.LabelSelector{{MatchLabels: map[string]string{"k0": "v0"}}}}}
		}, false)
	case op < 25:
		return flip("peer", &metallbv1beta2.BGPPeer{ObjectMeta: meta("zz-peer")}, func() client.Object {
			return &metallbv1beta2.BGPPeer{ObjectMeta: meta("zz-peer"), Spec: metallbv1beta2.BGPPeerSpec{MyASN: 64512, ASN: 64999, Address: "10.9.0.99",
				PasswordSecret: corev1.SecretReference{Name: "zz-secret", Namespace: testNamespace}}}
		}, false)
	case op < 27:
		return flip("secret", &corev1.Secret{ObjectMeta: meta("zz-secret")}, func() client.Object {
			return &corev1.Secret{ObjectMeta: meta("zz-secret"), Type: corev1.SecretTypeBasicAuth, Data: map[string][]byte{"password": []byte("pw")}}
		}, false)
	case op < 28:
		return flip("bfdprofile", &metallbv1beta1.BFDProfile{ObjectMeta: meta("zz-bfd")}, func() client.Object {
			rx := uint32(100)
			return &metallbv1beta1.BFDProfile{ObjectMeta: meta("zz-bfd"), Spec: metallbv1beta1.BFDProfileSpec{ReceiveInterval: &rx}}
		}, false)
	case op < 29:
		return flip("community", &metallbv1beta1.Community{ObjectMeta: meta("zz-comm")}, func() client.Object {
			return &metallbv1beta1.Community{ObjectMeta: meta("zz-comm"), Spec: metallbv1beta1.CommunitySpec{Communities: []metallbv1beta1.CommunityAlias{{Name: "zzal", Value: "100:99"}}}}
		}, true)
	default: // config maps: the extras one and an unrelated one
		name := []string{bgpExtrasConfigName, "unrelated"}[r.Intn(2)]
		cm := &corev1.ConfigMap{ObjectMeta: meta(name)}
		if err := fc.Get(ctx, types.NamespacedName{Namespace: testNamespace, Name: name}, cm); err == nil {
			if r.Intn(2) == 0 {
				must(fc.Delete(ctx, cm))
				return vRecEvent{kind: "configmap_" + name + "_delete", obj: cm}, true
			}
			old := cm.DeepCopy()
			cm.Data = toggle(cm.Data, "extras", "a", "b")
			must(fc.Update(ctx, cm))
			return vRecEvent{kind: "configmap_" + name + "_update", obj: cm, old: old}, true
		}
		cm.Data = map[string]string{"extras": "a"}
		must(fc.Create(ctx, cm))
		return vRecEvent{kind: "configmap_" + name + "_create", obj: cm}, true
	}
	return vRecEvent{}, false
}
