//go:build verif

package controllers

// Harness for C18 (configuration loading is deterministic and independent of
// listing order).  Drives the REAL toConfig / sortedCopy (and through them
// config.For / poolsByNamespace) on generated snapshots with 3-6 objects per
// kind, several pools pinned to one namespace, advertisements whose attach
// order is visible in the result;
//  (a) oracle, written from the property statement: reflect.DeepEqual (exactly
//      what the reconcilers use) between the value computed from the snapshot
//      and the value computed from kind-wise permutations of it, and between 50
//      recomputations of the same input (map-iteration nondeterminism);
//      acceptance must not depend on the order either;
//  (b) ships snapshot + projected result to Coq (Model/Cfg.v to_config).
// The generator lives in zz_verif_cfggen_test.go (shared with C08).

import (
	"context"
	"encoding/json"
	"fmt"
	"math/rand"
	"os"
	"net"
	"reflect"
	"sort"
	"strings"
	"testing"

	"github.com/go-kit/log"
	metallbv1beta1 "go.universe.tf/metallb/api/v1beta1"
	metallbv1beta2 "go.universe.tf/metallb/api/v1beta2"
	"go.universe.tf/metallb/internal/allocator"
	"go.universe.tf/metallb/internal/config"
	"go.universe.tf/metallb/internal/ipfamily"
	corev1 "k8s.io/api/core/v1"
	metav1 "k8s.io/apimachinery/pkg/apis/meta/v1"
	"k8s.io/apimachinery/pkg/types"
	"k8s.io/client-go/kubernetes/scheme"
	"sigs.k8s.io/controller-runtime/pkg/client"
	"sigs.k8s.io/controller-runtime/pkg/client/interceptor"
	"sigs.k8s.io/controller-runtime/pkg/reconcile"
)

type vClusterResources = config.ClusterResources
type vConfig = config.Config

func vValidate(k int) config.Validate {
	switch k {
	case 1:
		return config.DiscardNativeOnly
	case 2:
		return config.DiscardFRROnly
	}
	return config.DontValidate
}

// a panic inside config.For (seen before fix F5: a mixed-family range leaves an empty
// CIDR list that isAggrLengthDifferent indexes) counts as a rejection here; C08 reports it
func vToConfig(res vClusterResources, val config.Validate) (cfg *config.Config, err error) {
	defer func() {
		if p := recover(); p != nil {
			cfg, err = nil, fmt.Errorf("panic: %v", p)
		}
	}()
	return toConfig(res, val)
}

// the F1 and F2 witnesses (DESIGN.md section 5); they run first
func vCorpus() []vSnap {
	t := true
	_ = t
	mkpool := func(name, slot int, nss []int) vPool {
		a := vAddr{Kind: 0, Fam: 4, Fam2: 4, A: fmt.Sprint(0x0a000000 + slot*128), Len: 25}
		a.Text = fmt.Sprintf("10.0.%d.%d/25", slot/2, (slot%2)*128)
		p := vPool{Name: name, Addrs: []vAddr{a}}
		if nss != nil {
			p.Alloc = &vAlloc{Nss: nss}
		}
		return p
	}
	// F1: three BGP advertisements listed as [b, c, a] on one pool
	f1 := vSnap{Modelled: true, Pools: []vPool{mkpool(0, 0, nil)},
		BGP: []vBGP{{Name: 1, LP: 0}, {Name: 2, LP: 0}, {Name: 0, LP: 0}}}
	// F2: four pools pinned to the same namespace
	f2 := vSnap{Modelled: true, Pools: []vPool{mkpool(0, 0, []int{1}), mkpool(1, 1, []int{1}), mkpool(2, 2, []int{1, 2}), mkpool(3, 3, []int{1, 2})}}
	// seeded/C18-1: a dual-stack pool and two advertisements with different local preferences
	// whose aggregation length differs in IPv4 only: must be rejected on every computation
	a4 := vAddr{Kind: 0, Fam: 4, Fam2: 4, A: fmt.Sprint(0x0a141e00), Len: 24, Text: "10.20.30.0/24"}
	a6 := vAddr{Kind: 0, Fam: 6, Fam2: 6, A: "334965454937798799971759379190646833152", Len: 112, Text: "fc00::/112"}
	i24 := 24
	f3 := vSnap{Modelled: true, DualClash: 2, Nodes: []vNode{{Name: 0}, {Name: 1}}, Pools: []vPool{{Name: 0, Addrs: []vAddr{a4, a6}}},
		BGP: []vBGP{{Name: 0, LP: 100, Agg4: &i24}, {Name: 1, LP: 200}}}
	return []vSnap{f1, f2, f3}
}

func vDiffPart(a, b *config.Config) string {
	switch {
	case a == nil || b == nil:
		return "nil"
	case !reflect.DeepEqual(a.Pools.ByNamespace, b.Pools.ByNamespace):
		return "Pools.ByNamespace"
	case !reflect.DeepEqual(a.Pools.ByServiceSelector, b.Pools.ByServiceSelector):
		return "Pools.ByServiceSelector"
	case !reflect.DeepEqual(a.Pools.ByName, b.Pools.ByName):
		return "Pools.ByName"
	case !reflect.DeepEqual(a.Peers, b.Peers):
		return "Peers"
	case !reflect.DeepEqual(a.BFDProfiles, b.BFDProfiles):
		return "BFDProfiles"
	}
	return "other"
}

func vPoolNamesOf(ps []metallbv1beta1.IPAddressPool) []int {
	out := make([]int, len(ps))
	for i := range ps {
		out[i] = vIndex(vPoolNames, ps[i].Name)
	}
	return out
}

func TestVerifOrder(t *testing.T) {
	out := vOpen()
	defer out.Close()
	r := vRand()
	n := vN(150)
	nperm := 12
	nrep := 50
	if vThorough() {
		nperm = 60
	}
	var snaps, replayed []vSnap
	if p := os.Getenv("VERIF_REPLAY"); p != "" {
		var f struct {
			Replay struct {
				Snap vSnap `json:"snap"`
			} `json:"replay"`
		}
		b, err := os.ReadFile(p)
		if err == nil && json.Unmarshal(b, &f) == nil {
			snaps = append(snaps, f.Replay.Snap)
			replayed = append(replayed, f.Replay.Snap)
			n = 0
		}
	}
	snaps = append(snaps, vCorpus()...)
	if n > 0 { // every boundary / defect of the non-pool part of config.For, once per run
		for k := 0; k < vNonPoolVariants; k++ {
			snaps = append(snaps, vGenNonPool(r, k))
		}
		for k := 0; k < 12; k++ { // one-sided peer lists with different local preferences, every name / listing order
			snaps = append(snaps, vGenPeerClash(r, k))
		}
		for k := 0; k < 8; k++ { // selector grouping, nested L2 node sets, mixed-family pools with a node IP inside
			snaps = append(snaps, vGenSelGroup(r, 3*k+r.Intn(3)), vGenL2Nested(r, k+8*r.Intn(3)), vGenMixedNode(r, r.Intn(64)))
		}
	}
	for i := 0; i < n; i++ {
		o := vGenOpts{MinObj: 3, MaxObj: 6, Wild: i%10 >= 7}
		if i%10 == 3 {
			// acceptance hinges on how isAggrLengthDifferent sees a dual-stack pool: two
			// advertisements with different local preferences, aggregation lengths differing
			// in none / IPv4 only / IPv6 only / both families
			o.DualClash = 1 + (i/10)%8
		}
		sn := vGenSnap(r, o)
		sn.DualClash = o.DualClash
		if i%10 == 5 {
			// the verdict hinges on validateConfig's walk over the ByName map (BFD echo rule)
			sn = vGenEchoMix(r, 1+(i/10)%8)
		}
		snaps = append(snaps, sn)
	}
	id := 0
	for _, s := range snaps {
		val := vValidate(s.Validate)
		base, err0 := vToConfig(vBuild(s), val)
		if os.Getenv("VERIF_DEBUG") != "" {
			fmt.Println("DEBUG", err0)
		}
		if err0 == nil {
			out.Stat("accepted", 1)
		} else {
			out.Stat("rejected", 1)
		}
		if s.DualClash > 0 {
			k := []string{"none", "ipv4_only", "ipv6_only", "both"}[(s.DualClash-1)%4]
			if err0 == nil {
				out.Stat("dualclash_lengths_differ_in_"+k+"_accepted", 1)
			} else {
				out.Stat("dualclash_lengths_differ_in_"+k+"_rejected", 1)
			}
		}
		if s.EchoMix > 0 {
			out.Stat(fmt.Sprintf("echomix_variant_%d", s.EchoMix), 1)
			if s.WantEcho {
				out.Stat("echomix_must_be_refused", 1)
			} else {
				out.Stat("echomix_must_be_accepted", 1)
			}
			// the verdict itself, from the rule: refused iff a pool containing IPv6 is advertised
			// to a peer whose BFD profile has echo mode
			if (err0 != nil) != s.WantEcho {
				out.Fail("config-bfd-echo-rule-verdict", fmt.Sprintf("layout %d of the BFD-echo rule: want refused=%v, config.For (FRR validator) says err=%v", s.EchoMix, s.WantEcho, err0), map[string]any{"snap": s})
			}
		}
		if len(s.Pools) >= 3 && len(s.BGP) >= 3 {
			out.Stat("three_or_more_objects", 1)
		}
		if err0 == nil {
			for _, l := range base.Pools.ByNamespace {
				if len(l) >= 2 {
					out.Stat("namespace_with_two_or_more_pools", 1)
					break
				}
			}
			for _, p := range base.Pools.ByName {
				if len(p.BGPAdvertisements) >= 3 {
					out.Stat("pool_with_three_or_more_bgp_advs", 1)
					break
				}
			}
		}
		replay := map[string]any{"snap": s}
		// (1) repetitions of the same input
		for k := 0; k < nrep; k++ {
			again, err := vToConfig(vBuild(s), val)
			out.Stat("oracle_evaluations", 1)
			if (err == nil) != (err0 == nil) {
				out.Fail("toconfig-accept-not-repeatable", fmt.Sprintf("same snapshot: first computation err=%v, repetition %d err=%v", err0, k, err), replay)
				break
			}
			if err == nil && !reflect.DeepEqual(base, again) {
				out.Fail("toconfig-not-repeatable", fmt.Sprintf("two computations from the same snapshot differ in %s (repetition %d): the reconciler sees a configuration change", vDiffPart(base, again), k), replay)
				break
			}
		}
		// (2) kind-wise permutations
		for k := 0; k < nperm; k++ {
			s2 := vShuffle(s, r)
			cfg2, err := vToConfig(vBuild(s2), val)
			out.Stat("oracle_evaluations", 1)
			if (err == nil) != (err0 == nil) {
				replay["permuted"] = s2
				out.Fail("toconfig-accept-depends-on-order", fmt.Sprintf("listing order changes acceptance: err=%v vs err=%v", err0, err), replay)
				break
			}
			if err == nil && !reflect.DeepEqual(base, cfg2) {
				replay["permuted"] = s2
				out.Fail("toconfig-depends-on-order", fmt.Sprintf("a permutation of the listing changes %s", vDiffPart(base, cfg2)), replay)
				break
			}
		}
		// (2b) acceptance where the lists reach config.For UNSORTED: config.For itself and the
		// admission webhooks' validator (config.NewValidator(...).Validate gets the lists in API
		// server order, the new object last); the verdict must not depend on that order
		{
			verdict := func(sn vSnap) (bool, bool) {
				res := vBuild(sn)
				_, e1 := vFor(res, val)
				var pl metallbv1beta1.IPAddressPoolList
				var peers metallbv1beta2.BGPPeerList
				var bfds metallbv1beta1.BFDProfileList
				var bgp metallbv1beta1.BGPAdvertisementList
				var l2 metallbv1beta1.L2AdvertisementList
				var cm metallbv1beta1.CommunityList
				var nl corev1.NodeList
				pl.Items, peers.Items, bfds.Items, bgp.Items, l2.Items, cm.Items, nl.Items = res.Pools, res.Peers, res.BFDProfiles, res.BGPAdvs, res.L2Advs, res.Communities, res.Nodes
				e2 := vValidatorErr(val, &pl, &peers, &bfds, &bgp, &l2, &cm, &nl)
				return e1 == nil, e2 == nil
			}
			f0, w0 := verdict(s)
			if f0 {
				out.Stat("configfor_unsorted_accepted", 1)
			} else {
				out.Stat("configfor_unsorted_rejected", 1)
			}
			for k := 0; k < 6; k++ {
				s2 := vShuffle(s, r)
				f1, w1 := verdict(s2)
				out.Stat("oracle_evaluations", 2)
				if f1 != f0 {
					out.Fail("configfor-accept-depends-on-order", fmt.Sprintf("config.For on the lists as given: accepted=%v, on a permutation of them: accepted=%v", f0, f1), map[string]any{"snap": s, "permuted": s2})
					break
				}
				if w1 != w0 {
					out.Fail("validator-accept-depends-on-order", fmt.Sprintf("the admission webhooks' validator (config.NewValidator): accepted=%v on the lists as given, %v on a permutation", w0, w1), map[string]any{"snap": s, "permuted": s2})
					break
				}
			}
		}
		// (3) sortedCopy itself
		for k := 0; k < 3; k++ {
			s2 := vShuffle(s, r)
			in := vBuild(s2).Pools
			inNames := vPoolNamesOf(in)
			res := sortedCopy(in)
			outNames := vPoolNamesOf(res)
			chk := append([]int(nil), inNames...)
			sort.Ints(chk)
			perm := append([]int(nil), outNames...)
			sort.Ints(perm)
			if !reflect.DeepEqual(chk, perm) {
				out.Fail("sortedcopy-not-a-permutation", fmt.Sprintf("sortedCopy(%v) = %v", inNames, outNames), map[string]any{"snap": s2})
			} else if !sort.IntsAreSorted(outNames) {
				out.Fail("sortedcopy-not-sorted", fmt.Sprintf("sortedCopy(%v) = %v is not sorted by name", inNames, outNames), map[string]any{"snap": s2})
			}
			dup := false
			for i := 1; i < len(chk); i++ {
				dup = dup || chk[i] == chk[i-1]
			}
			if !dup {
				id++
				out.Case(id, "sorted", cCtor("CSorted", cNi(id), cListN(inNames), cListN(outNames)), map[string]any{"in": inNames, "out": outNames})
			}
			if len(inNames) >= 3 && !sort.IntsAreSorted(inNames) {
				out.Stat("sortedcopy_unsorted_input_3plus", 1)
			}
		}
		// (4) correspondence with the model
		if s.Modelled {
			id++
			res := cNone
			if err0 == nil {
				res = cSome(vObsCoq(vProject(base)))
			}
			out.Case(id, "toconfig", cCtor("CToConfig", cNi(id), vSnapCoq(s), res), map[string]any{"snap": s, "accepted": err0 == nil})
		}
		// the whole Config (pools, peers, BFD profiles, extras) and every reason for refusal,
		// with the validator of the snapshot: Model/CfgFull.v full_to_config
		{
			id++
			res := cNone
			if err0 == nil {
				res = cSome(vFullCoq(base))
				out.Stat("full_accepted", 1)
			} else {
				out.Stat("full_rejected", 1)
				out.Stat("full_rejected: "+vErrClass(err0), 1)
			}
			out.Case(id, "full", cCtor("CFull", cNi(id), cVmode(s.Validate), vSnapCoqFull(s), res), map[string]any{"snap": s, "accepted": err0 == nil, "err": fmt.Sprint(err0)})
		}
	}
	vReconcilerSkips(t, out, r, append(replayed, vCorpus()[1]))
	vReconcilerAllocator(t, out, r, replayed)
}

// reconcilers skip the handler when the new configuration equals the current
// one: the REAL ConfigReconciler and PoolReconciler on a fake API server whose
// List order the test controls (as listed, reversed, shuffled - the API server
// and the informer cache guarantee no order).  Of several reconciles of an
// unchanged snapshot only the first may call the handler / force a re-sync,
// and a fresh reconciler (controller restart) fed another list order must hand
// its handler a value DeepEqual to the first one's.
func vShuf[T any](items []T, mode int, r *rand.Rand) {
	switch mode {
	case 1:
		for i, j := 0, len(items)-1; i < j; i, j = i+1, j-1 {
			items[i], items[j] = items[j], items[i]
		}
	case 2:
		r.Shuffle(len(items), func(i, j int) { items[i], items[j] = items[j], items[i] })
	}
}

func vReconcilerSkips(t *testing.T, out *vOut, r *rand.Rand, first []vSnap) {
	snaps := append([]vSnap(nil), first...)
	for k := 0; k < 6; k++ {
		for {
			s := vGenSnap(r, vGenOpts{MinObj: 3, MaxObj: 5})
			if _, err := vToConfig(vBuild(s), config.DontValidate); err == nil {
				snaps = append(snaps, s)
				break
			}
		}
	}
	for _, s := range snaps {
		base, err := vToConfig(vBuild(s), config.DontValidate)
		if err != nil {
			continue
		}
		shared := false
		for _, l := range base.Pools.ByNamespace {
			shared = shared || len(l) >= 2
		}
		res := vBuild(s)
		for i := range res.Pools {
			res.Pools[i].Namespace = testNamespace
		}
		for i := range res.Peers {
			res.Peers[i].Namespace = testNamespace
		}
		for i := range res.BFDProfiles {
			res.BFDProfiles[i].Namespace = testNamespace
		}
		for i := range res.L2Advs {
			res.L2Advs[i].Namespace = testNamespace
		}
		for i := range res.BGPAdvs {
			res.BGPAdvs[i].Namespace = testNamespace
		}
		for i := range res.Communities {
			res.Communities[i].Namespace = testNamespace
		}
		fc0, err := newFakeClient(vObjects(res))
		if err != nil {
			t.Fatalf("fake client: %v", err)
		}
		mode := 0
		fc := interceptor.NewClient(fc0, interceptor.Funcs{
			List: func(ctx context.Context, c client.WithWatch, list client.ObjectList, opts ...client.ListOption) error {
				if err := c.List(ctx, list, opts...); err != nil {
					return err
				}
				switch l := list.(type) {
				case *metallbv1beta1.IPAddressPoolList:
					vShuf(l.Items, mode, r)
				case *metallbv1beta1.CommunityList:
					vShuf(l.Items, mode, r)
				case *metallbv1beta1.BGPAdvertisementList:
					vShuf(l.Items, mode, r)
				case *metallbv1beta1.L2AdvertisementList:
					vShuf(l.Items, mode, r)
				case *metallbv1beta1.BFDProfileList:
					vShuf(l.Items, mode, r)
				case *metallbv1beta2.BGPPeerList:
					vShuf(l.Items, mode, r)
				case *corev1.NamespaceList:
					vShuf(l.Items, mode, r)
				case *corev1.NodeList:
					vShuf(l.Items, mode, r)
				}
				return nil
			}})
		req := reconcile.Request{NamespacedName: types.NamespacedName{Namespace: testNamespace, Name: "unrelated"}}
		replay := map[string]any{"snap": s}
		modes := []int{0, 1, 2, 2, 2, 0}
		var cfgs []*config.Config
		var pools []*config.Pools
		// two generations of reconcilers: the second is a restarted controller that sees the
		// objects in another order first
		for gen := 0; gen < 2; gen++ {
			calls, reloads, pcalls, preloads := 0, 0, 0, 0
			cr := &ConfigReconciler{Client: fc, Logger: log.NewNopLogger(), Scheme: scheme.Scheme, Namespace: testNamespace,
				ValidateConfig: config.DontValidate,
				Handler:        func(_ log.Logger, c *config.Config) SyncState { calls++; cfgs = append(cfgs, c); return SyncStateReprocessAll },
				ForceReload:    func() { reloads++ }}
			pr := &PoolReconciler{Client: fc, Logger: log.NewNopLogger(), Scheme: scheme.Scheme, Namespace: testNamespace,
				ValidateConfig: config.DontValidate,
				Handler:        func(_ log.Logger, p *config.Pools) SyncState { pcalls++; pools = append(pools, p); return SyncStateReprocessAll },
				ForceReload:    func() { preloads++ }}
			for i := range modes {
				mode = modes[(i+gen)%len(modes)]
				if _, err := cr.Reconcile(context.TODO(), req); err != nil {
					t.Fatalf("reconcile: %v", err)
				}
				if _, err := pr.Reconcile(context.TODO(), req); err != nil {
					t.Fatalf("reconcile: %v", err)
				}
				out.Stat("oracle_evaluations", 2)
			}
			mode = 0
			if calls != 1 || reloads != 1 {
				out.Fail("reconciler-unrelated-event-reloads", fmt.Sprintf("ConfigReconciler: %d reconciles of an unchanged snapshot (listed in different orders) called the handler %d times and forced %d re-syncs (want 1, 1)", len(modes), calls, reloads), replay)
			}
			if pcalls != 1 || preloads != 1 {
				out.Fail("reconciler-unrelated-event-reloads", fmt.Sprintf("PoolReconciler: %d reconciles of an unchanged snapshot (listed in different orders) called the handler %d times and forced %d re-syncs (want 1, 1)", len(modes), pcalls, preloads), replay)
			}
		}
		out.Stat("reconciler_runs", 1)
		if shared {
			out.Stat("reconciler_runs_with_two_pools_in_one_namespace", 1)
		}
		for _, c := range cfgs[1:] {
			if !reflect.DeepEqual(cfgs[0], c) {
				out.Fail("reconciler-config-depends-on-list-order", fmt.Sprintf("ConfigReconciler: the configuration handed to the handler differs in %s between two list orders of the same objects (e.g. before and after a restart)", vDiffPart(cfgs[0], c)), replay)
				break
			}
		}
		for _, p := range pools[1:] {
			if !reflect.DeepEqual(pools[0], p) {
				part := "Pools.ByName"
				if !reflect.DeepEqual(pools[0].ByNamespace, p.ByNamespace) {
					part = "Pools.ByNamespace"
				} else if !reflect.DeepEqual(pools[0].ByServiceSelector, p.ByServiceSelector) {
					part = "Pools.ByServiceSelector"
				}
				out.Fail("reconciler-config-depends-on-list-order", fmt.Sprintf("PoolReconciler: the pools handed to the handler differ in %s between two list orders of the same objects (e.g. before and after a restart)", part), replay)
				break
			}
		}
		if len(pools) > 0 && len(cfgs) > 0 && !reflect.DeepEqual(cfgs[0].Pools.ByNamespace, pools[0].ByNamespace) {
			out.Fail("reconciler-config-depends-on-list-order", "PoolReconciler and ConfigReconciler compute different Pools.ByNamespace from the same objects", replay)
		}
	}
}

// The PoolReconciler with the handler the controller really installs (controller/main.go
// SetPools: hand the pools to the allocator, answer ReprocessAll) and real allocator activity
// between reconciles.  The *config.Pools given to the handler is the value the reconciler
// remembers and compares (reflect.DeepEqual) with the next computed one: whatever the
// allocator does with it must leave it equal to a fresh computation, otherwise every
// unrelated event calls SetPools again and re-syncs every service.
// (The speaker-side consumers of ConfigReconciler live in package main of ./speaker and
// cannot be imported here; that side keeps the stub handler of vReconcilerSkips.)
func vReconcilerAllocator(t *testing.T, out *vOut, r *rand.Rand, first []vSnap) {
	snaps := append([]vSnap(nil), first...)
	for k := 0; k < 8; k++ {
		snaps = append(snaps, vGenPinned(r, k))
	}
	for k := 0; k < 4; k++ {
		for {
			s := vGenSnap(r, vGenOpts{MinObj: 3, MaxObj: 5})
			if _, err := vToConfig(vBuild(s), config.DontValidate); err == nil {
				snaps = append(snaps, s)
				break
			}
		}
	}
	for _, s := range snaps {
		if _, err := vToConfig(vBuild(s), config.DontValidate); err != nil {
			continue
		}
		res := vBuild(s)
		for i := range res.Pools {
			res.Pools[i].Namespace = testNamespace
		}
		for i := range res.Communities {
			res.Communities[i].Namespace = testNamespace
		}
		fc0, err := newFakeClient(vObjects(config.ClusterResources{Pools: res.Pools, Communities: res.Communities, Namespaces: res.Namespaces}))
		if err != nil {
			t.Fatalf("fake client: %v", err)
		}
		mode := 0
		fc := interceptor.NewClient(fc0, interceptor.Funcs{
			List: func(ctx context.Context, c client.WithWatch, list client.ObjectList, opts ...client.ListOption) error {
				if err := c.List(ctx, list, opts...); err != nil {
					return err
				}
				switch l := list.(type) {
				case *metallbv1beta1.IPAddressPoolList:
					vShuf(l.Items, mode, r)
				case *metallbv1beta1.CommunityList:
					vShuf(l.Items, mode, r)
				case *corev1.NamespaceList:
					vShuf(l.Items, mode, r)
				}
				return nil
			}})
		alloc := allocator.New(func(string) {})
		calls, reloads := 0, 0
		pr := &PoolReconciler{Client: fc, Logger: log.NewNopLogger(), Scheme: scheme.Scheme, Namespace: testNamespace,
			ValidateConfig: config.DontValidate,
			Handler: func(_ log.Logger, p *config.Pools) SyncState {
				calls++
				if p == nil || p.ByName == nil {
					return SyncStateErrorNoRetry
				}
				alloc.SetPools(p)
				return SyncStateReprocessAll
			},
			ForceReload: func() { reloads++ }}
		req := reconcile.Request{NamespacedName: types.NamespacedName{Namespace: testNamespace, Name: "unrelated"}}
		rec := func() {
			if _, err := pr.Reconcile(context.TODO(), req); err != nil {
				t.Fatalf("reconcile: %v", err)
			}
			out.Stat("oracle_evaluations", 1)
		}
		fresh := func() *config.Config {
			var pl metallbv1beta1.IPAddressPoolList
			var cl metallbv1beta1.CommunityList
			var nl corev1.NamespaceList
			if fc0.List(context.TODO(), &pl) != nil || fc0.List(context.TODO(), &cl) != nil || fc0.List(context.TODO(), &nl) != nil {
				t.Fatalf("list")
			}
			c, err := toConfig(config.ClusterResources{Pools: pl.Items, Communities: cl.Items, Namespaces: nl.Items}, config.DontValidate)
			if err != nil {
				t.Fatalf("fresh toConfig: %v", err)
			}
			return c
		}
		var ops []string
		check := func(stage string) bool {
			replay := map[string]any{"snap": s, "allocator_ops": ops, "stage": stage}
			if calls != 1 || reloads != 1 {
				out.Fail("reconciler-unrelated-event-reloads", fmt.Sprintf("PoolReconciler with the controller's handler (allocator.SetPools): after %s the handler ran %d times and %d re-syncs were forced for one unchanged configuration (want 1, 1); allocator activity: %v", stage, calls, reloads, ops), replay)
				return false
			}
			if f := fresh(); !reflect.DeepEqual(pr.currentConfig, f) {
				out.Fail("reconciler-handler-mutates-remembered-config", fmt.Sprintf("PoolReconciler: after %s the configuration it remembers is no longer DeepEqual to one freshly computed from the same objects (differs in %s): the consumer changed it in place; allocator activity: %v", stage, vDiffPart(pr.currentConfig, f), ops), replay)
				return false
			}
			return true
		}
		rec()
		if !check("the first reconcile") {
			continue
		}
		rec()
		if !check("a repeated reconcile") {
			continue
		}
		// ---- real allocator activity on services of the pinned namespaces and of others
		cfg := pr.currentConfig
		var poolNames []string
		for n := range cfg.Pools.ByName {
			poolNames = append(poolNames, n)
		}
		sort.Strings(poolNames)
		nss := []string{vNsNames[1], vNsNames[2], vNsNames[0], "somewhere-else"}
		fams := []ipfamily.Family{ipfamily.IPv4, ipfamily.IPv6, ipfamily.DualStack}
		var live []string
		for k := 0; k < 14; k++ {
			ns := nss[r.Intn(len(nss))]
			key := fmt.Sprintf("%s/svc-%d", ns, k)
			svc := &corev1.Service{ObjectMeta: metav1.ObjectMeta{Namespace: ns, Name: fmt.Sprintf("svc-%d", k)}}
			ports := []allocator.Port{{Proto: "tcp", Port: 80 + k}}
			switch op := r.Intn(6); {
			case op < 3:
				f := fams[r.Intn(3)]
				ips, err := alloc.Allocate(key, svc, f, ports, "", "")
				ops = append(ops, fmt.Sprintf("Allocate(%s,%s)=%v,%v", key, f, ips, err != nil))
				if err == nil {
					live = append(live, key)
					out.Stat("allocator_allocate_ok", 1)
					if len(cfg.Pools.ByNamespace[ns]) >= 2 {
						out.Stat("allocator_allocate_in_namespace_with_several_pinned_pools", 1)
					}
				}
			case op < 4:
				pn := poolNames[r.Intn(len(poolNames))]
				f := fams[r.Intn(2)]
				ips, err := alloc.AllocateFromPool(key, svc, f, pn, ports, "", "")
				ops = append(ops, fmt.Sprintf("AllocateFromPool(%s,%s,%s)=%v,%v", key, f, pn, ips, err != nil))
				if err == nil {
					live = append(live, key)
					out.Stat("allocator_allocatefrompool_ok", 1)
				}
			case op < 5 && len(live) > 0:
				i := r.Intn(len(live))
				alloc.Unassign(live[i])
				ops = append(ops, "Unassign("+live[i]+")")
				live = append(live[:i], live[i+1:]...)
				out.Stat("allocator_unassign", 1)
			default:
				// Assign an explicit address: the first address of some pool CIDR
				p := cfg.Pools.ByName[poolNames[r.Intn(len(poolNames))]]
				c := p.CIDR[r.Intn(len(p.CIDR))]
				ip := append(net.IP(nil), c.IP...)
				err := alloc.Assign(key, svc, []net.IP{ip}, ports, "", "")
				ops = append(ops, fmt.Sprintf("Assign(%s,%s)=%v", key, ip, err != nil))
				if err == nil {
					live = append(live, key)
					out.Stat("allocator_assign_ok", 1)
				}
			}
		}
		out.Stat("reconciler_allocator_runs", 1)
		for n, l := range cfg.Pools.ByNamespace {
			_ = n
			if len(l) >= 2 {
				// priorities not in name order?
				prev := -1
				for _, pn := range l {
					pr := 0
					if sa := cfg.Pools.ByName[pn].ServiceAllocations; sa != nil {
						pr = sa.Priority
					}
					if prev >= 0 && (pr != 0 && (prev == 0 || pr < prev)) {
						out.Stat("reconciler_allocator_runs_priority_order_differs_from_name_order", 1)
					}
					prev = pr
				}
				break
			}
		}
		// ---- unrelated events
		mode = 0
		rec()
		if !check("allocator activity and a repeated reconcile") {
			continue
		}
		mode = 1
		rec()
		if !check("allocator activity and a reconcile that lists the objects in reverse order") {
			continue
		}
		mode = 2
		rec()
		if !check("allocator activity and a reconcile that lists the objects in random order") {
			continue
		}
		selects := false // a namespace selector may legitimately pick up a new namespace
		for _, p := range s.Pools {
			selects = selects || (p.Alloc != nil && len(p.Alloc.NsSels) > 0)
		}
		if selects {
			continue
		}
		out.Stat("reconciler_allocator_unrelated_namespace_created", 1)
		if err := fc0.Create(context.TODO(), &corev1.Namespace{ObjectMeta: metav1.ObjectMeta{Name: "zz-unrelated-namespace"}}); err != nil {
			t.Fatalf("create namespace: %v", err)
		}
		rec()
		check("the creation of an unrelated namespace")
	}
}

// coarse class of a rejection, for the coverage counters only (never compared)
func vErrClass(err error) string {
	e := err.Error()
	for _, k := range []string{"bfd echo enabled", "non existing bfd profile", "parsing bfd profile", "duplicate bfd", "parsing peer", "already exists",
		"RouterID different", "myAsn different", "on native bgp mode", "bfd profiles section set", "native bgp mode does not support ipv6", "legacy communities",
		"parsing community", "duplicate definition of community", "invalid community", "secret", "overlaps", "nodeIp", "aggregation length", "local preference", "duplicate definition", "invalid CIDR", "no prefixes", "panic"} {
		if strings.Contains(e, k) {
			return k
		}
	}
	return "other"
}

// every object of the snapshot for the fake API server (objectsFromResources leaves out nodes,
// namespaces and the extras config map); secrets and the config map live in the MetalLB namespace
func vObjects(res config.ClusterResources) []client.Object {
	for k, sec := range res.PasswordSecrets {
		sec.Namespace = testNamespace
		res.PasswordSecrets[k] = sec
	}
	objs := objectsFromResources(res)
	for i := range res.Nodes {
		objs = append(objs, res.Nodes[i].DeepCopy())
	}
	for i := range res.Namespaces {
		objs = append(objs, res.Namespaces[i].DeepCopy())
	}
	if res.BGPExtras.Data != nil {
		cm := res.BGPExtras.DeepCopy()
		cm.Name, cm.Namespace = bgpExtrasConfigName, testNamespace
		objs = append(objs, cm)
	}
	return objs
}

func vFor(res config.ClusterResources, val config.Validate) (cfg *config.Config, err error) {
	defer func() {
		if p := recover(); p != nil {
			cfg, err = nil, fmt.Errorf("panic: %v", p)
		}
	}()
	return config.For(res, val)
}

func vValidatorErr(val config.Validate, lists ...client.ObjectList) (err error) {
	defer func() {
		if p := recover(); p != nil {
			err = fmt.Errorf("panic: %v", p)
		}
	}()
	return config.NewValidator(val).Validate(lists...)
}
