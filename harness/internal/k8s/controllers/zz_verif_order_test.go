//go:build verif

package controllers

// Harness for C18 (configuration loading is deterministic and independent of
// listing order).  Drives the REAL toConfig / sortedCopy (and through them
// config.For / poolsByNamespace) on generated snapshots with 3-6 objects per
// kind, several pools pinned to one namespace, advertisements whose attach
// order is visible in the result;
//  (a) oracle, written from the property statement: reflect.DeepEqual (exactly
//      what the reconcilers use) between the value computed from the snapshot
//      and the value computed from kind-wise permutations of it, and between 50
//      recomputations of the same input (map-iteration nondeterminism);
//      acceptance must not depend on the order either;
//  (b) ships snapshot + projected result to Coq (Model/Cfg.v to_config).
// The generator lives in zz_verif_cfggen_test.go (shared with C08).

import (
	"context"
	"encoding/json"
	"fmt"
	"math/rand"
	"os"
	"reflect"
	"sort"
	"testing"

	"github.com/go-kit/log"
	metallbv1beta1 "go.universe.tf/metallb/api/v1beta1"
	metallbv1beta2 "go.universe.tf/metallb/api/v1beta2"
	"go.universe.tf/metallb/internal/config"
	corev1 "k8s.io/api/core/v1"
	"k8s.io/apimachinery/pkg/types"
	"k8s.io/client-go/kubernetes/scheme"
	"sigs.k8s.io/controller-runtime/pkg/client"
	"sigs.k8s.io/controller-runtime/pkg/client/interceptor"
	"sigs.k8s.io/controller-runtime/pkg/reconcile"
)

type vClusterResources = config.ClusterResources
type vConfig = config.Config

func vValidate(k int) config.Validate {
	switch k {
	case 1:
		return config.DiscardNativeOnly
	case 2:
		return config.DiscardFRROnly
	}
	return config.DontValidate
}

// a panic inside config.For (seen before fix F5: a mixed-family range leaves an empty
// CIDR list that isAggrLengthDifferent indexes) counts as a rejection here; C08 reports it
func vToConfig(res vClusterResources, val config.Validate) (cfg *config.Config, err error) {
	defer func() {
		if p := recover(); p != nil {
			cfg, err = nil, fmt.Errorf("panic: %v", p)
		}
	}()
	return toConfig(res, val)
}

// the F1 and F2 witnesses (DESIGN.md section 5); they run first
func vCorpus() []vSnap {
	t := true
	_ = t
	mkpool := func(name, slot int, nss []int) vPool {
		a := vAddr{Kind: 0, Fam: 4, Fam2: 4, A: fmt.Sprint(0x0a000000 + slot*128), Len: 25}
		a.Text = fmt.Sprintf("10.0.%d.%d/25", slot/2, (slot%2)*128)
		p := vPool{Name: name, Addrs: []vAddr{a}}
		if nss != nil {
			p.Alloc = &vAlloc{Nss: nss}
		}
		return p
	}
	// F1: three BGP advertisements listed as [b, c, a] on one pool
	f1 := vSnap{Modelled: true, Pools: []vPool{mkpool(0, 0, nil)},
		BGP: []vBGP{{Name: 1, LP: 0}, {Name: 2, LP: 0}, {Name: 0, LP: 0}}}
	// F2: four pools pinned to the same namespace
	f2 := vSnap{Modelled: true, Pools: []vPool{mkpool(0, 0, []int{1}), mkpool(1, 1, []int{1}), mkpool(2, 2, []int{1, 2}), mkpool(3, 3, []int{1, 2})}}
	// seeded/C18-1: a dual-stack pool and two advertisements with different local preferences
	// whose aggregation length differs in IPv4 only: must be rejected on every computation
	a4 := vAddr{Kind: 0, Fam: 4, Fam2: 4, A: fmt.Sprint(0x0a141e00), Len: 24, Text: "10.20.30.0/24"}
	a6 := vAddr{Kind: 0, Fam: 6, Fam2: 6, A: "334965454937798799971759379190646833152", Len: 112, Text: "fc00::/112"}
	i24 := 24
	f3 := vSnap{Modelled: true, DualClash: 2, Nodes: []vNode{{Name: 0}, {Name: 1}}, Pools: []vPool{{Name: 0, Addrs: []vAddr{a4, a6}}},
		BGP: []vBGP{{Name: 0, LP: 100, Agg4: &i24}, {Name: 1, LP: 200}}}
	return []vSnap{f1, f2, f3}
}

func vDiffPart(a, b *config.Config) string {
	switch {
	case a == nil || b == nil:
		return "nil"
	case !reflect.DeepEqual(a.Pools.ByNamespace, b.Pools.ByNamespace):
		return "Pools.ByNamespace"
	case !reflect.DeepEqual(a.Pools.ByServiceSelector, b.Pools.ByServiceSelector):
		return "Pools.ByServiceSelector"
	case !reflect.DeepEqual(a.Pools.ByName, b.Pools.ByName):
		return "Pools.ByName"
	case !reflect.DeepEqual(a.Peers, b.Peers):
		return "Peers"
	case !reflect.DeepEqual(a.BFDProfiles, b.BFDProfiles):
		return "BFDProfiles"
	}
	return "other"
}

func vPoolNamesOf(ps []metallbv1beta1.IPAddressPool) []int {
	out := make([]int, len(ps))
	for i := range ps {
		out[i] = vIndex(vPoolNames, ps[i].Name)
	}
	return out
}

func TestVerifOrder(t *testing.T) {
	out := vOpen()
	defer out.Close()
	r := vRand()
	n := vN(150)
	nperm := 12
	nrep := 50
	if vThorough() {
		nperm = 60
	}
	var snaps, replayed []vSnap
	if p := os.Getenv("VERIF_REPLAY"); p != "" {
		var f struct {
			Replay struct {
				Snap vSnap `json:"snap"`
			} `json:"replay"`
		}
		b, err := os.ReadFile(p)
		if err == nil && json.Unmarshal(b, &f) == nil {
			snaps = append(snaps, f.Replay.Snap)
			replayed = append(replayed, f.Replay.Snap)
			n = 0
		}
	}
	snaps = append(snaps, vCorpus()...)
	for i := 0; i < n; i++ {
		o := vGenOpts{MinObj: 3, MaxObj: 6, Wild: i%10 >= 7}
		if i%10 == 3 {
			// acceptance hinges on how isAggrLengthDifferent sees a dual-stack pool: two
			// advertisements with different local preferences, aggregation lengths differing
			// in none / IPv4 only / IPv6 only / both families
			o.DualClash = 1 + (i/10)%8
		}
		sn := vGenSnap(r, o)
		sn.DualClash = o.DualClash
		snaps = append(snaps, sn)
	}
	id := 0
	for _, s := range snaps {
		val := vValidate(s.Validate)
		base, err0 := vToConfig(vBuild(s), val)
		if os.Getenv("VERIF_DEBUG") != "" {
			fmt.Println("DEBUG", err0)
		}
		if err0 == nil {
			out.Stat("accepted", 1)
		} else {
			out.Stat("rejected", 1)
		}
		if s.DualClash > 0 {
			k := []string{"none", "ipv4_only", "ipv6_only", "both"}[(s.DualClash-1)%4]
			if err0 == nil {
				out.Stat("dualclash_lengths_differ_in_"+k+"_accepted", 1)
			} else {
				out.Stat("dualclash_lengths_differ_in_"+k+"_rejected", 1)
			}
		}
		if len(s.Pools) >= 3 && len(s.BGP) >= 3 {
			out.Stat("three_or_more_objects", 1)
		}
		if err0 == nil {
			for _, l := range base.Pools.ByNamespace {
				if len(l) >= 2 {
					out.Stat("namespace_with_two_or_more_pools", 1)
					break
				}
			}
			for _, p := range base.Pools.ByName {
				if len(p.BGPAdvertisements) >= 3 {
					out.Stat("pool_with_three_or_more_bgp_advs", 1)
					break
				}
			}
		}
		replay := map[string]any{"snap": s}
		// (1) repetitions of the same input
		for k := 0; k < nrep; k++ {
			again, err := vToConfig(vBuild(s), val)
			out.Stat("oracle_evaluations", 1)
			if (err == nil) != (err0 == nil) {
				out.Fail("toconfig-accept-not-repeatable", fmt.Sprintf("same snapshot: first computation err=%v, repetition %d err=%v", err0, k, err), replay)
				break
			}
			if err == nil && !reflect.DeepEqual(base, again) {
				out.Fail("toconfig-not-repeatable", fmt.Sprintf("two computations from the same snapshot differ in %s (repetition %d): the reconciler sees a configuration change", vDiffPart(base, again), k), replay)
				break
			}
		}
		// (2) kind-wise permutations
		for k := 0; k < nperm; k++ {
			s2 := vShuffle(s, r)
			cfg2, err := vToConfig(vBuild(s2), val)
			out.Stat("oracle_evaluations", 1)
			if (err == nil) != (err0 == nil) {
				replay["permuted"] = s2
				out.Fail("toconfig-accept-depends-on-order", fmt.Sprintf("listing order changes acceptance: err=%v vs err=%v", err0, err), replay)
				break
			}
			if err == nil && !reflect.DeepEqual(base, cfg2) {
				replay["permuted"] = s2
				out.Fail("toconfig-depends-on-order", fmt.Sprintf("a permutation of the listing changes %s", vDiffPart(base, cfg2)), replay)
				break
			}
		}
		// (3) sortedCopy itself
		for k := 0; k < 3; k++ {
			s2 := vShuffle(s, r)
			in := vBuild(s2).Pools
			inNames := vPoolNamesOf(in)
			res := sortedCopy(in)
			outNames := vPoolNamesOf(res)
			chk := append([]int(nil), inNames...)
			sort.Ints(chk)
			perm := append([]int(nil), outNames...)
			sort.Ints(perm)
			if !reflect.DeepEqual(chk, perm) {
				out.Fail("sortedcopy-not-a-permutation", fmt.Sprintf("sortedCopy(%v) = %v", inNames, outNames), map[string]any{"snap": s2})
			} else if !sort.IntsAreSorted(outNames) {
				out.Fail("sortedcopy-not-sorted", fmt.Sprintf("sortedCopy(%v) = %v is not sorted by name", inNames, outNames), map[string]any{"snap": s2})
			}
			dup := false
			for i := 1; i < len(chk); i++ {
				dup = dup || chk[i] == chk[i-1]
			}
			if !dup {
				id++
				out.Case(id, "sorted", cCtor("CSorted", cNi(id), cListN(inNames), cListN(outNames)), map[string]any{"in": inNames, "out": outNames})
			}
			if len(inNames) >= 3 && !sort.IntsAreSorted(inNames) {
				out.Stat("sortedcopy_unsorted_input_3plus", 1)
			}
		}
		// (4) correspondence with the model
		if s.Modelled {
			id++
			res := cNone
			if err0 == nil {
				res = cSome(vObsCoq(vProject(base)))
			}
			out.Case(id, "toconfig", cCtor("CToConfig", cNi(id), vSnapCoq(s), res), map[string]any{"snap": s, "accepted": err0 == nil})
		}
	}
	vReconcilerSkips(t, out, r, append(replayed, vCorpus()[1]))
}

// reconcilers skip the handler when the new configuration equals the current
// one: the REAL ConfigReconciler and PoolReconciler on a fake API server whose
// List order the test controls (as listed, reversed, shuffled - the API server
// and the informer cache guarantee no order).  Of several reconciles of an
// unchanged snapshot only the first may call the handler / force a re-sync,
// and a fresh reconciler (controller restart) fed another list order must hand
// its handler a value DeepEqual to the first one's.
func vShuf[T any](items []T, mode int, r *rand.Rand) {
	switch mode {
	case 1:
		for i, j := 0, len(items)-1; i < j; i, j = i+1, j-1 {
			items[i], items[j] = items[j], items[i]
		}
	case 2:
		r.Shuffle(len(items), func(i, j int) { items[i], items[j] = items[j], items[i] })
	}
}

func vReconcilerSkips(t *testing.T, out *vOut, r *rand.Rand, first []vSnap) {
	snaps := append([]vSnap(nil), first...)
	for k := 0; k < 6; k++ {
		for {
			s := vGenSnap(r, vGenOpts{MinObj: 3, MaxObj: 5})
			if _, err := vToConfig(vBuild(s), config.DontValidate); err == nil {
				snaps = append(snaps, s)
				break
			}
		}
	}
	for _, s := range snaps {
		base, err := vToConfig(vBuild(s), config.DontValidate)
		if err != nil {
			continue
		}
		shared := false
		for _, l := range base.Pools.ByNamespace {
			shared = shared || len(l) >= 2
		}
		res := vBuild(s)
		for i := range res.Pools {
			res.Pools[i].Namespace = testNamespace
		}
		for i := range res.Peers {
			res.Peers[i].Namespace = testNamespace
		}
		for i := range res.BFDProfiles {
			res.BFDProfiles[i].Namespace = testNamespace
		}
		for i := range res.L2Advs {
			res.L2Advs[i].Namespace = testNamespace
		}
		for i := range res.BGPAdvs {
			res.BGPAdvs[i].Namespace = testNamespace
		}
		for i := range res.Communities {
			res.Communities[i].Namespace = testNamespace
		}
		fc0, err := newFakeClient(objectsFromResources(res))
		if err != nil {
			t.Fatalf("fake client: %v", err)
		}
		mode := 0
		fc := interceptor.NewClient(fc0, interceptor.Funcs{
			List: func(ctx context.Context, c client.WithWatch, list client.ObjectList, opts ...client.ListOption) error {
				if err := c.List(ctx, list, opts...); err != nil {
					return err
				}
				switch l := list.(type) {
				case *metallbv1beta1.IPAddressPoolList:
					vShuf(l.Items, mode, r)
				case *metallbv1beta1.CommunityList:
					vShuf(l.Items, mode, r)
				case *metallbv1beta1.BGPAdvertisementList:
					vShuf(l.Items, mode, r)
				case *metallbv1beta1.L2AdvertisementList:
					vShuf(l.Items, mode, r)
				case *metallbv1beta1.BFDProfileList:
					vShuf(l.Items, mode, r)
				case *metallbv1beta2.BGPPeerList:
					vShuf(l.Items, mode, r)
				case *corev1.NamespaceList:
					vShuf(l.Items, mode, r)
				case *corev1.NodeList:
					vShuf(l.Items, mode, r)
				}
				return nil
			}})
		req := reconcile.Request{NamespacedName: types.NamespacedName{Namespace: testNamespace, Name: "unrelated"}}
		replay := map[string]any{"snap": s}
		modes := []int{0, 1, 2, 2, 2, 0}
		var cfgs []*config.Config
		var pools []*config.Pools
		// two generations of reconcilers: the second is a restarted controller that sees the
		// objects in another order first
		for gen := 0; gen < 2; gen++ {
			calls, reloads, pcalls, preloads := 0, 0, 0, 0
			cr := &ConfigReconciler{Client: fc, Logger: log.NewNopLogger(), Scheme: scheme.Scheme, Namespace: testNamespace,
				ValidateConfig: config.DontValidate,
				Handler:        func(_ log.Logger, c *config.Config) SyncState { calls++; cfgs = append(cfgs, c); return SyncStateReprocessAll },
				ForceReload:    func() { reloads++ }}
			pr := &PoolReconciler{Client: fc, Logger: log.NewNopLogger(), Scheme: scheme.Scheme, Namespace: testNamespace,
				ValidateConfig: config.DontValidate,
				Handler:        func(_ log.Logger, p *config.Pools) SyncState { pcalls++; pools = append(pools, p); return SyncStateReprocessAll },
				ForceReload:    func() { preloads++ }}
			for i := range modes {
				mode = modes[(i+gen)%len(modes)]
				if _, err := cr.Reconcile(context.TODO(), req); err != nil {
					t.Fatalf("reconcile: %v", err)
				}
				if _, err := pr.Reconcile(context.TODO(), req); err != nil {
					t.Fatalf("reconcile: %v", err)
				}
				out.Stat("oracle_evaluations", 2)
			}
			mode = 0
			if calls != 1 || reloads != 1 {
				out.Fail("reconciler-unrelated-event-reloads", fmt.Sprintf("ConfigReconciler: %d reconciles of an unchanged snapshot (listed in different orders) called the handler %d times and forced %d re-syncs (want 1, 1)", len(modes), calls, reloads), replay)
			}
			if pcalls != 1 || preloads != 1 {
				out.Fail("reconciler-unrelated-event-reloads", fmt.Sprintf("PoolReconciler: %d reconciles of an unchanged snapshot (listed in different orders) called the handler %d times and forced %d re-syncs (want 1, 1)", len(modes), pcalls, preloads), replay)
			}
		}
		out.Stat("reconciler_runs", 1)
		if shared {
			out.Stat("reconciler_runs_with_two_pools_in_one_namespace", 1)
		}
		for _, c := range cfgs[1:] {
			if !reflect.DeepEqual(cfgs[0], c) {
				out.Fail("reconciler-config-depends-on-list-order", fmt.Sprintf("ConfigReconciler: the configuration handed to the handler differs in %s between two list orders of the same objects (e.g. before and after a restart)", vDiffPart(cfgs[0], c)), replay)
				break
			}
		}
		for _, p := range pools[1:] {
			if !reflect.DeepEqual(pools[0], p) {
				part := "Pools.ByName"
				if !reflect.DeepEqual(pools[0].ByNamespace, p.ByNamespace) {
					part = "Pools.ByNamespace"
				} else if !reflect.DeepEqual(pools[0].ByServiceSelector, p.ByServiceSelector) {
					part = "Pools.ByServiceSelector"
				}
				out.Fail("reconciler-config-depends-on-list-order", fmt.Sprintf("PoolReconciler: the pools handed to the handler differ in %s between two list orders of the same objects (e.g. before and after a restart)", part), replay)
				break
			}
		}
		if len(pools) > 0 && len(cfgs) > 0 && !reflect.DeepEqual(cfgs[0].Pools.ByNamespace, pools[0].ByNamespace) {
			out.Fail("reconciler-config-depends-on-list-order", "PoolReconciler and ConfigReconciler compute different Pools.ByNamespace from the same objects", replay)
		}
	}
}
