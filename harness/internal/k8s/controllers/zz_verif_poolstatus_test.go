//go:build verif

package controllers

// Harness for the pool_status_controller.go anchor of C11: "for every pool the
// reported counts equal ..." — the counts are REPORTED by PoolStatusReconciler,
// which copies the allocator's counters into IPAddressPool.status.
// Drives the REAL PoolStatusReconciler.Reconcile over a controller-runtime fake
// client (status subresource enabled, every status write counted by an
// interceptor) with a scripted CountersFetcher: random sequences of counter
// changes (each of the four counters alone, pairs, all, none) followed by
// reconciles of the changed pool, of another pool, or of a pool that does not
// exist; now and then the API refuses a status write.
// Oracle, from the statement: after every successful reconcile of a pool its
// status equals the fetcher's counters for it (all four fields); a reconcile
// that finds the status already equal writes nothing, one that finds it
// different writes once; no other pool is touched; a refused write is reported
// as an error (so that the reconcile is retried) and the retry repairs it.

import (
	"context"
	"encoding/json"
	"errors"
	"fmt"
	"math"
	"os"
	"testing"

	"github.com/go-kit/log"
	"go.universe.tf/metallb/api/v1beta1"
	"go.universe.tf/metallb/internal/allocator"
	metav1 "k8s.io/apimachinery/pkg/apis/meta/v1"
	"k8s.io/apimachinery/pkg/runtime"
	"k8s.io/apimachinery/pkg/types"
	"sigs.k8s.io/controller-runtime/pkg/client"
	"sigs.k8s.io/controller-runtime/pkg/client/fake"
	"sigs.k8s.io/controller-runtime/pkg/client/interceptor"
	"sigs.k8s.io/controller-runtime/pkg/reconcile"
)

type vPSStep struct {
	Pool      int       `json:"pool"`      // whose counters change
	Set       [4]*int64 `json:"set"`       // new AssignedIPv4, AssignedIPv6, AvailableIPv4, AvailableIPv6 (nil = keep)
	Reconcile int       `json:"reconcile"` // pool to reconcile afterwards, -1 = a pool that does not exist
	FailWrite bool      `json:"failwrite"` // the API refuses status writes during this reconcile
}

var vPSFields = [4]string{"AssignedIPv4", "AssignedIPv6", "AvailableIPv4", "AvailableIPv6"}
// (the fake client round-trips objects through JSON numbers: values stay below 2^53;
// math.MaxInt64 itself is refused by the fake API server, not by the reconciler)
var vPSValues = []int64{0, 1, 2, 3, 4, 16, 253, 254, 256, 65536, math.MaxInt32, 1 << 52, 1<<52 - 1}

func vPSGet(c allocator.PoolCounters) [4]int64 {
	return [4]int64{c.AssignedIPv4, c.AssignedIPv6, c.AvailableIPv4, c.AvailableIPv6}
}
func vPSStatus(s v1beta1.IPAddressPoolStatus) [4]int64 {
	return [4]int64{s.AssignedIPv4, s.AssignedIPv6, s.AvailableIPv4, s.AvailableIPv6}
}

func TestVerifPoolStatus(t *testing.T) {
	out := vOpen()
	defer out.Close()
	r := vRand()
	nseq := vN(40)
	const ns = "metallb-system"
	names := []string{"pool-a", "pool-b", "mixed"}

	var replay [][]vPSStep
	if p := os.Getenv("VERIF_REPLAY"); p != "" {
		var f struct {
			Replay struct {
				Steps []vPSStep `json:"steps"`
			} `json:"replay"`
		}
		if b, err := os.ReadFile(p); err == nil && json.Unmarshal(b, &f) == nil && len(f.Replay.Steps) > 0 {
			replay = append(replay, f.Replay.Steps)
			nseq = 0
		}
	}

	genSeq := func() []vPSStep {
		var steps []vPSStep
		n := 10 + r.Intn(30)
		for i := 0; i < n; i++ {
			st := vPSStep{Pool: r.Intn(len(names))}
			val := func() *int64 { v := vPSValues[r.Intn(len(vPSValues))]; return &v }
			switch k := r.Intn(12); {
			case k < 4: // exactly one counter
				st.Set[k] = val()
			case k < 7: // two counters
				a, b := r.Intn(4), r.Intn(4)
				st.Set[a], st.Set[b] = val(), val()
			case k < 9: // all
				for j := range st.Set {
					st.Set[j] = val()
				}
			default: // nothing changes
			}
			st.Reconcile = st.Pool
			switch r.Intn(10) {
			case 0:
				st.Reconcile = r.Intn(len(names))
			case 1:
				st.Reconcile = -1
			}
			st.FailWrite = r.Intn(15) == 0
			steps = append(steps, st)
		}
		return steps
	}
	seqs := replay
	// fixed first sequence: each counter alone, then nothing
	one := func(k int, v int64) vPSStep {
		s := vPSStep{Pool: 2, Reconcile: 2}
		s.Set[k] = &v
		return s
	}
	if len(replay) == 0 {
		seqs = append(seqs, []vPSStep{one(0, 1), one(2, 3), one(1, 1), one(3, 4), one(3, 16), {Pool: 2, Reconcile: 2}, one(3, 0), one(2, 0), one(1, 0), one(0, 0)})
	}
	for i := 0; i < nseq; i++ {
		seqs = append(seqs, genSeq())
	}

	for _, steps := range seqs {
		scheme := runtime.NewScheme()
		if err := v1beta1.AddToScheme(scheme); err != nil {
			t.Fatal(err)
		}
		var objs []client.Object
		for _, n := range names {
			objs = append(objs, &v1beta1.IPAddressPool{ObjectMeta: metav1.ObjectMeta{Namespace: ns, Name: n},
				Spec: v1beta1.IPAddressPoolSpec{Addresses: []string{"10.0.0.0/24", "fc00::/120"}}})
		}
		writes := map[string]int{}
		failWrite := false
		cl := fake.NewClientBuilder().WithScheme(scheme).WithObjects(objs...).
			WithStatusSubresource(&v1beta1.IPAddressPool{}).
			WithInterceptorFuncs(interceptor.Funcs{
				SubResourceUpdate: func(ctx context.Context, c client.Client, sub string, obj client.Object, opts ...client.SubResourceUpdateOption) error {
					writes[obj.GetName()]++
					if failWrite {
						return errors.New("injected: the API server refuses the status update")
					}
					return c.SubResource(sub).Update(ctx, obj, opts...)
				},
			}).Build()
		counters := map[string]allocator.PoolCounters{}
		fetches := 0
		rec := &PoolStatusReconciler{Client: cl, Logger: log.NewNopLogger(),
			CountersFetcher: func(n string) allocator.PoolCounters { fetches++; return counters[n] }}
		status := func(n string) [4]int64 {
			var p v1beta1.IPAddressPool
			if err := cl.Get(context.TODO(), types.NamespacedName{Namespace: ns, Name: n}, &p); err != nil {
				t.Fatalf("get %s: %v", n, err)
			}
			return vPSStatus(p.Status)
		}
		for si, st := range steps {
			rp := map[string]any{"steps": steps[:si+1]}
			// ---- the allocator's counters change
			c := counters[names[st.Pool]]
			old := vPSGet(c)
			cur := old
			for k, v := range st.Set {
				if v != nil {
					cur[k] = *v
				}
			}
			c.AssignedIPv4, c.AssignedIPv6, c.AvailableIPv4, c.AvailableIPv6 = cur[0], cur[1], cur[2], cur[3]
			counters[names[st.Pool]] = c
			changed := 0
			last := -1
			for k := range cur {
				if cur[k] != old[k] {
					changed++
					last = k
				}
			}
			switch {
			case changed == 0:
				out.Stat("step_no_counter_changes", 1)
			case changed == 1:
				out.Stat("step_only_"+vPSFields[last]+"_changes", 1)
			default:
				out.Stat("step_several_counters_change", 1)
			}
			// ---- reconcile
			target := "does-not-exist"
			if st.Reconcile >= 0 {
				target = names[st.Reconcile]
			}
			before := map[string][4]int64{}
			for _, n := range names {
				before[n] = status(n)
				writes[n] = 0
			}
			failWrite = st.FailWrite
			_, err := rec.Reconcile(context.TODO(), reconcile.Request{NamespacedName: types.NamespacedName{Namespace: ns, Name: target}})
			failWrite = false
			out.Stat("reconciles", 1)
			if st.Reconcile < 0 {
				out.Stat("reconcile_of_missing_pool", 1)
				tot := 0
				for _, n := range names {
					tot += writes[n]
				}
				if err != nil || tot != 0 {
					out.Fail("poolstatus-missing-pool-mishandled", fmt.Sprintf("reconcile of a pool that does not exist: err=%v, %d status writes (want nil, 0)", err, tot), rp)
				}
				continue
			}
			want := vPSGet(counters[target])
			upToDate := before[target] == want
			for _, n := range names {
				if n != target && (writes[n] != 0 || status(n) != before[n]) {
					out.Fail("poolstatus-wrong-pool-written", fmt.Sprintf("reconcile of %s wrote the status of %s", target, n), rp)
				}
			}
			if upToDate {
				out.Stat("reconcile_status_already_equal", 1)
				if writes[target] != 0 {
					out.Fail("poolstatus-spurious-write", fmt.Sprintf("pool %s: status %v already equals the counters, yet %d status write(s) were issued", target, before[target], writes[target]), rp)
				}
				if err != nil {
					out.Fail("poolstatus-reconcile-error", fmt.Sprintf("pool %s: nothing to do but Reconcile returns %v", target, err), rp)
				}
				continue
			}
			out.Stat("reconcile_status_stale", 1)
			if st.FailWrite {
				out.Stat("reconcile_write_refused", 1)
				// the counters differ, so a write must have been attempted and its failure reported
				if writes[target] == 0 {
					out.Fail("poolstatus-differs-from-counters", fmt.Sprintf("pool %s: status %v, counters %v (%s): no status write was attempted", target, before[target], want, vPSDiff(before[target], want)), rp)
				} else if err == nil {
					out.Fail("poolstatus-write-error-swallowed", fmt.Sprintf("pool %s: the status write failed but Reconcile returned nil: no retry, status stays %v with counters %v", target, status(target), want), rp)
				}
				// retry, as the work queue would
				writes[target] = 0
				_, err = rec.Reconcile(context.TODO(), reconcile.Request{NamespacedName: types.NamespacedName{Namespace: ns, Name: target}})
				out.Stat("reconciles", 1)
			}
			got := status(target)
			if err != nil {
				out.Fail("poolstatus-reconcile-error", fmt.Sprintf("pool %s: Reconcile returns %v", target, err), rp)
			} else if got != want {
				out.Fail("poolstatus-differs-from-counters", fmt.Sprintf("pool %s: after the reconcile the reported status is %v, the counters are %v (%s differ); status before %v, %d write(s)", target, got, want, vPSDiff(got, want), before[target], writes[target]), rp)
			} else if writes[target] != 1 {
				out.Fail("poolstatus-spurious-write", fmt.Sprintf("pool %s: %d status writes for one change (want 1)", target, writes[target]), rp)
			}
			for k := range want {
				if before[target][k] != want[k] {
					out.Stat("repaired_"+vPSFields[k], 1)
				}
			}
		}
		if fetches == 0 {
			t.Fatalf("CountersFetcher never called")
		}
	}
}

func vPSDiff(a, b [4]int64) string {
	s := ""
	for k := range a {
		if a[k] != b[k] {
			if s != "" {
				s += ","
			}
			s += vPSFields[k]
		}
	}
	return s
}
