//go:build verif

package frr

// Harness for C19 ("submitters are never blocked indefinitely") on the REAL
// constructor NewSessionManager (the package's own tests use mockNewSessionManager):
// the reload action is the closure NewSessionManager hands to the debouncer.  The
// package hook reloadConfig (the reload signal) keeps a reload IN PROGRESS while a
// further submission (Set / SyncBFDProfiles / Close) is issued from another
// goroutine; once the reload completes that submission must return within a bound
// (watchdog), and the state it submitted must be loaded.
// Oracles:
//   deb-mgr-submit-deadlock      a submission issued while a reload was in progress did not return within 3 s
//                                after the reload signal returned
//   deb-mgr-real-latest-not-loaded  after that, the last loaded file is not the rendering of the submitted state

import (
	"errors"
	"fmt"
	"os"
	"path/filepath"
	"sync"
	"testing"
	"time"

	"github.com/go-kit/log"
	"go.universe.tf/metallb/internal/bgp"
	"go.universe.tf/metallb/internal/logging"
)

func TestVerifDebMgrReal(t *testing.T) {
	out := vOpen()
	defer out.Close()
	osHostname = func() (string, error) { return "verifhost", nil }
	os.Unsetenv("FRR_LOGGING_LEVEL")
	r := vRand()
	rounds := 4
	if vThorough() {
		rounds = 24
	}
	dir, err := os.MkdirTemp("", "verif-frr-debmgrreal")
	if err != nil {
		t.Fatal(err)
	}
	defer os.RemoveAll(dir)
	savedD, savedF, savedHook := debounceTimeout, failureTimeout, reloadConfig
	defer func() {
		debounceTimeout, failureTimeout, reloadConfig = savedD, savedF, savedHook
		os.Unsetenv("FRR_CONFIG_FILE")
	}()
	debounceTimeout, failureTimeout = 3*time.Millisecond, 4*time.Millisecond
	base := vSess{MyASN: 100, RouterID: "10.1.1.254", PeerAddr: "10.2.2.254", PeerASN: 200, Port: 179, Hold: -1, Keep: -1, Connect: -1}
	for k := 0; k < rounds; k++ {
		path := filepath.Join(dir, fmt.Sprintf("frr-%d.conf", k))
		os.Setenv("FRR_CONFIG_FILE", path)
		failFirst := k%2 == 1 // the reload in progress fails: the retry path of the closure
		kind := []string{"set", "bfd", "close"}[k%3]
		holdUs := 500 + r.Intn(4000)
		var mu sync.Mutex
		calls, loaded := 0, ""
		entered := make(chan struct{}, 64)
		release := make(chan struct{})
		reloadConfig = func() error {
			mu.Lock()
			n := calls
			calls++
			mu.Unlock()
			if n == 0 {
				entered <- struct{}{}
				select { // the reload stays in progress until the harness lets it go
				case <-release:
				case <-time.After(60 * time.Second):
				}
				if failFirst {
					return errors.New("scripted failure of the reload signal")
				}
			}
			b, err := os.ReadFile(path)
			if err != nil {
				return err
			}
			mu.Lock()
			loaded = string(b)
			mu.Unlock()
			return nil
		}
		sm := NewSessionManager(log.NewNopLogger(), logging.LevelInfo)
		h := vMgrHist{Base: []vSess{base}, Ops: []vMgrOp{{Kind: "new", Sess: 0, Hold: -1},
			{Kind: "set", Sess: 0, Advs: []vAdv{{Prefix: "172.16.1.10/32", Comms: []string{"65000:100"}}}}}}
		switch kind {
		case "set":
			h.Ops = append(h.Ops, vMgrOp{Kind: "set", Sess: 0, Advs: []vAdv{{Prefix: "172.16.1.11/32", LP: 100, Comms: []string{}}}})
		case "bfd":
			h.Ops = append(h.Ops, vMgrOp{Kind: "bfd", BFD: []int{100 + 10*r.Intn(30)}})
		case "close":
			h.Ops = append(h.Ops, vMgrOp{Kind: "close", Sess: 0})
		}
		replay := map[string]any{"round": k, "history": h, "reload_in_progress_fails": failFirst, "hold_us": holdUs}
		sessions := make([]bgp.Session, 1)
		apply := func(op vMgrOp) error {
			switch op.Kind {
			case "new":
				s, err := sm.NewSession(log.NewNopLogger(), vParams(base))
				sessions[0] = s
				return err
			case "set":
				b := base
				b.Advs = op.Advs
				return sessions[0].Set(vAdvertisements(b)...)
			case "close":
				return sessions[0].Close()
			case "bfd":
				return sm.SyncBFDProfiles(vMgrBFD(op.BFD))
			}
			return nil
		}
		setup := make(chan error, 1)
		go func() {
			if err := apply(h.Ops[0]); err != nil {
				setup <- err
				return
			}
			setup <- apply(h.Ops[1])
		}()
		select {
		case err := <-setup:
			if err != nil {
				out.Fail("deb-mgr-real-api-error", fmt.Sprintf("round %d: %v", k, err), replay)
				continue
			}
		case <-time.After(40 * time.Second):
			out.Fail("deb-mgr-submit-deadlock", fmt.Sprintf("round %d: NewSession / Set on a fresh NewSessionManager did not return within 40 s", k), replay)
			continue
		}
		select {
		case <-entered:
		case <-time.After(40 * time.Second):
			out.Fail("deb-mgr-real-no-reload", fmt.Sprintf("round %d: no reload was attempted within 40 s of the first Set", k), replay)
			close(release)
			continue
		}
		// a reload is in progress: submit from another goroutine
		done := make(chan error, 1)
		go func() { done <- apply(h.Ops[2]) }()
		time.Sleep(time.Duration(holdUs) * time.Microsecond)
		early := false
		select {
		case <-done:
			early = true // accepted while the reload was running: cannot happen with an unbuffered channel, harmless if it does
			done <- nil
		default:
		}
		close(release)
		out.Stat("mgrreal_rounds", 1)
		out.Stat("mgrreal_submit_during_reload:"+kind, 1)
		if failFirst {
			out.Stat("mgrreal_reload_in_progress_failed", 1)
		}
		if early {
			out.Stat("mgrreal_submission_returned_during_reload", 1)
		}
		select {
		case <-done:
		case <-time.After(30 * time.Second):
			out.Fail("deb-mgr-submit-deadlock", fmt.Sprintf("round %d: a %s issued while a reload was in progress has not returned 30 s after the reload signal returned (reload failed: %v): submitter and reload loop wait for each other",
				k, kind, failFirst), replay)
			return // the manager's lock is held for good: stop here
		}
		want := vMgrFresh(h, 3)
		okLoaded := false
		got := ""
		for w := time.Now().Add(30 * time.Second); time.Now().Before(w); time.Sleep(time.Millisecond) {
			mu.Lock()
			got = loaded
			mu.Unlock()
			if got == want {
				okLoaded = true
				break
			}
		}
		if !okLoaded {
			replay["loaded"], replay["want"] = got, want
			out.Fail("deb-mgr-real-latest-not-loaded", fmt.Sprintf("round %d: 3 s after a %s issued during a reload the last loaded file is not the rendering of the submitted state", k, kind), replay)
		}
	}
}
