//go:build verif

package frr

// Harness for C19, end to end: histories through the REAL sessionManager
// (NewSession / Set / Close / SyncBFDProfiles / SyncExtraInfo) -> its reload
// channel -> the REAL debouncer -> the REAL generateAndReloadConfigFile (file in
// a temp dir) -> the package hook reloadConfig, scripted (fails k times) and
// recording the file content at every successful signal = what FRR loads.
// Successive operations keep SIZES and change CONTENT (same number of BFD
// profiles with other intervals, same number of advertisements with other
// prefixes / communities, extra configuration of the same length, same neighbor
// re-created with other timers), so a configuration object that is still held by
// the debouncer must not be reachable from the manager's later state.
// Oracles (from the C19 statement):
//   deb-mgr-latest-not-loaded   after the quiet period (failures stopped) the last loaded file is the
//                               rendering of the LAST submitted state (= of a fresh manager given the final state)
//   deb-mgr-change-not-loaded   (step-wise histories) every operation that changes the rendering leads to a reload of it
//   deb-config-aliased          a configuration object, rendered when the debouncer applies it or when the next
//                               submission arrives, no longer yields the text it had when it was submitted

import (
	"errors"
	"fmt"
	"math/rand"
	"os"
	"path/filepath"
	"sync"
	"testing"
	"time"

	"github.com/go-kit/log"
	"go.universe.tf/metallb/internal/bgp"
	metallbconfig "go.universe.tf/metallb/internal/config"
)

type vMgrOp struct {
	Kind    string `json:"kind"` // new set close bfd extra
	Sess    int    `json:"sess"`
	Advs    []vAdv `json:"advs,omitempty"`
	BFD     []int  `json:"bfd,omitempty"`   // receive intervals of profiles p0..pk
	Extra   string `json:"extra,omitempty"` // extra configuration
	Hold    int64  `json:"hold,omitempty"`
	SleepUs int    `json:"sleep_us"`
}

type vMgrHist struct {
	Base     []vSess  `json:"base"`
	Ops      []vMgrOp `json:"ops"`
	Fails    []bool   `json:"fails"`
	Stepwise bool     `json:"stepwise"`
}

func vMgrSameSize(r *rand.Rand, cur []vAdv) []vAdv {
	// same number of advertisements, other prefixes / communities
	out := make([]vAdv, 0, len(cur))
	used := map[string]bool{}
	for range cur {
		p := vPfx4[r.Intn(len(vPfx4))]
		for tries := 0; used[p] && tries < 10; tries++ {
			p = vPfx4[r.Intn(len(vPfx4))]
		}
		used[p] = true
		out = append(out, vAdv{Prefix: p, Comms: []string{vComms[r.Intn(len(vComms))]}})
	}
	return out
}

func vMgrGen(r *rand.Rand) vMgrHist {
	h := vMgrHist{Base: vGenSessions(r, false), Stepwise: r.Intn(2) == 0}
	for i, nf := 0, r.Intn(3); i < nf; i++ {
		h.Fails = append(h.Fails, true)
	}
	for i := 0; i < 3; i++ {
		h.Fails = append(h.Fails, r.Intn(6) == 0)
	}
	sleep := func() int {
		switch r.Intn(3) {
		case 0:
			return 0
		case 1:
			return r.Intn(1500)
		}
		return 2500 + r.Intn(4000)
	}
	cur := make([][]vAdv, len(h.Base))
	alive := make([]bool, len(h.Base))
	for i := range h.Base {
		h.Ops = append(h.Ops, vMgrOp{Kind: "new", Sess: i, Hold: h.Base[i].Hold, SleepUs: sleep()})
		alive[i] = true
		advs := vGenAdvs(r, false)
		h.Ops = append(h.Ops, vMgrOp{Kind: "set", Sess: i, Advs: advs, SleepUs: sleep()})
		cur[i] = advs
	}
	nb := 1 + r.Intn(2)
	bfd := func() []int {
		var l []int
		for k := 0; k < nb; k++ {
			l = append(l, 100+10*r.Intn(40))
		}
		return l
	}
	for k, n := 0, 4+r.Intn(6); k < n; k++ {
		i := r.Intn(len(h.Base))
		switch x := r.Intn(10); {
		case x <= 3: // same number of profiles, other content
			h.Ops = append(h.Ops, vMgrOp{Kind: "bfd", BFD: bfd(), SleepUs: sleep()})
		case x <= 5 && alive[i]:
			cur[i] = vMgrSameSize(r, cur[i])
			h.Ops = append(h.Ops, vMgrOp{Kind: "set", Sess: i, Advs: vCopyAdvs(cur[i]), SleepUs: sleep()})
		case x == 6:
			h.Ops = append(h.Ops, vMgrOp{Kind: "extra", Extra: fmt.Sprintf("! extra %04d", r.Intn(10000)), SleepUs: sleep()})
		case x == 7 && alive[i]: // the same neighbor with another hold time
			h.Ops = append(h.Ops, vMgrOp{Kind: "close", Sess: i, SleepUs: 0})
			h.Ops = append(h.Ops, vMgrOp{Kind: "new", Sess: i, Hold: int64(time.Second) * int64(30+r.Intn(60)), SleepUs: 0})
			h.Ops = append(h.Ops, vMgrOp{Kind: "set", Sess: i, Advs: vCopyAdvs(cur[i]), SleepUs: sleep()})
		case alive[i]:
			cur[i] = vMutateAdvs(r, cur[i])
			h.Ops = append(h.Ops, vMgrOp{Kind: "set", Sess: i, Advs: vCopyAdvs(cur[i]), SleepUs: sleep()})
		}
	}
	return h
}

func vMgrBFD(l []int) map[string]*metallbconfig.BFDProfile {
	m := map[string]*metallbconfig.BFDProfile{}
	for i, rx := range l {
		v := uint32(rx)
		m[fmt.Sprintf("p%d", i)] = &metallbconfig.BFDProfile{Name: fmt.Sprintf("p%d", i), ReceiveInterval: &v}
	}
	return m
}

type vMgrHook struct {
	mu      sync.Mutex
	path    string
	fails   []bool
	calls   int
	okCalls int
	loaded  string
}

var vMgr vMgrHook

func vMgrReload() error {
	vMgr.mu.Lock()
	defer vMgr.mu.Unlock()
	k := vMgr.calls
	vMgr.calls++
	if k < len(vMgr.fails) && vMgr.fails[k] {
		return errors.New("scripted failure of the reload signal")
	}
	b, err := os.ReadFile(vMgr.path)
	if err != nil {
		return err
	}
	vMgr.okCalls++
	vMgr.loaded = string(b)
	return nil
}

func (h *vMgrHook) get() (string, int, int) {
	h.mu.Lock()
	defer h.mu.Unlock()
	return h.loaded, h.okCalls, h.calls
}

// applies an operation to a manager; tracks nothing
func vMgrApply(sm *sessionManager, h vMgrHist, op vMgrOp, sessions []bgp.Session) error {
	switch op.Kind {
	case "new":
		b := h.Base[op.Sess]
		b.Hold = op.Hold
		if b.Keep < 0 && b.Hold >= 0 {
			b.Keep = int64(time.Second) * 3
		}
		s, err := sm.NewSession(log.NewNopLogger(), vParams(b))
		if err != nil {
			return err
		}
		sessions[op.Sess] = s
	case "set":
		b := h.Base[op.Sess]
		b.Advs = op.Advs
		return sessions[op.Sess].Set(vAdvertisements(b)...)
	case "close":
		return sessions[op.Sess].Close()
	case "bfd":
		return sm.SyncBFDProfiles(vMgrBFD(op.BFD))
	case "extra":
		return sm.SyncExtraInfo(op.Extra)
	}
	return nil
}

// rendering of a fresh manager after the first k operations (reload channel captured, no debouncer)
func vMgrFresh(h vMgrHist, k int) string {
	sm := &sessionManager{sessions: map[string]*session{}, bfdProfiles: []BFDProfile{}, reloadConfig: make(chan reloadEvent, 1024), logLevel: "informational"}
	sessions := make([]bgp.Session, len(h.Base))
	for _, op := range h.Ops[:k] {
		if err := vMgrApply(sm, h, op, sessions); err != nil {
			return "ERROR " + err.Error()
		}
	}
	var last *frrConfig
	for {
		select {
		case ev := <-sm.reloadConfig:
			last = ev.config
			continue
		default:
		}
		break
	}
	if last == nil {
		return ""
	}
	txt, _ := templateConfig(last)
	return txt
}

func TestVerifDebMgr(t *testing.T) {
	out := vOpen()
	defer out.Close()
	osHostname = func() (string, error) { return "verifhost", nil }
	os.Unsetenv("FRR_LOGGING_LEVEL")
	r := vRand()
	n := vN(10)
	dir, err := os.MkdirTemp("", "verif-frr-debmgr")
	if err != nil {
		t.Fatal(err)
	}
	defer os.RemoveAll(dir)
	savedHook := reloadConfig
	reloadConfig = vMgrReload
	defer func() { reloadConfig = savedHook; os.Unsetenv("FRR_CONFIG_FILE") }()

	hs := []vMgrHist{}
	// fixed first history: two BFD syncs with the same number of profiles and other intervals, far apart
	base := vSess{MyASN: 100, RouterID: "10.1.1.254", PeerAddr: "10.2.2.254", PeerASN: 200, Port: 179, Hold: -1, Keep: -1, Connect: -1}
	hs = append(hs, vMgrHist{Base: []vSess{base}, Stepwise: true, Ops: []vMgrOp{
		{Kind: "new", Sess: 0, Hold: -1}, {Kind: "bfd", BFD: []int{100, 200}, SleepUs: 0},
		{Kind: "bfd", BFD: []int{300, 200}, SleepUs: 0}, {Kind: "bfd", BFD: []int{300, 400}, SleepUs: 0},
	}})
	// fixed second history: a Set that only exchanges the community lists of two prefixes (same prefixes, same
	// communities overall), then one that moves a community back: each must be loaded
	hs = append(hs, vMgrHist{Base: []vSess{base}, Stepwise: true, Ops: []vMgrOp{
		{Kind: "new", Sess: 0, Hold: -1},
		{Kind: "set", Sess: 0, Advs: []vAdv{{Prefix: "172.16.1.10/32", Comms: []string{"65000:100"}}, {Prefix: "172.16.1.11/32", Comms: []string{"65000:200"}}}},
		{Kind: "set", Sess: 0, Advs: []vAdv{{Prefix: "172.16.1.10/32", Comms: []string{"65000:200"}}, {Prefix: "172.16.1.11/32", Comms: []string{"65000:100"}}}},
		{Kind: "set", Sess: 0, Advs: []vAdv{{Prefix: "172.16.1.10/32", Comms: []string{"65000:100", "65000:200"}}, {Prefix: "172.16.1.11/32", Comms: []string{}}}},
	}})
	for len(hs) < n {
		hs = append(hs, vMgrGen(r))
	}
	for hi, h := range hs {
		path := filepath.Join(dir, fmt.Sprintf("frr-%d.conf", hi))
		os.Setenv("FRR_CONFIG_FILE", path)
		vMgr.mu.Lock()
		vMgr.path, vMgr.fails, vMgr.calls, vMgr.okCalls, vMgr.loaded = path, h.Fails, 0, 0, ""
		vMgr.mu.Unlock()

		// the manager's own channel is relayed to the debouncer; the relay snapshots every submitted
		// configuration (by rendering it) at submission time
		in := make(chan reloadEvent)
		toDeb := make(chan reloadEvent)
		var smu sync.Mutex
		snap := map[*frrConfig]string{}
		var order []*frrConfig
		aliased := ""
		checkAlias := func(c *frrConfig, when string) {
			// caller holds smu
			if want, ok := snap[c]; ok {
				if now, _ := templateConfig(c); now != want && aliased == "" {
					aliased = when
				}
			}
		}
		go func() {
			for ev := range in {
				smu.Lock()
				if len(order) > 0 { // the previously submitted object may still be held by the debouncer
					checkAlias(order[len(order)-1], "when the next submission arrived")
				}
				if ev.config != nil {
					txt, _ := templateConfig(ev.config)
					snap[ev.config] = txt
					order = append(order, ev.config)
				}
				smu.Unlock()
				toDeb <- ev
			}
			close(toDeb)
		}()
		body := func(c *frrConfig) error {
			smu.Lock()
			checkAlias(c, "when the debouncer applied it")
			smu.Unlock()
			return generateAndReloadConfigFile(c, log.NewNopLogger())
		}
		debouncer(body, toDeb, 2*time.Millisecond, 3*time.Millisecond, log.NewNopLogger())
		sm := &sessionManager{sessions: map[string]*session{}, bfdProfiles: []BFDProfile{}, reloadConfig: in, logLevel: "informational"}
		sessions := make([]bgp.Session, len(h.Base))
		replay := map[string]any{"history": h}
		bad := false
		waitLoaded := func(want string, patience time.Duration) bool {
			deadline := time.Now().Add(patience)
			for {
				if l, _, _ := vMgr.get(); l == want {
					return true
				}
				if time.Now().After(deadline) {
					return false
				}
				time.Sleep(2 * time.Millisecond)
			}
		}
		for k, op := range h.Ops {
			if op.SleepUs > 0 {
				time.Sleep(time.Duration(op.SleepUs) * time.Microsecond)
			}
			if err := vMgrApply(sm, h, op, sessions); err != nil {
				out.Fail("deb-mgr-api-error", fmt.Sprintf("history %d op %d (%s): %v", hi, k, op.Kind, err), replay)
				bad = true
				break
			}
			if h.Stepwise {
				want := vMgrFresh(h, k+1)
				if !waitLoaded(want, 3*time.Second) {
					l, okc, calls := vMgr.get()
					out.Fail("deb-mgr-change-not-loaded", fmt.Sprintf("history %d: 3 s after op %d (%s) the last loaded file is not the rendering of the submitted state (%d successful reload signals of %d; loaded is the rendering of an earlier state: %v)",
						hi, k, op.Kind, okc, calls, l != ""), map[string]any{"history": h, "op": k, "loaded": l, "want": want})
					bad = true
					break
				}
			}
		}
		if !bad {
			want := vMgrFresh(h, len(h.Ops))
			if !waitLoaded(want, 4*time.Second) {
				l, okc, calls := vMgr.get()
				out.Fail("deb-mgr-latest-not-loaded", fmt.Sprintf("history %d: 4 s after the last operation (failures stopped) the last loaded file is not the rendering of the last submitted state (%d successful reload signals of %d)",
					hi, okc, calls), map[string]any{"history": h, "loaded": l, "want": want})
			}
		}
		smu.Lock()
		if aliased != "" {
			out.Fail("deb-config-aliased", fmt.Sprintf("history %d: a submitted configuration object no longer renders to the text it had at submission time (%s): the manager's later state is reachable from it", hi, aliased), replay)
		}
		nsub := len(order)
		smu.Unlock()
		close(in)
		_, okc, calls := vMgr.get()
		out.Stat("mgr_histories", 1)
		if h.Stepwise {
			out.Stat("mgr_stepwise_histories", 1)
		}
		out.Stat("mgr_submissions", nsub)
		out.Stat("mgr_reload_signals", calls)
		out.Stat("mgr_reload_signal_failures", calls-okc)
		for _, op := range h.Ops {
			if op.Kind == "bfd" {
				out.Stat("mgr_bfd_syncs_same_size", 1)
			}
		}
	}
}
