//go:build verif

package frr

// Session-set generator shared by the C14 (internal/bgp/frr) and C15
// (internal/bgp/frrk8s, whose package is also named frr) harnesses: the same
// file is overlaid into both packages.  It depends only on internal/bgp and
// internal/bgp/community.

import (
	"fmt"
	"math/rand"
	"net"
	"sort"
	"strings"
	"time"

	"go.universe.tf/metallb/internal/bgp"
	"go.universe.tf/metallb/internal/bgp/community"
	v1 "k8s.io/api/core/v1"
)

type vAdv struct {
	Prefix string   `json:"prefix"`
	LP     uint32   `json:"lp"`
	Comms  []string `json:"comms"` // "a:b" or "large:a:b:c", in the order of Advertisement.Communities
}

type vSess struct {
	MyASN     uint32 `json:"myasn"`
	RouterID  string `json:"rid"` // "" = nil
	VRF       string `json:"vrf"`
	PeerAddr  string `json:"addr"`
	Iface     string `json:"iface"`
	PeerASN   uint32 `json:"peerasn"`
	DynASN    string `json:"dynasn"`
	Src       string `json:"src"` // "" = nil
	Port      uint16 `json:"port"`
	Hold      int64  `json:"hold"` // ns, -1 = nil
	Keep      int64  `json:"keep"`
	Connect   int64  `json:"connect"`
	Password  string `json:"password"`
	SecretN   string `json:"secret_name"`
	SecretNS  string `json:"secret_ns"`
	BFD       string `json:"bfd"`
	GR        bool   `json:"gr"`
	MultiHop  bool   `json:"multihop"`
	DisableMP bool   `json:"disable_mp"`
	Advs      []vAdv `json:"advs"`
}

var vPfx4 = []string{"172.16.1.10/32", "172.16.1.11/32", "172.16.1.0/24", "10.10.0.0/16", "192.168.100.7/32", "9.9.9.9/32"}
var vPfx6 = []string{"fc00:f853:ccd:e799::/64", "2001:db8::1/128", "fc00:f853:ccd:e799::5/128", "fd00:1::/48"}
var vComms = []string{"65000:100", "65000:200", "0:7", "100:65535"}
var vLarge = []string{"large:64512:1:2", "large:64512:3:4", "large:1:2:3"}
var vPeers4 = []string{"10.2.2.254", "10.2.2.255", "192.168.1.1", "10.0.0.9"}
var vPeers6 = []string{"fc00::1", "2001:db8::2", "fe80::1"}
var vIfaces = []string{"net0", "eth1"}

func vDur(r *rand.Rand) int64 {
	switch r.Intn(5) {
	case 0:
		return -1
	case 1:
		return 0
	case 2:
		return int64(time.Second) * int64(1+r.Intn(90))
	case 3:
		return int64(time.Second)*int64(r.Intn(4)) + int64(time.Millisecond)*int64(r.Intn(1000)) // truncation
	}
	return int64(time.Second) * 180
}

func vGenAdvs(r *rand.Rand, allowConflict bool) []vAdv {
	var advs []vAdv
	n := 0
	switch r.Intn(6) {
	case 0:
		n = 0
	case 1:
		n = 1
	default:
		n = 1 + r.Intn(6)
	}
	lpFor := map[string]uint32{}
	fams := r.Intn(4) // 0 v4 only, 1 v6 only, else both
	for i := 0; i < n; i++ {
		var p string
		v6 := fams == 1 || (fams >= 2 && r.Intn(2) == 0)
		if v6 {
			p = vPfx6[r.Intn(len(vPfx6))]
		} else {
			p = vPfx4[r.Intn(len(vPfx4))]
		}
		if len(advs) > 0 && r.Intn(4) == 0 {
			p = advs[r.Intn(len(advs))].Prefix // repeated prefix with other communities
		}
		lp, seen := lpFor[p]
		if !seen {
			lp = []uint32{0, 0, 100, 300}[r.Intn(4)]
			lpFor[p] = lp
		} else if allowConflict && r.Intn(3) == 0 {
			lp = lp + 50 // same prefix, different local preference: createConfig must fail
		}
		a := vAdv{Prefix: p, LP: lp, Comms: []string{}}
		for k, nc := 0, r.Intn(4); k < nc; k++ {
			var c string
			if r.Intn(3) == 0 {
				c = vLarge[r.Intn(len(vLarge))]
			} else {
				c = vComms[r.Intn(len(vComms))]
			}
			dup := false
			for _, x := range a.Comms {
				if x == c {
					dup = true
				}
			}
			if !dup { // Advertisement.Communities comes from a set in the speaker
				a.Comms = append(a.Comms, c)
			}
		}
		advs = append(advs, a)
	}
	return advs
}

// vGenSessions: a well-formed session set (what DiscardNativeOnly / the speaker
// guarantee: one router per VRF, one session per peer and VRF).  conflict: also
// produce same-prefix advertisements with different local preference.
func vGenSessions(r *rand.Rand, conflict bool) []vSess {
	vrfs := [][]string{{""}, {""}, {"", "red"}, {"red"}, {"", "red", "blue"}}[r.Intn(5)]
	var out []vSess
	total := 1 + r.Intn(5)
	for vi, vrf := range vrfs {
		myasn := []uint32{100, 64512, 65001}[r.Intn(3)]
		rid := ""
		if r.Intn(3) != 0 {
			rid = []string{"10.1.1.254", "1.1.1.1"}[r.Intn(2)]
		}
		cnt := total / len(vrfs)
		if vi < total%len(vrfs) {
			cnt++
		}
		if cnt == 0 && vi == 0 {
			cnt = 1
		}
		used := map[string]bool{}
		for k := 0; k < cnt; k++ {
			s := vSess{MyASN: myasn, RouterID: rid, VRF: vrf, Hold: -1, Keep: -1, Connect: -1}
			for tries := 0; tries < 20; tries++ {
				s.PeerAddr, s.Iface = "", ""
				switch r.Intn(5) {
				case 0:
					s.Iface = vIfaces[r.Intn(len(vIfaces))]
				case 1, 2:
					s.PeerAddr = vPeers6[r.Intn(len(vPeers6))]
				default:
					s.PeerAddr = vPeers4[r.Intn(len(vPeers4))]
				}
				if !used[s.PeerAddr+"|"+s.Iface] {
					break
				}
			}
			if used[s.PeerAddr+"|"+s.Iface] {
				continue
			}
			used[s.PeerAddr+"|"+s.Iface] = true
			switch r.Intn(5) {
			case 0:
				s.PeerASN = myasn
			case 1:
				s.DynASN = "internal"
			case 2:
				s.DynASN = "external"
			default:
				s.PeerASN = []uint32{200, 65002, 4200000000}[r.Intn(3)]
			}
			if r.Intn(2) == 0 {
				s.Src = []string{"10.1.1.254", "fc00::99"}[r.Intn(2)]
			}
			s.Port = []uint16{179, 179, 0, 1179}[r.Intn(4)]
			s.Hold, s.Keep, s.Connect = vDur(r), vDur(r), vDur(r)
			if r.Intn(3) == 0 {
				s.Password = []string{"password", "s3cr3t"}[r.Intn(2)]
			}
			if r.Intn(4) == 0 {
				s.BFD = []string{"default", "fast"}[r.Intn(2)]
			}
			s.GR = r.Intn(4) == 0
			s.MultiHop = r.Intn(3) == 0
			s.DisableMP = r.Intn(3) == 0
			s.Advs = vGenAdvs(r, conflict)
			out = append(out, s)
			// two uplinks of an unnumbered fabric: a second session peered by ANOTHER interface that agrees with the
			// first on peer ASN, local ASN, source address and VRF (sessions differing only in the interface)
			if s.Iface != "" && r.Intn(2) == 0 {
				for _, ifc := range vIfaces {
					if !used["|"+ifc] {
						t := s
						t.Iface = ifc
						used["|"+ifc] = true
						if r.Intn(2) == 0 {
							t.DisableMP = false
						}
						t.Advs = vGenAdvs(r, conflict)
						out = append(out, t)
						break
					}
				}
			}
		}
	}
	// what the speaker produces for a pool with two BGPAdvertisements, the second restricted to one peer: two sessions
	// share an advertisement, one of them has, listed after it, a second one of the same prefix with another community;
	// the other session carries that community on some other prefix
	if len(out) >= 2 && !conflict && r.Intn(3) == 0 {
		i := r.Intn(len(out))
		j := (i + 1 + r.Intn(len(out)-1)) % len(out)
		has := func(s vSess, p string) bool {
			for _, a := range s.Advs {
				if a.Prefix == p {
					return true
				}
			}
			return false
		}
		p, q := vPfx4[r.Intn(2)], vPfx4[2+r.Intn(2)]
		c1, c2 := vComms[0], vComms[1+r.Intn(len(vComms)-1)]
		if r.Intn(3) == 0 {
			c2 = vLarge[r.Intn(len(vLarge))]
		}
		if !has(out[i], p) && !has(out[j], p) && !has(out[j], q) {
			lp := []uint32{0, 100}[r.Intn(2)]
			out[i].Advs = append(out[i].Advs, vAdv{Prefix: p, LP: lp, Comms: []string{c1}}, vAdv{Prefix: p, LP: lp, Comms: []string{c2}})
			out[j].Advs = append(out[j].Advs, vAdv{Prefix: p, LP: lp, Comms: []string{c1}}, vAdv{Prefix: q, LP: 0, Comms: []string{c2}})
		}
	}
	return out
}

func vDurPtr(ns int64) *time.Duration {
	if ns < 0 {
		return nil
	}
	d := time.Duration(ns)
	return &d
}

func vParams(s vSess) bgp.SessionParameters {
	p := bgp.SessionParameters{
		PeerAddress: s.PeerAddr, PeerPort: s.Port, PeerInterface: s.Iface, MyASN: s.MyASN, PeerASN: s.PeerASN,
		DynamicASN: s.DynASN, HoldTime: vDurPtr(s.Hold), KeepAliveTime: vDurPtr(s.Keep), ConnectTime: vDurPtr(s.Connect),
		Password: s.Password, PasswordRef: v1.SecretReference{Name: s.SecretN, Namespace: s.SecretNS},
		BFDProfile: s.BFD, GracefulRestart: s.GR, EBGPMultiHop: s.MultiHop, VRFName: s.VRF, DisableMP: s.DisableMP,
	}
	if s.Src != "" {
		p.SourceAddress = net.ParseIP(s.Src)
	}
	if s.RouterID != "" {
		p.RouterID = net.ParseIP(s.RouterID)
	}
	return p
}

func vAdvertisements(s vSess) []*bgp.Advertisement {
	return vAdvertisementsIn(s, nil)
}

// The speaker (bgp_controller.go) builds ONE []*bgp.Advertisement per service and hands the same elements to the
// session of every peer: equal advertisements of different sessions are the same OBJECT.  pool != nil reproduces
// that (one object per distinct content, shared by all sessions built with the same pool).
func vAdvertisementsIn(s vSess, pool map[string]*bgp.Advertisement) []*bgp.Advertisement {
	res := []*bgp.Advertisement{}
	for _, a := range s.Advs {
		key := fmt.Sprintf("%s|%d|%s", a.Prefix, a.LP, strings.Join(a.Comms, ","))
		if adv, ok := pool[key]; ok {
			res = append(res, adv)
			continue
		}
		_, n, err := net.ParseCIDR(a.Prefix)
		if err != nil {
			panic(err)
		}
		adv := &bgp.Advertisement{Prefix: n, LocalPref: a.LP}
		for _, c := range a.Comms {
			cc, err := community.New(c)
			if err != nil {
				panic(err)
			}
			adv.Communities = append(adv.Communities, cc)
		}
		if pool != nil {
			pool[key] = adv
		}
		res = append(res, adv)
	}
	return res
}

// number of (session, session) pairs of ss in the shape "one advertisement shared by both, and on the first only a
// further advertisement of the same prefix with other communities listed after it"
func vSharedThenExtra(ss []vSess) int {
	n := 0
	for i, a := range ss {
		for j, b := range ss {
			if i == j {
				continue
			}
			for x, ax := range a.Advs {
				for _, bx := range b.Advs {
					if ax.Prefix != bx.Prefix || ax.LP != bx.LP || strings.Join(ax.Comms, ",") != strings.Join(bx.Comms, ",") {
						continue
					}
					for _, ay := range a.Advs[x+1:] {
						if ay.Prefix == ax.Prefix && strings.Join(ay.Comms, ",") != strings.Join(ax.Comms, ",") {
							n++
						}
					}
				}
			}
		}
	}
	return n
}

// ---- Coq terms (Model/FrrAst.v) ----
func cStr(s string) string {
	return "\"" + strings.ReplaceAll(s, "\"", "\"\"") + "\""
}
func cOptStr(s string) string {
	if s == "" {
		return cNone
	}
	return cSome(cStr(s))
}
func cOptDur(ns int64) string {
	if ns < 0 {
		return cNone
	}
	return cSome(cN(uint64(ns)))
}

func cPfx(p string) string {
	ip, n, err := net.ParseCIDR(p)
	if err != nil {
		panic(err)
	}
	_ = ip
	ones, _ := n.Mask.Size()
	fam := "F6"
	var base string
	if v4 := n.IP.To4(); v4 != nil {
		fam = "F4"
		base = fmt.Sprintf("%d", uint64(v4[0])<<24|uint64(v4[1])<<16|uint64(v4[2])<<8|uint64(v4[3]))
	} else {
		base = vBig(n.IP.To16())
	}
	return fmt.Sprintf("(mk_pfx %s {| pfam := %s; pbase := %s%%N; plen := %d%%N |})", cStr(n.String()), fam, base, ones)
}

func vBig(b []byte) string {
	// decimal of a big-endian byte string
	digits := []byte{0}
	for _, x := range b {
		carry := int(x)
		for i := len(digits) - 1; i >= 0; i-- {
			v := int(digits[i])*256 + carry
			digits[i] = byte(v % 10)
			carry = v / 10
		}
		for carry > 0 {
			digits = append([]byte{byte(carry % 10)}, digits...)
			carry /= 10
		}
	}
	var sb strings.Builder
	for _, d := range digits {
		sb.WriteByte('0' + d)
	}
	return sb.String()
}

func cAdv(a vAdv) string {
	var cs []string
	for _, c := range a.Comms {
		if strings.HasPrefix(c, "large:") {
			cs = append(cs, cPair("true", cStr(strings.TrimPrefix(c, "large:"))))
		} else {
			cs = append(cs, cPair("false", cStr(c)))
		}
	}
	return cCtor("mk_adv", cPfx(a.Prefix), cN(uint64(a.LP)), cList(cs))
}

func cSess(s vSess) string {
	var advs []string
	for _, a := range s.Advs {
		advs = append(advs, cAdv(a))
	}
	addr4 := false
	if ip := net.ParseIP(s.PeerAddr); ip != nil && ip.To4() != nil {
		addr4 = true
	}
	return cCtor("mk_session", cN(uint64(s.MyASN)), cOptStr(s.RouterID), cStr(s.VRF), cStr(s.PeerAddr), cBool(addr4),
		cStr(s.Iface), cN(uint64(s.PeerASN)), cStr(s.DynASN), cOptStr(s.Src), cN(uint64(s.Port)),
		cOptDur(s.Hold), cOptDur(s.Keep), cOptDur(s.Connect), cStr(s.Password), cStr(s.BFD),
		cBool(s.GR), cBool(s.MultiHop), cBool(s.DisableMP), cList(advs), cPair(cStr(s.SecretN), cStr(s.SecretNS)))
}

func cSessList(ss []vSess) string {
	it := make([]string, len(ss))
	for i, s := range ss {
		it[i] = cSess(s)
	}
	return cList(it)
}

func vPermute(r *rand.Rand, ss []vSess) []vSess {
	out := make([]vSess, len(ss))
	for i, j := range r.Perm(len(ss)) {
		s := ss[j]
		// also permute the advertisement list of each session
		advs := make([]vAdv, len(s.Advs))
		for k, l := range r.Perm(len(s.Advs)) {
			advs[k] = s.Advs[l]
		}
		s.Advs = advs
		out[i] = s
	}
	return out
}

func vSortedKeys(m map[string]bool) []string {
	var ks []string
	for k := range m {
		ks = append(ks, k)
	}
	sort.Strings(ks)
	return ks
}

// ---- histories (shared by the FRR-mode and the frr-k8s-mode history harnesses) ----

type vHistOp struct {
	Kind string `json:"kind"` // new set setbad (a Set the manager must reject) close resync (regeneration from an unrelated trigger)
	Why  string `json:"why,omitempty"`
	Sess int    `json:"sess"`
	Advs []vAdv `json:"advs,omitempty"`
}

type vHist struct {
	Base []vSess   `json:"base"` // session parameters (Advs ignored)
	Ops  []vHistOp `json:"ops"`
}

func vCopyAdvs(a []vAdv) []vAdv {
	out := make([]vAdv, len(a))
	for i, x := range a {
		out[i] = vAdv{Prefix: x.Prefix, LP: x.LP, Comms: append([]string{}, x.Comms...)}
	}
	return out
}

// a variation of an advertisement list that keeps one local preference per prefix
func vMutateAdvs(r *rand.Rand, cur []vAdv) []vAdv {
	out := vCopyAdvs(cur)
	dupIdx := func() []int { // indexes of entries whose prefix occurs again LATER (non-last duplicates)
		var idx []int
		for i := range out {
			for j := i + 1; j < len(out); j++ {
				if out[j].Prefix == out[i].Prefix {
					idx = append(idx, i)
					break
				}
			}
		}
		return idx
	}
	newComms := func() []string {
		var cs []string
		for k, n := 0, 1+r.Intn(2); k < n; k++ {
			c := vComms[r.Intn(len(vComms))]
			if r.Intn(3) == 0 {
				c = vLarge[r.Intn(len(vLarge))]
			}
			dup := false
			for _, x := range cs {
				dup = dup || x == c
			}
			if !dup {
				cs = append(cs, c)
			}
		}
		return cs
	}
	// which prefixes carry which communities changes; the prefixes, their local preferences and the union of
	// the communities stay the same
	reassign := func() bool {
		var withC, other []int
		for i := range out {
			if len(out[i].Comms) > 0 {
				withC = append(withC, i)
			}
		}
		if len(withC) == 0 || len(out) < 2 {
			return false
		}
		i := withC[r.Intn(len(withC))]
		for j := range out {
			if j != i && out[j].Prefix != out[i].Prefix {
				other = append(other, j)
			}
		}
		if len(other) == 0 {
			return false
		}
		j := other[r.Intn(len(other))]
		switch r.Intn(3) {
		case 0: // swap the community lists of two prefixes
			out[i].Comms, out[j].Comms = out[j].Comms, out[i].Comms
		case 1: // a community that stays in use elsewhere is also put on another prefix
			c := out[i].Comms[r.Intn(len(out[i].Comms))]
			has := false
			for _, x := range out[j].Comms {
				has = has || x == c
			}
			if has {
				return false
			}
			out[j].Comms = append(append([]string{}, out[j].Comms...), c)
		default: // a community moves from one prefix to another
			k := r.Intn(len(out[i].Comms))
			c := out[i].Comms[k]
			for _, x := range out[j].Comms {
				if x == c {
					return false
				}
			}
			out[i].Comms = append(append([]string{}, out[i].Comms[:k]...), out[i].Comms[k+1:]...)
			out[j].Comms = append(append([]string{}, out[j].Comms...), c)
		}
		return true
	}
	if r.Intn(4) == 0 && reassign() {
		return out
	}
	switch k := r.Intn(8); {
	case k <= 1 && len(dupIdx()) > 0: // remove a non-last duplicate
		d := dupIdx()
		i := d[r.Intn(len(d))]
		out = append(out[:i], out[i+1:]...)
	case k <= 3 && len(dupIdx()) > 0: // change the communities of a non-last duplicate
		d := dupIdx()
		out[d[r.Intn(len(d))]].Comms = newComms()
	case k <= 5 && len(out) > 0: // add a duplicate of an existing prefix IN FRONT, with other communities
		x := out[r.Intn(len(out))]
		out = append([]vAdv{{Prefix: x.Prefix, LP: x.LP, Comms: newComms()}}, out...)
	case k == 6 && len(out) > 0: // drop any entry
		i := r.Intn(len(out))
		out = append(out[:i], out[i+1:]...)
	default:
		out = vGenAdvs(r, false)
	}
	return out
}

// vBadAdvs: the current list with one advertisement the session manager must refuse placed somewhere in it
func vBadAdvs(r *rand.Rand, cur []vAdv, lpConflictIsBad bool) ([]vAdv, string) {
	out := vCopyAdvs(cur)
	var bad vAdv
	why := "more than 63 communities"
	if lpConflictIsBad && len(out) > 0 && r.Intn(3) == 0 {
		x := out[r.Intn(len(out))]
		bad = vAdv{Prefix: x.Prefix, LP: x.LP + 50, Comms: []string{}}
		why = "same prefix with another local preference"
	} else {
		bad = vAdv{Prefix: vPfx4[r.Intn(len(vPfx4))], Comms: []string{}}
		for _, a := range out {
			if a.Prefix == bad.Prefix {
				bad.LP = a.LP
			}
		}
		for k := 0; k < 64; k++ {
			bad.Comms = append(bad.Comms, fmt.Sprintf("65000:%d", 1000+k))
		}
	}
	// a few new valid entries around it, so that a partially applied request is visible
	extra := vGenAdvs(r, false)
	for i := range extra {
		for _, a := range out {
			if a.Prefix == extra[i].Prefix {
				extra[i].LP = a.LP
			}
		}
		if extra[i].Prefix == bad.Prefix && why[0] == 'm' {
			extra[i].LP = bad.LP
		}
	}
	var res []vAdv
	if r.Intn(2) == 0 {
		pos := r.Intn(len(out) + 1)
		res = append(res, out[:pos]...)
		res = append(res, bad)
		res = append(res, out[pos:]...)
	} else {
		res = append(res, extra...)
		res = append(res, bad)
		res = append(res, out...)
	}
	return res, why
}

func vGenHist(r *rand.Rand, lpConflictIsBad bool) vHist {
	h := vHist{Base: vGenSessions(r, false)}
	cur := make([][]vAdv, len(h.Base))
	alive := make([]bool, len(h.Base))
	for i := range h.Base {
		h.Ops = append(h.Ops, vHistOp{Kind: "new", Sess: i})
		alive[i] = true
		if len(h.Base[i].Advs) > 0 || r.Intn(2) == 0 {
			h.Ops = append(h.Ops, vHistOp{Kind: "set", Sess: i, Advs: vCopyAdvs(h.Base[i].Advs)})
			cur[i] = vCopyAdvs(h.Base[i].Advs)
		}
	}
	for k, n := 0, 2+r.Intn(5); k < n; k++ {
		i := r.Intn(len(h.Base))
		switch {
		case !alive[i]:
			h.Ops = append(h.Ops, vHistOp{Kind: "new", Sess: i})
			alive[i], cur[i] = true, nil
		case r.Intn(8) == 0 && len(h.Base) > 1:
			h.Ops = append(h.Ops, vHistOp{Kind: "close", Sess: i})
			alive[i], cur[i] = false, nil
		case r.Intn(4) == 0:
			// a request the manager must refuse: the previous set stays in force; then an unrelated regeneration
			bad, why := vBadAdvs(r, cur[i], lpConflictIsBad)
			h.Ops = append(h.Ops, vHistOp{Kind: "setbad", Sess: i, Advs: bad, Why: why})
			if r.Intn(3) != 0 {
				h.Ops = append(h.Ops, vHistOp{Kind: "resync", Sess: i})
			}
		case r.Intn(10) == 0:
			h.Ops = append(h.Ops, vHistOp{Kind: "resync", Sess: i})
		default:
			cur[i] = vMutateAdvs(r, cur[i])
			h.Ops = append(h.Ops, vHistOp{Kind: "set", Sess: i, Advs: vCopyAdvs(cur[i])})
		}
	}
	return h
}


// the history as operations of Model/FrrMgr.v and the results the harness observed (a history that
// completed: every operation but the refused Sets returned no error)
func vMopTerms(h vHist, resync func(step int) string) (string, string) {
	var ops, oks []string
	for step, op := range h.Ops {
		b := h.Base[op.Sess]
		b.Advs = nil
		switch op.Kind {
		case "new":
			ops = append(ops, cCtor("MNew", cSess(b)))
		case "set", "setbad":
			var advs []string
			for _, a := range op.Advs {
				advs = append(advs, cAdv(a))
			}
			ops = append(ops, cCtor("MSet", cSess(b), cList(advs)))
		case "close":
			ops = append(ops, cCtor("MClose", cSess(b)))
		case "resync":
			ops = append(ops, resync(step))
		}
		oks = append(oks, cBool(op.Kind != "setbad"))
	}
	return cList(ops), cList(oks)
}
