//go:build verif

package frr

// Harness for C19 with the REAL reloadConfig (pid file + SIGHUP): the real
// debouncer runs the real generateAndReloadConfigFile against a config file and
// a reloader pid file in a temp dir; stand-ins for the FRR reloader are child
// processes of this test binary (TestHelperReloader) that write their pid file
// and count the SIGHUPs they receive, recording the config file content they
// would load.  The reloader "restarts": a new stand-in with a new pid takes over
// the pid file (the previous one stays alive, so no signal is ever sent to a
// pid that might have been reused).  Oracle (C19 statement): after the last
// submission the CURRENT reloader is signalled while the file holds the latest
// configuration; a failing attempt (unreadable pid file) is retried and the
// retry reaches the current reloader.

import (
	"fmt"
	"os"
	"os/exec"
	"os/signal"
	"path/filepath"
	"strconv"
	"strings"
	"syscall"
	"testing"
	"time"

	"github.com/go-kit/log"
)

// the stand-in: only active when started by the harness
func TestHelperReloader(t *testing.T) {
	dir, name := os.Getenv("VERIF_HELPER_DIR"), os.Getenv("VERIF_HELPER_NAME")
	if dir == "" || name == "" {
		return
	}
	hup := make(chan os.Signal, 64)
	signal.Notify(hup, syscall.SIGHUP)
	term := make(chan os.Signal, 1)
	signal.Notify(term, syscall.SIGTERM)
	if err := os.WriteFile(filepath.Join(dir, name+".pid"), []byte(strconv.Itoa(os.Getpid())), 0o644); err != nil {
		os.Exit(3)
	}
	deadline := time.After(90 * time.Second)
	n := 0
	for {
		select {
		case <-hup:
			n++
			cfg, _ := os.ReadFile(filepath.Join(dir, "frr.conf"))
			// one file per signal: what this reloader would load
			_ = os.WriteFile(filepath.Join(dir, fmt.Sprintf("%s.hup.%d", name, n)), cfg, 0o644)
		case <-term:
			os.Exit(0)
		case <-deadline:
			os.Exit(0)
		}
	}
}

type vReloader struct {
	dir, name string
	cmd       *exec.Cmd
	pid       int
}

func vStartReloader(dir, name string) (*vReloader, error) {
	cmd := exec.Command(os.Args[0], "-test.run=TestHelperReloader$", "-test.count=1")
	cmd.Env = append(os.Environ(), "VERIF_HELPER_DIR="+dir, "VERIF_HELPER_NAME="+name, "VERIF_OUT="+os.DevNull)
	if err := cmd.Start(); err != nil {
		return nil, err
	}
	r := &vReloader{dir: dir, name: name, cmd: cmd}
	for i := 0; i < 2000; i++ { // up to 10 s for the child to come up
		if b, err := os.ReadFile(filepath.Join(dir, name+".pid")); err == nil && len(b) > 0 {
			r.pid, _ = strconv.Atoi(string(b))
			if r.pid == cmd.Process.Pid {
				return r, nil
			}
		}
		time.Sleep(5 * time.Millisecond)
	}
	_ = cmd.Process.Kill()
	_, _ = cmd.Process.Wait()
	return nil, fmt.Errorf("stand-in reloader %s did not come up", name)
}

func (r *vReloader) stop() {
	_ = r.cmd.Process.Signal(syscall.SIGTERM)
	done := make(chan struct{})
	go func() { _, _ = r.cmd.Process.Wait(); close(done) }()
	select {
	case <-done:
	case <-time.After(3 * time.Second):
		_ = r.cmd.Process.Kill()
		<-done
	}
}

// the contents this reloader was asked to load, in order
func (r *vReloader) loads() []string {
	var out []string
	for n := 1; ; n++ {
		b, err := os.ReadFile(filepath.Join(r.dir, fmt.Sprintf("%s.hup.%d", r.name, n)))
		if err != nil {
			return out
		}
		out = append(out, string(b))
	}
}

func vWaitLoaded(r *vReloader, want string, patience time.Duration) bool {
	deadline := time.Now().Add(patience)
	for {
		l := r.loads()
		if len(l) > 0 && l[len(l)-1] == want {
			return true
		}
		if time.Now().After(deadline) {
			return false
		}
		time.Sleep(5 * time.Millisecond)
	}
}

func TestVerifDebReloader(t *testing.T) {
	out := vOpen()
	defer out.Close()
	rounds := 2
	if vThorough() {
		rounds = 6
	}
	for round := 0; round < rounds; round++ {
		dir, err := os.MkdirTemp("", "verif-frr-reloader")
		if err != nil {
			t.Fatal(err)
		}
		pidFile := filepath.Join(dir, "reloader.pid")
		os.Setenv("FRR_CONFIG_FILE", filepath.Join(dir, "frr.conf"))
		os.Setenv("FRR_RELOADER_PID_FILE", pidFile)
		var started []*vReloader
		cleanup := func() {
			for _, r := range started {
				r.stop()
			}
			os.Unsetenv("FRR_CONFIG_FILE")
			os.Unsetenv("FRR_RELOADER_PID_FILE")
			os.RemoveAll(dir)
		}
		start := func(name string) *vReloader {
			r, err := vStartReloader(dir, name)
			if err != nil {
				out.Stat("reloader_helper_unavailable", 1)
				return nil
			}
			started = append(started, r)
			return r
		}
		ch := make(chan reloadEvent)
		body := func(c *frrConfig) error { return generateAndReloadConfigFile(c, log.NewNopLogger()) }
		debouncer(body, ch, 3*time.Millisecond, 4*time.Millisecond, log.NewNopLogger())
		text := func(c int) string { s, _ := templateConfig(vDebMkConfig(c)); return s }
		replay := map[string]any{"round": round}
		fail := func(sig, what string) { out.Fail(sig, fmt.Sprintf("round %d: %s", round, what), replay) }

		a := start("A")
		if a == nil {
			cleanup()
			continue
		}
		_ = os.WriteFile(pidFile, []byte(strconv.Itoa(a.pid)), 0o644)
		// 1. first reload reaches reloader A
		ch <- reloadEvent{config: vDebMkConfig(1 + 10*round)}
		if !vWaitLoaded(a, text(1+10*round), 4*time.Second) {
			fail("deb-reloader-not-signalled", "the running reloader was not signalled with the first configuration in the file within 4 s")
			close(ch)
			cleanup()
			continue
		}
		// 2. the reloader restarts with a new pid (B takes over the pid file); a new configuration must reach B
		b := start("B")
		if b == nil {
			close(ch)
			cleanup()
			continue
		}
		_ = os.WriteFile(pidFile, []byte(strconv.Itoa(b.pid)), 0o644)
		ch <- reloadEvent{config: vDebMkConfig(2 + 10*round)}
		if !vWaitLoaded(b, text(2+10*round), 4*time.Second) {
			fail("deb-reloader-not-signalled", fmt.Sprintf("after the reloader restarted with a new pid the CURRENT reloader was not signalled with the latest configuration within 4 s (previous reloader got %d signals, current %d)", len(a.loads()), len(b.loads())))
		}
		// 3. a failing attempt (pid file unreadable as a number) is retried; meanwhile the reloader restarts again (C)
		c := start("C")
		if c != nil {
			_ = os.WriteFile(pidFile, []byte("not-a-pid"), 0o644)
			ch <- reloadEvent{config: vDebMkConfig(3 + 10*round)}
			time.Sleep(15 * time.Millisecond) // a few failing attempts
			_ = os.WriteFile(pidFile, []byte(strconv.Itoa(c.pid)), 0o644)
			if !vWaitLoaded(c, text(3+10*round), 4*time.Second) {
				fail("deb-reloader-retry-not-signalled", fmt.Sprintf("after the pid file became valid again the retry did not signal the CURRENT reloader with the latest configuration within 4 s (signals: first %d, second %d, current %d)", len(a.loads()), len(b.loads()), len(c.loads())))
			}
			// 4. a re-apply request reaches the current reloader too
			n0 := len(c.loads())
			ch <- reloadEvent{useOld: true}
			deadline := time.Now().Add(4 * time.Second)
			for len(c.loads()) <= n0 && time.Now().Before(deadline) {
				time.Sleep(5 * time.Millisecond)
			}
			if len(c.loads()) <= n0 {
				fail("deb-reloader-reapply-not-signalled", "a re-apply request did not signal the current reloader within 4 s")
			}
		}
		out.Stat("reloader_rounds", 1)
		out.Stat("reloader_restarts", 2)
		for _, r := range started {
			for _, l := range r.loads() {
				if !strings.Contains(l, "hostname") {
					out.Stat("reloader_loaded_incomplete_file", 1)
				}
			}
		}
		close(ch)
		cleanup()
	}
}
