//go:build verif

package frr

// Harness for C19 (FRR reload delivery): runs the REAL `debouncer` of config.go
// with small intervals, a scripted failing reload action and concurrent
// submitters, records one mutex-ordered trace
//   TS c / TR  submitter about to send {config:c} / {useOld:true}
//   TD         that send returned
//   TB c ok    reload action entered with config c, will return ok
//   TQ         quiet (nothing happened for several intervals, or patience ran out)
// ships it to Coq (Corr/Run_Debounce.v: is it a trace of Model/Debounce.v?) and
// evaluates the property directly on the trace (oracle below).
// Also drives the real validateReload against a status file.

import (
	"errors"
	"fmt"
	"math/rand"
	"os"
	"path/filepath"
	"strconv"
	"strings"
	"sync"
	"testing"
	"time"

	"github.com/go-kit/log"
)

type vDebItem struct {
	K  string `json:"k"` // TS TR TD TB TQ
	C  int    `json:"c"` // config id, -1 = nil
	OK bool   `json:"ok"`
	At int64  `json:"at_us"`
}

type vDebOp struct {
	DelayUs int  `json:"d"`
	Reapply bool `json:"re"`
	Cfg     int  `json:"c"`
}

type vDebScenario struct {
	IntervalUs int        `json:"interval_us"`
	RetryUs    int        `json:"retry_us"`
	Fails      []bool     `json:"fails"` // k-th call of the reload action fails
	BodyUs     []int      `json:"body_us"`
	Scripts    [][]vDebOp `json:"scripts"`
	Burst      []int      `json:"burst"`
	// Real: the reload action is the REAL generateAndReloadConfigFile (file in a temp dir,
	// package hook reloadConfig scripted); Fails then scripts the reloadConfig calls
	Real bool `json:"real"`
	// Stream > 0: before everything else one configuration is submitted, and as soon as its reload attempt
	// was made (it fails when Fails[0] is set) Stream further events (distinct configurations, every 5th a
	// re-apply request) follow, StreamGapUs (< IntervalUs) apart: the pending (re)try must not wait for the
	// end of the stream
	Stream      int `json:"stream"`
	StreamGapUs int `json:"stream_gap_us"`
}

// state of the scripted reloadConfig hook for the real-body scenarios (run one at a time)
type vDebRealState struct {
	mu      sync.Mutex
	path    string
	fails   []bool
	calls   int
	okCalls int
	loaded  string // content of the config file at the last successful reload signal = what FRR runs
}

var vDebReal vDebRealState

func vDebRealHook() error {
	vDebReal.mu.Lock()
	defer vDebReal.mu.Unlock()
	k := vDebReal.calls
	vDebReal.calls++
	if k < len(vDebReal.fails) && vDebReal.fails[k] {
		return errors.New("scripted failure of the reload signal")
	}
	b, err := os.ReadFile(vDebReal.path)
	if err != nil {
		return err
	}
	vDebReal.okCalls++
	vDebReal.loaded = string(b)
	return nil
}

func vDebMkConfig(c int) *frrConfig {
	// a fresh object every time: equality must be by content (reflect.DeepEqual)
	return &frrConfig{Hostname: strconv.Itoa(c), Routers: []*routerConfig{{MyASN: uint32(c)}}}
}

func vDebGen(r *rand.Rand) vDebScenario {
	sc := vDebScenario{IntervalUs: 3000 + r.Intn(5000), RetryUs: 2000 + r.Intn(7000)}
	nf := 0
	switch r.Intn(4) {
	case 1:
		nf = 1 + r.Intn(2)
	case 2:
		nf = 2 + r.Intn(4)
	}
	for i := 0; i < nf+r.Intn(3); i++ {
		sc.Fails = append(sc.Fails, i < nf || r.Intn(3) == 0)
	}
	for i := 0; i < 12; i++ {
		sc.BodyUs = append(sc.BodyUs, r.Intn(3)*r.Intn(900))
	}
	ns := 1 + r.Intn(3)
	next := 1
	for s := 0; s < ns; s++ {
		var ops []vDebOp
		n := 1 + r.Intn(6)
		prev := 0
		for i := 0; i < n; i++ {
			op := vDebOp{}
			switch r.Intn(4) {
			case 0:
				op.DelayUs = 0
			case 1:
				op.DelayUs = r.Intn(800)
			case 2:
				op.DelayUs = r.Intn(2 * sc.IntervalUs)
			default:
				op.DelayUs = sc.IntervalUs - 300 + r.Intn(600)
			}
			switch x := r.Intn(10); {
			case x == 0:
				op.Reapply = true
			case x <= 2 && prev != 0:
				op.Cfg = prev // identical resubmission
			case x <= 4:
				op.Cfg = 1 + r.Intn(3) // small alphabet: equal contents from different submitters
			default:
				next++
				op.Cfg = 10 + next
			}
			if !op.Reapply {
				prev = op.Cfg
			}
			ops = append(ops, op)
		}
		sc.Scripts = append(sc.Scripts, ops)
	}
	for i, k := 0, 2+r.Intn(4); i < k; i++ {
		sc.Burst = append(sc.Burst, 100+i)
	}
	return sc
}

type vDebRun struct {
	mu      sync.Mutex
	smu     sync.Mutex
	t0      time.Time
	trace   []vDebItem
	calls   int
	blocked bool
}

func (d *vDebRun) add(k string, c int, ok bool) {
	d.trace = append(d.trace, vDebItem{K: k, C: c, OK: ok, At: time.Since(d.t0).Microseconds()})
}

func vDebCfgID(c *frrConfig) int {
	if c == nil {
		return -1
	}
	n, err := strconv.Atoi(c.Hostname)
	if err != nil {
		return -2
	}
	return n
}

func (d *vDebRun) send(ch chan reloadEvent, reapply bool, c int) {
	d.smu.Lock()
	defer d.smu.Unlock()
	ev := reloadEvent{useOld: true}
	d.mu.Lock()
	if reapply {
		d.add("TR", 0, false)
	} else {
		// a fresh object every time: equality must be by content (reflect.DeepEqual)
		ev = reloadEvent{config: vDebMkConfig(c)}
		d.add("TS", c, false)
	}
	d.mu.Unlock()
	select {
	case ch <- ev:
	case <-time.After(4 * time.Second):
		d.mu.Lock()
		d.blocked = true
		d.mu.Unlock()
		ch <- ev
	}
	d.mu.Lock()
	d.add("TD", 0, false)
	d.mu.Unlock()
}

// state of the trace as the property sees it: is a reload call still owed?
func (d *vDebRun) settled() (bool, int) {
	last := -1
	lastOKCfg := -1
	lastCallOK := true
	need := false
	for _, it := range d.trace {
		switch it.K {
		case "TS":
			if it.C != last {
				need = true
			}
			last = it.C
		case "TR":
			if last != -1 {
				need = true
			}
		case "TB":
			lastCallOK = it.OK
			if it.OK {
				lastOKCfg = it.C
				need = false
			}
		}
	}
	if last == -1 {
		return lastCallOK, len(d.trace)
	}
	return !need && lastCallOK && lastOKCfg == last, len(d.trace)
}

// wait until the trace is settled and silent for `calm`, at most `patience`
func (d *vDebRun) quiet(calm, patience time.Duration) {
	deadline := time.Now().Add(patience)
	for {
		d.mu.Lock()
		ok, n := d.settled()
		var lastAt int64
		if n > 0 {
			lastAt = d.trace[n-1].At
		}
		now := time.Since(d.t0).Microseconds()
		d.mu.Unlock()
		if ok && time.Duration(now-lastAt)*time.Microsecond >= calm {
			break
		}
		if time.Now().After(deadline) {
			break
		}
		time.Sleep(calm / 4)
	}
	d.mu.Lock()
	d.add("TQ", 0, false)
	d.mu.Unlock()
}

func vDebRunScenario(sc vDebScenario) (*vDebRun, map[string]int) {
	d := &vDebRun{t0: time.Now()}
	info := map[string]int{}
	body := func(c *frrConfig) error {
		d.mu.Lock()
		k := d.calls
		d.calls++
		ok := !(k < len(sc.Fails) && sc.Fails[k])
		d.add("TB", vDebCfgID(c), ok)
		d.mu.Unlock()
		if us := sc.BodyUs[k%len(sc.BodyUs)]; us > 0 {
			time.Sleep(time.Duration(us) * time.Microsecond)
		}
		if !ok {
			return errors.New("scripted reload failure")
		}
		return nil
	}
	if sc.Real {
		body = func(c *frrConfig) error {
			err := generateAndReloadConfigFile(c, log.NewNopLogger())
			d.mu.Lock()
			k := d.calls
			d.calls++
			d.add("TB", vDebCfgID(c), err == nil) // logged on return: the loop receives nothing while the action runs
			d.mu.Unlock()
			if us := sc.BodyUs[k%len(sc.BodyUs)]; us > 0 {
				time.Sleep(time.Duration(us) * time.Microsecond)
			}
			return err
		}
	}
	ch := make(chan reloadEvent)
	interval := time.Duration(sc.IntervalUs) * time.Microsecond
	retry := time.Duration(sc.RetryUs) * time.Microsecond
	debouncer(body, ch, interval, retry, log.NewNopLogger())
	defer close(ch)
	calm := 4*(interval+retry) + 60*time.Millisecond // generous: a loaded machine delays timers by tens of ms
	patience := 6 * time.Second

	// phase 0: a stream of submissions while a (re)try is pending
	if sc.Stream > 0 {
		d.send(ch, false, 1000)
		for w := time.Now().Add(patience); time.Now().Before(w); time.Sleep(200 * time.Microsecond) {
			d.mu.Lock()
			k := d.calls
			d.mu.Unlock()
			if k > 0 {
				break
			}
		}
		for i := 1; i <= sc.Stream; i++ {
			time.Sleep(time.Duration(sc.StreamGapUs) * time.Microsecond)
			d.send(ch, i%5 == 0, 1000+i)
		}
		d.quiet(calm, patience)
	}

	// phase 1: concurrent scripted submitters
	var wg sync.WaitGroup
	for _, ops := range sc.Scripts {
		wg.Add(1)
		go func(ops []vDebOp) {
			defer wg.Done()
			for _, op := range ops {
				if op.DelayUs > 0 {
					time.Sleep(time.Duration(op.DelayUs) * time.Microsecond)
				}
				d.send(ch, op.Reapply, op.Cfg)
			}
		}(ops)
	}
	wg.Wait()
	d.quiet(calm, patience)

	// phase 2: identical resubmission (fresh object, equal content) must not reload
	d.mu.Lock()
	last := -1
	for _, it := range d.trace {
		if it.K == "TS" {
			last = it.C
		}
	}
	n0 := d.calls
	d.mu.Unlock()
	if last != -1 {
		d.send(ch, false, last)
		time.Sleep(calm)
		d.mu.Lock()
		info["identical_calls"] = d.calls - n0
		d.add("TQ", 0, false)
		n0 = d.calls
		d.mu.Unlock()
		// phase 2b: a re-apply request while nothing is pending must reload the same configuration once
		vDebReal.mu.Lock()
		ok0 := vDebReal.okCalls
		vDebReal.mu.Unlock()
		d.send(ch, true, 0)
		d.quiet(calm, patience)
		d.mu.Lock()
		info["reapply_calls"] = d.calls - n0
		vDebReal.mu.Lock()
		info["real_reapply_ok"] = vDebReal.okCalls - ok0
		vDebReal.mu.Unlock()
		info["reapply_failing"] = 0
		for k := n0; k < d.calls; k++ {
			if k < len(sc.Fails) && sc.Fails[k] {
				info["reapply_failing"] = 1
			}
		}
		d.mu.Unlock()
	}

	// phase 3: a burst of distinct configurations inside one window
	d.mu.Lock()
	n1 := d.calls
	d.mu.Unlock()
	b0 := time.Now()
	for _, c := range sc.Burst {
		d.send(ch, false, c)
	}
	burst := time.Since(b0)
	d.quiet(calm, patience)
	d.mu.Lock()
	info["burst_calls"] = d.calls - n1
	info["burst_fast"] = 0
	if burst < interval/2 {
		info["burst_fast"] = 1
	}
	// failures still scripted for the burst's calls?
	info["burst_failing"] = 0
	for k := n1; k < d.calls; k++ {
		if k < len(sc.Fails) && sc.Fails[k] {
			info["burst_failing"] = 1
		}
	}
	d.mu.Unlock()
	return d, info
}

func vDebCoq(id int, tr []vDebItem) string {
	var it []string
	for _, x := range tr {
		switch x.K {
		case "TS":
			it = append(it, cCtor("TS", cNi(x.C)))
		case "TR":
			it = append(it, "TR")
		case "TD":
			it = append(it, "TD")
		case "TQ":
			it = append(it, "TQ")
		case "TB":
			c := cNone
			if x.C >= 0 {
				c = cSome(cNi(x.C))
			}
			it = append(it, cCtor("TB", c, cBool(x.OK)))
		}
	}
	return cCtor("DFrr", cNi(id), cList(it))
}

// the property evaluated on the trace, without the model
func vDebOracle(out *vOut, sc vDebScenario, d *vDebRun, info map[string]int) {
	replay := map[string]any{"scenario": sc, "trace": d.trace}
	if d.blocked {
		out.Fail("deb-submit-blocked", "a submission was not accepted within 4 s", replay)
	}
	done := -1    // configuration of the last completed submission
	pendCfg := -2 // configuration of the submission in flight (-2: none / re-apply)
	inflight := false
	seenPending := false
	lastOK := -1
	lastCallOK := true
	for i, it := range d.trace {
		switch it.K {
		case "TS":
			inflight, pendCfg, seenPending = true, it.C, false
		case "TR":
			inflight, pendCfg, seenPending = true, -2, false
		case "TD":
			if inflight && pendCfg != -2 {
				done = pendCfg
			}
			inflight, pendCfg, seenPending = false, -2, false
		case "TB":
			lastCallOK = it.OK
			okCfg := it.C == done && !seenPending
			if inflight && pendCfg != -2 && it.C == pendCfg {
				okCfg = true
				seenPending = true
			}
			if !okCfg {
				out.Fail("deb-body-not-latest", fmt.Sprintf("trace item %d: reload action called with config %d, latest submitted is %d (in flight: %d)", i, it.C, done, pendCfg), replay)
				return
			}
			if it.OK {
				lastOK = it.C
			}
		case "TQ":
			if !lastCallOK {
				out.Fail("deb-no-retry", fmt.Sprintf("trace item %d: the last reload attempt failed and was not retried within the quiet period", i), replay)
				return
			}
			if done != -1 && lastOK != done {
				out.Fail("deb-lost-update", fmt.Sprintf("trace item %d: quiet, applied config %d but most recently submitted %d", i, lastOK, done), replay)
				return
			}
		}
	}
	// a reload that is owed (a changed configuration / a re-apply request was accepted, or the last attempt
	// failed) is not pushed back by further submissions: no run of >= 40 accepted events, spread over more
	// than 3 x (debounce + retry interval), without a single call of the reload action
	{
		owed, cnt, lastSub := false, 0, -1
		var since int64
		lim := 3 * int64(sc.IntervalUs+sc.RetryUs)
		for i, it := range d.trace {
			switch it.K {
			case "TB":
				owed, cnt, since = !it.OK, 0, it.At
			case "TS":
				if it.C != lastSub && !owed {
					owed, cnt, since = true, 0, it.At
				}
				lastSub = it.C
			case "TR":
				if lastSub != -1 && !owed {
					owed, cnt, since = true, 0, it.At
				}
			case "TD":
				if owed {
					cnt++
					if cnt >= 40 && it.At-since > lim {
						out.Fail("deb-starved-by-submissions", fmt.Sprintf("trace item %d: a reload has been owed for %d us (debounce interval %d us, retry interval %d us) and %d further events were accepted since, but the reload action was not called: submissions keep pushing the pending (re)try back",
							i, it.At-since, sc.IntervalUs, sc.RetryUs, cnt), replay)
						return
					}
				}
			}
		}
	}
	// Coalescing read on the clock ("updates arriving within the debounce window are coalesced": a burst inside one
	// window produces ONE reload, not several).  After a reload call that SUCCEEDED nothing is pending, so the next
	// call is owed to a later submission / re-apply request and starts at least one debounce interval after the first
	// of them (Go timers are never early; a submission in flight when the previous call was logged may have been
	// received right after it, then the bound is the previous call).  After a call that FAILED a retry is pending and
	// C19 puts NO lower bound on it: the implementation may retry earlier than the failure interval (e.g. when a new
	// configuration arrived) - the model's deadline (C19_retry_not_starved_by_submissions) is an UPPER bound for the
	// implementation, checked by deb-starved-by-submissions / deb-no-retry.
	{
		prev, prevOK, havePrev := int64(0), true, false
		inflight := false         // a submission logged but not yet accepted
		inflightAtPrev := false   // ... at the moment the previous call was logged
		firstAfter := int64(-1)   // first submission / re-apply request logged after the previous call
		for i, it := range d.trace {
			switch it.K {
			case "TS", "TR":
				inflight = true
				if firstAfter < 0 {
					firstAfter = it.At
				}
			case "TD":
				inflight = false
			case "TB":
				lower := int64(-1)
				switch {
				case !havePrev:
					if firstAfter >= 0 {
						lower = firstAfter + int64(sc.IntervalUs)
					}
				case prevOK:
					lower = prev + int64(sc.IntervalUs)
					if !inflightAtPrev && firstAfter >= 0 {
						lower = firstAfter + int64(sc.IntervalUs)
					}
				}
				if lower >= 0 {
					out.Stat("reload_window_checked", 1)
					if it.At < lower {
						out.Fail("deb-window-cut-short", fmt.Sprintf("trace item %d: nothing was pending after the previous reload call, and this one starts %d us before a full debounce interval (%d us) has passed since the first submission it is owed to: updates inside one window are not coalesced",
							i, lower-it.At, sc.IntervalUs), replay)
						return
					}
				}
				prev, prevOK, havePrev = it.At, it.OK, true
				inflightAtPrev, firstAfter = inflight, -1
			}
		}
	}
	if sc.Stream > 0 {
		out.Stat("stream_scenarios", 1)
		first := true
		for _, it := range d.trace {
			if it.K == "TB" {
				if first && !it.OK {
					out.Stat("stream_submissions_while_retry_pending", sc.Stream)
				}
				first = false
			}
		}
	}
	if n, ok := info["identical_calls"]; ok && n != 0 {
		out.Fail("deb-identical-reload", fmt.Sprintf("resubmitting an identical configuration caused %d reload calls", n), replay)
	}
	if n, ok := info["reapply_calls"]; ok && info["reapply_failing"] == 0 {
		out.Stat("reapply_checked", 1)
		if n != 1 {
			out.Fail("deb-reapply-not-once", fmt.Sprintf("a re-apply request with nothing pending caused %d reload calls", n), replay)
		}
	}
	if sc.Real {
		// the property on the real action: once failures stopped, FRR has been signalled successfully
		// while the file held the latest submitted configuration
		last := -1
		for _, it := range d.trace {
			if it.K == "TS" {
				last = it.C
			}
		}
		vDebReal.mu.Lock()
		loaded, okCalls, calls := vDebReal.loaded, vDebReal.okCalls, vDebReal.calls
		path := vDebReal.path
		vDebReal.mu.Unlock()
		out.Stat("real_body_scenarios", 1)
		out.Stat("real_reload_signal_calls", calls)
		out.Stat("real_reload_signal_failures", calls-okCalls)
		if last != -1 {
			want, err := templateConfig(vDebMkConfig(last))
			onDisk, _ := os.ReadFile(path)
			if err != nil || loaded != want || string(onDisk) != want {
				out.Fail("deb-real-latest-not-loaded", fmt.Sprintf("real reload action: after the failures stopped the last successful reload signal (of %d successful, %d calls) saw a file that is not the latest submitted configuration %d (file on disk equal to it: %v)",
					okCalls, calls, last, string(onDisk) == want), replay)
			}
		}
		if n, ok := info["real_reapply_ok"]; ok && info["reapply_failing"] == 0 && n != 1 {
			out.Fail("deb-real-reapply-not-reloaded", fmt.Sprintf("real reload action: a re-apply request with nothing pending caused %d successful reload signals", n), replay)
		}
	}
	if info["burst_fast"] == 1 && info["burst_failing"] == 0 {
		out.Stat("burst_checked", 1)
		if info["burst_calls"] != 1 {
			out.Fail("deb-not-coalesced", fmt.Sprintf("%d submissions inside one window caused %d reload calls", len(sc.Burst), info["burst_calls"]), replay)
		}
	}
}

func vDebValidateCases(out *vOut, r *rand.Rand, id *int) {
	dir := filepath.Dir(statusFileName)
	created := false
	if _, err := os.Stat(dir); err != nil {
		if err := os.MkdirAll(dir, 0o755); err != nil {
			out.Stat("validate_skipped", 1)
			return
		}
		created = true
	}
	if _, err := os.Stat(statusFileName); err == nil {
		out.Stat("validate_skipped", 1) // somebody else's file: leave it alone
		return
	}
	defer func() {
		os.Remove(statusFileName)
		if created {
			os.Remove(dir)
		}
	}()
	words := []string{"success", "failure", "other"}
	code := map[string]int{"success": 0, "failure": 1, "other": 2}
	for k := 0; k < 40; k++ {
		prev := r.Intn(4)
		prevS := ""
		if prev > 0 {
			prevS = strconv.Itoa(prev)
		}
		var fields string
		var coqFields string
		switch r.Intn(6) {
		case 0:
			os.Remove(statusFileName)
			coqFields = cNone
			fields = "<missing>"
		case 1:
			fields = ""
			coqFields = cSome(cList(nil))
		case 2:
			fields = fmt.Sprintf("%d failure again", 1+r.Intn(3))
			coqFields = cSome(cList([]string{cNi(1), cNi(1), cNi(7)}))
		default:
			ts := 1 + r.Intn(3)
			w := words[r.Intn(3)]
			sep := []string{" ", "\n", "  \t"}[r.Intn(3)]
			fields = fmt.Sprintf("%d%s%s\n", ts, sep, w)
			coqFields = cSome(cList([]string{cNi(ts), cNi(code[w])}))
		}
		if fields != "<missing>" {
			if err := os.WriteFile(statusFileName, []byte(fields), 0o644); err != nil {
				out.Stat("validate_skipped", 1)
				return
			}
		}
		ch := make(chan reloadEvent, 1)
		p := prevS
		validateReload(log.NewNopLogger(), &p, ch)
		sent := false
		select {
		case ev := <-ch:
			sent = true
			if !ev.useOld || ev.config != nil {
				out.Fail("deb-validate-wrong-event", "validateReload sent something else than {useOld: true}", fields)
			}
		default:
		}
		newPrev := 0
		if p != "" {
			newPrev, _ = strconv.Atoi(p)
		}
		*id++
		out.Case(*id, "validateReload", cCtor("DVal", cNi(*id), coqFields, cNi(prev), cNi(newPrev), cBool(sent)),
			map[string]any{"file": fields, "prev": prevS, "new_prev": p, "sent": sent})
		out.Stat("validate_cases", 1)
		// oracle from the property: re-apply exactly when a new time stamp reports failure
		f := strings.Fields(fields)
		want := fields != "<missing>" && len(f) == 2 && f[1] == "failure" && f[0] != prevS
		if sent != want {
			out.Fail("deb-validate-reapply", fmt.Sprintf("status file %q prev %q: re-apply requested=%v, expected %v", fields, prevS, sent, want), fields)
		}
		if sent {
			out.Stat("validate_reapply", 1)
		}
	}
}

type vDebRealSnap struct {
	loaded, path string
	ok, calls    int
}

var vDebRealSnapshots []vDebRealSnap
var vDebOracleReal bool

func TestVerifDeb(t *testing.T) {
	out := vOpen()
	defer out.Close()
	r := vRand()
	n := vN(48)
	scs := make([]vDebScenario, n)
	for i := range scs {
		scs[i] = vDebGen(r)
	}
	// fixed first scenario: two failures, then success; identical and re-apply included
	scs[0] = vDebScenario{IntervalUs: 4000, RetryUs: 3000, Fails: []bool{true, true}, BodyUs: []int{200},
		Scripts: [][]vDebOp{{{0, false, 1}, {100, false, 2}, {100, false, 2}, {9000, true, 0}}}, Burst: []int{100, 101, 102}}
	if n >= 4 { // the first reload attempt fails / succeeds, then a stream of events closer together than the debounce interval
		scs[1] = vDebScenario{IntervalUs: 40000, RetryUs: 25000, Fails: []bool{true, true, true}, BodyUs: []int{0}, Stream: 110, StreamGapUs: 5000,
			Scripts: [][]vDebOp{{{0, false, 1}}}, Burst: []int{100, 101}}
		scs[2] = vDebScenario{IntervalUs: 30000, RetryUs: 50000, Fails: []bool{true, true}, BodyUs: []int{300}, Stream: 110, StreamGapUs: 4000,
			Scripts: [][]vDebOp{{{0, false, 1}}}, Burst: []int{100, 101}}
		scs[3] = vDebScenario{IntervalUs: 40000, RetryUs: 25000, BodyUs: []int{0}, Stream: 110, StreamGapUs: 5000,
			Scripts: [][]vDebOp{{{0, false, 1}}}, Burst: []int{100, 101}}
	}
	type res struct {
		d    *vDebRun
		info map[string]int
	}
	results := make([]res, n)
	sem := make(chan struct{}, 12)
	var wg sync.WaitGroup
	for i := range scs {
		wg.Add(1)
		sem <- struct{}{}
		go func(i int) {
			defer wg.Done()
			d, info := vDebRunScenario(scs[i])
			results[i] = res{d, info}
			<-sem
		}(i)
	}
	wg.Wait()
	// real-body scenarios: one at a time (they share the package hook and the config file name)
	nreal := 6
	if vThorough() {
		nreal = 40
	}
	dir, err := os.MkdirTemp("", "verif-frr-deb")
	if err != nil {
		t.Fatal(err)
	}
	defer os.RemoveAll(dir)
	savedHook := reloadConfig
	reloadConfig = vDebRealHook
	defer func() { reloadConfig = savedHook }()
	for k := 0; k < nreal; k++ {
		sc := vDebGen(r)
		sc.Real = true
		if k == 0 { // the reload signal fails once after the file was written
			sc = vDebScenario{IntervalUs: 4000, RetryUs: 3000, Fails: []bool{true}, BodyUs: []int{0}, Real: true,
				Scripts: [][]vDebOp{{{0, false, 7}}}, Burst: []int{100, 101}}
		}
		if k == 1 { // the reload signal fails once, events keep arriving
			sc = vDebScenario{IntervalUs: 40000, RetryUs: 25000, Fails: []bool{true, true, true}, BodyUs: []int{0}, Real: true, Stream: 110, StreamGapUs: 5000,
				Scripts: [][]vDebOp{{{0, false, 7}}}, Burst: []int{100, 101}}
		}
		path := filepath.Join(dir, fmt.Sprintf("frr-%d.conf", k))
		os.Setenv("FRR_CONFIG_FILE", path)
		vDebReal.mu.Lock()
		vDebReal.path, vDebReal.fails, vDebReal.calls, vDebReal.okCalls, vDebReal.loaded = path, sc.Fails, 0, 0, ""
		vDebReal.mu.Unlock()
		d, info := vDebRunScenario(sc)
		scs = append(scs, sc)
		results = append(results, res{d, info})
		// the oracle reads the hook state of THIS scenario: evaluate now
		vDebOracleReal = true
		_ = vDebOracleReal
		vDebRealSnapshots = append(vDebRealSnapshots, vDebRealSnap{loaded: vDebReal.loaded, ok: vDebReal.okCalls, calls: vDebReal.calls, path: path})
	}
	os.Unsetenv("FRR_CONFIG_FILE")
	id := 0
	for i, rs := range results {
		id++
		out.Case(id, "frr-debouncer", vDebCoq(id, rs.d.trace), map[string]any{"scenario": scs[i], "trace": rs.d.trace})
		if scs[i].Real { // restore the hook state this scenario ended with
			sn := vDebRealSnapshots[i-n]
			vDebReal.mu.Lock()
			vDebReal.loaded, vDebReal.okCalls, vDebReal.calls, vDebReal.path = sn.loaded, sn.ok, sn.calls, sn.path
			vDebReal.mu.Unlock()
		}
		vDebOracle(out, scs[i], rs.d, rs.info)
		out.Stat("traces", 1)
		nb, nfail, nre, nsub, between := 0, 0, 0, 0, 0
		infl := false
		for _, it := range rs.d.trace {
			switch it.K {
			case "TB":
				nb++
				if !it.OK {
					nfail++
				}
				if infl {
					between++
				}
			case "TR":
				nre++
				infl = true
			case "TS":
				nsub++
				infl = true
			case "TD":
				infl = false
			}
		}
		out.Stat("body_calls", nb)
		out.Stat("failed_calls", nfail)
		out.Stat("reapply_events", nre)
		out.Stat("submits", nsub)
		out.Stat("calls_while_submit_in_flight", between)
		if nb < nsub {
			out.Stat("traces_with_coalescing", 1)
		}
	}
	vDebValidateCases(out, r, &id)
}
