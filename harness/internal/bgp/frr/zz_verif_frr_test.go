//go:build verif

package frr

// Harness for C14: drives the REAL createConfig + templateConfig on generated
// session sets (sessionManager values built directly, osHostname stubbed) and
// emits, per case, the session set as a Coq term and as JSON and the rendered
// text.  props/C14.py parses the text (tools/frrparse.py), ships the AST to Coq
// (equality with Model/FrrRender.render) and interprets it (oracle).  Here:
// determinism of the text under map insertion order and session permutation.

import (
	"fmt"
	"math/rand"
	"os"
	"path/filepath"
	"sort"
	"testing"
	"time"

	"github.com/go-kit/log"
	"go.universe.tf/metallb/internal/bgp"
	"go.universe.tf/metallb/internal/logging"
)

func vBuildSM(ss []vSess, order []int) *sessionManager {
	sm := &sessionManager{sessions: map[string]*session{}, bfdProfiles: []BFDProfile{}, reloadConfig: make(chan reloadEvent, 1), logLevel: "informational"}
	pool := map[string]*bgp.Advertisement{} // equal advertisements of different sessions are one object, as in the speaker
	for _, i := range order {
		s := ss[i]
		se := &session{SessionParameters: vParams(s), sessionManager: sm, advertised: vAdvertisementsIn(s, pool)}
		sm.sessions[sessionName(*se)] = se
	}
	return sm
}

func vRenderText(ss []vSess, order []int) (string, bool) {
	sm := vBuildSM(ss, order)
	cfg, err := sm.createConfig()
	if err != nil {
		return "", false
	}
	txt, err := templateConfig(cfg)
	if err != nil {
		return "TEMPLATE-ERROR: " + err.Error(), false
	}
	return txt, true
}

func vCorpusC14() [][]vSess {
	base := vSess{MyASN: 100, RouterID: "10.1.1.254", PeerAddr: "10.2.2.254", PeerASN: 200, Port: 179, Hold: -1, Keep: -1, Connect: -1}
	// F15: neighbor peered by interface with DisableMP
	f15 := base
	f15.PeerAddr, f15.Iface, f15.DynASN, f15.PeerASN, f15.DisableMP = "", "net0", "external", 0, true
	f15.Advs = []vAdv{{Prefix: "172.16.1.10/32", Comms: []string{}}, {Prefix: "2001:db8::1/128", Comms: []string{}}}
	// repeated prefix with different communities + local preference
	rep := base
	rep.Advs = []vAdv{{Prefix: "172.16.1.10/32", LP: 300, Comms: []string{"65000:200", "large:64512:1:2"}},
		{Prefix: "172.16.1.10/32", LP: 300, Comms: []string{"65000:100"}},
		{Prefix: "fc00:f853:ccd:e799::/64", LP: 0, Comms: []string{"65000:100"}}}
	// v6 peer with DisableMP, both families requested
	v6 := base
	v6.PeerAddr, v6.DisableMP = "fc00::1", true
	v6.Advs = []vAdv{{Prefix: "172.16.1.10/32", Comms: []string{}}, {Prefix: "2001:db8::1/128", LP: 100, Comms: []string{"0:7"}}}
	none := base
	none.PeerAddr = "192.168.1.1"
	// two unnumbered uplinks that differ only in the interface
	up1 := base
	up1.PeerAddr, up1.Iface, up1.DynASN, up1.PeerASN, up1.Src = "", "net0", "external", 0, "10.1.1.254"
	up1.Advs = []vAdv{{Prefix: "172.16.1.10/32", Comms: []string{}}, {Prefix: "2001:db8::1/128", Comms: []string{"65000:100"}}}
	up2 := up1
	up2.Iface = "eth1"
	up2.Advs = []vAdv{{Prefix: "172.16.1.11/32", LP: 100, Comms: []string{}}}
	// a pool with two BGPAdvertisements, the second (other community) restricted to peer A: A and B share the first
	// advertisement object, A has a second one of the same prefix listed after it; B carries that community elsewhere
	shA := base
	shA.Advs = []vAdv{{Prefix: "172.16.1.10/32", Comms: []string{"65000:100"}}, {Prefix: "172.16.1.10/32", Comms: []string{"65000:200"}}}
	shB := base
	shB.PeerAddr = "10.2.2.255"
	shB.Advs = []vAdv{{Prefix: "172.16.1.10/32", Comms: []string{"65000:100"}}, {Prefix: "172.16.1.0/24", Comms: []string{"65000:200"}}}
	shC := shB
	shC.PeerAddr = "10.2.2.1" // sorted before A
	return [][]vSess{{f15}, {rep}, {v6, none}, {rep, none}, {up1, up2}, {shA, shB}, {shA, shC}}
}

func TestVerifFrr(t *testing.T) {
	out := vOpen()
	defer out.Close()
	osHostname = func() (string, error) { return "verifhost", nil }
	os.Unsetenv("FRR_LOGGING_LEVEL")
	r := vRand()
	n := vN(150)
	var sets [][]vSess
	sets = append(sets, vCorpusC14()...)
	for len(sets) < n {
		sets = append(sets, vGenSessions(r, r.Intn(12) == 0))
	}
	for id, ss := range sets {
		ident := make([]int, len(ss))
		for i := range ident {
			ident[i] = i
		}
		txt, ok := vRenderText(ss, ident)
		perm := vPermute(r, ss)
		// same set, other creation order, other advertisement order
		txt2, ok2 := vRenderText(perm, rand.New(rand.NewSource(int64(id))).Perm(len(perm)))
		if ok != ok2 || txt != txt2 {
			out.Fail("frr-text-depends-on-order", fmt.Sprintf("the same session set rendered in another creation/advertisement order gives a different result (ok %v/%v)", ok, ok2),
				map[string]any{"sessions": ss, "permuted": perm, "text1": txt, "text2": txt2})
		}
		for k := 0; k < 3 && ok; k++ { // map iteration order
			if t3, _ := vRenderText(ss, ident); t3 != txt {
				out.Fail("frr-text-depends-on-order", "rendering the same sessionManager content twice gives different text", map[string]any{"sessions": ss, "text1": txt, "text2": t3})
				break
			}
		}
		out.Case(id+1, "frr", cPair(cSessList(ss), cSessList(perm)), map[string]any{"sessions": ss, "text": txt, "ok": ok})
		out.Stat("cases", 1)
		if !ok {
			out.Stat("createConfig_error", 1)
		}
		if vSharedThenExtra(ss) > 0 {
			out.Stat("shared_advertisement_then_extra_community_on_one_neighbor", 1)
		}
		vrfs := map[string]bool{}
		for _, s := range ss {
			vrfs[s.VRF] = true
			if s.Iface != "" {
				out.Stat("unnumbered", 1)
				for _, o := range ss {
					if o.Iface != "" && o.Iface != s.Iface && o.VRF == s.VRF && o.PeerASN == s.PeerASN && o.DynASN == s.DynASN && o.Src == s.Src {
						out.Stat("unnumbered_differing_only_in_interface", 1)
					}
				}
				if s.DisableMP {
					out.Stat("unnumbered_disable_mp(F15 shape)", 1)
				}
			}
			if s.DisableMP {
				out.Stat("disable_mp", 1)
			}
			if len(s.Advs) == 0 {
				out.Stat("neighbor_without_advertisement", 1)
			}
			seen := map[string]bool{}
			v4, v6 := false, false
			for _, a := range s.Advs {
				if seen[a.Prefix] {
					out.Stat("repeated_prefix", 1)
				}
				seen[a.Prefix] = true
				if a.LP != 0 {
					out.Stat("adv_with_localpref", 1)
				}
				for _, c := range a.Comms {
					if len(c) > 6 && c[:6] == "large:" {
						out.Stat("large_community", 1)
					} else {
						out.Stat("community", 1)
					}
				}
				if len(a.Prefix) > 0 && (a.Prefix[0] == 'f' || a.Prefix[0] == '2') {
					v6 = true
				} else {
					v4 = true
				}
			}
			if v4 && v6 {
				out.Stat("neighbor_with_v4_and_v6", 1)
			}
		}
		if len(vrfs) > 1 {
			out.Stat("multi_vrf", 1)
		}
		if len(ss) > 1 {
			out.Stat("multi_neighbor", 1)
		}
	}
}

// ---------------------------------------------------------------------------
// Histories through the real API: NewSession / Set / Close on a session manager
// whose reload channel is captured (no timers), and a few through the exported
// NewSessionManager with the real debouncer writing the real file.  Property:
// the configuration the manager ends up with is a function of the SET of
// sessions and their current advertisements - it equals the configuration of a
// fresh manager given only the final sets - and offers exactly what is requested
// (the final text goes through the same parser / Coq / oracle as the other cases).

func vCorpusHist() []vHist {
	base := vSess{MyASN: 100, RouterID: "10.1.1.254", PeerAddr: "10.2.2.254", PeerASN: 200, Port: 179, Hold: -1, Keep: -1, Connect: -1}
	p, q := "172.16.1.10/32", "172.16.1.11/32"
	return []vHist{{Base: []vSess{base}, Ops: []vHistOp{
		{Kind: "new", Sess: 0},
		{Kind: "set", Sess: 0, Advs: []vAdv{{Prefix: p, Comms: []string{"65000:100"}}, {Prefix: p, Comms: []string{"65000:200"}}, {Prefix: q, Comms: []string{}}}},
		// one of the two advertisements of p goes away; the last entry per prefix is unchanged
		{Kind: "set", Sess: 0, Advs: []vAdv{{Prefix: p, Comms: []string{"65000:200"}}, {Prefix: q, Comms: []string{}}}},
		{Kind: "set", Sess: 0, Advs: []vAdv{{Prefix: p, Comms: []string{"large:64512:1:2"}}, {Prefix: p, Comms: []string{"65000:200"}}, {Prefix: q, Comms: []string{}}}},
		// refused (two local preferences for p): the three entries above stay in force
		{Kind: "setbad", Sess: 0, Why: "same prefix with another local preference", Advs: []vAdv{{Prefix: q, Comms: []string{}}, {Prefix: p, LP: 100, Comms: []string{}}, {Prefix: p, LP: 300, Comms: []string{}}}},
		{Kind: "resync", Sess: 0},
	}}, {Base: []vSess{base}, Ops: []vHistOp{
		// the community-to-prefix assignment changes, nothing else (same prefixes, same union of communities)
		{Kind: "new", Sess: 0},
		{Kind: "set", Sess: 0, Advs: []vAdv{{Prefix: p, Comms: []string{"65000:100"}}, {Prefix: q, Comms: []string{"65000:100"}}}},
		{Kind: "set", Sess: 0, Advs: []vAdv{{Prefix: p, Comms: []string{"65000:100"}}, {Prefix: q, Comms: []string{}}}},
		{Kind: "set", Sess: 0, Advs: []vAdv{{Prefix: p, Comms: []string{}}, {Prefix: q, Comms: []string{"65000:100"}}}},
		{Kind: "set", Sess: 0, Advs: []vAdv{{Prefix: p, Comms: []string{"65000:100", "large:64512:1:2"}}, {Prefix: q, Comms: []string{"65000:100"}}}},
		{Kind: "set", Sess: 0, Advs: []vAdv{{Prefix: p, Comms: []string{"65000:100"}}, {Prefix: q, Comms: []string{"65000:100", "large:64512:1:2"}}}},
	}}}
}

type vHistStep struct {
	Final []vSess `json:"final"`
	Text  string  `json:"text"`
	OK    bool    `json:"ok"`
}

// runs the history; apply(op) drives the real manager, current() returns the text of the configuration it ended up with
func vRunHist(out *vOut, h vHist, sm *sessionManager, current func(want string) (string, bool), tag string) (final []vSess, text string, ok bool, bad bool) {
	sessions := make([]bgp.Session, len(h.Base))
	state := make([][]vAdv, len(h.Base))
	alive := make([]bool, len(h.Base))
	for step, op := range h.Ops {
		switch op.Kind {
		case "new":
			s, err := sm.NewSession(log.NewNopLogger(), vParams(h.Base[op.Sess]))
			if err != nil {
				out.Fail("frr-history-api-error", fmt.Sprintf("%s: NewSession failed at step %d: %v", tag, step, err), h)
				return nil, "", false, true
			}
			sessions[op.Sess], alive[op.Sess], state[op.Sess] = s, true, nil
		case "set":
			b := h.Base[op.Sess]
			b.Advs = op.Advs
			if err := sessions[op.Sess].Set(vAdvertisements(b)...); err != nil {
				out.Fail("frr-history-api-error", fmt.Sprintf("%s: Set failed at step %d: %v", tag, step, err), h)
				return nil, "", false, true
			}
			state[op.Sess] = vCopyAdvs(op.Advs)
		case "setbad":
			b := h.Base[op.Sess]
			b.Advs = op.Advs
			if err := sessions[op.Sess].Set(vAdvertisements(b)...); err == nil {
				out.Fail("frr-invalid-set-accepted", fmt.Sprintf("%s: step %d: Set with an advertisement list the manager must refuse (%s) returned no error", tag, step, op.Why), h)
				return nil, "", false, true
			}
			// the previous set stays in force: state[op.Sess] unchanged
		case "resync":
			if err := sm.SyncExtraInfo(""); err != nil {
				out.Fail("frr-history-api-error", fmt.Sprintf("%s: SyncExtraInfo failed at step %d: %v", tag, step, err), h)
				return nil, "", false, true
			}
		case "close":
			if err := sessions[op.Sess].Close(); err != nil {
				out.Fail("frr-history-api-error", fmt.Sprintf("%s: Close failed at step %d: %v", tag, step, err), h)
				return nil, "", false, true
			}
			alive[op.Sess], state[op.Sess] = false, nil
		}
		// what a fresh manager renders for the current sets
		var cur []vSess
		for i, b := range h.Base {
			if alive[i] {
				b.Advs = vCopyAdvs(state[i])
				cur = append(cur, b)
			}
		}
		ident := make([]int, len(cur))
		for i := range ident {
			ident[i] = i
		}
		want, wantOK := vRenderText(cur, ident)
		got, gotOK := current(want)
		if got != want || gotOK != wantOK {
			out.Fail("frr-history-dependent", fmt.Sprintf("%s: after step %d (%s session %d) the manager's configuration differs from the configuration of a fresh manager given the same sessions and advertisements",
				tag, step, op.Kind, op.Sess), map[string]any{"history": h, "step": step, "sessions_now": cur, "text_of_manager": got, "text_of_fresh_manager": want})
			bad = true
		}
		final, text, ok = cur, got, gotOK
	}
	return final, text, ok, bad
}

func TestVerifFrrHist(t *testing.T) {
	out := vOpen()
	defer out.Close()
	osHostname = func() (string, error) { return "verifhost", nil }
	os.Unsetenv("FRR_LOGGING_LEVEL")
	r := vRand()
	n := vN(60)
	hs := vCorpusHist()
	for len(hs) < n {
		hs = append(hs, vGenHist(r, true))
	}
	id := 100000
	for _, h := range hs {
		// (a) captured reload channel: every NewSession / Set / Close hands its configuration to the debouncer here
		sm := &sessionManager{sessions: map[string]*session{}, bfdProfiles: []BFDProfile{}, reloadConfig: make(chan reloadEvent, 256), logLevel: "informational"}
		var last *frrConfig
		current := func(string) (string, bool) {
			for {
				select {
				case ev := <-sm.reloadConfig:
					if !ev.useOld {
						last = ev.config
					}
					continue
				default:
				}
				break
			}
			if last == nil {
				return "", false
			}
			txt, err := templateConfig(last)
			return txt, err == nil
		}
		final, text, ok, _ := vRunHist(out, h, sm, current, "captured reload channel")
		nset, ndupdrop := 0, 0
		for _, op := range h.Ops {
			if op.Kind == "set" {
				nset++
			}
			if op.Kind == "close" {
				out.Stat("hist_close", 1)
			}
			if op.Kind == "setbad" {
				out.Stat("hist_rejected_set", 1)
			}
			if op.Kind == "resync" {
				out.Stat("hist_resync", 1)
			}
		}
		_ = ndupdrop
		out.Stat("histories", 1)
		out.Stat("hist_set_ops", nset)
		for _, s := range final {
			seen := map[string]bool{}
			for _, a := range s.Advs {
				if seen[a.Prefix] {
					out.Stat("hist_final_repeated_prefix", 1)
				}
				seen[a.Prefix] = true
			}
		}
		if final != nil {
			id++
			perm := vPermute(r, final)
			opsT, oksT := vMopTerms(h, func(int) string { return cCtor("MExtra", cStr("")) })
			out.Case(id, "frr-history", cPair(cSessList(final), cSessList(perm)),
				map[string]any{"sessions": final, "text": text, "ok": ok, "history": h, "ops_coq": opsT, "oks_coq": oksT})
		}
	}
	// (b) the exported path with the real debouncer and the real file
	dir, err := os.MkdirTemp("", "verif-frr-hist")
	if err != nil {
		t.Fatal(err)
	}
	defer os.RemoveAll(dir)
	debounceTimeout = time.Millisecond
	failureTimeout = 5 * time.Millisecond
	reloadConfig = func() error { return nil }
	ne := 6
	if vThorough() {
		ne = 25
	}
	for k := 0; k < ne && k < len(hs); k++ {
		path := filepath.Join(dir, fmt.Sprintf("frr-%d.conf", k))
		os.Setenv("FRR_CONFIG_FILE", path)
		smi := NewSessionManager(log.NewNopLogger(), logging.LevelInfo)
		sm := smi.(*sessionManager)
		current := func(want string) (string, bool) {
			// the debouncer writes 1 ms after the last change; wait (at most 3 s) for the expected content
			var got string
			for i := 0; i < 1000; i++ {
				b, _ := os.ReadFile(path)
				got = string(b)
				if got == want {
					break
				}
				time.Sleep(3 * time.Millisecond)
			}
			return got, got != ""
		}
		vRunHist(out, hs[k], sm, current, "NewSessionManager + debouncer + file")
		out.Stat("histories_through_debouncer_and_file", 1)
	}
	os.Unsetenv("FRR_CONFIG_FILE")
	_ = sort.Strings
}
