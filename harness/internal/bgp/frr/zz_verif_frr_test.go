//go:build verif

package frr

// Harness for C14: drives the REAL createConfig + templateConfig on generated
// session sets (sessionManager values built directly, osHostname stubbed) and
// emits, per case, the session set as a Coq term and as JSON and the rendered
// text.  props/C14.py parses the text (tools/frrparse.py), ships the AST to Coq
// (equality with Model/FrrRender.render) and interprets it (oracle).  Here:
// determinism of the text under map insertion order and session permutation.

import (
	"fmt"
	"math/rand"
	"os"
	"testing"
)

func vBuildSM(ss []vSess, order []int) *sessionManager {
	sm := &sessionManager{sessions: map[string]*session{}, bfdProfiles: []BFDProfile{}, reloadConfig: make(chan reloadEvent, 1), logLevel: "informational"}
	for _, i := range order {
		s := ss[i]
		se := &session{SessionParameters: vParams(s), sessionManager: sm, advertised: vAdvertisements(s)}
		sm.sessions[sessionName(*se)] = se
	}
	return sm
}

func vRenderText(ss []vSess, order []int) (string, bool) {
	sm := vBuildSM(ss, order)
	cfg, err := sm.createConfig()
	if err != nil {
		return "", false
	}
	txt, err := templateConfig(cfg)
	if err != nil {
		return "TEMPLATE-ERROR: " + err.Error(), false
	}
	return txt, true
}

func vCorpusC14() [][]vSess {
	base := vSess{MyASN: 100, RouterID: "10.1.1.254", PeerAddr: "10.2.2.254", PeerASN: 200, Port: 179, Hold: -1, Keep: -1, Connect: -1}
	// F15: neighbor peered by interface with DisableMP
	f15 := base
	f15.PeerAddr, f15.Iface, f15.DynASN, f15.PeerASN, f15.DisableMP = "", "net0", "external", 0, true
	f15.Advs = []vAdv{{Prefix: "172.16.1.10/32", Comms: []string{}}, {Prefix: "2001:db8::1/128", Comms: []string{}}}
	// repeated prefix with different communities + local preference
	rep := base
	rep.Advs = []vAdv{{Prefix: "172.16.1.10/32", LP: 300, Comms: []string{"65000:200", "large:64512:1:2"}},
		{Prefix: "172.16.1.10/32", LP: 300, Comms: []string{"65000:100"}},
		{Prefix: "fc00:f853:ccd:e799::/64", LP: 0, Comms: []string{"65000:100"}}}
	// v6 peer with DisableMP, both families requested
	v6 := base
	v6.PeerAddr, v6.DisableMP = "fc00::1", true
	v6.Advs = []vAdv{{Prefix: "172.16.1.10/32", Comms: []string{}}, {Prefix: "2001:db8::1/128", LP: 100, Comms: []string{"0:7"}}}
	none := base
	none.PeerAddr = "192.168.1.1"
	return [][]vSess{{f15}, {rep}, {v6, none}, {rep, none}}
}

func TestVerifFrr(t *testing.T) {
	out := vOpen()
	defer out.Close()
	osHostname = func() (string, error) { return "verifhost", nil }
	os.Unsetenv("FRR_LOGGING_LEVEL")
	r := vRand()
	n := vN(150)
	var sets [][]vSess
	sets = append(sets, vCorpusC14()...)
	for len(sets) < n {
		sets = append(sets, vGenSessions(r, r.Intn(12) == 0))
	}
	for id, ss := range sets {
		ident := make([]int, len(ss))
		for i := range ident {
			ident[i] = i
		}
		txt, ok := vRenderText(ss, ident)
		perm := vPermute(r, ss)
		// same set, other creation order, other advertisement order
		txt2, ok2 := vRenderText(perm, rand.New(rand.NewSource(int64(id))).Perm(len(perm)))
		if ok != ok2 || txt != txt2 {
			out.Fail("frr-text-depends-on-order", fmt.Sprintf("the same session set rendered in another creation/advertisement order gives a different result (ok %v/%v)", ok, ok2),
				map[string]any{"sessions": ss, "permuted": perm, "text1": txt, "text2": txt2})
		}
		for k := 0; k < 3 && ok; k++ { // map iteration order
			if t3, _ := vRenderText(ss, ident); t3 != txt {
				out.Fail("frr-text-depends-on-order", "rendering the same sessionManager content twice gives different text", map[string]any{"sessions": ss, "text1": txt, "text2": t3})
				break
			}
		}
		out.Case(id+1, "frr", cPair(cSessList(ss), cSessList(perm)), map[string]any{"sessions": ss, "text": txt, "ok": ok})
		out.Stat("cases", 1)
		if !ok {
			out.Stat("createConfig_error", 1)
		}
		vrfs := map[string]bool{}
		for _, s := range ss {
			vrfs[s.VRF] = true
			if s.Iface != "" {
				out.Stat("unnumbered", 1)
				if s.DisableMP {
					out.Stat("unnumbered_disable_mp(F15 shape)", 1)
				}
			}
			if s.DisableMP {
				out.Stat("disable_mp", 1)
			}
			if len(s.Advs) == 0 {
				out.Stat("neighbor_without_advertisement", 1)
			}
			seen := map[string]bool{}
			v4, v6 := false, false
			for _, a := range s.Advs {
				if seen[a.Prefix] {
					out.Stat("repeated_prefix", 1)
				}
				seen[a.Prefix] = true
				if a.LP != 0 {
					out.Stat("adv_with_localpref", 1)
				}
				for _, c := range a.Comms {
					if len(c) > 6 && c[:6] == "large:" {
						out.Stat("large_community", 1)
					} else {
						out.Stat("community", 1)
					}
				}
				if len(a.Prefix) > 0 && (a.Prefix[0] == 'f' || a.Prefix[0] == '2') {
					v6 = true
				} else {
					v4 = true
				}
			}
			if v4 && v6 {
				out.Stat("neighbor_with_v4_and_v6", 1)
			}
		}
		if len(vrfs) > 1 {
			out.Stat("multi_vrf", 1)
		}
		if len(ss) > 1 {
			out.Stat("multi_neighbor", 1)
		}
	}
}
