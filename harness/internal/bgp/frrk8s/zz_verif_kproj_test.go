//go:build verif

package frr

// Projection of an FRRConfiguration onto the JSON shape props/C15.py turns into the
// Coq record of Model/FrrK8s.v.  Shared: overlaid into internal/bgp/frrk8s and
// (with the package clause rewritten) into internal/k8s/controllers.

import (
	frrv1beta1 "github.com/metallb/frr-k8s/api/v1beta1"
	metav1 "k8s.io/apimachinery/pkg/apis/meta/v1"
)

type vKNbr struct {
	Address   string              `json:"address"`
	Interface string              `json:"interface"`
	ASN       uint32              `json:"asn"`
	DynASN    string              `json:"dynasn"`
	Source    string              `json:"source"`
	Port      int                 `json:"port"` // -1 = nil
	Hold      int64               `json:"hold"`
	Keep      int64               `json:"keep"`
	Connect   int64               `json:"connect"`
	BFD       string              `json:"bfd"`
	GR        bool                `json:"gr"`
	MultiHop  bool                `json:"multihop"`
	Allowed   []string            `json:"allowed"`
	Mode      string              `json:"mode"`
	WithComm  []vKComm            `json:"with_comm"`
	WithLP    []vKLP              `json:"with_lp"`
	Password  string              `json:"password"`
	SecretN   string              `json:"secret_name"`
	SecretNS  string              `json:"secret_ns"`
	DisableMP bool                `json:"disable_mp"`
	ToReceive map[string][]string `json:"to_receive,omitempty"`
}
type vKComm struct {
	Community string   `json:"community"`
	Prefixes  []string `json:"prefixes"`
}
type vKLP struct {
	LP       uint32   `json:"lp"`
	Prefixes []string `json:"prefixes"`
}
type vKRtr struct {
	ASN      uint32   `json:"asn"`
	ID       string   `json:"id"`
	VRF      string   `json:"vrf"`
	Nbrs     []vKNbr  `json:"nbrs"`
	Prefixes []string `json:"prefixes"`
}
type vKCfg struct {
	Name     string            `json:"name"`
	NS       string            `json:"namespace"`
	Selector map[string]string `json:"selector"`
	SelExprs int               `json:"selector_exprs"`
	Routers  []vKRtr           `json:"routers"`
	Raw      int               `json:"raw_len"`
	BFD      int               `json:"bfd_profiles"`
}

func vKDur(d *metav1.Duration) int64 {
	if d == nil {
		return -1
	}
	return d.Duration.Nanoseconds()
}

func vKProject(c frrv1beta1.FRRConfiguration) vKCfg {
	out := vKCfg{Name: c.Name, NS: c.Namespace, Selector: c.Spec.NodeSelector.MatchLabels, SelExprs: len(c.Spec.NodeSelector.MatchExpressions),
		Routers: []vKRtr{}, Raw: len(c.Spec.Raw.Config), BFD: len(c.Spec.BGP.BFDProfiles)}
	for _, r := range c.Spec.BGP.Routers {
		kr := vKRtr{ASN: r.ASN, ID: r.ID, VRF: r.VRF, Nbrs: []vKNbr{}, Prefixes: append([]string{}, r.Prefixes...)}
		for _, n := range r.Neighbors {
			kn := vKNbr{Address: n.Address, Interface: n.Interface, ASN: n.ASN, DynASN: string(n.DynamicASN), Source: n.SourceAddress, Port: -1,
				Hold: vKDur(n.HoldTime), Keep: vKDur(n.KeepaliveTime), Connect: vKDur(n.ConnectTime), BFD: n.BFDProfile,
				GR: n.EnableGracefulRestart, MultiHop: n.EBGPMultiHop, Allowed: append([]string{}, n.ToAdvertise.Allowed.Prefixes...),
				Mode: string(n.ToAdvertise.Allowed.Mode), WithComm: []vKComm{}, WithLP: []vKLP{}, Password: n.Password,
				SecretN: n.PasswordSecret.Name, SecretNS: n.PasswordSecret.Namespace, DisableMP: n.DisableMP}
			if n.Port != nil {
				kn.Port = int(*n.Port)
			}
			for _, c := range n.ToAdvertise.PrefixesWithCommunity {
				kn.WithComm = append(kn.WithComm, vKComm{c.Community, append([]string{}, c.Prefixes...)})
			}
			for _, c := range n.ToAdvertise.PrefixesWithLocalPref {
				kn.WithLP = append(kn.WithLP, vKLP{c.LocalPref, append([]string{}, c.Prefixes...)})
			}
			if len(n.ToReceive.Allowed.Prefixes) > 0 || n.ToReceive.Allowed.Mode != "" {
				kn.ToReceive = map[string][]string{"mode": {string(n.ToReceive.Allowed.Mode)}}
			}
			kr.Nbrs = append(kr.Nbrs, kn)
		}
		out.Routers = append(out.Routers, kr)
	}
	return out
}

