//go:build verif

package frr

// Harness for C15: drives the REAL updateConfig of frrk8s.go with a capturing
// configChangedCallback on generated session sets (generator shared with C14:
// zz_verif_gen_test.go is overlaid from harness/internal/bgp/frr), plus
// password / secret-reference combinations.  Emits the session set (Coq term and
// JSON) and the projected FRRConfiguration; props/C15.py evaluates the property
// on it and ships it to Coq (equality with Model/FrrK8s.k8s_render, agreement
// with the FRR-mode model).

import (
	"encoding/json"
	"fmt"
	"math/rand"
	"reflect"
	"testing"

	"go.universe.tf/metallb/internal/bgp"
	metallbconfig "go.universe.tf/metallb/internal/config"
	"go.universe.tf/metallb/internal/logging"

	"github.com/go-kit/log"
	frrv1beta1 "github.com/metallb/frr-k8s/api/v1beta1"
)

func vKRun(ss []vSess, node string) (*frrv1beta1.FRRConfiguration, bool) {
	var got *frrv1beta1.FRRConfiguration
	sm := &sessionManager{sessions: map[string]*session{}, nodeToConfigure: node, targetNamespace: "verif-ns", logger: log.NewNopLogger()}
	sm.configChangedCallback = func(c interface{}) {
		cfg := c.(frrv1beta1.FRRConfiguration)
		got = &cfg
	}
	pool := map[string]*bgp.Advertisement{} // equal advertisements of different sessions are one object, as in the speaker
	for _, s := range ss {
		se := &session{SessionParameters: vParams(s), sessionManager: sm, advertised: vAdvertisementsIn(s, pool), logger: log.NewNopLogger()}
		sm.sessions[sessionName(*se)] = se
	}
	if err := sm.updateConfig(); err != nil {
		return nil, false
	}
	return got, got != nil
}

func vKAddSecrets(r *rand.Rand, ss []vSess) {
	for i := range ss {
		switch r.Intn(8) {
		case 0: // secret reference instead of the password
			ss[i].Password = ""
			ss[i].SecretN, ss[i].SecretNS = "bgp-secret", "metallb-system"
		case 1: // both: updateConfig must refuse
			if r.Intn(4) == 0 {
				ss[i].Password = "password"
				ss[i].SecretN, ss[i].SecretNS = "bgp-secret", "metallb-system"
			}
		case 2:
			ss[i].Password = ""
			ss[i].SecretN = "only-name"
		}
	}
}

func TestVerifK8s(t *testing.T) {
	out := vOpen()
	defer out.Close()
	r := vRand()
	n := vN(150)
	nodes := []string{"node-a", "worker-1", "kind-worker3"}
	for id := 1; id <= n; id++ {
		ss := vGenSessions(r, r.Intn(10) == 0)
		vKAddSecrets(r, ss)
		node := nodes[r.Intn(len(nodes))]
		cfg, ok := vKRun(ss, node)
		perm := vPermute(r, ss)
		cfg2, ok2 := vKRun(perm, node)
		if ok != ok2 || (ok && !reflect.DeepEqual(cfg.Spec, cfg2.Spec)) {
			out.Fail("k8s-depends-on-order", "the same session set in another creation/advertisement order gives a different FRRConfiguration",
				map[string]any{"sessions": ss, "permuted": perm})
		}
		for k := 0; k < 2 && ok; k++ {
			if c3, _ := vKRun(ss, node); !reflect.DeepEqual(cfg.Spec, c3.Spec) {
				out.Fail("k8s-depends-on-order", "updateConfig on the same sessions twice gives different FRRConfigurations", map[string]any{"sessions": ss})
				break
			}
		}
		human := map[string]any{"sessions": ss, "node": node, "ok": ok}
		if ok {
			human["cfg"] = vKProject(*cfg)
		}
		out.Case(id, "frrk8s", cPair(cSessList(ss), cSessList(perm)), human)
		out.Stat("cases", 1)
		if !ok {
			out.Stat("updateConfig_error", 1)
		}
		for _, s := range ss {
			if s.SecretN != "" && s.Password == "" {
				out.Stat("secret_ref", 1)
			}
			if s.Password != "" && s.SecretN == "" {
				out.Stat("password", 1)
			}
			if s.Src != "" {
				out.Stat("source_address(F24 shape)", 1)
			}
			if s.Iface != "" {
				out.Stat("unnumbered", 1)
			}
			seen := map[string]uint32{}
			for _, a := range s.Advs {
				if lp, ok := seen[a.Prefix]; ok {
					out.Stat("repeated_prefix", 1)
					if lp != a.LP {
						out.Stat("repeated_prefix_other_localpref", 1)
					}
				}
				seen[a.Prefix] = a.LP
				if a.LP != 0 {
					out.Stat("adv_with_localpref", 1)
				}
				out.Stat("communities", len(a.Comms))
			}
			if len(s.Advs) == 0 {
				out.Stat("neighbor_without_advertisement", 1)
			}
		}
		if len(ss) > 1 {
			out.Stat("multi_neighbor", 1)
		}
	}
	_ = fmt.Sprint
}

// ---------------------------------------------------------------------------
// Histories through the real API of the frr-k8s session manager: NewSession /
// Set (valid) / Set the manager must refuse (> 63 communities) / Close /
// SyncBFDProfiles (also used as "regeneration from an unrelated trigger").
// After EVERY step the last FRRConfiguration handed to the callback must equal
// the one a fresh manager produces from the LAST SUCCESSFULLY requested
// advertisement sets (and the same BFD profiles): a refused Set returns an error
// and leaves the previous set in force.

func vKSpecJSON(c *frrv1beta1.FRRConfiguration) string {
	if c == nil {
		return "<none>"
	}
	b, err := json.Marshal(c.Spec)
	if err != nil {
		panic(err)
	}
	return string(b)
}

func vKBFD(k int) map[string]*metallbconfig.BFDProfile {
	m := map[string]*metallbconfig.BFDProfile{}
	for i := 0; i < k%3; i++ {
		rx := uint32(100 + 10*k + i)
		m[fmt.Sprintf("prof%d", i)] = &metallbconfig.BFDProfile{Name: fmt.Sprintf("prof%d", i), ReceiveInterval: &rx, EchoMode: i == 1}
	}
	return m
}

// a fresh manager, driven through the API, given only the current sets
func vKFresh(cur []vSess, node string, bfd map[string]*metallbconfig.BFDProfile) *frrv1beta1.FRRConfiguration {
	var got *frrv1beta1.FRRConfiguration
	sm := NewSessionManager(log.NewNopLogger(), logging.LevelInfo, node, "verif-ns")
	sm.SetEventCallback(func(c interface{}) {
		cfg := c.(frrv1beta1.FRRConfiguration)
		got = cfg.DeepCopy()
	})
	if err := sm.SyncBFDProfiles(bfd); err != nil {
		return nil
	}
	for _, s := range cur {
		se, err := sm.NewSession(log.NewNopLogger(), vParams(s))
		if err != nil {
			return nil
		}
		if err := se.Set(vAdvertisements(s)...); err != nil {
			return nil
		}
	}
	return got
}

func TestVerifK8sHist(t *testing.T) {
	out := vOpen()
	defer out.Close()
	r := vRand()
	n := vN(60)
	node := "node-a"
	// fixed first history: two sessions, a refused Set on the second, then a Set on the first
	base := vSess{MyASN: 100, RouterID: "10.1.1.254", PeerAddr: "10.2.2.254", PeerASN: 200, Port: 179, Hold: -1, Keep: -1, Connect: -1}
	b2 := base
	b2.PeerAddr = "10.2.2.255"
	many := vAdv{Prefix: "172.16.1.11/32", Comms: []string{}}
	for k := 0; k < 64; k++ {
		many.Comms = append(many.Comms, fmt.Sprintf("65000:%d", 1000+k))
	}
	p, q := "172.16.1.10/32", "172.16.1.11/32"
	hs := []vHist{{Base: []vSess{base, b2}, Ops: []vHistOp{
		{Kind: "new", Sess: 0}, {Kind: "new", Sess: 1},
		{Kind: "set", Sess: 1, Advs: []vAdv{{Prefix: p, LP: 100, Comms: []string{"65000:100"}}, {Prefix: q, Comms: []string{}}}},
		{Kind: "setbad", Sess: 1, Why: "more than 63 communities", Advs: []vAdv{{Prefix: p, LP: 100, Comms: []string{"65000:100"}}, many, {Prefix: q, Comms: []string{}}}},
		{Kind: "set", Sess: 0, Advs: []vAdv{{Prefix: p, Comms: []string{}}}},
	}}}
	for len(hs) < n {
		hs = append(hs, vGenHist(r, false))
	}
	for hi, h := range hs {
		sm := NewSessionManager(log.NewNopLogger(), logging.LevelInfo, node, "verif-ns")
		var last *frrv1beta1.FRRConfiguration
		sm.SetEventCallback(func(c interface{}) {
			cfg := c.(frrv1beta1.FRRConfiguration)
			last = cfg.DeepCopy()
		})
		sessions := make([]bgp.Session, len(h.Base))
		state := make([][]vAdv, len(h.Base))
		alive := make([]bool, len(h.Base))
		bfd := map[string]*metallbconfig.BFDProfile{}
		bad := false
		var cur []vSess
		for step, op := range h.Ops {
			fail := func(sig, what string) {
				out.Fail(sig, fmt.Sprintf("history %d step %d (%s session %d): %s", hi, step, op.Kind, op.Sess, what), map[string]any{"history": h, "step": step})
				bad = true
			}
			switch op.Kind {
			case "new":
				s, err := sm.NewSession(log.NewNopLogger(), vParams(h.Base[op.Sess]))
				if err != nil {
					fail("k8s-history-api-error", fmt.Sprintf("NewSession: %v", err))
					break
				}
				sessions[op.Sess], alive[op.Sess], state[op.Sess] = s, true, nil
			case "set":
				b := h.Base[op.Sess]
				b.Advs = op.Advs
				if err := sessions[op.Sess].Set(vAdvertisements(b)...); err != nil {
					fail("k8s-history-api-error", fmt.Sprintf("Set: %v", err))
					break
				}
				state[op.Sess] = vCopyAdvs(op.Advs)
			case "setbad":
				b := h.Base[op.Sess]
				b.Advs = op.Advs
				if err := sessions[op.Sess].Set(vAdvertisements(b)...); err == nil {
					fail("k8s-invalid-set-accepted", "Set with an advertisement list the manager must refuse ("+op.Why+") returned no error")
				}
				// the previous set stays in force
			case "resync":
				bfd = vKBFD(step)
				if err := sm.SyncBFDProfiles(bfd); err != nil {
					fail("k8s-history-api-error", fmt.Sprintf("SyncBFDProfiles: %v", err))
				}
			case "close":
				if err := sessions[op.Sess].Close(); err != nil {
					fail("k8s-history-api-error", fmt.Sprintf("Close: %v", err))
					break
				}
				alive[op.Sess], state[op.Sess] = false, nil
			}
			if bad {
				break
			}
			cur = nil
			for i, b := range h.Base {
				if alive[i] {
					b.Advs = vCopyAdvs(state[i])
					cur = append(cur, b)
				}
			}
			want := vKFresh(cur, node, bfd)
			if a, b := vKSpecJSON(last), vKSpecJSON(want); a != b {
				fail("k8s-history-dependent", "the FRRConfiguration the manager last produced differs from the one a fresh manager produces from the last successfully requested advertisement sets")
				out.Stat("k8s_history_failures", 1)
				break
			}
		}
		out.Stat("k8s_histories", 1)
		for _, op := range h.Ops {
			switch op.Kind {
			case "setbad":
				out.Stat("k8s_hist_rejected_set", 1)
			case "resync":
				out.Stat("k8s_hist_resync", 1)
			case "close":
				out.Stat("k8s_hist_close", 1)
			case "set":
				out.Stat("k8s_hist_set", 1)
			}
		}
		if !bad && last != nil && len(cur) > 0 {
			perm := vPermute(r, cur)
			opsT, oksT := vMopTerms(h, func(step int) string {
				var l []string
				for name, p := range vKBFD(step) {
					l = append(l, cPair(cStr(name), cN(uint64(*p.ReceiveInterval))))
				}
				return cCtor("MBfd", cList(l))
			})
			out.Case(30000+hi, "frrk8s-history", cPair(cSessList(cur), cSessList(perm)),
				map[string]any{"sessions": cur, "node": node, "ok": true, "cfg": vKProject(*last), "history": h, "ops_coq": opsT, "oks_coq": oksT})
		}
	}
}
