//go:build verif

package frr

// Harness for C15: drives the REAL updateConfig of frrk8s.go with a capturing
// configChangedCallback on generated session sets (generator shared with C14:
// zz_verif_gen_test.go is overlaid from harness/internal/bgp/frr), plus
// password / secret-reference combinations.  Emits the session set (Coq term and
// JSON) and the projected FRRConfiguration; props/C15.py evaluates the property
// on it and ships it to Coq (equality with Model/FrrK8s.k8s_render, agreement
// with the FRR-mode model).

import (
	"fmt"
	"math/rand"
	"reflect"
	"testing"

	"github.com/go-kit/log"
	frrv1beta1 "github.com/metallb/frr-k8s/api/v1beta1"
	metav1 "k8s.io/apimachinery/pkg/apis/meta/v1"
)

type vKNbr struct {
	Address   string              `json:"address"`
	Interface string              `json:"interface"`
	ASN       uint32              `json:"asn"`
	DynASN    string              `json:"dynasn"`
	Source    string              `json:"source"`
	Port      int                 `json:"port"` // -1 = nil
	Hold      int64               `json:"hold"`
	Keep      int64               `json:"keep"`
	Connect   int64               `json:"connect"`
	BFD       string              `json:"bfd"`
	GR        bool                `json:"gr"`
	MultiHop  bool                `json:"multihop"`
	Allowed   []string            `json:"allowed"`
	Mode      string              `json:"mode"`
	WithComm  []vKComm            `json:"with_comm"`
	WithLP    []vKLP              `json:"with_lp"`
	Password  string              `json:"password"`
	SecretN   string              `json:"secret_name"`
	SecretNS  string              `json:"secret_ns"`
	DisableMP bool                `json:"disable_mp"`
	ToReceive map[string][]string `json:"to_receive,omitempty"`
}
type vKComm struct {
	Community string   `json:"community"`
	Prefixes  []string `json:"prefixes"`
}
type vKLP struct {
	LP       uint32   `json:"lp"`
	Prefixes []string `json:"prefixes"`
}
type vKRtr struct {
	ASN      uint32   `json:"asn"`
	ID       string   `json:"id"`
	VRF      string   `json:"vrf"`
	Nbrs     []vKNbr  `json:"nbrs"`
	Prefixes []string `json:"prefixes"`
}
type vKCfg struct {
	Name     string            `json:"name"`
	NS       string            `json:"namespace"`
	Selector map[string]string `json:"selector"`
	SelExprs int               `json:"selector_exprs"`
	Routers  []vKRtr           `json:"routers"`
	Raw      int               `json:"raw_len"`
	BFD      int               `json:"bfd_profiles"`
}

func vKDur(d *metav1.Duration) int64 {
	if d == nil {
		return -1
	}
	return d.Duration.Nanoseconds()
}

func vKProject(c frrv1beta1.FRRConfiguration) vKCfg {
	out := vKCfg{Name: c.Name, NS: c.Namespace, Selector: c.Spec.NodeSelector.MatchLabels, SelExprs: len(c.Spec.NodeSelector.MatchExpressions),
		Routers: []vKRtr{}, Raw: len(c.Spec.Raw.Config), BFD: len(c.Spec.BGP.BFDProfiles)}
	for _, r := range c.Spec.BGP.Routers {
		kr := vKRtr{ASN: r.ASN, ID: r.ID, VRF: r.VRF, Nbrs: []vKNbr{}, Prefixes: append([]string{}, r.Prefixes...)}
		for _, n := range r.Neighbors {
			kn := vKNbr{Address: n.Address, Interface: n.Interface, ASN: n.ASN, DynASN: string(n.DynamicASN), Source: n.SourceAddress, Port: -1,
				Hold: vKDur(n.HoldTime), Keep: vKDur(n.KeepaliveTime), Connect: vKDur(n.ConnectTime), BFD: n.BFDProfile,
				GR: n.EnableGracefulRestart, MultiHop: n.EBGPMultiHop, Allowed: append([]string{}, n.ToAdvertise.Allowed.Prefixes...),
				Mode: string(n.ToAdvertise.Allowed.Mode), WithComm: []vKComm{}, WithLP: []vKLP{}, Password: n.Password,
				SecretN: n.PasswordSecret.Name, SecretNS: n.PasswordSecret.Namespace, DisableMP: n.DisableMP}
			if n.Port != nil {
				kn.Port = int(*n.Port)
			}
			for _, c := range n.ToAdvertise.PrefixesWithCommunity {
				kn.WithComm = append(kn.WithComm, vKComm{c.Community, append([]string{}, c.Prefixes...)})
			}
			for _, c := range n.ToAdvertise.PrefixesWithLocalPref {
				kn.WithLP = append(kn.WithLP, vKLP{c.LocalPref, append([]string{}, c.Prefixes...)})
			}
			if len(n.ToReceive.Allowed.Prefixes) > 0 || n.ToReceive.Allowed.Mode != "" {
				kn.ToReceive = map[string][]string{"mode": {string(n.ToReceive.Allowed.Mode)}}
			}
			kr.Nbrs = append(kr.Nbrs, kn)
		}
		out.Routers = append(out.Routers, kr)
	}
	return out
}

func vKRun(ss []vSess, node string) (*frrv1beta1.FRRConfiguration, bool) {
	var got *frrv1beta1.FRRConfiguration
	sm := &sessionManager{sessions: map[string]*session{}, nodeToConfigure: node, targetNamespace: "verif-ns", logger: log.NewNopLogger()}
	sm.configChangedCallback = func(c interface{}) {
		cfg := c.(frrv1beta1.FRRConfiguration)
		got = &cfg
	}
	for _, s := range ss {
		se := &session{SessionParameters: vParams(s), sessionManager: sm, advertised: vAdvertisements(s), logger: log.NewNopLogger()}
		sm.sessions[sessionName(*se)] = se
	}
	if err := sm.updateConfig(); err != nil {
		return nil, false
	}
	return got, got != nil
}

func vKAddSecrets(r *rand.Rand, ss []vSess) {
	for i := range ss {
		switch r.Intn(8) {
		case 0: // secret reference instead of the password
			ss[i].Password = ""
			ss[i].SecretN, ss[i].SecretNS = "bgp-secret", "metallb-system"
		case 1: // both: updateConfig must refuse
			if r.Intn(4) == 0 {
				ss[i].Password = "password"
				ss[i].SecretN, ss[i].SecretNS = "bgp-secret", "metallb-system"
			}
		case 2:
			ss[i].Password = ""
			ss[i].SecretN = "only-name"
		}
	}
}

func TestVerifK8s(t *testing.T) {
	out := vOpen()
	defer out.Close()
	r := vRand()
	n := vN(150)
	nodes := []string{"node-a", "worker-1", "kind-worker3"}
	for id := 1; id <= n; id++ {
		ss := vGenSessions(r, r.Intn(10) == 0)
		vKAddSecrets(r, ss)
		node := nodes[r.Intn(len(nodes))]
		cfg, ok := vKRun(ss, node)
		perm := vPermute(r, ss)
		cfg2, ok2 := vKRun(perm, node)
		if ok != ok2 || (ok && !reflect.DeepEqual(cfg.Spec, cfg2.Spec)) {
			out.Fail("k8s-depends-on-order", "the same session set in another creation/advertisement order gives a different FRRConfiguration",
				map[string]any{"sessions": ss, "permuted": perm})
		}
		for k := 0; k < 2 && ok; k++ {
			if c3, _ := vKRun(ss, node); !reflect.DeepEqual(cfg.Spec, c3.Spec) {
				out.Fail("k8s-depends-on-order", "updateConfig on the same sessions twice gives different FRRConfigurations", map[string]any{"sessions": ss})
				break
			}
		}
		human := map[string]any{"sessions": ss, "node": node, "ok": ok}
		if ok {
			human["cfg"] = vKProject(*cfg)
		}
		out.Case(id, "frrk8s", cPair(cSessList(ss), cSessList(perm)), human)
		out.Stat("cases", 1)
		if !ok {
			out.Stat("updateConfig_error", 1)
		}
		for _, s := range ss {
			if s.SecretN != "" && s.Password == "" {
				out.Stat("secret_ref", 1)
			}
			if s.Password != "" && s.SecretN == "" {
				out.Stat("password", 1)
			}
			if s.Src != "" {
				out.Stat("source_address(F24 shape)", 1)
			}
			if s.Iface != "" {
				out.Stat("unnumbered", 1)
			}
			seen := map[string]uint32{}
			for _, a := range s.Advs {
				if lp, ok := seen[a.Prefix]; ok {
					out.Stat("repeated_prefix", 1)
					if lp != a.LP {
						out.Stat("repeated_prefix_other_localpref", 1)
					}
				}
				seen[a.Prefix] = a.LP
				if a.LP != 0 {
					out.Stat("adv_with_localpref", 1)
				}
				out.Stat("communities", len(a.Comms))
			}
			if len(s.Advs) == 0 {
				out.Stat("neighbor_without_advertisement", 1)
			}
		}
		if len(ss) > 1 {
			out.Stat("multi_neighbor", 1)
		}
	}
	_ = fmt.Sprint
}
