//go:build verif

package frr

// Harness for C15: drives the REAL updateConfig of frrk8s.go with a capturing
// configChangedCallback on generated session sets (generator shared with C14:
// zz_verif_gen_test.go is overlaid from harness/internal/bgp/frr), plus
// password / secret-reference combinations.  Emits the session set (Coq term and
// JSON) and the projected FRRConfiguration; props/C15.py evaluates the property
// on it and ships it to Coq (equality with Model/FrrK8s.k8s_render, agreement
// with the FRR-mode model).

import (
	"fmt"
	"math/rand"
	"reflect"
	"testing"

	"github.com/go-kit/log"
	frrv1beta1 "github.com/metallb/frr-k8s/api/v1beta1"
)

func vKRun(ss []vSess, node string) (*frrv1beta1.FRRConfiguration, bool) {
	var got *frrv1beta1.FRRConfiguration
	sm := &sessionManager{sessions: map[string]*session{}, nodeToConfigure: node, targetNamespace: "verif-ns", logger: log.NewNopLogger()}
	sm.configChangedCallback = func(c interface{}) {
		cfg := c.(frrv1beta1.FRRConfiguration)
		got = &cfg
	}
	for _, s := range ss {
		se := &session{SessionParameters: vParams(s), sessionManager: sm, advertised: vAdvertisements(s), logger: log.NewNopLogger()}
		sm.sessions[sessionName(*se)] = se
	}
	if err := sm.updateConfig(); err != nil {
		return nil, false
	}
	return got, got != nil
}

func vKAddSecrets(r *rand.Rand, ss []vSess) {
	for i := range ss {
		switch r.Intn(8) {
		case 0: // secret reference instead of the password
			ss[i].Password = ""
			ss[i].SecretN, ss[i].SecretNS = "bgp-secret", "metallb-system"
		case 1: // both: updateConfig must refuse
			if r.Intn(4) == 0 {
				ss[i].Password = "password"
				ss[i].SecretN, ss[i].SecretNS = "bgp-secret", "metallb-system"
			}
		case 2:
			ss[i].Password = ""
			ss[i].SecretN = "only-name"
		}
	}
}

func TestVerifK8s(t *testing.T) {
	out := vOpen()
	defer out.Close()
	r := vRand()
	n := vN(150)
	nodes := []string{"node-a", "worker-1", "kind-worker3"}
	for id := 1; id <= n; id++ {
		ss := vGenSessions(r, r.Intn(10) == 0)
		vKAddSecrets(r, ss)
		node := nodes[r.Intn(len(nodes))]
		cfg, ok := vKRun(ss, node)
		perm := vPermute(r, ss)
		cfg2, ok2 := vKRun(perm, node)
		if ok != ok2 || (ok && !reflect.DeepEqual(cfg.Spec, cfg2.Spec)) {
			out.Fail("k8s-depends-on-order", "the same session set in another creation/advertisement order gives a different FRRConfiguration",
				map[string]any{"sessions": ss, "permuted": perm})
		}
		for k := 0; k < 2 && ok; k++ {
			if c3, _ := vKRun(ss, node); !reflect.DeepEqual(cfg.Spec, c3.Spec) {
				out.Fail("k8s-depends-on-order", "updateConfig on the same sessions twice gives different FRRConfigurations", map[string]any{"sessions": ss})
				break
			}
		}
		human := map[string]any{"sessions": ss, "node": node, "ok": ok}
		if ok {
			human["cfg"] = vKProject(*cfg)
		}
		out.Case(id, "frrk8s", cPair(cSessList(ss), cSessList(perm)), human)
		out.Stat("cases", 1)
		if !ok {
			out.Stat("updateConfig_error", 1)
		}
		for _, s := range ss {
			if s.SecretN != "" && s.Password == "" {
				out.Stat("secret_ref", 1)
			}
			if s.Password != "" && s.SecretN == "" {
				out.Stat("password", 1)
			}
			if s.Src != "" {
				out.Stat("source_address(F24 shape)", 1)
			}
			if s.Iface != "" {
				out.Stat("unnumbered", 1)
			}
			seen := map[string]uint32{}
			for _, a := range s.Advs {
				if lp, ok := seen[a.Prefix]; ok {
					out.Stat("repeated_prefix", 1)
					if lp != a.LP {
						out.Stat("repeated_prefix_other_localpref", 1)
					}
				}
				seen[a.Prefix] = a.LP
				if a.LP != 0 {
					out.Stat("adv_with_localpref", 1)
				}
				out.Stat("communities", len(a.Comms))
			}
			if len(s.Advs) == 0 {
				out.Stat("neighbor_without_advertisement", 1)
			}
		}
		if len(ss) > 1 {
			out.Stat("multi_neighbor", 1)
		}
	}
	_ = fmt.Sprint
}
