//go:build verif

package native

// Harness for C16 (native BGP wire format).
//  (a) drives the REAL sendOpen / sendUpdate / sendWithdraw / sendKeepalive into
//      bytes.Buffers and the REAL readOpen over a counting reader, and ships
//      parameters + observed bytes / result / error class / bytes consumed to Coq
//      (correspondence with Model/Wire.v, byte exact);
//  (b) decodes everything the encoders wrote with vDecode*, an RFC 4271 decoder
//      written for this harness from the RFCs (4271, 4760, 6793, 1997, 5492) and
//      compares with the intended content; checks readOpen against the same
//      decoder and against the "no byte beyond the announced length" bound.

import (
	"bytes"
	"encoding/hex"
	"errors"
	"fmt"
	"io"
	"math/rand"
	"net"
	"strconv"
	"strings"
	"testing"
	"time"

	"go.universe.tf/metallb/internal/bgp"
	"go.universe.tf/metallb/internal/bgp/community"
)

// ---------------------------------------------------------------- oracle decoder (RFC 4271)

type vCap struct {
	Code byte
	Val  []byte
}
type vParam struct {
	Type byte
	Caps []vCap // Type == 2
	Val  []byte
}
type vOpenMsg struct {
	Ver    byte
	ASN    uint16
	Hold   uint16
	ID     [4]byte
	Params []vParam
}
type vNLRI struct {
	Len  int
	Bits []byte
}
type vSeg struct {
	Type byte
	ASNs []uint32
}
type vUpdateMsg struct {
	Withdrawn  []vNLRI
	HasOrigin  bool
	Origin     byte
	HasASPath  bool
	ASPath     []vSeg
	HasNextHop bool
	NextHop    []byte
	HasLP      bool
	LocalPref  uint32
	HasComm    bool
	Comms      []uint32
	Other      int
	NLRI       []vNLRI
}
type vMsg struct {
	Type   byte
	Open   *vOpenMsg
	Update *vUpdateMsg
	Notif  []byte
}

type vCur struct {
	b   []byte
	err error
}

func (c *vCur) fail(s string) {
	if c.err == nil {
		c.err = errors.New(s)
	}
}
func (c *vCur) u8() byte {
	if c.err != nil || len(c.b) < 1 {
		c.fail("short u8")
		return 0
	}
	v := c.b[0]
	c.b = c.b[1:]
	return v
}
func (c *vCur) u16() uint16 { h := c.u8(); l := c.u8(); return uint16(h)<<8 | uint16(l) }
func (c *vCur) u32() uint32 { h := c.u16(); l := c.u16(); return uint32(h)<<16 | uint32(l) }
func (c *vCur) take(n int) []byte {
	if c.err != nil || len(c.b) < n {
		c.fail("short field")
		return nil
	}
	v := c.b[:n:n]
	c.b = c.b[n:]
	return v
}

func vDecodeNLRIs(b []byte) ([]vNLRI, error) {
	c := &vCur{b: b}
	var out []vNLRI
	for c.err == nil && len(c.b) > 0 {
		l := int(c.u8())
		if l > 32 {
			return nil, errors.New("prefix length > 32")
		}
		bits := c.take((l + 7) / 8)
		out = append(out, vNLRI{l, bits})
	}
	return out, c.err
}

// vDecode decodes exactly one BGP message occupying the whole of bs (RFC 4271: at most 4096 octets).
func vDecode(bs []byte, as4 bool) (*vMsg, error) { return vDecodeMax(bs, as4, 4096) }

// vDecodeMax is vDecode with another upper limit on the message length (a lenient receiver).
func vDecodeMax(bs []byte, as4 bool, maxLen int) (*vMsg, error) {
	c := &vCur{b: bs}
	for _, x := range c.take(16) {
		if x != 0xff {
			return nil, errors.New("marker")
		}
	}
	l := int(c.u16())
	ty := c.u8()
	if c.err != nil {
		return nil, c.err
	}
	if l < 19 || l > maxLen {
		return nil, fmt.Errorf("message length %d outside 19..%d", l, maxLen)
	}
	if l != len(bs) {
		return nil, fmt.Errorf("length field %d but %d bytes", l, len(bs))
	}
	m := &vMsg{Type: ty}
	switch ty {
	case 1:
		o := &vOpenMsg{}
		o.Ver = c.u8()
		o.ASN = c.u16()
		o.Hold = c.u16()
		copy(o.ID[:], c.take(4))
		ol := int(c.u8())
		if c.err != nil {
			return nil, c.err
		}
		if ol != len(c.b) {
			return nil, errors.New("optional parameter length mismatch")
		}
		if o.Ver != 4 {
			return nil, errors.New("version")
		}
		if o.Hold == 1 || o.Hold == 2 {
			return nil, errors.New("hold time")
		}
		for c.err == nil && len(c.b) > 0 {
			p := vParam{Type: c.u8()}
			pv := c.take(int(c.u8()))
			if c.err != nil {
				break
			}
			if p.Type == 2 {
				cc := &vCur{b: pv}
				for cc.err == nil && len(cc.b) > 0 {
					k := vCap{Code: cc.u8()}
					k.Val = cc.take(int(cc.u8()))
					if cc.err == nil && (k.Code == 1 || k.Code == 65) && len(k.Val) != 4 {
						cc.fail("capability length")
					}
					p.Caps = append(p.Caps, k)
				}
				if cc.err != nil {
					return nil, cc.err
				}
			} else {
				p.Val = pv
			}
			o.Params = append(o.Params, p)
		}
		m.Open = o
	case 2:
		u := &vUpdateMsg{}
		w := c.take(int(c.u16()))
		a := c.take(int(c.u16()))
		if c.err != nil {
			return nil, c.err
		}
		var err error
		if u.Withdrawn, err = vDecodeNLRIs(w); err != nil {
			return nil, err
		}
		if u.NLRI, err = vDecodeNLRIs(c.b); err != nil {
			return nil, err
		}
		seen := map[byte]bool{}
		ac := &vCur{b: a}
		for ac.err == nil && len(ac.b) > 0 {
			fl := ac.u8()
			code := ac.u8()
			var n int
			if fl&0x10 != 0 {
				n = int(ac.u16())
			} else {
				n = int(ac.u8())
			}
			v := ac.take(n)
			if ac.err != nil {
				break
			}
			if seen[code] {
				return nil, errors.New("attribute twice")
			}
			seen[code] = true
			wellKnown := fl&0x80 == 0 && fl&0x40 != 0 && fl&0x20 == 0
			switch code {
			case 1:
				if !wellKnown || len(v) != 1 || v[0] > 2 {
					return nil, errors.New("ORIGIN")
				}
				u.HasOrigin, u.Origin = true, v[0]
			case 2:
				if !wellKnown {
					return nil, errors.New("AS_PATH flags")
				}
				sc := &vCur{b: v}
				for sc.err == nil && len(sc.b) > 0 {
					sg := vSeg{Type: sc.u8()}
					if sg.Type != 1 && sg.Type != 2 {
						return nil, errors.New("AS_PATH segment type")
					}
					cnt := int(sc.u8())
					for i := 0; i < cnt; i++ {
						if as4 {
							sg.ASNs = append(sg.ASNs, sc.u32())
						} else {
							sg.ASNs = append(sg.ASNs, uint32(sc.u16()))
						}
					}
					u.ASPath = append(u.ASPath, sg)
				}
				if sc.err != nil {
					return nil, errors.New("AS_PATH malformed")
				}
				u.HasASPath = true
			case 3:
				if !wellKnown || len(v) != 4 {
					return nil, errors.New("NEXT_HOP")
				}
				u.HasNextHop, u.NextHop = true, v
			case 5:
				if !wellKnown || len(v) != 4 {
					return nil, errors.New("LOCAL_PREF")
				}
				u.HasLP, u.LocalPref = true, uint32(v[0])<<24|uint32(v[1])<<16|uint32(v[2])<<8|uint32(v[3])
			case 8:
				if fl&0xc0 != 0xc0 || len(v)%4 != 0 {
					return nil, errors.New("COMMUNITIES")
				}
				u.HasComm = true
				for i := 0; i < len(v); i += 4 {
					u.Comms = append(u.Comms, uint32(v[i])<<24|uint32(v[i+1])<<16|uint32(v[i+2])<<8|uint32(v[i+3]))
				}
			default:
				u.Other++
			}
		}
		if ac.err != nil {
			return nil, errors.New("attribute lengths inconsistent")
		}
		if len(u.NLRI) > 0 && !(u.HasOrigin && u.HasASPath && u.HasNextHop) {
			return nil, errors.New("mandatory attribute missing")
		}
		m.Update = u
	case 3:
		if l < 21 {
			return nil, errors.New("notification too short")
		}
		m.Notif = c.b
	case 4:
		if l != 19 {
			return nil, errors.New("keepalive length")
		}
	default:
		return nil, errors.New("type")
	}
	if c.err != nil {
		return nil, c.err
	}
	return m, nil
}

// ---------------------------------------------------------------- Coq term helpers (N_scope is opened by the cases header)

func wN(n uint64) string { return strconv.FormatUint(n, 10) }
func wBytes(b []byte) string {
	var sb strings.Builder
	sb.WriteByte('[')
	for i, x := range b {
		if i > 0 {
			sb.WriteByte(';')
		}
		sb.WriteString(strconv.Itoa(int(x)))
	}
	sb.WriteByte(']')
	return sb.String()
}
func wObs(b []byte, err error) string {
	if err != nil {
		return cNone
	}
	return cSome(wBytes(b))
}

type wComm struct {
	Large   bool
	A, B, C uint32
}
type wPrefix struct {
	IP  [4]byte
	Len int
	IP6 bool // present the address in its 16-byte form
}
type wAdv struct {
	P     wPrefix
	LP    uint32
	Comms []wComm
}

func (p wPrefix) net() *net.IPNet {
	ip := net.IP{p.IP[0], p.IP[1], p.IP[2], p.IP[3]}
	if p.IP6 {
		ip = ip.To16()
	}
	return &net.IPNet{IP: ip, Mask: net.CIDRMask(p.Len, 32)}
}
func (p wPrefix) coq() string {
	return fmt.Sprintf("{| p_ip := %s; p_len := %d |}", wBytes(p.IP[:]), p.Len)
}
func (a wAdv) coq() string {
	cs := make([]string, len(a.Comms))
	for i, c := range a.Comms {
		if c.Large {
			cs[i] = fmt.Sprintf("CLarge %d %d %d", c.A, c.B, c.C)
		} else {
			cs[i] = fmt.Sprintf("CLegacy %d %d", c.A, c.B)
		}
	}
	return fmt.Sprintf("{| a_pfx := %s; a_lp := %d; a_comms := %s |}", a.P.coq(), a.LP, cList(cs))
}
func (a wAdv) real() *bgp.Advertisement {
	adv := &bgp.Advertisement{Prefix: a.P.net(), LocalPref: a.LP}
	for _, c := range a.Comms {
		var s string
		if c.Large {
			s = fmt.Sprintf("large:%d:%d:%d", c.A, c.B, c.C)
		} else {
			s = fmt.Sprintf("%d:%d", c.A, c.B)
		}
		cm, err := community.New(s)
		if err != nil {
			panic(err)
		}
		adv.Communities = append(adv.Communities, cm)
	}
	return adv
}

var wASNs = []uint32{0, 1, 65535, 65536, 4294967295, 23456, 64512, 65537, 4200000000}

func wASN(r *rand.Rand) uint32 {
	if r.Intn(4) == 0 {
		return r.Uint32()
	}
	return wASNs[r.Intn(len(wASNs))]
}
func wPfx(r *rand.Rand, l int) wPrefix {
	p := wPrefix{Len: l, IP6: r.Intn(3) == 0}
	r.Read(p.IP[:])
	return p
}
func wComms(r *rand.Rand, n int, largeAt int) []wComm {
	cs := make([]wComm, n)
	for i := range cs {
		cs[i] = wComm{A: uint32(r.Intn(65536)), B: uint32(r.Intn(65536))}
		if r.Intn(8) == 0 {
			cs[i].A, cs[i].B = 65535, 65535
		}
		if i == largeAt {
			cs[i] = wComm{Large: true, A: r.Uint32(), B: r.Uint32(), C: r.Uint32()}
		}
	}
	return cs
}

// ---------------------------------------------------------------- readOpen inputs

// countingReader hands out the stream in chunks of at most `chunk` bytes and
// counts what was taken from it.
type vCountingReader struct {
	b     []byte
	n     int
	chunk int
	calls int
}

func (c *vCountingReader) Read(p []byte) (int, error) {
	c.calls++
	if c.calls > 1<<20 {
		panic("reader called too often (hang)")
	}
	if c.n >= len(c.b) {
		return 0, io.EOF
	}
	k := len(p)
	if c.chunk > 0 && k > c.chunk {
		k = c.chunk
	}
	if k > len(c.b)-c.n {
		k = len(c.b) - c.n
	}
	copy(p, c.b[c.n:c.n+k])
	c.n += k
	return k, nil
}

func wSerOpen(o *vOpenMsg, hdrLenDelta int) []byte {
	var ps []byte
	for _, p := range o.Params {
		body := p.Val
		if p.Type == 2 {
			body = nil
			for _, c := range p.Caps {
				body = append(body, c.Code, byte(len(c.Val)))
				body = append(body, c.Val...)
			}
		}
		ps = append(ps, p.Type, byte(len(body)))
		ps = append(ps, body...)
	}
	out := bytes.Repeat([]byte{0xff}, 16)
	l := 29 + len(ps) + hdrLenDelta
	out = append(out, byte(l>>8), byte(l), 1, o.Ver, byte(o.ASN>>8), byte(o.ASN), byte(o.Hold>>8), byte(o.Hold))
	out = append(out, o.ID[:]...)
	out = append(out, byte(len(ps)))
	return append(out, ps...)
}

func wGenOpen(r *rand.Rand) *vOpenMsg {
	o := &vOpenMsg{Ver: 4, ASN: uint16(wASN(r)), Hold: uint16(3 + r.Intn(200))}
	switch r.Intn(10) {
	case 0:
		o.Hold = 0
	case 1:
		o.Hold = uint16(1 + r.Intn(2))
	case 2:
		o.Hold = 65535
	}
	if r.Intn(25) == 0 {
		o.Ver = byte(r.Intn(6))
	}
	r.Read(o.ID[:])
	np := r.Intn(4)
	if r.Intn(6) == 0 {
		np = 0
	}
	room := 255
	for i := 0; i < np; i++ {
		p := vParam{Type: 2}
		if r.Intn(20) == 0 {
			p.Type = byte(r.Intn(4))
		}
		if p.Type != 2 {
			p.Val = make([]byte, r.Intn(5))
			r.Read(p.Val)
		} else {
			nc := r.Intn(5)
			for j := 0; j < nc; j++ {
				var c vCap
				switch r.Intn(7) {
				case 0, 1:
					c = vCap{1, []byte{0, byte(1 + r.Intn(2)), 0, 1}}
					if r.Intn(10) == 0 {
						c.Val[r.Intn(4)] = byte(r.Intn(4))
					}
				case 2, 3:
					a := wASN(r)
					c = vCap{65, []byte{byte(a >> 24), byte(a >> 16), byte(a >> 8), byte(a)}}
					if r.Intn(12) == 0 {
						c.Val = c.Val[:r.Intn(4)]
					} else if r.Intn(12) == 0 {
						c.Val = append(c.Val, byte(r.Intn(256)))
					}
				case 4:
					c = vCap{2, nil} // route refresh
				case 5:
					c = vCap{64, make([]byte, 2+4*r.Intn(3))} // graceful restart
					r.Read(c.Val)
				default:
					c = vCap{byte(r.Intn(256)), make([]byte, r.Intn(7))}
					r.Read(c.Val)
				}
				p.Caps = append(p.Caps, c)
			}
		}
		sz := 2 + len(p.Val)
		for _, c := range p.Caps {
			sz += 2 + len(c.Val)
		}
		if sz > room {
			break
		}
		room -= sz
		o.Params = append(o.Params, p)
	}
	return o
}

func wErrClass(err error) (string, string) {
	switch {
	case err == nil:
		return "ok", ""
	case err == io.EOF:
		return "eof", "RErr EEof"
	case err == io.ErrUnexpectedEOF:
		return "unexpected-eof", "RErr EUnexp"
	}
	return "other", "RErr EOther"
}

func wB2N(b bool) string { return cBool(b) }

type wReadObs struct {
	res      *openResult
	err      error
	consumed int
	panicked any
}

func wRunReadOpen(bs []byte, chunk int) (o wReadObs) {
	cr := &vCountingReader{b: bs, chunk: chunk}
	defer func() {
		if p := recover(); p != nil {
			o.panicked = p
			o.consumed = cr.n
		}
	}()
	res, err := readOpen(cr)
	return wReadObs{res: res, err: err, consumed: cr.n}
}

// wUnderstood: what RFC 4271/5492/6793/4760 say a reader learns from a decoded
// OPEN whose optional parameters are all capabilities.
func wUnderstood(o *vOpenMsg) (asn uint32, hold uint16, mp4, mp6, fb, onlyCaps, mpReserved bool) {
	asn, hold, onlyCaps = uint32(o.ASN), o.Hold, true
	for _, p := range o.Params {
		if p.Type != 2 {
			onlyCaps = false
			continue
		}
		for _, c := range p.Caps {
			switch c.Code {
			case 65:
				asn, fb = uint32(c.Val[0])<<24|uint32(c.Val[1])<<16|uint32(c.Val[2])<<8|uint32(c.Val[3]), true
			case 1:
				afi := uint16(c.Val[0])<<8 | uint16(c.Val[1])
				if c.Val[2] != 0 {
					mpReserved = true // reserved octet set: readOpen compares {res,safi} as one uint16
					continue
				}
				if afi == 1 && c.Val[3] == 1 {
					mp4 = true
				}
				if afi == 2 && c.Val[3] == 1 {
					mp6 = true
				}
			}
		}
	}
	return
}

func TestVerifWire(t *testing.T) {
	out := vOpen()
	defer out.Close()
	r := vRand()
	n := vN(500)
	id := 0
	next := func() int { id++; return id }

	// ------------------------------------------------------------ readOpen
	readCase := func(kind string, bs []byte, chunk int) {
		i := next()
		ob := wRunReadOpen(bs, chunk)
		cls, coqErr := wErrClass(ob.err)
		out.Stat("read:"+cls, 1)
		human := map[string]any{"bytes": hex.EncodeToString(bs), "class": cls, "consumed": ob.consumed, "chunk": chunk}
		if ob.panicked != nil {
			out.Fail("readopen-panics", fmt.Sprintf("readOpen panicked on %x: %v", bs, ob.panicked), human)
			return
		}
		// property: nothing beyond the announced message length is consumed
		bound := len(bs)
		if len(bs) >= 19 {
			ann := int(bs[16])<<8 | int(bs[17])
			if ann < bound {
				bound = ann
			}
			if bound < 19 {
				bound = 19
			}
		}
		if ob.consumed > bound {
			sig := "readopen-consumes-beyond-announced-length"
			if len(bs) >= 19 && bs[18] == 3 {
				sig = "readopen-notification-reads-beyond-announced-length"
			}
			out.Fail(sig, fmt.Sprintf("readOpen consumed %d bytes, announced/available bound %d, input %x", ob.consumed, bound, bs), human)
		}
		// property: a well-formed OPEN with capability options only is understood
		if m, derr := vDecode(bs, true); derr == nil && m.Type == 1 {
			asn, hold, mp4, mp6, fb, onlyCaps, mpRes := wUnderstood(m.Open)
			if mpRes {
				out.Stat("read:mp-capability-with-reserved-octet", 1)
			}
			if onlyCaps {
				out.Stat("read:wellformed-caps-only", 1)
				if len(bs) < 37 {
					out.Stat("read:wellformed-shorter-than-37", 1)
				}
				bad := ""
				switch {
				case ob.err != nil:
					bad = fmt.Sprintf("rejected with %q", ob.err)
				case ob.res.asn != asn:
					bad = fmt.Sprintf("asn %d, want %d", ob.res.asn, asn)
				case ob.res.holdTime != time.Duration(hold)*time.Second:
					bad = fmt.Sprintf("hold %v, want %ds", ob.res.holdTime, hold)
				case ob.res.fbasn != fb || ob.res.mp4 != mp4 || ob.res.mp6 != mp6:
					bad = fmt.Sprintf("capabilities mp4=%v mp6=%v fbasn=%v, want %v %v %v", ob.res.mp4, ob.res.mp6, ob.res.fbasn, mp4, mp6, fb)
				case ob.consumed != len(bs):
					bad = fmt.Sprintf("consumed %d of %d", ob.consumed, len(bs))
				}
				if bad != "" {
					sig := "readopen-misreads-wellformed-open"
					if ob.err != nil && len(bs) < 37 {
						sig = "readopen-rejects-wellformed-open-shorter-than-37"
					}
					out.Fail(sig, fmt.Sprintf("well-formed OPEN %x: %s", bs, bad), human)
				}
			} else {
				out.Stat("read:wellformed-other-params", 1)
			}
		}
		res := coqErr
		if ob.err == nil {
			res = fmt.Sprintf("ROk {| r_asn := %d; r_hold := %d; r_mp4 := %s; r_mp6 := %s; r_fbasn := %s |}",
				ob.res.asn, int64(ob.res.holdTime/time.Second), wB2N(ob.res.mp4), wB2N(ob.res.mp6), wB2N(ob.res.fbasn))
		}
		out.Case(i, "read:"+kind, fmt.Sprintf("WRead %d %s (%s) %d", i, wBytes(bs), res, ob.consumed), human)
	}

	// corpus first: the F10 witnesses (minimal OPEN, 29 bytes; one empty capability option, 31)
	readCase("corpus-min-open", wSerOpen(&vOpenMsg{Ver: 4, ASN: 64512, Hold: 90, ID: [4]byte{10, 0, 0, 1}}, 0), 0)
	readCase("corpus-open-31", wSerOpen(&vOpenMsg{Ver: 4, ASN: 64512, Hold: 90, ID: [4]byte{10, 0, 0, 1}, Params: []vParam{{Type: 2}}}, 0), 0)
	readCase("corpus-open-35", wSerOpen(&vOpenMsg{Ver: 4, ASN: 23456, Hold: 9, ID: [4]byte{10, 0, 0, 1}, Params: []vParam{{Type: 2, Caps: []vCap{{2, nil}, {128, nil}}}}}, 0), 0)
	// the 2-octet "My AS" field and the 4-octet capability in every combination: the capability,
	// when present, is the peer's AS number whatever the 2-octet field says (RFC 6793)
	for _, f16 := range []uint16{64999, 64000, 23456} {
		for _, c32 := range []int64{64999, 70000, -1} {
			o := &vOpenMsg{Ver: 4, ASN: f16, Hold: 90, ID: [4]byte{10, 0, 0, 2}, Params: []vParam{{Type: 2, Caps: []vCap{{1, []byte{0, 1, 0, 1}}}}}}
			if c32 >= 0 {
				o.Params[0].Caps = append(o.Params[0].Caps, vCap{65, []byte{byte(c32 >> 24), byte(c32 >> 16), byte(c32 >> 8), byte(c32)}})
			}
			readCase("corpus-asn-field-vs-capability", wSerOpen(o, 0), 0)
			out.Stat("read:asn-field-vs-capability", 1)
		}
	}
	// notification headers whose announced length is below 21
	hdr := func(l int, ty byte, rest ...byte) []byte {
		b := bytes.Repeat([]byte{0xff}, 16)
		b = append(b, byte(l>>8), byte(l), ty)
		return append(b, rest...)
	}
	readCase("corpus-notif-len19", hdr(19, 3, 6, 2, 0xff, 0xff), 0)
	readCase("corpus-notif-len20", hdr(20, 3, 6, 2, 0xff, 0xff), 0)
	readCase("notif", hdr(21, 3, 6, 2), 0)
	readCase("notif-short", hdr(21, 3, 6), 0)
	readCase("notif-none", hdr(21, 3), 0)
	readCase("keepalive", hdr(19, 4), 0)
	readCase("empty", nil, 0)

	for k := 0; k < n; k++ {
		o := wGenOpen(r)
		bs := wSerOpen(o, 0)
		kind := "valid"
		switch r.Intn(12) {
		case 0, 1: // bit flip
			kind = "bitflip"
			for f := 1 + r.Intn(2); f > 0; f-- {
				p := r.Intn(len(bs))
				if r.Intn(2) == 0 && len(bs) > 19 {
					p = 16 + r.Intn(len(bs)-16)
				}
				bs[p] ^= 1 << uint(r.Intn(8))
			}
		case 2: // truncated
			kind = "truncated"
			bs = bs[:r.Intn(len(bs)+1)]
		case 3: // extended: more stream after the message
			kind = "extended"
			ex := make([]byte, 1+r.Intn(40))
			r.Read(ex)
			if r.Intn(2) == 0 { // looks like more options
				ex = append([]byte{2, byte(r.Intn(8))}, ex...)
			}
			bs = append(bs, ex...)
		case 4: // header length wrong
			kind = "hdrlen"
			d := r.Intn(21) - 10
			bs = wSerOpen(o, d)
			if r.Intn(2) == 0 {
				ex := make([]byte, r.Intn(12))
				r.Read(ex)
				bs = append(bs, ex...)
			}
		case 5: // random bytes, with or without a marker
			kind = "random"
			bs = make([]byte, r.Intn(80))
			r.Read(bs)
			if r.Intn(3) > 0 {
				for i := 0; i < 16 && i < len(bs); i++ {
					bs[i] = 0xff
				}
				if len(bs) > 18 && r.Intn(2) == 0 {
					bs[16], bs[17], bs[18] = 0, byte(r.Intn(90)), byte(1+2*r.Intn(2))
				}
			}
		}
		chunk := 0
		if r.Intn(3) == 0 {
			chunk = 1 + r.Intn(7)
		}
		readCase(kind, bs, chunk)
	}

	// ------------------------------------------------------------ sendOpen
	openCase := func(asn uint32, rid [4]byte, secs int, extra time.Duration, rid16 bool) {
		i := next()
		var b bytes.Buffer
		ip := net.IP{rid[0], rid[1], rid[2], rid[3]}
		if rid16 {
			ip = ip.To16()
		}
		err := sendOpen(&b, asn, ip, time.Duration(secs)*time.Second+extra)
		human := map[string]any{"asn": asn, "rid": ip.String(), "hold": secs, "bytes": hex.EncodeToString(b.Bytes()), "err": fmt.Sprint(err)}
		out.Stat("open", 1)
		if err == nil {
			want16 := uint16(asn)
			if asn > 65535 {
				want16 = 23456
			}
			m, derr := vDecode(b.Bytes(), true)
			bad := ""
			switch {
			case derr != nil:
				bad = "not a well-formed message: " + derr.Error()
			case m.Type != 1:
				bad = "not an OPEN"
			case m.Open.ASN != want16 || m.Open.Hold != uint16(secs) || m.Open.ID != rid:
				bad = fmt.Sprintf("fields asn16=%d hold=%d id=%v", m.Open.ASN, m.Open.Hold, m.Open.ID)
			default:
				a, _, mp4, mp6, fb, only, _ := wUnderstood(m.Open)
				if a != asn || !mp4 || !mp6 || !fb || !only {
					bad = fmt.Sprintf("capabilities say asn=%d mp4=%v mp6=%v as4=%v", a, mp4, mp6, fb)
				}
			}
			if bad != "" {
				out.Fail("open-roundtrip", fmt.Sprintf("sendOpen(asn=%d, id=%v, hold=%ds): %s; bytes %x", asn, rid, secs, bad, b.Bytes()), human)
			}
		} else {
			out.Fail("open-error", fmt.Sprintf("sendOpen(asn=%d) returned %v", asn, err), human)
		}
		out.Case(i, "open", fmt.Sprintf("WOpen %d %d %s %d %s", i, asn, wBytes(rid[:]), secs, wObs(b.Bytes(), err)), human)
	}
	for _, a := range wASNs {
		var rid [4]byte
		r.Read(rid[:])
		openCase(a, rid, []int{0, 3, 90, 65535}[r.Intn(4)], 0, false)
	}
	for k := 0; k < n/10+5; k++ {
		var rid [4]byte
		r.Read(rid[:])
		openCase(wASN(r), rid, r.Intn(65536), time.Duration(r.Intn(1000))*time.Millisecond, r.Intn(2) == 0)
	}

	// ------------------------------------------------------------ sendUpdate
	updCase := func(kind string, asn uint32, ibgp, fbasn bool, nh []byte, a wAdv) {
		i := next()
		var b bytes.Buffer
		err := sendUpdate(&b, asn, ibgp, fbasn, net.IP(nh), a.real())
		human := map[string]any{"asn": asn, "ibgp": ibgp, "fbasn": fbasn, "nh": hex.EncodeToString(nh), "prefix": a.P.net().String(),
			"ip": hex.EncodeToString(a.P.IP[:]), "lp": a.LP, "ncomm": len(a.Comms), "bytes": hex.EncodeToString(b.Bytes()), "err": fmt.Sprint(err)}
		hasLarge := false
		for _, c := range a.Comms {
			hasLarge = hasLarge || c.Large
		}
		wantErr := (!ibgp && !fbasn && asn > 65535) || len(a.Comms) > 63 || hasLarge
		out.Stat("update", 1)
		out.Stat(fmt.Sprintf("update:len%%8=%d", a.P.Len%8), 1)
		if len(nh) == 16 {
			out.Stat("update:nh16", 1)
		}
		switch {
		case err != nil && !wantErr:
			out.Fail("update-unexpected-error", fmt.Sprintf("sendUpdate refused encodable parameters: %v", err), human)
		case err == nil && wantErr:
			out.Fail("update-missing-error", fmt.Sprintf("sendUpdate accepted parameters it documents as errors; bytes %x", b.Bytes()), human)
		case err != nil:
			out.Stat("update:error", 1)
			if b.Len() != 0 {
				out.Fail("update-partial-write", "sendUpdate wrote bytes and returned an error", human)
			}
		default:
			bad := ""
			m, derr := vDecode(b.Bytes(), fbasn)
			if derr != nil {
				bad = "not a well-formed message: " + derr.Error()
			} else if m.Type != 2 {
				bad = "not an UPDATE"
			} else {
				u := m.Update
				wantPath := 1
				if ibgp {
					wantPath = 0
				}
				switch {
				case len(u.Withdrawn) != 0 || u.Other != 0:
					bad = "unexpected withdrawn routes / attributes"
				case !u.HasOrigin || u.Origin != 0:
					bad = "ORIGIN is not IGP"
				case len(u.ASPath) != wantPath || (!ibgp && (u.ASPath[0].Type != 2 || len(u.ASPath[0].ASNs) != 1 || u.ASPath[0].ASNs[0] != asn)):
					bad = fmt.Sprintf("AS_PATH %v", u.ASPath)
				case !bytes.Equal(u.NextHop, nh):
					bad = fmt.Sprintf("NEXT_HOP %v", u.NextHop)
				case u.HasLP != ibgp || (ibgp && u.LocalPref != a.LP):
					bad = fmt.Sprintf("LOCAL_PREF present=%v value=%d", u.HasLP, u.LocalPref)
				case u.HasComm != (len(a.Comms) > 0) || len(u.Comms) != len(a.Comms):
					bad = fmt.Sprintf("COMMUNITIES %v", u.Comms)
				case len(u.NLRI) != 1 || u.NLRI[0].Len != a.P.Len || len(u.NLRI[0].Bits) != (a.P.Len+7)/8:
					bad = fmt.Sprintf("NLRI %v", u.NLRI)
				default:
					for j, c := range a.Comms {
						if u.Comms[j] != c.A<<16|c.B {
							bad = fmt.Sprintf("community %d is %#x", j, u.Comms[j])
						}
					}
					for j := 0; j < a.P.Len; j++ {
						if (u.NLRI[0].Bits[j/8]^a.P.IP[j/8])&(0x80>>uint(j%8)) != 0 {
							bad = fmt.Sprintf("NLRI bit %d differs: %v", j, u.NLRI[0].Bits)
						}
					}
				}
			}
			if bad != "" {
				sig := "update-roundtrip"
				if len(nh) == 16 {
					sig = "update-nexthop-16-bytes-on-ipv6-transport"
				}
				out.Fail(sig, fmt.Sprintf("sendUpdate(asn=%d ibgp=%v fbasn=%v nh=%x %s lp=%d comms=%d): %s; bytes %x",
					asn, ibgp, fbasn, nh, a.P.net(), a.LP, len(a.Comms), bad, b.Bytes()), human)
			}
		}
		out.Case(i, "update:"+kind, fmt.Sprintf("WUpdate %d %d %s %s %s %s %s", i, asn, cBool(ibgp), cBool(fbasn), wBytes(nh), a.coq(), wObs(b.Bytes(), err)), human)
	}
	nh4 := func() []byte { b := make([]byte, 4); r.Read(b); return b }
	// every prefix length x iBGP/eBGP x 4-byte capable or not
	for l := 0; l <= 32; l++ {
		for f := 0; f < 4; f++ {
			asn := wASN(r)
			if f == 0 && r.Intn(2) == 0 {
				asn = uint32(r.Intn(65536))
			}
			updCase("len", asn, f&1 != 0, f&2 != 0, nh4(), wAdv{P: wPfx(r, l), LP: r.Uint32(), Comms: wComms(r, r.Intn(3), -1)})
		}
	}
	// boundary ASNs x flags
	for _, a := range wASNs {
		for f := 0; f < 4; f++ {
			updCase("asn", a, f&1 != 0, f&2 != 0, nh4(), wAdv{P: wPfx(r, r.Intn(33)), LP: []uint32{0, 100, 4294967295}[r.Intn(3)]})
		}
	}
	// community counts
	for _, nc := range []int{0, 1, 2, 62, 63, 64, 65, 100} {
		f := r.Intn(4)
		updCase("comms", uint32(r.Intn(65536)), f&1 != 0, f&2 != 0, nh4(), wAdv{P: wPfx(r, r.Intn(33)), LP: r.Uint32(), Comms: wComms(r, nc, -1)})
	}
	for k := 0; k < 4; k++ { // a large community anywhere is an error
		nc := 1 + r.Intn(4)
		updCase("large", 64512, k&1 != 0, true, nh4(), wAdv{P: wPfx(r, 24), LP: 1, Comms: wComms(r, nc, r.Intn(nc))})
	}
	// IPv6 transport: the next hop handed to sendUpdate is the 16-byte local address (F11)
	for k := 0; k < 3; k++ {
		nh := make([]byte, 16)
		r.Read(nh)
		nh[0] = 0xfd
		updCase("nh16", 64512, k == 1, true, nh, wAdv{P: wPfx(r, 8*k+8), LP: 7, Comms: wComms(r, k, -1)})
	}
	for k := 0; k < n/4; k++ {
		f := r.Intn(4)
		updCase("random", wASN(r), f&1 != 0, f&2 != 0, nh4(), wAdv{P: wPfx(r, r.Intn(33)), LP: r.Uint32(), Comms: wComms(r, r.Intn(6), -1)})
	}

	// ------------------------------------------------------------ sendWithdraw
	wdrCase := func(kind string, ps []wPrefix) {
		i := next()
		var b bytes.Buffer
		nets := make([]*net.IPNet, len(ps))
		cq := make([]string, len(ps))
		for j, p := range ps {
			nets[j], cq[j] = p.net(), p.coq()
		}
		err := sendWithdraw(&b, nets)
		human := map[string]any{"n": len(ps), "err": fmt.Sprint(err)}
		if len(ps) < 20 {
			human["bytes"] = hex.EncodeToString(b.Bytes())
		}
		out.Stat("withdraw", 1)
		if err == nil {
			bad := ""
			// what was written is read as a STREAM of messages (a sender may legitimately need
			// more than one): every message must be well-formed, together they must withdraw
			// exactly the requested prefixes, in order
			m := &vMsg{Type: 2, Update: &vUpdateMsg{}}
			var derr error
			oversized := false
			for rest := b.Bytes(); len(rest) > 0 && derr == nil; {
				if len(rest) < 19 {
					derr = errors.New("trailing bytes")
					break
				}
				l := int(rest[16])<<8 | int(rest[17])
				if l < 19 || l > len(rest) {
					derr = fmt.Errorf("length field %d with %d bytes left", l, len(rest))
					break
				}
				oversized = oversized || l > 4096
				var one *vMsg
				if one, derr = vDecode(rest[:l], true); derr == nil {
					if one.Type != 2 {
						m.Type = one.Type
					} else {
						u := one.Update
						m.Update.Withdrawn = append(m.Update.Withdrawn, u.Withdrawn...)
						m.Update.NLRI = append(m.Update.NLRI, u.NLRI...)
						m.Update.HasOrigin = m.Update.HasOrigin || u.HasOrigin || u.HasASPath || u.HasNextHop || u.HasLP || u.HasComm || u.Other != 0
					}
				}
				rest = rest[l:]
			}
			switch {
			case derr != nil:
				bad = "not a well-formed message: " + derr.Error()
			case m.Type != 2 || len(m.Update.NLRI) != 0 || m.Update.HasOrigin || m.Update.HasASPath || m.Update.HasNextHop || m.Update.HasLP || m.Update.HasComm || m.Update.Other != 0:
				bad = "not a pure withdraw"
			case len(m.Update.Withdrawn) != len(ps):
				bad = fmt.Sprintf("%d withdrawn routes, want %d", len(m.Update.Withdrawn), len(ps))
			default:
				for j, p := range ps {
					w := m.Update.Withdrawn[j]
					if w.Len != p.Len || len(w.Bits) != (p.Len+7)/8 {
						bad = fmt.Sprintf("withdrawn route %d is %v", j, w)
						break
					}
					for k := 0; k < p.Len; k++ {
						if (w.Bits[k/8]^p.IP[k/8])&(0x80>>uint(k%8)) != 0 {
							bad = fmt.Sprintf("withdrawn route %d bit %d differs", j, k)
						}
					}
				}
			}
			if bad != "" {
				sig := "withdraw-roundtrip"
				if oversized { // ONE message longer than 4096 octets
					sig = "withdraw-exceeds-4096-octets"
					out.Stat("withdraw:over4096", 1)
				}
				out.Fail(sig, fmt.Sprintf("sendWithdraw of %d prefixes (%d bytes): %s", len(ps), b.Len(), bad), human)
			}
		} else if len(ps) < 13000 {
			out.Fail("withdraw-error", fmt.Sprintf("sendWithdraw of %d prefixes returned %v", len(ps), err), human)
		}
		out.Case(i, "withdraw:"+kind, fmt.Sprintf("WWithdraw %d %s %s", i, cList(cq), wObs(b.Bytes(), err)), human)
	}
	wdrCase("empty", nil)
	for l := 0; l <= 32; l++ {
		wdrCase("len", []wPrefix{wPfx(r, l)})
	}
	for k := 0; k < n/10+5; k++ {
		ps := make([]wPrefix, 1+r.Intn(6))
		for j := range ps {
			ps[j] = wPfx(r, r.Intn(33))
		}
		wdrCase("random", ps)
	}
	many := func(k int) []wPrefix {
		ps := make([]wPrefix, k)
		for j := range ps {
			ps[j] = wPfx(r, 32)
		}
		return ps
	}
	wdrCase("814x32", many(814)) // 23 + 5*814 = 4093 octets
	wdrCase("815x32", many(815)) // 4098 octets: over the RFC 4271 maximum
	out.Stat("withdraw:815-prefix-case", 1)

	// ------------------------------------------------------------ sendKeepalive
	{
		i := next()
		var b bytes.Buffer
		err := sendKeepalive(&b)
		human := map[string]any{"bytes": hex.EncodeToString(b.Bytes())}
		if m, derr := vDecode(b.Bytes(), true); err != nil || derr != nil || m.Type != 4 {
			out.Fail("keepalive-malformed", fmt.Sprintf("sendKeepalive wrote %x (%v, %v)", b.Bytes(), err, derr), human)
		}
		out.Stat("keepalive", 1)
		out.Case(i, "keepalive", fmt.Sprintf("WKeepalive %d %s", i, wObs(b.Bytes(), err)), human)
	}
}
