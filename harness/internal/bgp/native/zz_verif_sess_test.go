//go:build verif

package native

// Harness for C17 (native BGP session convergence): trace validation.
// REAL sessions (NewSession -> run/connect/sendUpdates/consumeBGP/Set/Close) talk
// to an in-process scripted BGP peer on 127.0.0.1.  The peer decodes every
// message with the RFC 4271 decoder of zz_verif_wire_test.go (vDecode), keeps
// one routing table per connection and drops connections at scripted points
// (idle, after k UPDATEs, in the middle of a message, during the handshake,
// wrong AS number).  All observations go into ONE totally ordered trace
// (a mutex-protected log): TSet (just before Set is called), TAccept,
// THandshake, TUpd/TWdr (peer-observed messages), TDrop, TCloseRet, TFinal.
// Coq (Corr/Run_Session.v) replays the trace against Model/Session.v.
// Oracle (property itself): once the connection stays up the peer's table
// equals the last Set; no dial after Close returned; a wrong AS number is
// refused; the session does not tear down a healthy connection.

import (
	"fmt"
	"io"
	"math/rand"
	"net"
	"reflect"
	"sort"
	"strings"
	"sync"
	"testing"
	"time"
	"unsafe"

	"github.com/go-kit/log"
	"go.universe.tf/metallb/internal/bgp"
)

type sAttr struct {
	LP    uint32
	Comms []wComm
}

// attribute variants, numbered; variant index = attrs id of the model.
// eBGP sessions do not transmit LOCAL_PREF, so eBGP schedules use only the
// variants with LP == 0.
var sAttrs = []sAttr{
	{0, nil},
	{0, []wComm{{A: 64512, B: 1}}},
	{0, []wComm{{A: 64512, B: 1}, {A: 64512, B: 2}}},
	{100, nil},
	{200, []wComm{{A: 64512, B: 1}}},
	{200, nil},
}

func sPrefix(k int) wPrefix {
	if k >= sNKeys { // the large key space of the mass schedules: host routes 10.(100+i/256).(i%256).7/32
		i := k - sNKeys
		return wPrefix{IP: [4]byte{10, byte(100 + i/256), byte(i % 256), 7}, Len: 32}
	}
	return wPrefix{IP: [4]byte{10, 20, byte(k), 0}, Len: 24 + k%9}
}

type sConnScript struct {
	asn       uint32        // AS number the peer presents
	as4       bool          // peer offers the 4-octet capability
	dropInHS  bool          // close right after reading the session's OPEN
	dropAfter int           // close after this many UPDATE messages (-1: never)
	dropMid   bool          // ... after additionally reading half of the next message
	delayOpen time.Duration // wait this long before answering with our OPEN (slow / loaded peer)
	hold      uint16        // hold time the peer proposes in its OPEN on this connection
	asn16p1   int           // 0: 2-octet "My AS" derived from asn (AS_TRANS above 65535); else value+1 put there regardless of the
	// capability: the peer's AS number is then `asn` (capability present) -- RFC 6793: the capability carries the real number
}

type sPeer struct {
	t                    *testing.T
	ln                   net.Listener
	myASN                uint32 // the session's AS number (what its OPEN must say)
	ibgp                 bool
	mu                   sync.Mutex
	trace                []string
	human                []string
	nconn                int
	scripts              []sConnScript // consumed one per accepted connection; then def
	def                  sConnScript
	cur                  *sPeerConn
	fails                []([3]string) // sig, what
	msgs                 int
	kalives              int
	closedAt             int           // len(trace) when Close returned, -1 before
	t0                   time.Time     // start of the schedule
	kalivesHold0         int           // KEEPALIVEs seen although the negotiated hold time is 0 (statistic)
	oversized            int           // UPDATEs longer than 4096 octets
	wantID               [4]byte       // router id the OPEN must carry
	closeCalled          bool          // the driver is in / past Close()
	lastMsg              time.Time     // last BGP message seen by the peer
	failAt               time.Time     // a connection attempt failed then (zero: none outstanding)
	failDelay            time.Duration // documented backoff before the next dial: 0, 1s, 2s, ... 2min; reset by a success
	streak               int
	hadOK                bool
	failAfterOK          int
	done                 bool
	refused              int
	wantHold             int          // hold time (s) the session's OPEN must carry: configured value, 90 for nil
	conns                []*sPeerConn // every accepted connection
	openSent             chan int     // id of a connection whose peer OPEN was just written
	capRand              *rand.Rand   // used by serve() only: capability of unscripted connections
	lastCap              int          // capability of the previous established connection: -1 none, 0 off, 1 on
	flipOnOff, flipOffOn int
	widthOK              int  // eBGP UPDATEs whose AS_PATH width matched the connection's capability
	slow                 bool // pace accepts (special schedule: bounds the trace if the session reconnects in a tight loop)
}

type sPeerConn struct {
	acceptAt, refAt, failLogAt time.Duration // since schedule start: accepted; peer action that made the attempt fail; failure observed
	outcome                    int           // 0 unknown, 1 established, 2 failed
	id                         int
	c                          net.Conn
	table                      map[int]int
	estab                      bool
	dropped                    bool // by the peer's own script
	gone                       bool
	arm                        int // drop after this many further UPDATEs (-1 none)
	armMid                     bool
	nupd                       int
}

func (p *sPeer) log(coq, human string) {
	if p.done { // the schedule's trace ends with TFinal / TFinalClosed
		return
	}
	p.trace = append(p.trace, coq)
	p.human = append(p.human, human)
}

// logT logs a timed event: TAt <ms since schedule start> followed by the event
func (p *sPeer) logT(coq, human string) {
	ms := time.Since(p.t0).Milliseconds()
	p.log(fmt.Sprintf("TAt %d", ms), fmt.Sprintf("t=%dms", ms))
	p.log(coq, human)
}

// attemptFailed / attemptOK keep the documented backoff schedule of run():
// first retry of a streak immediately, then 1 s, doubling up to 2 min; a
// successful connect resets it.  serve() compares the next dial with it.
func (p *sPeer) attemptFailed() {
	p.failAt = time.Now()
	p.failDelay = 0
	if p.streak > 0 {
		p.failDelay = time.Second << uint(p.streak-1)
		if p.failDelay > 2*time.Minute {
			p.failDelay = 2 * time.Minute
		}
	}
	p.streak++
}
func (p *sPeer) attemptOK() { p.streak, p.failAt, p.hadOK = 0, time.Time{}, true }

func (p *sPeer) fail(sig, what string) {
	p.fails = append(p.fails, [3]string{sig, what, ""})
}

func sReadMsg(c net.Conn) ([]byte, error) {
	hdr := make([]byte, 19)
	if _, err := io.ReadFull(c, hdr); err != nil {
		return nil, err
	}
	l := int(hdr[16])<<8 | int(hdr[17])
	if l < 19 {
		return hdr, fmt.Errorf("bad length %d", l)
	}
	body := make([]byte, l-19)
	if _, err := io.ReadFull(c, body); err != nil {
		return append(hdr, body...), err
	}
	return append(hdr, body...), nil
}

func (p *sPeer) serve() {
	for {
		c, err := p.ln.Accept()
		if err != nil {
			return
		}
		if p.slow {
			time.Sleep(25 * time.Millisecond)
		}
		p.mu.Lock()
		p.nconn++
		pc := &sPeerConn{id: p.nconn, c: c, table: map[int]int{}, arm: -1}
		p.conns = append(p.conns, pc)
		sc := p.def
		if len(p.scripts) > 0 {
			sc, p.scripts = p.scripts[0], p.scripts[1:]
		} else if p.capRand != nil {
			// the peer may come back with different capabilities (restart, failover, reconfiguration)
			sc.as4 = p.capRand.Intn(2) == 0
			sc.hold = sPeerHolds[p.capRand.Intn(len(sPeerHolds))]
		}
		if sc.dropAfter >= 0 {
			pc.arm, pc.armMid = sc.dropAfter, sc.dropMid
		}
		p.logT(fmt.Sprintf("TAccept %d", pc.id), fmt.Sprintf("accept c%d", pc.id))
		pc.acceptAt = time.Since(p.t0)
		if p.closedAt >= 0 {
			p.fail("session-dials-after-close", fmt.Sprintf("connection %d accepted after Close() returned", pc.id))
		}
		p.mu.Unlock()
		go p.handle(pc, sc)
	}
}

// sessionClosed: has the driver asked for Close()? (public API, no session internals)
func (p *sPeer) sessionClosed() bool {
	p.mu.Lock()
	defer p.mu.Unlock()
	return p.closeCalled
}

func (p *sPeer) handle(pc *sPeerConn, sc sConnScript) {
	defer pc.c.Close()
	c := pc.c
	c.SetDeadline(time.Now().Add(20 * time.Second))
	// the session speaks first
	om, err := sReadMsg(c)
	if err != nil {
		p.mu.Lock()
		p.logT(fmt.Sprintf("TDrop %d", pc.id), fmt.Sprintf("c%d: no OPEN (%v)", pc.id, err))
		pc.gone = true
		p.mu.Unlock()
		return
	}
	if m, derr := vDecode(om, true); derr != nil || m.Type != 1 {
		p.mu.Lock()
		p.fail("session-open-malformed", fmt.Sprintf("session sent %x: %v", om, derr))
		p.mu.Unlock()
	} else {
		// the OPEN of a REAL session (NewSession -> connect -> sendOpen) must carry what was configured
		a, hold, mp4, mp6, fb, onlyCaps, _ := wUnderstood(m.Open)
		ncaps := 0
		for _, pr := range m.Open.Params {
			ncaps += len(pr.Caps)
		}
		want16 := uint16(p.myASN)
		if p.myASN > 65535 {
			want16 = 23456
		}
		p.mu.Lock()
		p.log(fmt.Sprintf("TOpen %d %d %d", pc.id, a, hold), fmt.Sprintf("c%d: session OPEN asn=%d hold=%d id=%v", pc.id, a, hold, m.Open.ID))
		if a != p.myASN || !fb {
			p.fail("session-open-wrong-asn", fmt.Sprintf("session OPEN says asn %d as4 %v, configured %d", a, fb, p.myASN))
		}
		if int(hold) != p.wantHold || m.Open.ASN != want16 || m.Open.ID != p.wantID || !mp4 || !mp6 || !onlyCaps || ncaps != 3 {
			p.fail("session-open-not-as-configured", fmt.Sprintf("session OPEN %x: asn16=%d hold=%d id=%v mp4=%v mp6=%v as4=%v caps=%d; configured asn=%d hold=%d id=%v, capabilities MP v4, MP v6, AS4",
				om, m.Open.ASN, hold, m.Open.ID, mp4, mp6, fb, ncaps, p.myASN, p.wantHold, p.wantID))
		}
		p.mu.Unlock()
	}
	if sc.dropInHS {
		p.mu.Lock()
		pc.dropped, pc.gone = true, true
		p.logT(fmt.Sprintf("TDrop %d", pc.id), fmt.Sprintf("c%d: peer drops during handshake", pc.id))
		p.attemptFailed()
		pc.outcome, pc.refAt, pc.failLogAt = 2, time.Since(p.t0), time.Since(p.t0)
		p.mu.Unlock()
		return
	}
	// our OPEN
	o := &vOpenMsg{Ver: 4, ASN: uint16(sc.asn), Hold: sc.hold, ID: [4]byte{10, 0, 0, 2}}
	if sc.asn > 65535 {
		o.ASN = 23456
	}
	if sc.asn16p1 > 0 {
		o.ASN = uint16(sc.asn16p1 - 1)
	}
	caps := []vCap{{1, []byte{0, 1, 0, 1}}}
	if sc.as4 {
		caps = append(caps, vCap{65, []byte{byte(sc.asn >> 24), byte(sc.asn >> 16), byte(sc.asn >> 8), byte(sc.asn)}})
	}
	o.Params = []vParam{{Type: 2, Caps: caps}}
	if sc.delayOpen > 0 {
		time.Sleep(sc.delayOpen)
	}
	p.mu.Lock()
	late := p.closedAt >= 0     // Close() had already returned when we answer: nothing may come back
	pc.refAt = time.Since(p.t0) // a refusal cannot precede our OPEN
	p.log(fmt.Sprintf("TOpenSent %d", pc.id), fmt.Sprintf("c%d: peer sends its OPEN (delay %v)", pc.id, sc.delayOpen))
	p.mu.Unlock()
	if _, err := c.Write(wSerOpen(o, 0)); err != nil {
		p.mu.Lock()
		pc.gone = true
		p.mu.Unlock()
		return
	}
	select {
	case p.openSent <- pc.id:
	default:
	}
	// the session's verdict: KEEPALIVE = accepted, close = refused
	km, err := sReadMsg(c)
	acc := err == nil && len(km) == 19 && km[18] == 4
	p.mu.Lock()
	p.logT(fmt.Sprintf("THandshake %d %d %s %s", pc.id, sc.asn, cBool(sc.as4), cBool(acc)),
		fmt.Sprintf("c%d: handshake asn=%d as4=%v accepted=%v", pc.id, sc.asn, sc.as4, acc))
	if acc {
		p.attemptOK()
		pc.outcome = 1
	} else {
		p.attemptFailed()
		pc.outcome, pc.failLogAt = 2, time.Since(p.t0)
	}
	if acc {
		pc.estab = true
		p.cur = pc
		now := 0
		if sc.as4 {
			now = 1
		}
		if p.lastCap == 1 && now == 0 {
			p.flipOnOff++
		}
		if p.lastCap == 0 && now == 1 {
			p.flipOffOn++
		}
		p.lastCap = now
	} else {
		pc.gone = true
	}
	if acc && late {
		p.fail("session-message-after-close", fmt.Sprintf("c%d: Close() had returned before the peer sent its OPEN, yet the session answered it with KEEPALIVE", pc.id))
	}
	wrong := sc.asn != map[bool]uint32{true: p.myASN, false: sPeerASN}[p.ibgp]
	if wrong && !acc {
		p.refused++
	}
	if acc && wrong {
		p.fail("session-accepts-wrong-asn", fmt.Sprintf("peer presented AS %d and was accepted", sc.asn))
	}
	p.mu.Unlock()
	if !acc {
		return
	}
	c.Write(append(append([]byte{}, om[:16]...), 0, 19, 4)) // our KEEPALIVE
	for {
		p.mu.Lock()
		arm, mid := pc.arm, pc.armMid
		p.mu.Unlock()
		if arm == 0 {
			if mid {
				// read part of the next message, then drop
				c.SetReadDeadline(time.Now().Add(150 * time.Millisecond))
				io.ReadFull(c, make([]byte, 10))
			}
			p.mu.Lock()
			pc.dropped, pc.gone = true, true
			p.log(fmt.Sprintf("TDrop %d", pc.id), fmt.Sprintf("c%d: peer drops (script, mid=%v)", pc.id, mid))
			p.mu.Unlock()
			return
		}
		mb, err := sReadMsg(c)
		p.mu.Lock()
		if pc.dropped { // dropIdle() closed the socket under us
			pc.gone = true
			p.mu.Unlock()
			return
		}
		if err != nil {
			pc.gone = true
			p.log(fmt.Sprintf("TDrop %d", pc.id), fmt.Sprintf("c%d: connection ended by the session (%v)", pc.id, err))
			p.mu.Unlock()
			if !p.sessionClosed() {
				p.mu.Lock()
				p.fail("session-drops-healthy-connection",
					fmt.Sprintf("connection %d was established, the peer did not drop it and Close was not called, but the session ended it (%v)", pc.id, err))
				p.mu.Unlock()
			}
			return
		}
		width := sASPathWidth(mb)
		if len(mb) > 18 && mb[18] == 2 && width >= 0 {
			wantW := 2
			if sc.as4 {
				wantW = 4
			}
			if p.ibgp {
				wantW = 0
			}
			if width != wantW {
				p.fail("session-aspath-width-not-of-current-connection",
					fmt.Sprintf("c%d: peer announced as4=%v on THIS connection, AS_PATH written with %d-octet AS numbers (want %d): %x", pc.id, sc.as4, width, wantW, mb))
			} else if !p.ibgp {
				p.widthOK++
			}
		}
		p.lastMsg = time.Now()
		m, derr := vDecode(mb, sc.as4)
		if derr != nil && len(mb) > 4096 {
			// longer than RFC 4271 allows: recorded (finding withdraw-exceeds-4096-octets when it is
			// a pure withdraw), then read like a lenient peer so that convergence can still be judged
			if lm, lerr := vDecodeMax(mb, sc.as4, 65535); lerr == nil && lm.Type == 2 && len(lm.Update.NLRI) == 0 && len(lm.Update.Withdrawn) > 0 {
				p.fail("withdraw-exceeds-4096-octets", fmt.Sprintf("c%d: one UPDATE withdrawing %d prefixes is %d octets long", pc.id, len(lm.Update.Withdrawn), len(mb)))
				p.oversized++
				m, derr = lm, nil
			}
		}
		switch {
		case derr != nil:
			p.fail("session-message-malformed", fmt.Sprintf("c%d: %x: %v", pc.id, mb, derr))
		case m.Type == 4:
			p.kalives++
			p.logT(fmt.Sprintf("TKeepalive %d %d", pc.id, sc.hold), fmt.Sprintf("c%d: KEEPALIVE", pc.id))
			if p.wantHold == 0 || sc.hold == 0 {
				p.kalivesHold0++ // statistic only: no property forbids a KEEPALIVE (RFC 4271 forbids PERIODIC ones here)
			}
		case m.Type == 2:
			p.msgs++
			u := m.Update
			if len(u.NLRI) > 0 {
				pc.nupd++
				if pc.arm > 0 {
					pc.arm--
				}
				// attributes -> variant id
				lp := uint32(0)
				if u.HasLP {
					lp = u.LocalPref
				}
				v := -1
				for i, a := range sAttrs {
					if a.LP != lp || len(a.Comms) != len(u.Comms) {
						continue
					}
					same := true
					for j, cm := range a.Comms {
						same = same && u.Comms[j] == cm.A<<16|cm.B
					}
					if same {
						v = i
						break
					}
				}
				wantPath := 0
				if !p.ibgp {
					wantPath = 1
				}
				if v < 0 || u.HasLP != p.ibgp || len(u.ASPath) != wantPath || (wantPath == 1 && (len(u.ASPath[0].ASNs) != 1 || u.ASPath[0].ASNs[0] != p.myASN)) ||
					!net.IP(u.NextHop).Equal(net.IPv4(127, 0, 0, 1)) {
					p.fail("session-update-wrong-attributes", fmt.Sprintf("c%d: UPDATE %x decodes to %+v", pc.id, mb, *u))
				}
				for _, n := range u.NLRI {
					k := sKeyOf(n)
					if k < 0 {
						p.fail("session-update-unknown-prefix", fmt.Sprintf("c%d: %v", pc.id, n))
						continue
					}
					pc.table[k] = v
					p.log(fmt.Sprintf("TUpd %d %d %d %d", pc.id, k, v, width), fmt.Sprintf("c%d: update k%d=a%d (AS width %d)", pc.id, k, v, width))
				}
			}
			if len(u.Withdrawn) > 0 {
				var ks []int
				for _, n := range u.Withdrawn {
					k := sKeyOf(n)
					if k < 0 {
						p.fail("session-update-unknown-prefix", fmt.Sprintf("c%d: withdraw %v", pc.id, n))
						continue
					}
					delete(pc.table, k)
					ks = append(ks, k)
				}
				p.log(fmt.Sprintf("TWdr %d %s", pc.id, cListN(ks)), fmt.Sprintf("c%d: withdraw %v", pc.id, ks))
			}
		default:
			p.fail("session-unexpected-message", fmt.Sprintf("c%d: type %d", pc.id, m.Type))
		}
		p.mu.Unlock()
	}
}

// sASPathWidth walks the raw path attributes of an UPDATE and returns the width
// of the AS numbers in AS_PATH: 0 (empty path), 2 or 4; -1 if there is none /
// the message is not an UPDATE with attributes.
func sASPathWidth(mb []byte) int {
	if len(mb) < 23 || mb[18] != 2 {
		return -1
	}
	wl := int(mb[19])<<8 | int(mb[20])
	o := 21 + wl
	if o+2 > len(mb) {
		return -1
	}
	al := int(mb[o])<<8 | int(mb[o+1])
	o += 2
	end := o + al
	if end > len(mb) {
		return -1
	}
	for o+3 <= end {
		fl, ty := mb[o], mb[o+1]
		n, h := int(mb[o+2]), 3
		if fl&0x10 != 0 {
			if o+4 > end {
				return -1
			}
			n, h = int(mb[o+2])<<8|int(mb[o+3]), 4
		}
		if ty == 2 {
			switch n {
			case 0:
				return 0
			case 4:
				return 2
			case 6:
				return 4
			}
			return -1
		}
		o += h + n
	}
	return -1
}

// hold times the peer proposes (per connection): the session's own OPEN must keep
// carrying the CONFIGURED hold time whatever earlier peers proposed
var sPeerHolds = []uint16{90, 90, 9, 3, 240, 30}

func sKeyOf(n vNLRI) int {
	if n.Len == 32 && len(n.Bits) == 4 && n.Bits[0] == 10 && n.Bits[1] >= 100 && n.Bits[3] == 7 {
		return sNKeys + int(n.Bits[1]-100)*256 + int(n.Bits[2])
	}
	for k := 0; k < sNKeys; k++ {
		p := sPrefix(k)
		if p.Len == n.Len && len(n.Bits) == (p.Len+7)/8 {
			ok := true
			for j := 0; j < p.Len; j++ {
				ok = ok && (n.Bits[j/8]^p.IP[j/8])&(0x80>>uint(j%8)) == 0
			}
			if ok {
				return k
			}
		}
	}
	return -1
}

const sNKeys = 6
const sPeerASN = 64999

func (p *sPeer) dropIdle() {
	p.mu.Lock()
	defer p.mu.Unlock()
	if pc := p.cur; pc != nil && pc.estab && !pc.gone && !pc.dropped {
		pc.dropped = true
		p.log(fmt.Sprintf("TDrop %d", pc.id), fmt.Sprintf("c%d: peer drops (idle)", pc.id))
		pc.c.Close()
	}
}

func sTableStr(t map[int]int) string {
	ks := make([]int, 0, len(t))
	for k := range t {
		ks = append(ks, k)
	}
	sort.Ints(ks)
	it := make([]string, len(ks))
	for i, k := range ks {
		it[i] = cPair(cNi(k), cNi(t[k]))
	}
	return cList(it)
}

func sEq(a, b map[int]int) bool {
	if len(a) != len(b) {
		return false
	}
	for k, v := range a {
		if w, ok := b[k]; !ok || w != v {
			return false
		}
	}
	return true
}

// one schedule = one session life against one scripted peer
func sRunSchedule(t *testing.T, out *vOut, id int, r *rand.Rand, special string) {
	ln, err := net.Listen("tcp4", "127.0.0.1:0")
	if err != nil {
		t.Fatal(err)
	}
	defer ln.Close()
	ibgp := r.Intn(2) == 0
	myASN := uint32(64512)
	switch r.Intn(5) {
	case 0:
		myASN = 4200000001
	case 1:
		myASN = 65535
	}
	as4 := r.Intn(4) > 0 || myASN > 65535
	if special == "asn65536" {
		ibgp, myASN, as4 = false, 65536, false
	}
	capflip := strings.HasPrefix(special, "capflip:") // capflip:<on-off|off-on>:<ebgp|ibgp>
	if capflip {
		myASN, ibgp = 64512, strings.HasSuffix(special, ":ibgp")
		as4 = strings.Contains(special, ":off-on:")
	}
	peerASN := uint32(sPeerASN)
	if ibgp {
		peerASN = myASN
	}
	p := &sPeer{t: t, ln: ln, myASN: myASN, ibgp: ibgp, closedAt: -1, slow: special == "asn65536", lastCap: -1, openSent: make(chan int, 64), t0: time.Now(),
		def: sConnScript{asn: peerASN, as4: as4, dropAfter: -1, hold: 90}}
	if special == "" && myASN <= 65535 {
		p.capRand = rand.New(rand.NewSource(r.Int63()))
	}
	if special == "asn-disagree" {
		// 2-octet field = the configured peer AS, capability = another AS: refuse;
		// then 2-octet field = something else, capability = the configured AS: accept
		bad, good := p.def, p.def
		bad.as4, bad.asn, bad.asn16p1 = true, 70000, 1+int(peerASN&0xffff)
		good.as4, good.asn16p1 = true, 1+64000
		p.scripts = []sConnScript{bad, good}
		out.Stat("sess:asn-field-and-capability-disagree", 2)
	}
	if special == "hold-renegotiate" {
		// the first peer proposes a smaller hold time than configured; after the flap the
		// session's OPEN must still carry the configured one
		first := p.def
		first.hold = 9
		p.scripts = []sConnScript{first}
	}
	if special == "fail-after-success" {
		// established, flap, the reconnect fails in its handshake (first failure of a
		// streak: retried at once), then succeeds
		hs := p.def
		hs.dropInHS = true
		p.scripts = []sConnScript{hs, p.def, hs} // fail (retry at once), succeed (resets the backoff), flap, fail (retry at once again), succeed
	}
	if capflip {
		// first connection with the opposite capability of all later ones
		first := p.def
		first.as4 = !as4
		p.scripts = []sConnScript{first}
	}
	if special == "close-in-backoff" {
		p.def.asn = peerASN + 1 // every handshake is refused: the session sits in its backoff sleep
	}
	closeHS := strings.HasPrefix(special, "close-in-handshake:") // :accepted | :open-sent | :after-flap
	switch special {
	case "close-in-handshake:accepted":
		p.def.delayOpen = 120 * time.Millisecond
	case "close-in-handshake:open-sent":
		p.def.delayOpen = 40 * time.Millisecond
	}
	// scripts for the first connections
	nscripts := r.Intn(4)
	wrongUsed := false
	for i := 0; i < nscripts && special == ""; i++ {
		sc := p.def
		if p.capRand != nil {
			sc.as4 = r.Intn(2) == 0
		}
		if special == "" {
			sc.hold = sPeerHolds[r.Intn(len(sPeerHolds))]
		}
		if special == "" && r.Intn(4) == 0 {
			// the 2-octet field and the 4-octet capability disagree: the capability is the peer's AS number
			sc.as4 = true
			sc.asn16p1 = 1 + []int{int(peerASN & 0xffff), 64000, 23456, int(myASN & 0xffff)}[r.Intn(4)]
			if !wrongUsed && r.Intn(2) == 0 {
				sc.asn = []uint32{peerASN + 1, 70000, 23456}[r.Intn(3)] // ... and it is not the configured one: refuse
				if sc.asn != peerASN {
					wrongUsed = true
				}
			}
			out.Stat("sess:asn-field-and-capability-disagree", 1)
		}
		if r.Intn(4) == 0 {
			sc.delayOpen = time.Duration(2+r.Intn(30)) * time.Millisecond
			out.Stat("sess:peer-delays-open", 1)
		}
		switch r.Intn(6) {
		case 0:
			if !wrongUsed { // at most one refused handshake per schedule: the second costs a 1s backoff
				sc.asn = peerASN + 1
				wrongUsed = true
				out.Stat("sess:wrong-asn", 1)
			}
		case 1:
			if !wrongUsed {
				sc.dropInHS = true
				wrongUsed = true
				out.Stat("sess:drop-in-handshake", 1)
			}
		case 2, 3:
			sc.dropAfter, sc.dropMid = r.Intn(4), r.Intn(2) == 0
			out.Stat("sess:drop-after-k", 1)
			if sc.dropMid {
				out.Stat("sess:drop-mid-message", 1)
			}
		}
		if sc.asn == peerASN && !sc.dropInHS {
			wrongUsed = false // a failure right after a success costs no backoff
		}
		p.scripts = append(p.scripts, sc)
	}
	go p.serve()

	port := ln.Addr().(*net.TCPAddr).Port
	// configured hold time: nil (-> 90 s default), 0 (legal: no keepalives), 3 s, 30 s, 90 s, odd values
	holds := []time.Duration{-1, 0, 3 * time.Second, 30 * time.Second, 90 * time.Second, 7 * time.Second, 4500 * time.Millisecond, 65535 * time.Second}
	ht := holds[r.Intn(len(holds))]
	switch special {
	case "hold:0":
		ht = 0
	case "hold:nil":
		ht = -1
	case "keepalive:3s":
		ht = 3 * time.Second
	case "hold-renegotiate":
		ht = 90 * time.Second
	}
	htConfigured := ht
	var htp *time.Duration
	holdCoq := cNone
	holdName := "nil"
	p.wantHold = 90
	if ht >= 0 {
		htp = &ht
		p.wantHold = int(ht / time.Second)
		holdCoq = cSome(cNi(p.wantHold))
		holdName = fmt.Sprint(p.wantHold)
	}
	out.Stat("sess:hold="+holdName, 1)
	// the optional parameters as the configuration layer produces them: source address
	// (net.ParseIP: 16-byte form, or 4-byte), router id (unset: derived from the local
	// address of the connection), node name, and the knobs native mode ignores
	params := bgp.SessionParameters{
		PeerAddress: "127.0.0.1", PeerPort: uint16(port), MyASN: myASN, PeerASN: peerASN,
		RouterID: net.ParseIP("10.0.0.1"), HoldTime: htp, CurrentNode: "verif"}
	p.wantID = [4]byte{10, 0, 0, 1}
	switch r.Intn(4) {
	case 0:
		params.SourceAddress = net.ParseIP("127.0.0.1")
	case 1:
		params.SourceAddress = net.IP{127, 0, 0, 1}
	}
	if r.Intn(4) == 0 {
		params.RouterID = nil // getRouterID: the IPv4 local address of the connection
		p.wantID = [4]byte{127, 0, 0, 1}
		out.Stat("sess:router-id-derived", 1)
	} else if r.Intn(3) == 0 {
		params.RouterID = net.IP{10, 0, 0, 1}
	}
	if r.Intn(2) == 0 {
		params.CurrentNode = []string{"", "node-a", "kind-worker3"}[r.Intn(3)]
		ka, ct := 7*time.Second, 3*time.Second
		params.KeepAliveTime, params.ConnectTime = &ka, &ct
		params.EBGPMultiHop, params.GracefulRestart, params.DisableMP = r.Intn(2) == 0, r.Intn(2) == 0, r.Intn(2) == 0
		params.SessionName, params.VRFName = "peer-x", ""
	}
	switch special {
	case "source-address:16":
		params.SourceAddress = net.ParseIP("127.0.0.1")
	case "source-address:4":
		params.SourceAddress = net.IP{127, 0, 0, 1}
	}
	if params.SourceAddress != nil {
		out.Stat(fmt.Sprintf("sess:source-address-%d-byte-form", len(params.SourceAddress)), 1)
	}
	si, err := NewSessionManager(log.NewNopLogger()).NewSession(log.NewNopLogger(), params)
	if err != nil {
		t.Fatal(err)
	}
	s := si // bgp.Session: only Set and Close are used on it

	want := map[int]int{}
	variants := []int{0, 1, 2}
	if ibgp {
		variants = []int{0, 1, 2, 3, 4, 5}
	}
	doSet := func() {
		var advs []*bgp.Advertisement
		var pairs []string
		nw := map[int]int{}
		switch r.Intn(8) {
		case 0: // empty set: withdraw everything
		case 1: // attribute-only change of what is there
			for k := range want {
				v := variants[r.Intn(len(variants))]
				nw[k] = v
			}
		default:
			for k := 0; k < sNKeys; k++ {
				if r.Intn(2) == 0 {
					nw[k] = variants[r.Intn(len(variants))]
				}
			}
		}
		ks := make([]int, 0, len(nw))
		for k := range nw {
			ks = append(ks, k)
		}
		sort.Ints(ks)
		r.Shuffle(len(ks), func(i, j int) { ks[i], ks[j] = ks[j], ks[i] })
		type kv struct{ k, v int }
		var seq []kv
		for _, k := range ks {
			if r.Intn(6) == 0 { // the same prefix twice in one Set: the last one wins
				seq = append(seq, kv{k, variants[r.Intn(len(variants))]})
				out.Stat("sess:duplicate-prefix-in-set", 1)
			}
			seq = append(seq, kv{k, nw[k]})
		}
		for _, e := range seq {
			a := wAdv{P: sPrefix(e.k), LP: sAttrs[e.v].LP, Comms: sAttrs[e.v].Comms}
			advs = append(advs, a.real())
			pairs = append(pairs, cPair(cNi(e.k), cNi(e.v)))
		}
		p.mu.Lock()
		p.log("TSet "+cList(pairs), fmt.Sprintf("Set %v", seq))
		p.mu.Unlock()
		if err := s.Set(advs...); err != nil {
			p.mu.Lock()
			p.fail("session-set-rejected", fmt.Sprintf("Set(%v) = %v", seq, err))
			p.mu.Unlock()
		}
		p.mu.Lock()
		p.log("TSetRet", "Set returned")
		p.mu.Unlock()
		if len(nw) == 0 {
			out.Stat("sess:set-empty", 1)
		}
		want = nw
		out.Stat("sess:set", 1)
	}
	pause := func() {
		switch r.Intn(4) {
		case 0:
		case 1:
			time.Sleep(time.Duration(r.Intn(300)) * time.Microsecond)
		case 2:
			time.Sleep(time.Duration(1+r.Intn(4)) * time.Millisecond)
		default:
			time.Sleep(time.Duration(5+r.Intn(25)) * time.Millisecond)
		}
	}

	closeIt := special == "" && r.Intn(5) == 0
	nact := 4 + r.Intn(9)
	if special != "" {
		nact = 1
	}
	waitFor := func(what func() bool) {
		for dl := time.Now().Add(3 * time.Second); time.Now().Before(dl); time.Sleep(500 * time.Microsecond) {
			p.mu.Lock()
			ok := what()
			p.mu.Unlock()
			if ok {
				return
			}
		}
	}
	if closeHS {
		// Close() lands while a connection attempt is in its handshake
		nact = 0
		doSet()
		switch special {
		case "close-in-handshake:accepted": // TCP accepted, the peer's OPEN is still outstanding
			waitFor(func() bool { return p.nconn >= 1 })
		case "close-in-handshake:open-sent": // the peer has just written its OPEN, the session's KEEPALIVE is due
			select {
			case <-p.openSent:
			case <-time.After(3 * time.Second):
			}
		case "close-in-handshake:after-flap": // established, flap, Close during the handshake of the reconnect
			waitFor(func() bool { return p.cur != nil && p.cur.estab })
			p.mu.Lock()
			p.def.delayOpen = 120 * time.Millisecond
			p.mu.Unlock()
			p.dropIdle()
			waitFor(func() bool { return p.nconn >= 2 })
		}
		out.Stat("sess:close-in-handshake", 1)
	}
	universe := []int{0, 1, 2, 3, 4, 5}
	if special == "hold-renegotiate" {
		nact = 0
		doSet()
		waitFor(func() bool { return p.cur != nil && p.cur.estab })
		p.dropIdle()
		doSet()
		waitFor(func() bool { return p.nconn >= 2 })
	}
	if special == "fail-after-success" {
		nact = 0
		doSet()
		waitFor(func() bool { return p.cur != nil && p.cur.estab })
		p.dropIdle()
		doSet()
		waitFor(func() bool { return p.nconn >= 4 }) // the failing reconnect and the one after it
	}
	if strings.HasPrefix(special, "mass-withdraw") {
		// one Set announces ~900-1300 host routes, the next one keeps a handful: a single
		// change that withdraws far more than 814 /32 routes (one UPDATE > 4096 octets today)
		nact = 0
		nbig := 900 + r.Intn(400)
		for k := 0; k < nbig; k++ {
			universe = append(universe, sNKeys+k)
		}
		setOf := func(keys []int) {
			nw := map[int]int{}
			var advs []*bgp.Advertisement
			var pairs []string
			for _, k := range keys {
				v := variants[r.Intn(len(variants))]
				nw[k] = v
				a := wAdv{P: sPrefix(k), LP: sAttrs[v].LP, Comms: sAttrs[v].Comms}
				advs = append(advs, a.real())
				pairs = append(pairs, cPair(cNi(k), cNi(v)))
			}
			p.mu.Lock()
			p.log("TSet "+cList(pairs), fmt.Sprintf("Set of %d routes", len(keys)))
			p.mu.Unlock()
			if err := s.Set(advs...); err != nil {
				p.mu.Lock()
				p.fail("session-set-rejected", fmt.Sprintf("Set(%d routes) = %v", len(keys), err))
				p.mu.Unlock()
			}
			p.mu.Lock()
			p.log("TSetRet", "Set returned")
			p.mu.Unlock()
			want = nw
		}
		setOf(universe[2:])
		waitFor(func() bool { return p.cur != nil && len(p.cur.table) == len(want) })
		keep := []int{universe[2], universe[6+r.Intn(nbig)], universe[6+r.Intn(nbig)]}
		if r.Intn(2) == 0 {
			keep = append(keep, 0) // and something new
		}
		sort.Ints(keep)
		kk := keep[:0]
		for i, k := range keep {
			if i == 0 || k != keep[i-1] {
				kk = append(kk, k)
			}
		}
		setOf(kk)
		out.Stat("sess:mass-withdraw", 1)
	}
	if capflip {
		nact = 0
		setNonEmpty := func() {
			doSet()
			for i := 0; len(want) == 0 && i < 20; i++ {
				doSet()
			}
		}
		setNonEmpty()
		time.Sleep(40 * time.Millisecond) // first connection (capability A) gets its UPDATEs
		p.dropIdle()                      // the peer goes away and comes back with capability not-A
		time.Sleep(20 * time.Millisecond)
		setNonEmpty()
	}
	for a := 0; a < nact; a++ {
		switch x := r.Intn(10); {
		case x < 6 || special != "":
			doSet()
			for i := 0; special != "" && len(want) == 0 && i < 20; i++ {
				doSet()
			}
		case x == 6: // invalid Set: 64 communities -> error, nothing changes
			bad := wAdv{P: sPrefix(0), Comms: wComms(r, 64, -1)}
			if err := s.Set(bad.real()); err == nil {
				p.mu.Lock()
				p.fail("session-set-accepts-64-communities", "Set with 64 communities returned nil")
				p.mu.Unlock()
			}
			p.mu.Lock()
			p.log("TSetRejected", "Set(invalid) rejected")
			p.mu.Unlock()
			out.Stat("sess:set-rejected", 1)
		case x == 7:
			p.dropIdle()
			out.Stat("sess:drop-idle", 1)
			if r.Intn(2) == 0 { // Set while the session is (about to be) disconnected
				doSet()
				out.Stat("sess:set-right-after-drop", 1)
			}
		case x == 8: // arm a drop on the live connection
			p.mu.Lock()
			if pc := p.cur; pc != nil && !pc.gone && pc.arm < 0 {
				pc.arm, pc.armMid = r.Intn(3), r.Intn(2) == 0
				out.Stat("sess:drop-after-k", 1)
				if pc.armMid {
					out.Stat("sess:drop-mid-message", 1)
				}
			}
			p.mu.Unlock()
		default:
			time.Sleep(time.Duration(20+r.Intn(40)) * time.Millisecond)
		}
		pause()
	}

	if special == "keepalive:3s" {
		// hold time 3 s (peer: 90 s): a KEEPALIVE every second once established
		waitFor(func() bool { return p.cur != nil && p.cur.estab })
		time.Sleep(2300 * time.Millisecond)
		p.mu.Lock()
		if p.kalives == 0 {
			p.fail("session-no-keepalive", "hold time 3 s negotiated, no KEEPALIVE within 2.3 s of the session being established")
		}
		p.mu.Unlock()
		out.Stat("sess:keepalive-schedule-keepalives", p.kalives)
	}
	if special == "asn65536" {
		// give the session time to show what it does with a 2-octet-only peer
		time.Sleep(400 * time.Millisecond)
		closeIt = true
	}
	if special == "close-in-backoff" {
		// two refusals (backoff 0, then 1s): Close during the 1s sleep
		time.Sleep(150 * time.Millisecond)
		closeIt = true
	}
	if closeHS {
		closeIt = true
	}
	if closeIt && special == "" && r.Intn(3) == 0 {
		// Close racing the reconnect after a flap, the peer answering slowly
		p.mu.Lock()
		p.def.delayOpen = time.Duration(r.Intn(30)) * time.Millisecond
		p.mu.Unlock()
		p.dropIdle()
		time.Sleep(time.Duration(r.Intn(4000)) * time.Microsecond)
		out.Stat("sess:close-races-reconnect", 1)
	}

	// the connection attempts in order (they are sequential in run()): backoff oracle
	// and TBackoff summary for the replay
	backoffSummary := func() { // p.mu held
		var items []string
		streak := 0
		for i, pc := range p.conns {
			if pc.outcome == 0 {
				break
			}
			ms := func(d time.Duration) int { return int(d / time.Millisecond) }
			items = append(items, fmt.Sprintf("(%d, %d, %s, %d)", pc.id, ms(pc.acceptAt), cBool(pc.outcome == 1), ms(pc.refAt)))
			if pc.outcome == 1 {
				streak = 0
				continue
			}
			d := time.Duration(0)
			if streak > 7 {
				d = 2 * time.Minute
			} else if streak > 0 {
				d = time.Second << uint(streak-1)
			}
			if streak == 0 && i > 0 {
				p.failAfterOK++ // a failed attempt right after a success
			}
			streak++
			if i+1 < len(p.conns) {
				nx := p.conns[i+1]
				if nx.acceptAt+500*time.Millisecond < pc.refAt+d {
					p.fail("session-redials-before-backoff", fmt.Sprintf("connection %d dialled %v after the peer made attempt %d fail; backoff at this point of the streak is %v", nx.id, nx.acceptAt-pc.refAt, pc.id, d))
				}
				if nx.acceptAt > pc.failLogAt+d+800*time.Millisecond {
					p.fail("session-redials-later-than-backoff", fmt.Sprintf("connection %d dialled %v after attempt %d was seen to fail; backoff at this point of the streak is %v (a success resets it)", nx.id, nx.acceptAt-pc.failLogAt, pc.id, d))
				}
			}
		}
		p.log("TBackoff "+cList(items), fmt.Sprintf("attempts: %v", items))
	}
	final := "stable"
	if closeIt {
		p.mu.Lock()
		p.closeCalled = true
		p.mu.Unlock()
		s.Close()
		p.mu.Lock()
		p.closedAt = len(p.trace)
		p.log("TCloseRet", "Close() returned")
		p.mu.Unlock()
		if special == "close-in-backoff" {
			time.Sleep(1200 * time.Millisecond) // past the end of the backoff sleep: no dial may follow
		}
		// after Close() returned: no further BGP message, no new connection, and every
		// TCP connection of the session is seen closed by the peer within a bound
		time.Sleep(60 * time.Millisecond)
		open := 0
		for dl := time.Now().Add(1500 * time.Millisecond); ; time.Sleep(2 * time.Millisecond) {
			p.mu.Lock()
			open = 0
			for _, pc := range p.conns {
				if !pc.gone {
					open = pc.id
				}
			}
			p.mu.Unlock()
			if open == 0 || time.Now().After(dl) {
				break
			}
		}
		p.mu.Lock()
		if open != 0 {
			p.fail("session-connection-open-after-close", fmt.Sprintf("1.5 s after Close() returned the peer still sees connection %d open", open))
			p.log(fmt.Sprintf("TOpenAfterClose %d", open), fmt.Sprintf("c%d still open", open))
		}
		backoffSummary()
		p.log("TFinalClosed", "end (closed)")
		p.done = true
		p.mu.Unlock()
		final = "closed"
		out.Stat("sess:closed", 1)
	} else {
		// the connection now stays up (no further scripted faults): wait for the
		// peer's table to be the last Set
		p.mu.Lock()
		p.scripts = nil
		if p.cur != nil {
			p.cur.arm = -1
		}
		p.mu.Unlock()
		deadline := time.Now().Add(6 * time.Second)
		okSince := time.Time{}
		for {
			p.mu.Lock()
			for _, c := range p.conns { // no scripted fault any more, also on a connection whose handshake was still running
				c.arm = -1
			}
			pc := p.cur
			good := pc != nil && pc.estab && !pc.gone && !pc.dropped && pc.arm < 0 && sEq(pc.table, want)
			p.mu.Unlock()
			if good { // ... and the sender has gone quiet
				p.mu.Lock()
				good = time.Since(p.lastMsg) > 30*time.Millisecond
				p.mu.Unlock()
			}
			now := time.Now()
			if good {
				if okSince.IsZero() {
					okSince = now
				} else if now.Sub(okSince) > 25*time.Millisecond {
					break
				}
			} else {
				okSince = time.Time{}
			}
			if now.After(deadline) {
				final = "no-convergence"
				break
			}
			time.Sleep(2 * time.Millisecond)
		}
		p.mu.Lock()
		pc := p.cur
		backoffSummary()
		if final == "stable" {
			p.log(fmt.Sprintf("TFinal %d %s", pc.id, sTableStr(pc.table)), fmt.Sprintf("end: c%d table %v", pc.id, pc.table))
			out.Stat("sess:stable", 1)
		} else {
			tb := map[int]int{}
			cid := 0
			if pc != nil {
				tb, cid = pc.table, pc.id
			}
			p.fail("session-no-convergence", fmt.Sprintf("6s after the last event with the connection left alone: peer table %v (connection %d), last Set %v", tb, cid, want))
			p.log(fmt.Sprintf("TFinal %d %s", cid, sTableStr(tb)), "end: NOT converged")
		}
		p.done = true
		p.closeCalled = true
		p.mu.Unlock()
		s.Close()
	}
	ln.Close()
	time.Sleep(5 * time.Millisecond)

	p.mu.Lock()
	defer p.mu.Unlock()
	if p.nconn > 1 {
		out.Stat("sess:reconnected", 1)
	}
	if special == "close-in-backoff" {
		out.Stat("sess:close-in-backoff-refusals", p.refused)
	}
	if htp != nil && *htp != htConfigured {
		p.fail("session-rewrites-configured-hold-time", fmt.Sprintf("the caller's HoldTime value was %v when the session was created and is %v now", htConfigured, *htp))
	}
	if p.nconn > 1 {
		out.Stat("sess:open-after-reconnect-checked", 1)
	}
	out.Stat("sess:failed-attempt-after-a-success", p.failAfterOK)
	out.Stat("sess:oversized-updates", p.oversized)
	out.Stat("sess:cap-flip-on-off", p.flipOnOff)
	out.Stat("sess:cap-flip-off-on", p.flipOffOn)
	out.Stat("sess:ebgp-updates-with-connection-width", p.widthOK)
	if capflip && !ibgp {
		out.Stat("sess:capflip-ebgp-updates-after-flip", p.widthOK)
	}
	out.Stat("sess:messages", p.msgs)
	out.Stat("sess:keepalives", p.kalives)
	out.Stat("sess:keepalives-with-negotiated-hold-0", p.kalivesHold0)
	out.Stat("sess:schedules", 1)
	human := map[string]any{"ibgp": ibgp, "myasn": myASN, "peer_as4": as4, "final": final, "conns": p.nconn, "trace": p.human, "special": special}
	for _, f := range p.fails {
		sig := f[0]
		if special == "asn65536" && (sig == "session-drops-healthy-connection" || sig == "session-no-convergence") {
			sig = "session-accepts-2-octet-peer-with-asn-65536"
		}
		out.Fail(sig, f[1], human)
	}
	coq := fmt.Sprintf("STrace %d {| my_asn := %d; peer_asn := %d; universe := %s; cfg_hold := %s |} [%s]",
		id, myASN, peerASN, cListN(universe), holdCoq, strings.Join(p.trace, "; "))
	if len(p.human) > 400 { // keep the evidence / replay files readable
		p.human = append(append([]string{}, p.human[:200]...), fmt.Sprintf("... %d events ...", len(p.human)-400))
	}
	out.Case(id, "schedule:"+final, coq, human)
}

// ---------------------------------------------------------------- white-box accessor layer
// The properties are about black-box observables (bytes on the wire, the peer's
// tables, the public API).  The white-box parts of this harness (state before /
// after a step, hand-built sessions) reach the UNEXPORTED state of a session only
// through this layer: fields are looked up by name with reflect and checked for
// their kind / type.  A field that is absent or has another representation makes
// the white-box comparison that needs it SKIP (stat whitebox_skipped:<field>);
// the harness keeps compiling and the black-box oracles keep running.
type wbSess struct {
	s       *session
	v       reflect.Value
	missing string // first field that was not found in the expected representation
}

func wbWrap(s *session) *wbSess { return &wbSess{s: s, v: reflect.ValueOf(s).Elem()} }

// f returns a readable and settable handle on field `name` if it exists and
// ok(its type); otherwise notes it as missing.
func (w *wbSess) f(name string, ok func(reflect.Type) bool) (reflect.Value, bool) {
	fv := w.v.FieldByName(name)
	if !fv.IsValid() || !ok(fv.Type()) {
		if w.missing == "" {
			w.missing = name
		}
		return reflect.Value{}, false
	}
	return reflect.NewAt(fv.Type(), unsafe.Pointer(fv.UnsafeAddr())).Elem(), true
}

var (
	wbAdvMap  = reflect.TypeOf(map[string]*bgp.Advertisement{})
	wbConnT   = reflect.TypeOf((*net.Conn)(nil)).Elem()
	wbMutexT  = reflect.TypeOf(sync.Mutex{})
	wbCondT   = reflect.TypeOf((*sync.Cond)(nil))
	wbIPT     = reflect.TypeOf(net.IP{})
	wbParamsT = reflect.TypeOf(bgp.SessionParameters{})
)

func wbIs(t reflect.Type) func(reflect.Type) bool {
	return func(x reflect.Type) bool { return x == t }
}
func wbKind(k reflect.Kind) func(reflect.Type) bool {
	return func(x reflect.Type) bool { return x.Kind() == k }
}

func (w *wbSess) setBool(name string, b bool) {
	if f, ok := w.f(name, wbKind(reflect.Bool)); ok {
		f.SetBool(b)
	}
}
func (w *wbSess) getBool(name string) bool {
	f, ok := w.f(name, wbKind(reflect.Bool))
	return ok && f.Bool()
}
func (w *wbSess) setAdvMap(name string, m map[string]*bgp.Advertisement) {
	if f, ok := w.f(name, wbIs(wbAdvMap)); ok {
		f.Set(reflect.ValueOf(m))
	}
}

// wbAdv is the content of one advertisement as read through reflect
type wbAdv struct {
	Key   string // map key (Prefix.String())
	LP    uint32
	Comms [][2]uint32
	OK    bool // content could be read in the expected representation
}

// advMap reads a map[string]*Advertisement field: (is nil, the entries by content).
// Content, not pointer identity: Set may keep private copies of what it was given.
func (w *wbSess) advMap(name string) (bool, []wbAdv) {
	f, ok := w.f(name, wbIs(wbAdvMap))
	if !ok {
		return true, nil
	}
	if f.IsNil() {
		return true, nil
	}
	var as []wbAdv
	for _, k := range f.MapKeys() {
		a := wbAdv{Key: k.String()}
		if v := f.MapIndex(k); v.Kind() == reflect.Ptr && !v.IsNil() {
			e := v.Elem()
			lp, cs := e.FieldByName("LocalPref"), e.FieldByName("Communities")
			if lp.IsValid() && lp.Kind() == reflect.Uint32 && cs.IsValid() && cs.Kind() == reflect.Slice {
				a.LP, a.OK = uint32(lp.Uint()), true
				for i := 0; i < cs.Len(); i++ {
					c := cs.Index(i)
					if c.Kind() == reflect.Interface {
						c = c.Elem()
					}
					if c.Kind() == reflect.Struct && c.NumField() == 2 && c.Field(0).Kind() == reflect.Uint16 && c.Field(1).Kind() == reflect.Uint16 {
						a.Comms = append(a.Comms, [2]uint32{uint32(c.Field(0).Uint()), uint32(c.Field(1).Uint())})
					} else {
						a.OK = false
					}
				}
			}
		}
		as = append(as, a)
	}
	return false, as
}

// sKVOf maps the content of an advertisement back to (key, attribute variant)
func sKVOf(a wbAdv) sKV {
	e := sKV{99, 99}
	if !a.OK {
		return e
	}
	for k := 0; k < sNKeys; k++ {
		if sPrefix(k).net().String() == a.Key {
			e.K = k
		}
	}
	for v, at := range sAttrs {
		if at.LP != a.LP || len(at.Comms) != len(a.Comms) {
			continue
		}
		same := true
		for j, cm := range at.Comms {
			same = same && a.Comms[j] == [2]uint32{cm.A, cm.B}
		}
		if same {
			e.V = v
			break
		}
	}
	return e
}
func (w *wbSess) setConn(c net.Conn) {
	if f, ok := w.f("conn", wbIs(wbConnT)); ok {
		f.Set(reflect.ValueOf(c))
	}
}
func (w *wbSess) conn() net.Conn {
	f, ok := w.f("conn", wbIs(wbConnT))
	if !ok || f.IsNil() {
		return nil
	}
	return f.Interface().(net.Conn)
}
func (w *wbSess) mutex() *sync.Mutex {
	fv := w.v.FieldByName("mu")
	if !fv.IsValid() || fv.Type() != wbMutexT {
		return nil
	}
	return (*sync.Mutex)(unsafe.Pointer(fv.UnsafeAddr()))
}
func (w *wbSess) lock() {
	if m := w.mutex(); m != nil {
		m.Lock()
	}
}
func (w *wbSess) unlock() {
	if m := w.mutex(); m != nil {
		m.Unlock()
	}
}

// wbMake builds a session value by hand (no goroutines): the plumbing fields are
// set when present; the caller sets and checks the state fields it needs.
func wbMake(params bgp.SessionParameters, name string) *wbSess {
	w := wbWrap(new(session))
	if f, ok := w.f("SessionParameters", wbIs(wbParamsT)); ok {
		f.Set(reflect.ValueOf(params))
	}
	if f, ok := w.f("logger", wbKind(reflect.Interface)); ok {
		l := reflect.ValueOf(log.NewNopLogger())
		if l.Type().Implements(f.Type()) {
			f.Set(l)
		}
	}
	if f, ok := w.f("newHoldTime", wbKind(reflect.Chan)); ok {
		f.Set(reflect.MakeChan(f.Type(), 1))
	}
	if f, ok := w.f("peerName", wbKind(reflect.String)); ok {
		f.SetString(name)
	}
	if m := w.mutex(); m != nil {
		if f, ok := w.f("cond", wbIs(wbCondT)); ok {
			f.Set(reflect.ValueOf(sync.NewCond(m)))
		}
	}
	w.missing = "" // plumbing is best effort; state fields decide
	return w
}

// ---------------------------------------------------------------- white-box steps
// abort / Set / Close as state transformers on a hand-built session value (no
// goroutines): the state before and after is compared with the model's step.

type sKV struct{ K, V int }

func sPairs(l []sKV) string {
	it := make([]string, len(l))
	for i, e := range l {
		it[i] = cPair(cNi(e.K), cNi(e.V))
	}
	return cList(it)
}

// force: 0 random; 1 Set of exactly the advertised set while another request is pending; 2 invalid Set while a request is pending
func sStepCase(out *vOut, id int, r *rand.Rand, force int) {
	index := map[*bgp.Advertisement]sKV{}
	mk := func(k, v int) *bgp.Advertisement {
		a := wAdv{P: sPrefix(k), LP: sAttrs[v].LP, Comms: sAttrs[v].Comms}.real()
		index[a] = sKV{k, v}
		return a
	}
	randList := func() []sKV {
		var l []sKV
		for k := 0; k < sNKeys; k++ {
			if r.Intn(2) == 0 {
				l = append(l, sKV{k, r.Intn(len(sAttrs))})
			}
		}
		r.Shuffle(len(l), func(i, j int) { l[i], l[j] = l[j], l[i] })
		return l
	}
	toMap := func(l []sKV) map[string]*bgp.Advertisement {
		m := map[string]*bgp.Advertisement{}
		for _, e := range l {
			a := mk(e.K, e.V)
			m[a.Prefix.String()] = a
		}
		return m
	}
	ht := 90 * time.Second
	w := wbMake(bgp.SessionParameters{PeerAddress: "127.0.0.1", PeerPort: 1, MyASN: 64512, PeerASN: sPeerASN, HoldTime: &ht}, "verif-step")
	s := w.s
	// the state this comparison is about: closed, conn, advertised, new (nil = nothing pending)
	w.getBool("closed")
	w.conn()
	w.advMap("advertised")
	w.advMap("new")
	if w.missing != "" {
		out.Stat("whitebox_skipped:"+w.missing, 1)
		return
	}
	pre := struct {
		closed, conn bool
		adv          []sKV
		pend         []sKV
		hasPend      bool
	}{closed: r.Intn(6) == 0, conn: r.Intn(2) == 0, adv: randList(), hasPend: r.Intn(2) == 0 || force != 0}
	w.setBool("closed", pre.closed)
	w.setAdvMap("advertised", toMap(pre.adv))
	if pre.hasPend {
		pre.pend = randList()
		if r.Intn(5) == 0 {
			pre.pend = nil // non-nil empty map: "withdraw all"
		}
		w.setAdvMap("new", toMap(pre.pend))
	}
	if pre.conn {
		c1, c2 := net.Pipe()
		defer c2.Close()
		w.setConn(c1)
	}
	opn := r.Intn(6)
	if force != 0 {
		opn = force
	}
	op, opH := "OAbort", "abort"
	switch opn {
	case 4: // consumeBGP(conn) returns (peer closed): conn is the session's connection or a stale one
		cur := pre.conn && r.Intn(2) == 0
		a, b := net.Pipe()
		b.Close()
		rc := io.ReadCloser(a)
		if cur {
			a.Close()
			c2 := w.conn()
			// the session's own connection, its peer end closed
			rc = c2.(io.ReadCloser)
			c2.Close()
		}
		s.consumeBGP(rc)
		op, opH = "(OReaderDrop "+cBool(cur)+")", fmt.Sprintf("readerdrop current=%v", cur)
	case 5: // sendKeepalive on a working / broken connection
		ok := r.Intn(2) == 0
		if pre.conn {
			a, b := net.Pipe()
			w.setConn(a)
			if ok {
				go io.Copy(io.Discard, b)
				defer b.Close()
			} else {
				b.Close()
			}
		}
		err := s.sendKeepalive()
		if pre.closed != (err == errClosed) {
			out.Fail("session-keepalive-closed-status", fmt.Sprintf("sendKeepalive on closed=%v returned %v", pre.closed, err), nil)
		}
		op, opH = "(OKeepalive "+cBool(ok)+")", fmt.Sprintf("keepalive ok=%v", ok)
	case 0:
		w.lock()
		s.abort()
		w.unlock()
	case 1:
		l := randList()
		if pre.hasPend && (r.Intn(3) == 0 || force == 1) {
			l = append([]sKV{}, pre.adv...) // exactly what is advertised, while another request is pending
			out.Stat("step:Set-of-advertised-while-pending", 1)
		}
		if r.Intn(3) == 0 && len(l) > 0 { // duplicate prefix, last wins
			l = append(l, sKV{l[0].K, r.Intn(len(sAttrs))})
		}
		advs := make([]*bgp.Advertisement, len(l))
		for i, e := range l {
			advs[i] = mk(e.K, e.V)
		}
		if err := s.Set(advs...); err != nil {
			out.Fail("session-set-rejected", fmt.Sprintf("Set(%v) = %v", l, err), nil)
		}
		op, opH = "(OSet "+sPairs(l)+")", fmt.Sprintf("Set %v", l)
	case 2:
		bad := wAdv{P: sPrefix(1), Comms: wComms(r, 64, -1)}
		advs := []*bgp.Advertisement{mk(0, 0), bad.real()}
		if r.Intn(2) == 0 { // a non-IPv4 prefix
			advs[1] = &bgp.Advertisement{Prefix: &net.IPNet{IP: net.ParseIP("2001:db8::"), Mask: net.CIDRMask(64, 128)}}
		}
		if err := s.Set(advs...); err == nil {
			out.Fail("session-set-accepts-invalid", "Set with 64 communities / IPv6 prefix returned nil", nil)
		}
		op, opH = "OSetInvalid", "Set(invalid)"
	default:
		s.Close()
		op, opH = "OClose", "Close"
	}
	rd := func(field string) (bool, []sKV) {
		isNil, as := w.advMap(field)
		var l []sKV
		for _, a := range as {
			l = append(l, sKVOf(a))
		}
		sort.Slice(l, func(i, j int) bool { return l[i].K < l[j].K })
		return isNil, l
	}
	st := func(closed, conn bool, adv []sKV, hasPend bool, pend []sKV) string {
		ps := cNone
		if hasPend {
			ps = cSome(sPairs(pend))
		}
		return fmt.Sprintf("{| x_closed := %s; x_conn := %s; x_adv := %s; x_pend := %s |}", cBool(closed), cBool(conn), sPairs(adv), ps)
	}
	w.lock()
	_, advL := rd("advertised")
	newNil, newL := rd("new")
	post := st(w.getBool("closed"), w.conn() != nil, advL, !newNil, newL)
	postH := fmt.Sprintf("closed=%v conn=%v advertised=%v new(nil=%v)=%v", w.getBool("closed"), w.conn() != nil, advL, newNil, newL)
	w.unlock()
	out.Stat("step:"+strings.Fields(opH)[0], 1)
	if pre.hasPend && opn == 0 {
		out.Stat("step:abort-with-pending", 1)
	}
	coq := fmt.Sprintf("SStep %d {| my_asn := 64512; peer_asn := %d; universe := %s; cfg_hold := None |} %s %s %s", id, sPeerASN,
		cListN([]int{0, 1, 2, 3, 4, 5}), st(pre.closed, pre.conn, pre.adv, pre.hasPend, pre.pend), op, post)
	out.Case(id, "step:"+strings.Fields(opH)[0], coq, map[string]any{"trace": []string{
		fmt.Sprintf("pre: closed=%v conn=%v advertised=%v new(nil=%v)=%v", pre.closed, pre.conn, pre.adv, !pre.hasPend, pre.pend), opH, "post: " + postH}})
}

// the peer changes its capabilities between two connections of one session
// ---------------------------------------------------------------- Set() inside the sender's write window
// The REAL sendUpdates / Set / Close run on a session value whose connection is
// one end of a net.Pipe (synchronous: a Write blocks until the peer reads).  The
// peer stops reading in the middle of a flush, 1-2 further Set() calls are made
// while the sender is blocked in its write, then the peer resumes.  Property:
// on this same connection the peer's table converges to the LAST requested set.
// The trace (TAccept/THandshake stand for the hand-made connection) is replayed
// by Coq like every other schedule.
func sPipeSchedule(out *vOut, id int, r *rand.Rand, fault bool) {
	c1, c2 := net.Pipe()
	defer func() { c2.Close() }()
	cid := 1
	ibgp := r.Intn(2) == 0
	fb := r.Intn(2) == 0
	myASN, peerASN := uint32(64512), uint32(sPeerASN)
	if ibgp {
		peerASN = myASN
	}
	ht := 90 * time.Second
	w := wbMake(bgp.SessionParameters{PeerAddress: "127.0.0.1", PeerPort: 1, MyASN: myASN, PeerASN: peerASN, HoldTime: &ht}, fmt.Sprintf("verif-pipe-%d", id))
	s := w.s
	// a hand-made established connection needs: advertised, conn, nextHop, peerFBASNSupport
	w.setAdvMap("advertised", map[string]*bgp.Advertisement{})
	w.setConn(c1)
	if f, ok := w.f("nextHop", wbIs(wbIPT)); ok {
		f.Set(reflect.ValueOf(net.IP{127, 0, 0, 1}))
	}
	w.setBool("peerFBASNSupport", fb)
	if w.missing != "" || w.mutex() == nil {
		if w.missing == "" {
			w.missing = "mu"
		}
		out.Stat("whitebox_skipped:"+w.missing, 1)
		c1.Close()
		return
	}
	// "nothing pending" is read from the field `new` when the session has it in that form;
	// otherwise quiescence falls back to timing
	_, hasNew := w.f("new", wbIs(wbAdvMap))
	w.missing = ""
	if !hasNew {
		out.Stat("whitebox_skipped:new(pipe-idle-check-by-timing)", 1)
	}
	var mu sync.Mutex
	var trace, human []string
	var fails [][2]string
	lg := func(coq, h string) { mu.Lock(); trace = append(trace, coq); human = append(human, h); mu.Unlock() }
	lg("TAccept 1", "pipe connection c1")
	lg(fmt.Sprintf("THandshake 1 %d %s true", peerASN, cBool(fb)), fmt.Sprintf("c1: established by hand, as4=%v", fb))
	done := make(chan bool)
	go func(d chan bool) { s.sendUpdates(); close(d) }(done)

	variants := []int{0, 1, 2}
	if ibgp {
		variants = []int{0, 1, 2, 3, 4, 5}
	}
	randSet := func(min int) map[int]int {
		for {
			m := map[int]int{}
			for k := 0; k < sNKeys; k++ {
				if r.Intn(3) > 0 {
					m[k] = variants[r.Intn(len(variants))]
				}
			}
			if len(m) >= min {
				return m
			}
		}
	}
	callSet := func(m map[int]int) {
		ks := make([]int, 0, len(m))
		for k := range m {
			ks = append(ks, k)
		}
		sort.Ints(ks)
		var advs []*bgp.Advertisement
		var pairs []string
		for _, k := range ks {
			a := wAdv{P: sPrefix(k), LP: sAttrs[m[k]].LP, Comms: sAttrs[m[k]].Comms}
			advs = append(advs, a.real())
			pairs = append(pairs, cPair(cNi(k), cNi(m[k])))
		}
		lg("TSet "+cList(pairs), fmt.Sprintf("Set %v", m))
		if err := s.Set(advs...); err != nil {
			mu.Lock()
			fails = append(fails, [2]string{"session-set-rejected", err.Error()})
			mu.Unlock()
		}
		lg("TSetRet", "Set returned")
	}
	table := map[int]int{}
	nread, nkeep := 0, 0
	// readOne reads and applies one message; false when nothing arrives within d
	readOne := func(d time.Duration) bool {
		// the deadline limits only the wait for a message to START; once its first
		// octets are there the rest is read without a (short) deadline
		c2.SetReadDeadline(time.Now().Add(d))
		hdr := make([]byte, 19)
		if n, err := io.ReadFull(c2, hdr[:1]); n == 0 || err != nil {
			return false
		}
		c2.SetReadDeadline(time.Now().Add(5 * time.Second))
		if _, err := io.ReadFull(c2, hdr[1:]); err != nil {
			return false
		}
		mb := hdr
		if l := int(hdr[16])<<8 | int(hdr[17]); l > 19 {
			body := make([]byte, l-19)
			if _, err := io.ReadFull(c2, body); err != nil {
				return false
			}
			mb = append(mb, body...)
		}
		nread++
		m, derr := vDecode(mb, fb)
		if derr == nil && m.Type == 4 {
			nkeep++ // a well-formed KEEPALIVE between UPDATEs is fine
			return true
		}
		if derr != nil || m.Type != 2 {
			mu.Lock()
			fails = append(fails, [2]string{"session-message-malformed", fmt.Sprintf("%x: %v", mb, derr)})
			mu.Unlock()
			return true
		}
		width := sASPathWidth(mb)
		u := m.Update
		if len(u.NLRI) > 0 {
			lp := uint32(0)
			if u.HasLP {
				lp = u.LocalPref
			}
			v := -1
			for i, a := range sAttrs {
				if a.LP != lp || len(a.Comms) != len(u.Comms) {
					continue
				}
				same := true
				for j, cm := range a.Comms {
					same = same && u.Comms[j] == cm.A<<16|cm.B
				}
				if same {
					v = i
					break
				}
			}
			for _, n := range u.NLRI {
				k := sKeyOf(n)
				table[k] = v
				lg(fmt.Sprintf("TUpd %d %d %d %d", cid, k, v, width), fmt.Sprintf("c%d: update k%d=a%d", cid, k, v))
			}
		}
		if len(u.Withdrawn) > 0 {
			var ks []int
			for _, n := range u.Withdrawn {
				k := sKeyOf(n)
				delete(table, k)
				ks = append(ks, k)
			}
			lg(fmt.Sprintf("TWdr %d %s", cid, cListN(ks)), fmt.Sprintf("c%d: withdraw %v", cid, ks))
		}
		return true
	}

	// idle: the sender is outside its critical section with nothing pending and
	// (the pipe being synchronous) nothing is in flight
	drainUntilIdle := func(setsDone chan bool) {
		for dl := time.Now().Add(6 * time.Second); time.Now().Before(dl); {
			if readOne(20 * time.Millisecond) {
				continue
			}
			select {
			case <-setsDone:
			default:
				continue
			}
			if w.mutex().TryLock() {
				idle := true
				if hasNew {
					idle, _ = w.advMap("new")
				}
				w.mutex().Unlock()
				if idle && (hasNew || (!readOne(80*time.Millisecond) && !readOne(80*time.Millisecond))) {
					return
				}
			}
		}
	}
	// 0. an initial set, fully delivered: from here on the sender sits in its
	// incremental loop (what follows is a diff flush, not the first flush)
	closed := make(chan bool)
	close(closed)
	// the driver calls Set synchronously only when the sender is idle: a sender that writes
	// (e.g. a KEEPALIVE after a batch) holds the session lock until the peer has read
	drainUntilIdle(closed)
	callSet(randSet(0))
	drainUntilIdle(closed)
	var want map[int]int
	setsDone := closed
	if fault {
		// F1. a set A, delivered
		a := randSet(3)
		callSet(a)
		drainUntilIdle(closed)
		// F2. a change that drops 1-2 routes (and may change others): its messages are the
		// UPDATEs of the changed routes, then ONE withdraw.  The peer reads j of them and goes
		// away: the write of message j+1 fails (j = number of UPDATEs: the withdraw fails)
		b := map[int]int{}
		var removed []int
		for k, v := range a {
			b[k] = v
		}
		ks := make([]int, 0, len(a))
		for k := range a {
			ks = append(ks, k)
		}
		sort.Ints(ks)
		r.Shuffle(len(ks), func(x, y int) { ks[x], ks[y] = ks[y], ks[x] })
		for _, k := range ks[:1+r.Intn(2)] {
			delete(b, k)
			removed = append(removed, k)
		}
		nupd := 0
		for k := range b {
			if r.Intn(3) == 0 {
				if v := variants[r.Intn(len(variants))]; v != b[k] {
					b[k] = v
					nupd++
				}
			}
		}
		callSet(b)
		jf := nupd
		if r.Intn(3) == 0 {
			jf = r.Intn(nupd + 1)
		}
		for x := 0; x < jf; {
			before := nkeep
			if !readOne(500 * time.Millisecond) {
				break
			}
			if nkeep == before {
				x++
			}
		}
		c2.Close()
		lg(fmt.Sprintf("TDrop %d", cid), fmt.Sprintf("c%d: peer goes away after %d of %d messages (write %d fails)", cid, jf, nupd+1, jf+1))
		select {
		case <-done:
		case <-time.After(3 * time.Second):
			mu.Lock()
			fails = append(fails, [2]string{"session-sender-does-not-stop", "sendUpdates did not return 3 s after a write to a closed connection"})
			mu.Unlock()
		}
		out.Stat("sess:write-failure-at-chosen-message", 1)
		if jf == nupd {
			out.Stat("sess:write-failure-at-the-withdraw", 1)
		}
		// F3. the session is down: every request accepted now must be honoured by the next
		// connection; a rejected one must change nothing; what abort folded (B) is advertised
		cur := b
		invalid := func() {
			bad := wAdv{P: sPrefix(1), Comms: wComms(r, 64, -1)}
			advs := []*bgp.Advertisement{(wAdv{P: sPrefix(0), LP: 0}).real(), bad.real()}
			if r.Intn(2) == 0 {
				advs[1] = &bgp.Advertisement{Prefix: &net.IPNet{IP: net.ParseIP("2001:db8::"), Mask: net.CIDRMask(64, 128)}}
			}
			if err := s.Set(advs...); err == nil {
				mu.Lock()
				fails = append(fails, [2]string{"session-set-accepts-invalid", "Set with 64 communities / IPv6 prefix returned nil"})
				mu.Unlock()
			}
			lg("TSetRejected", "Set(invalid) rejected")
			out.Stat("sess:invalid-set-while-request-pending", 1)
		}
		other := func() map[int]int {
			for {
				if d := randSet(0); !sEq(d, b) {
					return d
				}
			}
		}
		switch r.Intn(4) {
		case 0: // a request, then the request for what is advertised already (= the last one)
			callSet(other())
			callSet(b)
			cur = b
			out.Stat("sess:set-of-advertised-after-other-request", 1)
		case 1: // a request, then a rejected one
			cur = other()
			callSet(cur)
			invalid()
		case 2: // both
			callSet(other())
			invalid()
			callSet(b)
			cur = b
			out.Stat("sess:set-of-advertised-after-other-request", 1)
		}
		// F4. reconnect (the peer may come back with another capability)
		c1b, c2b := net.Pipe()
		fb = r.Intn(2) == 0
		w.lock()
		w.setConn(c1b)
		w.setBool("peerFBASNSupport", fb)
		w.unlock()
		c2, cid, table = c2b, 2, map[int]int{}
		lg("TAccept 2", "pipe connection c2")
		lg(fmt.Sprintf("THandshake 2 %d %s true", peerASN, cBool(fb)), fmt.Sprintf("c2: established by hand, as4=%v", fb))
		d2 := make(chan bool)
		go func() { s.sendUpdates(); close(d2) }()
		done = d2
		drainUntilIdle(closed)
		if !sEq(table, cur) {
			mu.Lock()
			fails = append(fails, [2]string{"session-no-convergence", fmt.Sprintf("after the reconnect, sender idle: peer table %v, last accepted Set %v (requests made while the session was down)", table, cur)})
			mu.Unlock()
		}
		// F5. a later change on the new connection: re-add what F2 dropped
		c := map[int]int{}
		for k, v := range cur {
			c[k] = v
		}
		for _, k := range removed {
			c[k] = variants[r.Intn(len(variants))]
		}
		callSet(c)
		drainUntilIdle(closed)
		want = c
	} else {
		// 1. a further set; the sender starts its flush and blocks in the first write
		a := randSet(3)
		callSet(a)
		want = a
		// 2. the peer reads only part of the flush, then stops reading
		for k := r.Intn(len(a)); k > 0; {
			before := nkeep
			if !readOne(500 * time.Millisecond) {
				break
			}
			if nkeep == before {
				k--
			}
		}
		// 3. further Set() calls while the sender sits in its write
		nmore := 1 + r.Intn(2)
		setsDone = make(chan bool)
		var last map[int]int
		var sets []map[int]int
		for i := 0; i < nmore; i++ {
			m := randSet(0)
			if r.Intn(4) == 0 {
				m = map[int]int{}
			}
			sets = append(sets, m)
			last = m
		}
		go func() {
			for _, m := range sets {
				callSet(m)
			}
			close(setsDone)
		}()
		// the peer stays silent until the Set() calls have either all returned (a sender
		// that does not hold the lock while writing lets them through) or are
		// evidently waiting for the sender (20 ms)
		select {
		case <-setsDone:
		case <-time.After(20 * time.Millisecond):
		}
		time.Sleep(time.Duration(r.Intn(3)) * time.Millisecond)
		want = last
		// 4. the peer resumes reading; the connection is left alone
		drainUntilIdle(setsDone)
	}
	go io.Copy(io.Discard, c2) // from here on never block the sender (Close() needs its lock)
	<-setsDone
	mu.Lock()
	if !sEq(table, want) {
		fails = append(fails, [2]string{"session-no-convergence", fmt.Sprintf("connection stayed up, sender idle: peer table %v, last Set %v (Set() calls made while the sender was writing)", table, want)})
	}
	mu.Unlock()
	lg(fmt.Sprintf("TFinal %d %s", cid, sTableStr(table)), fmt.Sprintf("end: c%d table %v", cid, table))
	s.Close()
	select {
	case <-done:
	case <-time.After(2 * time.Second):
		mu.Lock()
		fails = append(fails, [2]string{"session-sender-does-not-stop", "sendUpdates did not return 2 s after Close()"})
		mu.Unlock()
	}
	if fault {
		out.Stat("sess:pipe-fault-reconnect", 1)
	} else {
		out.Stat("sess:set-during-write", 1)
	}
	out.Stat("sess:set-during-write-messages", nread)
	out.Stat("sess:pipe-keepalives", nkeep)
	hm := map[string]any{"ibgp": ibgp, "peer_as4": fb, "final": "pipe", "trace": human, "special": "set-during-write"}
	for _, f := range fails {
		out.Fail(f[0], f[1], hm)
	}
	coq := fmt.Sprintf("STrace %d {| my_asn := %d; peer_asn := %d; universe := %s; cfg_hold := %s |} [%s]",
		id, myASN, peerASN, cListN([]int{0, 1, 2, 3, 4, 5}), cSome(cNi(90)), strings.Join(trace, "; "))
	out.Case(id, "schedule:pipe", coq, hm)
}

// backoff.Duration()/Reset() sequences against the model's bo_run
func sBackoffCase(out *vOut, id int, r *rand.Rand) {
	var b backoff
	n := 1 + r.Intn(14)
	ops := make([]string, n)
	var obs []string
	var h []string
	for i := range ops {
		if r.Intn(5) > 0 {
			d := b.Duration()
			ops[i] = "true"
			obs = append(obs, cNi(int(d/time.Millisecond)))
			h = append(h, fmt.Sprintf("Duration()=%v", d))
		} else {
			b.Reset()
			ops[i] = "false"
			h = append(h, "Reset()")
		}
	}
	out.Stat("step:backoff", 1)
	out.Case(id, "step:backoff", fmt.Sprintf("SBackoff %d %s %s", id, cList(ops), cList(obs)), map[string]any{"trace": h})
}

// the peer changes its capabilities between two connections of one session
var sCapFlips = []string{"capflip:on-off:ebgp", "capflip:off-on:ebgp", "capflip:on-off:ibgp", "capflip:off-on:ibgp"}

// what ./check C16 drives through REAL sessions: capability flips and the
// configured hold time (0 and unset) in the OPEN on the wire
var sWireFixed = append(append(append([]string{}, sCapFlips...), "hold:0", "hold:nil", "hold-renegotiate"), sSource...)

// one change withdrawing more than 814 /32 routes; sessions with a pinned source address
var sMass = []string{"mass-withdraw:a", "mass-withdraw:b"}
var sSource = []string{"source-address:16", "source-address:4"}

// Close() landing inside a connection attempt
var sCloseHS = []string{"close-in-handshake:accepted", "close-in-handshake:open-sent", "close-in-handshake:after-flap"}

// TestVerifCapFlip is the C16-side check: what a REAL session writes (OPEN with
// the configured values; UPDATEs after a reconnect to a peer with other
// capabilities) must decode to what was requested.
func TestVerifCapFlip(t *testing.T) {
	out := vOpen()
	defer out.Close()
	r := vRand()
	for k := 0; k < vN(2); k++ {
		for i, sp := range sWireFixed {
			sRunSchedule(t, out, 1+k*len(sWireFixed)+i, rand.New(rand.NewSource(r.Int63())), sp)
		}
	}
}

func TestVerifSess(t *testing.T) {
	out := vOpen()
	defer out.Close()
	r := vRand()
	n := vN(30)
	for i := 0; i < 60+n; i++ {
		sStepCase(out, 100000+i, r, map[int]int{0: 1, 1: 2}[i])
	}
	for i := 0; i < 10+n/3; i++ {
		sBackoffCase(out, 200000+i, r)
	}
	sRunSchedule(t, out, 1, rand.New(rand.NewSource(r.Int63())), "asn65536")
	par := vEnvInt("VERIF_PAR", 4)
	var wg sync.WaitGroup
	bg := func(id int, sp string, seed int64) {
		wg.Add(1)
		go func() {
			defer wg.Done()
			sRunSchedule(t, out, id, rand.New(rand.NewSource(seed)), sp)
		}()
	}
	bg(2, "close-in-backoff", r.Int63())
	bg(3, "keepalive:3s", r.Int63())
	next := 4
	for _, sp := range append(append([]string{}, sCloseHS...), "fail-after-success", "asn-disagree") {
		bg(next, sp, r.Int63())
		next++
	}
	for k := 0; k < 1+n/100; k++ {
		for _, sp := range sMass {
			bg(next, sp, r.Int63())
			next++
		}
	}
	psem := make(chan struct{}, par)
	for k := 0; k < 4+n/5; k++ {
		wg.Add(1)
		go func(id int, seed int64) {
			defer wg.Done()
			psem <- struct{}{}
			defer func() { <-psem }()
			sPipeSchedule(out, id, rand.New(rand.NewSource(seed)), false)
		}(next, r.Int63())
		next++
	}
	for k := 0; k < 12+n/5; k++ {
		wg.Add(1)
		go func(id int, seed int64) {
			defer wg.Done()
			psem <- struct{}{}
			defer func() { <-psem }()
			sPipeSchedule(out, id, rand.New(rand.NewSource(seed)), true)
		}(next, r.Int63())
		next++
	}
	for _, sp := range sWireFixed {
		sRunSchedule(t, out, next, rand.New(rand.NewSource(r.Int63())), sp)
		next++
	}
	sem := make(chan struct{}, par)
	for i := 0; i < n; i++ {
		seed := r.Int63()
		wg.Add(1)
		sem <- struct{}{}
		go func(id int, seed int64) {
			defer wg.Done()
			defer func() { <-sem }()
			sRunSchedule(t, out, id, rand.New(rand.NewSource(seed)), "")
		}(next+i, seed)
	}
	wg.Wait()
}
