//go:build verif

package layer2

// Overlay (non-test) file for the C09 harness in package speaker: an Announce
// with a given local interface list and without the interface-scan / spam
// goroutines, plus read-only accessors.

import (
	"net"
	"sort"

	"github.com/go-kit/log"
)

func VerifSpkNewAnnounce(ifs []string) *Announce {
	a := &Announce{
		logger:         log.NewNopLogger(),
		nodeInterfaces: append([]string{}, ifs...),
		arps:           map[int]*arpResponder{},
		ndps:           map[int]*ndpResponder{},
		ips:            map[string][]IPAdvertisement{},
		ipRefcnt:       map[string]int{},
		spamCh:         make(chan IPAdvertisement, 1024),
	}
	go func() {
		for range a.spamCh {
		}
	}()
	return a
}

// VerifSpkClose stops the drain goroutine (the Announce must not be used afterwards).
func (a *Announce) VerifSpkClose() { close(a.spamCh) }

type VerifSpkEntry struct {
	IP  string   `json:"ip"`
	All bool     `json:"all"`
	Ifs []string `json:"ifs"`
}

// VerifSpkDump returns Announce.ips: service -> entries.
func (a *Announce) VerifSpkDump() map[string][]VerifSpkEntry {
	a.RLock()
	defer a.RUnlock()
	r := map[string][]VerifSpkEntry{}
	for name, advs := range a.ips {
		l := []VerifSpkEntry{}
		for _, adv := range advs {
			e := VerifSpkEntry{IP: adv.ip.String(), All: adv.allInterfaces, Ifs: []string{}}
			for i := range adv.interfaces {
				e.Ifs = append(e.Ifs, i)
			}
			sort.Strings(e.Ifs)
			l = append(l, e)
		}
		r[name] = l
	}
	return r
}

// VerifSpkAnswers is the responder's decision for a request for ip received on intf.
func (a *Announce) VerifSpkAnswers(ip net.IP, intf string) bool {
	return a.shouldAnnounce(ip, intf) == dropReasonNone
}

func (a *Announce) VerifSpkRefcnt() map[string]int {
	a.RLock()
	defer a.RUnlock()
	r := map[string]int{}
	for k, v := range a.ipRefcnt {
		r[k] = v
	}
	return r
}
