//go:build verif

package layer2

// Overlay (non-test) file for the C09 harness in package speaker: an Announce
// with a given local interface list and without the interface-scan / spam
// goroutines, plus read-only accessors.

import (
	"net"
	"reflect"
	"sort"
	"unsafe"

	"github.com/go-kit/log"
)

// The fields New() initialises are initialised by KIND / TYPE through reflect, not by name, so that
// a change of the announcer's internal representation (e.g. the responder maps merged into one map
// of per-interface structs) does not break the build of the harness: every nil map gets an empty
// map, the logger and the interface list are found by their type, the queue towards the spam loop
// is the channel of IPAdvertisement.
func VerifSpkNewAnnounce(ifs []string) *Announce {
	a := &Announce{}
	v := reflect.ValueOf(a).Elem()
	var logger log.Logger = log.NewNopLogger()
	var spam chan IPAdvertisement
	for i := 0; i < v.NumField(); i++ {
		f := v.Field(i)
		w := reflect.NewAt(f.Type(), unsafe.Pointer(f.UnsafeAddr())).Elem()
		switch {
		case f.Kind() == reflect.Map:
			w.Set(reflect.MakeMap(f.Type()))
		case f.Type() == reflect.TypeOf(&logger).Elem():
			w.Set(reflect.ValueOf(&logger).Elem())
		case f.Type() == reflect.TypeOf([]string(nil)):
			w.Set(reflect.ValueOf(append([]string{}, ifs...)))
		case f.Type() == reflect.TypeOf(spam):
			spam = make(chan IPAdvertisement, 1024)
			w.Set(reflect.ValueOf(spam))
		}
	}
	go func() {
		for range spam {
		}
	}()
	return a
}

// VerifSpkClose stops the drain goroutine (the Announce must not be used afterwards).
func (a *Announce) VerifSpkClose() { close(a.spamCh) }

type VerifSpkEntry struct {
	IP  string   `json:"ip"`
	All bool     `json:"all"`
	Ifs []string `json:"ifs"`
}

// VerifSpkDump returns Announce.ips: service -> entries.
func (a *Announce) VerifSpkDump() map[string][]VerifSpkEntry {
	a.RLock()
	defer a.RUnlock()
	r := map[string][]VerifSpkEntry{}
	for name, advs := range a.ips {
		l := []VerifSpkEntry{}
		for _, adv := range advs {
			e := VerifSpkEntry{IP: adv.ip.String(), All: adv.allInterfaces, Ifs: []string{}}
			for i := range adv.interfaces {
				e.Ifs = append(e.Ifs, i)
			}
			sort.Strings(e.Ifs)
			l = append(l, e)
		}
		r[name] = l
	}
	return r
}

// VerifSpkAnswers is the responder's decision for a request for ip received on intf.
func (a *Announce) VerifSpkAnswers(ip net.IP, intf string) bool {
	return a.shouldAnnounce(ip, intf) == dropReasonNone
}

func (a *Announce) VerifSpkRefcnt() map[string]int {
	a.RLock()
	defer a.RUnlock()
	r := map[string]int{}
	for k, v := range a.ipRefcnt {
		r[k] = v
	}
	return r
}
