//go:build verif

package layer2

// Overlay-only helpers for the /verif harnesses (never committed to /repo).
// VerifNew builds an Announce WITHOUT the interface-scan and spam-loop
// goroutines and with a given interface list; responders are attached
// explicitly and are not started either (the harness calls processRequest).

import (
	"net"

	"github.com/go-kit/log"
	"github.com/mdlayher/arp"
	"github.com/mdlayher/ndp"
)

// VerifNew returns an announcer that owns no goroutine. SetBalancer queues the
// advertisement on spamCh (capacity 1<<16); the caller drains it with
// VerifDrainSpam.
func VerifNew(l log.Logger, nodeInterfaces []string) *Announce {
	if l == nil {
		l = log.NewNopLogger()
	}
	return &Announce{
		logger:         l,
		nodeInterfaces: append([]string{}, nodeInterfaces...),
		arps:           map[int]*arpResponder{},
		ndps:           map[int]*ndpResponder{},
		ips:            map[string][]IPAdvertisement{},
		ipRefcnt:       map[string]int{},
		spamCh:         make(chan IPAdvertisement, 1<<16),
	}
}

// VerifNewQueue builds the announcer field for field as New() does, with the given capacity
// of the queue towards the gratuitous loop (production: 1024), WITHOUT interfaceScan (no raw
// sockets). The REAL spamLoop is started by VerifStartSpamLoop: SetBalancer -> doSpam -> spamCh
// -> spamLoop -> gratuitous is the production code path.
func VerifNewQueue(l log.Logger, nodeInterfaces []string, capacity int) *Announce {
	a := VerifNew(l, nodeInterfaces)
	a.spamCh = make(chan IPAdvertisement, capacity)
	return a
}

// VerifStartSpamLoop starts the real spam loop goroutine (it never terminates).
func (a *Announce) VerifStartSpamLoop() { go a.spamLoop() }

// VerifDrainSpam removes and returns what SetBalancer queued for the spam loop.
func (a *Announce) VerifDrainSpam() []IPAdvertisement {
	var out []IPAdvertisement
	for {
		select {
		case s := <-a.spamCh:
			out = append(out, s)
		default:
			return out
		}
	}
}

// VerifShouldAnnounce exposes shouldAnnounce (drop reason as int, 0 = answer).
func (a *Announce) VerifShouldAnnounce(ip net.IP, intf string) int {
	return int(a.shouldAnnounce(ip, intf))
}

// VerifGratuitous exposes gratuitous (what the spam loop calls).
func (a *Announce) VerifGratuitous(adv IPAdvertisement) { a.gratuitous(adv) }

// VerifRefcnt returns a copy of ipRefcnt.
func (a *Announce) VerifRefcnt() map[string]int {
	a.RLock()
	defer a.RUnlock()
	m := make(map[string]int, len(a.ipRefcnt))
	for k, v := range a.ipRefcnt {
		m[k] = v
	}
	return m
}

// VerifServices returns the announced service names.
func (a *Announce) VerifServices() []string {
	a.RLock()
	defer a.RUnlock()
	var out []string
	for k := range a.ips {
		out = append(out, k)
	}
	return out
}

// VerifIP returns the advertisement's address.
func (i IPAdvertisement) VerifIP() net.IP { return i.ip }

// VerifAddARP attaches an ARP responder for interface name intf (map key
// index) with hardware address mac, reading and writing on pc. No goroutine
// is started; VerifARPProcess handles exactly one packet.
func (a *Announce) VerifAddARP(index int, intf string, mac net.HardwareAddr, pc net.PacketConn) error {
	c, err := arp.New(&net.Interface{Index: 1<<20 + index, Name: intf, HardwareAddr: mac, MTU: 1500}, pc)
	if err != nil {
		return err
	}
	a.Lock()
	defer a.Unlock()
	a.arps[index] = &arpResponder{
		logger:       a.logger,
		intf:         intf,
		hardwareAddr: mac,
		conn:         c,
		closed:       make(chan struct{}),
		announce:     a.shouldAnnounce,
	}
	return nil
}

// VerifARPProcess runs arpResponder.processRequest once on responder index.
func (a *Announce) VerifARPProcess(index int) int {
	a.RLock()
	r := a.arps[index]
	a.RUnlock()
	return int(r.processRequest())
}

// VerifAddNDP attaches an NDP responder named intf whose socket is a real
// ICMPv6 socket on ifi (needed for JoinGroup / LeaveGroup). No goroutine.
func (a *Announce) VerifAddNDP(index int, intf string, ifi *net.Interface) error {
	conn, _, err := ndp.Dial(ifi, ndp.LinkLocal)
	if err != nil {
		return err
	}
	a.Lock()
	defer a.Unlock()
	a.ndps[index] = &ndpResponder{
		logger:              a.logger,
		intf:                intf,
		hardwareAddr:        ifi.HardwareAddr,
		conn:                conn,
		closed:              make(chan struct{}),
		announce:            a.shouldAnnounce,
		solicitedNodeGroups: map[string]int64{},
	}
	return nil
}

// VerifNDPGroups returns a copy of the responder's solicitedNodeGroups.
func (a *Announce) VerifNDPGroups(index int) map[string]int64 {
	a.RLock()
	defer a.RUnlock()
	m := map[string]int64{}
	for k, v := range a.ndps[index].solicitedNodeGroups {
		m[k] = v
	}
	return m
}

// VerifClose closes the sockets of the attached responders.
func (a *Announce) VerifClose() {
	a.Lock()
	defer a.Unlock()
	for _, r := range a.ndps {
		r.conn.Close()
	}
	for _, r := range a.arps {
		r.conn.Close()
	}
}
