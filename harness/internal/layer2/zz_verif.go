//go:build verif

package layer2

// Overlay-only helpers for the /verif harnesses (never committed to /repo).
// VerifNew builds an Announce WITHOUT the interface-scan and spam-loop
// goroutines and with a given interface list; responders are attached
// explicitly and are not started either (the harness calls processRequest).

import (
	"fmt"
	"net"
	"reflect"
	"regexp"
	"unsafe"

	"github.com/go-kit/log"
	"github.com/mdlayher/arp"
	"github.com/mdlayher/ndp"
)

// ---- accessor layer: unexported state is reached by field NAME through reflect, so that a
// change of representation (map key type, entries dropped at zero, ...) neither breaks the
// build of the harness nor its comparisons.  A field that is absent or of an unexpected kind
// is reported in VerifSkipped and the white-box comparison is skipped by the caller.

// VerifSkipped lists the white-box accesses that could not be made on this tree.
var VerifSkipped = map[string]bool{}

func vField(p any, name string) reflect.Value {
	v := reflect.ValueOf(p)
	for v.IsValid() && (v.Kind() == reflect.Ptr || v.Kind() == reflect.Interface) {
		if v.IsNil() {
			return reflect.Value{}
		}
		v = v.Elem()
	}
	if !v.IsValid() || v.Kind() != reflect.Struct {
		return reflect.Value{}
	}
	return v.FieldByName(name)
}

// vSet stores x into the (unexported) field name of *p when the types agree
func vSet(p any, name string, x reflect.Value) bool {
	f := vField(p, name)
	if !f.IsValid() || !f.CanAddr() || !x.Type().AssignableTo(f.Type()) {
		VerifSkipped["set:"+name] = true
		return false
	}
	reflect.NewAt(f.Type(), unsafe.Pointer(f.UnsafeAddr())).Elem().Set(x)
	return true
}

// vInit gives every nil map field of *p an empty map and every nil channel field a channel of
// the given capacity (what the constructors do), whatever the element types are
func vInit(p any, chanCap int) {
	v := reflect.ValueOf(p).Elem()
	for i := 0; i < v.NumField(); i++ {
		f := v.Field(i)
		w := reflect.NewAt(f.Type(), unsafe.Pointer(f.UnsafeAddr())).Elem()
		switch {
		case f.Kind() == reflect.Map && f.IsNil():
			w.Set(reflect.MakeMap(f.Type()))
		case f.Kind() == reflect.Chan && f.IsNil() && f.Type().ChanDir() == reflect.BothDir && chanCap >= 0:
			w.Set(reflect.MakeChan(f.Type(), chanCap))
		}
	}
}

// vKey renders a map key canonically: strings as they are (an IP text is re-rendered by
// net.IP.String), integers in decimal, byte arrays / slices of 4 or 16 bytes as an IP
func vKey(k reflect.Value) (string, bool) {
	switch k.Kind() {
	case reflect.String:
		if ip := net.ParseIP(k.String()); ip != nil {
			return ip.String(), true
		}
		return k.String(), true
	case reflect.Int, reflect.Int8, reflect.Int16, reflect.Int32, reflect.Int64:
		return fmt.Sprint(k.Int()), true
	case reflect.Uint, reflect.Uint8, reflect.Uint16, reflect.Uint32, reflect.Uint64:
		return fmt.Sprint(k.Uint()), true
	case reflect.Array, reflect.Slice:
		if k.Type().Elem().Kind() == reflect.Uint8 && (k.Len() == 4 || k.Len() == 16) {
			b := make(net.IP, k.Len())
			for i := range b {
				b[i] = byte(k.Index(i).Uint())
			}
			return b.String(), true
		}
	}
	return "", false
}

// vIntMap reads a map with integer values (missing entry == 0 for the caller)
func vIntMap(m reflect.Value, what string) (map[string]int64, bool) {
	if !m.IsValid() || m.Kind() != reflect.Map {
		VerifSkipped[what] = true
		return nil, false
	}
	out := map[string]int64{}
	it := m.MapRange()
	for it.Next() {
		k, ok := vKey(it.Key())
		if !ok {
			VerifSkipped[what] = true
			return nil, false
		}
		switch it.Value().Kind() {
		case reflect.Int, reflect.Int8, reflect.Int16, reflect.Int32, reflect.Int64:
			out[k] += it.Value().Int()
		case reflect.Uint, reflect.Uint8, reflect.Uint16, reflect.Uint32, reflect.Uint64:
			out[k] += int64(it.Value().Uint())
		default:
			VerifSkipped[what] = true
			return nil, false
		}
	}
	return out, true
}

// VerifNew returns an announcer that owns no goroutine: the fields New() initialises (maps,
// the queue towards the spam loop) are initialised by kind, not by type. SetBalancer queues the
// advertisement on spamCh (capacity 1<<16); the caller drains it with VerifDrainSpam.
func VerifNew(l log.Logger, nodeInterfaces []string) *Announce {
	return VerifNewQueue(l, nodeInterfaces, 1<<16)
}

// VerifNewQueue builds the announcer as New() does, with the given capacity of the queue towards
// the gratuitous loop (production: 1024), WITHOUT interfaceScan (no raw sockets). The REAL
// spamLoop is started by VerifStartSpamLoop: SetBalancer -> doSpam -> spamCh -> spamLoop ->
// gratuitous is the production code path.
func VerifNewQueue(l log.Logger, nodeInterfaces []string, capacity int) *Announce {
	if l == nil {
		l = log.NewNopLogger()
	}
	a := &Announce{}
	vSet(a, "logger", reflect.ValueOf(&l).Elem())
	vSet(a, "nodeInterfaces", reflect.ValueOf(append([]string{}, nodeInterfaces...)))
	vInit(a, capacity)
	return a
}

// VerifExclude sets the announcer's interface exclusion expression (New()'s second argument).
func (a *Announce) VerifExclude(re *regexp.Regexp) bool { return vSet(a, "excludeRegexp", reflect.ValueOf(re)) }

// VerifUpdateInterfaces runs the REAL interface rescan once (it opens raw ARP / ICMPv6 sockets on
// the interfaces that are not excluded and starts their responders).
func (a *Announce) VerifUpdateInterfaces() { a.updateInterfaces() }

// VerifResponders returns the interface names that have an ARP / an NDP responder.
func (a *Announce) VerifResponders() (arps, ndps []string) {
	a.RLock()
	defer a.RUnlock()
	for _, r := range a.arps {
		arps = append(arps, r.Interface())
	}
	for _, r := range a.ndps {
		ndps = append(ndps, r.Interface())
	}
	return
}

// VerifStartSpamLoop starts the real spam loop goroutine (it never terminates).
func (a *Announce) VerifStartSpamLoop() { go a.spamLoop() }

// VerifDrainSpam removes and returns what SetBalancer queued for the spam loop.
func (a *Announce) VerifDrainSpam() []IPAdvertisement {
	var out []IPAdvertisement
	for {
		select {
		case s := <-a.spamCh:
			out = append(out, s)
		default:
			return out
		}
	}
}

// VerifShouldAnnounce exposes shouldAnnounce (drop reason as int, 0 = answer).
func (a *Announce) VerifShouldAnnounce(ip net.IP, intf string) int {
	return int(a.shouldAnnounce(ip, intf))
}

// VerifGratuitous exposes gratuitous (what the spam loop calls).
func (a *Announce) VerifGratuitous(adv IPAdvertisement) { a.gratuitous(adv) }

// VerifRefcnt returns ipRefcnt keyed by the canonical address text (a missing entry is 0 for
// the caller); ok=false when the field cannot be read that way on this tree.
func (a *Announce) VerifRefcnt() (map[string]int, bool) {
	a.RLock()
	defer a.RUnlock()
	m, ok := vIntMap(vField(a, "ipRefcnt"), "ipRefcnt")
	if !ok {
		return nil, false
	}
	out := map[string]int{}
	for k, v := range m {
		out[k] = int(v)
	}
	return out, true
}

// VerifServices returns the announced service names.
func (a *Announce) VerifServices() []string {
	a.RLock()
	defer a.RUnlock()
	var out []string
	f := vField(a, "ips")
	if !f.IsValid() || f.Kind() != reflect.Map || f.Type().Key().Kind() != reflect.String {
		VerifSkipped["ips"] = true
		return nil
	}
	for _, k := range f.MapKeys() {
		out = append(out, k.String())
	}
	return out
}

// VerifIP returns the advertisement's address.
func (i IPAdvertisement) VerifIP() net.IP { return i.ip }

// VerifAddARP attaches an ARP responder for interface name intf (map key
// index) with hardware address mac, reading and writing on pc. No goroutine
// is started; VerifARPProcess handles exactly one packet.
func (a *Announce) VerifAddARP(index int, intf string, mac net.HardwareAddr, pc net.PacketConn) error {
	c, err := arp.New(&net.Interface{Index: 1<<20 + index, Name: intf, HardwareAddr: mac, MTU: 1500}, pc)
	if err != nil {
		return err
	}
	a.Lock()
	defer a.Unlock()
	a.arps[index] = &arpResponder{
		logger:       a.logger,
		intf:         intf,
		hardwareAddr: mac,
		conn:         c,
		closed:       make(chan struct{}),
		announce:     a.shouldAnnounce,
	}
	return nil
}

// VerifARPProcess runs arpResponder.processRequest once on responder index.
func (a *Announce) VerifARPProcess(index int) int {
	a.RLock()
	r := a.arps[index]
	a.RUnlock()
	return int(r.processRequest())
}

// VerifAddNDP attaches an NDP responder named intf whose socket is a real
// ICMPv6 socket on ifi (needed for JoinGroup / LeaveGroup). No goroutine.
func (a *Announce) VerifAddNDP(index int, intf string, ifi *net.Interface) error {
	conn, _, err := ndp.Dial(ifi, ndp.LinkLocal)
	if err != nil {
		return err
	}
	a.Lock()
	defer a.Unlock()
	r := &ndpResponder{
		logger:       a.logger,
		intf:         intf,
		hardwareAddr: ifi.HardwareAddr,
		conn:         conn,
		closed:       make(chan struct{}),
		announce:     a.shouldAnnounce,
	}
	vInit(r, -1) // the group counters, whatever their key type
	a.ndps[index] = r
	return nil
}

// VerifNDPGroups returns the responder's solicited-node group counters keyed by the group
// address text (a missing entry is 0); ok=false when they cannot be read on this tree.
func (a *Announce) VerifNDPGroups(index int) (map[string]int64, bool) {
	a.RLock()
	defer a.RUnlock()
	return vIntMap(vField(a.ndps[index], "solicitedNodeGroups"), "solicitedNodeGroups")
}

// VerifClose closes the sockets of the attached responders.
func (a *Announce) VerifClose() {
	a.Lock()
	defer a.Unlock()
	for _, r := range a.ndps {
		r.conn.Close()
	}
	for _, r := range a.arps {
		r.conn.Close()
	}
}
