//go:build verif

package layer2

// Overlay-only helpers for the /verif harnesses (never committed to /repo).
// VerifNew builds an Announce WITHOUT the interface-scan and spam-loop
// goroutines and with a given interface list; responders are attached
// explicitly and are not started either (the harness calls processRequest).

import (
	"fmt"
	"net"
	"reflect"
	"regexp"
	"sync"
	"unsafe"

	"github.com/go-kit/log"
	"github.com/mdlayher/arp"
	"github.com/mdlayher/ndp"
)

// ---- accessor layer: unexported state is reached by field NAME through reflect, so that a
// change of representation (map key type, entries dropped at zero, ...) neither breaks the
// build of the harness nor its comparisons.  A field that is absent or of an unexpected kind
// is reported in VerifSkipped and the white-box comparison is skipped by the caller.

// VerifSkipped lists the white-box accesses that could not be made on this tree.
var VerifSkipped = map[string]bool{}

func vField(p any, name string) reflect.Value {
	v := reflect.ValueOf(p)
	for v.IsValid() && (v.Kind() == reflect.Ptr || v.Kind() == reflect.Interface) {
		if v.IsNil() {
			return reflect.Value{}
		}
		v = v.Elem()
	}
	if !v.IsValid() || v.Kind() != reflect.Struct {
		return reflect.Value{}
	}
	return v.FieldByName(name)
}

// vSet stores x into the (unexported) field name of *p when the types agree
func vSet(p any, name string, x reflect.Value) bool {
	f := vField(p, name)
	if !f.IsValid() || !f.CanAddr() || !x.Type().AssignableTo(f.Type()) {
		VerifSkipped["set:"+name] = true
		return false
	}
	reflect.NewAt(f.Type(), unsafe.Pointer(f.UnsafeAddr())).Elem().Set(x)
	return true
}

// vInit gives every nil map field of *p an empty map and every nil channel field a channel of
// the given capacity (what the constructors do), whatever the element types are
func vInit(p any, chanCap int) {
	v := reflect.ValueOf(p).Elem()
	for i := 0; i < v.NumField(); i++ {
		f := v.Field(i)
		w := reflect.NewAt(f.Type(), unsafe.Pointer(f.UnsafeAddr())).Elem()
		switch {
		case f.Kind() == reflect.Map && f.IsNil():
			w.Set(reflect.MakeMap(f.Type()))
		case f.Kind() == reflect.Chan && f.IsNil() && f.Type().ChanDir() == reflect.BothDir && chanCap >= 0:
			w.Set(reflect.MakeChan(f.Type(), chanCap))
		}
	}
}

// vKey renders a map key canonically: strings as they are (an IP text is re-rendered by
// net.IP.String), integers in decimal, byte arrays / slices of 4 or 16 bytes as an IP
func vKey(k reflect.Value) (string, bool) {
	switch k.Kind() {
	case reflect.String:
		if ip := net.ParseIP(k.String()); ip != nil {
			return ip.String(), true
		}
		return k.String(), true
	case reflect.Int, reflect.Int8, reflect.Int16, reflect.Int32, reflect.Int64:
		return fmt.Sprint(k.Int()), true
	case reflect.Uint, reflect.Uint8, reflect.Uint16, reflect.Uint32, reflect.Uint64:
		return fmt.Sprint(k.Uint()), true
	case reflect.Array, reflect.Slice:
		if k.Type().Elem().Kind() == reflect.Uint8 && (k.Len() == 4 || k.Len() == 16) {
			b := make(net.IP, k.Len())
			for i := range b {
				b[i] = byte(k.Index(i).Uint())
			}
			return b.String(), true
		}
	}
	return "", false
}

// vIntMap reads a map with integer values (missing entry == 0 for the caller)
func vIntMap(m reflect.Value, what string) (map[string]int64, bool) {
	if !m.IsValid() || m.Kind() != reflect.Map {
		VerifSkipped[what] = true
		return nil, false
	}
	out := map[string]int64{}
	it := m.MapRange()
	for it.Next() {
		k, ok := vKey(it.Key())
		if !ok {
			VerifSkipped[what] = true
			return nil, false
		}
		switch it.Value().Kind() {
		case reflect.Int, reflect.Int8, reflect.Int16, reflect.Int32, reflect.Int64:
			out[k] += it.Value().Int()
		case reflect.Uint, reflect.Uint8, reflect.Uint16, reflect.Uint32, reflect.Uint64:
			out[k] += int64(it.Value().Uint())
		default:
			VerifSkipped[what] = true
			return nil, false
		}
	}
	return out, true
}

// ---- by-TYPE access: the harness never names the fields that hold the responders, the queue, the
// logger.  It finds them by their type, also one level inside a struct (value or pointer) that is the
// element of a map / slice field of Announce (e.g. map[int]*linkResponders{arp, ndp}).

// vWritable returns a settable view of an addressable (possibly unexported) value
func vWritable(f reflect.Value) reflect.Value {
	return reflect.NewAt(f.Type(), unsafe.Pointer(f.UnsafeAddr())).Elem()
}

// vFill stores every value of vals into the first still-zero field of *p it is assignable to
// (fields are told apart by TYPE).  Returns the values that found no field.
func vFill(p any, vals ...any) (missing []string) {
	v := reflect.ValueOf(p).Elem()
	for _, x := range vals {
		xv := reflect.ValueOf(x)
		if xv.Kind() == reflect.Ptr && xv.Elem().Kind() == reflect.Interface { // *I: an interface value passed by pointer
			xv = xv.Elem()
		}
		done := false
		for i := 0; i < v.NumField() && !done; i++ {
			f := v.Field(i)
			if f.Type() == xv.Type() && f.IsZero() {
				vWritable(f).Set(xv)
				done = true
			}
		}
		if !done {
			missing = append(missing, xv.Type().String())
		}
	}
	return
}

// vFieldOfType returns the first field of *p whose type is t (invalid Value when there is none)
func vFieldOfType(p any, t reflect.Type) reflect.Value {
	v := reflect.ValueOf(p).Elem()
	for i := 0; i < v.NumField(); i++ {
		if v.Field(i).Type() == t {
			return v.Field(i)
		}
	}
	return reflect.Value{}
}

// vCollect appends to out every non-nil pointer of type t reachable from the fields of *a: a field
// of type t, a map / slice whose elements are t, or are structs / pointers to structs with a field of type t
func vCollect(a *Announce, t reflect.Type) []unsafe.Pointer {
	var out []unsafe.Pointer
	add := func(x reflect.Value) {
		if x.Type() == t && !x.IsNil() {
			out = append(out, x.UnsafePointer())
		}
	}
	elem := func(e reflect.Value) {
		if e.Type() == t {
			add(e)
			return
		}
		if e.Kind() == reflect.Ptr {
			if e.IsNil() {
				return
			}
			e = e.Elem()
		}
		if e.Kind() == reflect.Struct {
			for i := 0; i < e.NumField(); i++ {
				if e.Field(i).Type() == t {
					add(e.Field(i))
				}
			}
		}
	}
	v := reflect.ValueOf(a).Elem()
	for i := 0; i < v.NumField(); i++ {
		f := v.Field(i)
		switch {
		case f.Type() == t:
			add(f)
		case f.Kind() == reflect.Map:
			it := f.MapRange()
			for it.Next() {
				elem(it.Value())
			}
		case f.Kind() == reflect.Slice:
			for k := 0; k < f.Len(); k++ {
				elem(f.Index(k))
			}
		}
	}
	return out
}

// vAttach stores the responder r (a *arpResponder / *ndpResponder) under the interface index where the
// announcer keeps such responders: a map with an integer key whose element is r's type, or a struct /
// pointer to struct with a field of r's type (the entry is created when absent); or a slice of r's type.
func vAttach(a *Announce, index int, r any) bool {
	rv := reflect.ValueOf(r)
	t := rv.Type()
	slot := func(st reflect.Type) int { // index of the field of type t in struct type st, -1
		if st.Kind() != reflect.Struct {
			return -1
		}
		for i := 0; i < st.NumField(); i++ {
			if st.Field(i).Type == t {
				return i
			}
		}
		return -1
	}
	v := reflect.ValueOf(a).Elem()
	for i := 0; i < v.NumField(); i++ {
		f := v.Field(i)
		switch f.Kind() {
		case reflect.Slice:
			if f.Type().Elem() == t {
				w := vWritable(f)
				w.Set(reflect.Append(w, rv))
				return true
			}
		case reflect.Map:
			kt, et := f.Type().Key(), f.Type().Elem()
			if !reflect.TypeOf(index).ConvertibleTo(kt) || kt.Kind() == reflect.String {
				continue
			}
			key := reflect.ValueOf(index).Convert(kt)
			w := vWritable(f)
			if w.IsNil() {
				w.Set(reflect.MakeMap(f.Type()))
			}
			switch {
			case et == t:
				w.SetMapIndex(key, rv)
				return true
			case et.Kind() == reflect.Ptr && slot(et.Elem()) >= 0:
				e := w.MapIndex(key)
				if !e.IsValid() || e.IsNil() {
					e = reflect.New(et.Elem())
					w.SetMapIndex(key, e)
				}
				vWritable(e.Elem().Field(slot(et.Elem()))).Set(rv)
				return true
			case slot(et) >= 0:
				e := reflect.New(et).Elem()
				if old := w.MapIndex(key); old.IsValid() {
					e.Set(old)
				}
				vWritable(e.Field(slot(et))).Set(rv)
				w.SetMapIndex(key, e)
				return true
			}
		}
	}
	VerifSkipped["attach:"+t.String()] = true
	return false
}

// what the harness attached itself: responders and the sockets it opened for them, by announcer
type vAttached struct {
	arps    map[int]*arpResponder
	ndps    map[int]*ndpResponder
	closers []interface{ Close() error }
}

var (
	vAttMu sync.Mutex
	vAtt   = map[*Announce]*vAttached{}
)

func vAttOf(a *Announce) *vAttached {
	vAttMu.Lock()
	defer vAttMu.Unlock()
	x := vAtt[a]
	if x == nil {
		x = &vAttached{arps: map[int]*arpResponder{}, ndps: map[int]*ndpResponder{}}
		vAtt[a] = x
	}
	return x
}

// VerifNew returns an announcer that owns no goroutine: the fields New() initialises (maps,
// the queue towards the spam loop) are initialised by kind, not by type. SetBalancer queues the
// advertisement on the spam queue (capacity 1<<16); the caller drains it with VerifDrainSpam.
func VerifNew(l log.Logger, nodeInterfaces []string) *Announce {
	return VerifNewQueue(l, nodeInterfaces, 1<<16)
}

// VerifNewQueue builds the announcer as New() does, with the given capacity of the queue towards
// the gratuitous loop (production: 1024), WITHOUT interfaceScan (no raw sockets). The REAL
// spamLoop is started by VerifStartSpamLoop: SetBalancer -> doSpam -> queue -> spamLoop ->
// gratuitous is the production code path.
func VerifNewQueue(l log.Logger, nodeInterfaces []string, capacity int) *Announce {
	if l == nil {
		l = log.NewNopLogger()
	}
	a := &Announce{}
	for _, m := range vFill(a, &l, append([]string{}, nodeInterfaces...)) {
		VerifSkipped["new:"+m] = true
	}
	vInit(a, capacity)
	return a
}

// VerifExclude sets the announcer's interface exclusion expression (New()'s second argument).
func (a *Announce) VerifExclude(re *regexp.Regexp) bool {
	f := vFieldOfType(a, reflect.TypeOf(re))
	if !f.IsValid() {
		VerifSkipped["set:excludeRegexp"] = true
		return false
	}
	vWritable(f).Set(reflect.ValueOf(re))
	return true
}

// VerifUpdateInterfaces runs the REAL interface rescan once (it opens raw ARP / ICMPv6 sockets on
// the interfaces that are not excluded and starts their responders).
func (a *Announce) VerifUpdateInterfaces() { a.updateInterfaces() }

// VerifResponders returns the interface names that have an ARP / an NDP responder, wherever the
// announcer keeps them (found by type).
func (a *Announce) VerifResponders() (arps, ndps []string) {
	a.RLock()
	defer a.RUnlock()
	for _, p := range vCollect(a, reflect.TypeOf((*arpResponder)(nil))) {
		arps = append(arps, (*arpResponder)(p).Interface())
	}
	for _, p := range vCollect(a, reflect.TypeOf((*ndpResponder)(nil))) {
		ndps = append(ndps, (*ndpResponder)(p).Interface())
	}
	return
}

// VerifStartSpamLoop starts the real spam loop goroutine (it never terminates).
func (a *Announce) VerifStartSpamLoop() { go a.spamLoop() }

// VerifDrainSpam removes and returns what SetBalancer queued for the spam loop (the channel of
// advertisements, found by type).
func (a *Announce) VerifDrainSpam() []IPAdvertisement {
	var out []IPAdvertisement
	f := vFieldOfType(a, reflect.TypeOf((chan IPAdvertisement)(nil)))
	if !f.IsValid() {
		VerifSkipped["spam-queue"] = true
		return nil
	}
	ch := *(*chan IPAdvertisement)(unsafe.Pointer(f.UnsafeAddr()))
	for {
		select {
		case s := <-ch:
			out = append(out, s)
		default:
			return out
		}
	}
}

// VerifShouldAnnounce exposes shouldAnnounce (drop reason as int, 0 = answer).
func (a *Announce) VerifShouldAnnounce(ip net.IP, intf string) int {
	return int(a.shouldAnnounce(ip, intf))
}

// VerifGratuitous exposes gratuitous (what the spam loop calls).
func (a *Announce) VerifGratuitous(adv IPAdvertisement) { a.gratuitous(adv) }

// VerifRefcnt returns ipRefcnt keyed by the canonical address text (a missing entry is 0 for
// the caller, entries equal to 0 are dropped); ok=false when the field cannot be read that way on this tree.
func (a *Announce) VerifRefcnt() (map[string]int, bool) {
	a.RLock()
	defer a.RUnlock()
	m, ok := vIntMap(vField(a, "ipRefcnt"), "ipRefcnt")
	if !ok {
		return nil, false
	}
	out := map[string]int{}
	for k, v := range m {
		if v != 0 {
			out[k] = int(v)
		}
	}
	return out, true
}

// VerifServices returns the announced service names.
func (a *Announce) VerifServices() []string {
	a.RLock()
	defer a.RUnlock()
	var out []string
	f := vField(a, "ips")
	if !f.IsValid() || f.Kind() != reflect.Map || f.Type().Key().Kind() != reflect.String {
		VerifSkipped["ips"] = true
		return nil
	}
	for _, k := range f.MapKeys() {
		out = append(out, k.String())
	}
	return out
}

// VerifIP returns the advertisement's address (the net.IP field, found by type).
func (i IPAdvertisement) VerifIP() net.IP {
	v := reflect.ValueOf(&i).Elem()
	for k := 0; k < v.NumField(); k++ {
		if v.Field(k).Type() == reflect.TypeOf(net.IP(nil)) {
			return *(*net.IP)(unsafe.Pointer(v.Field(k).UnsafeAddr()))
		}
	}
	VerifSkipped["adv-ip"] = true
	return nil
}

// VerifAddARP attaches an ARP responder for interface name intf (interface index index) with
// hardware address mac, reading and writing on pc. No goroutine is started; VerifARPProcess
// handles exactly one packet.  The responder's fields are filled by TYPE.
func (a *Announce) VerifAddARP(index int, intf string, mac net.HardwareAddr, pc net.PacketConn) error {
	c, err := arp.New(&net.Interface{Index: 1<<20 + index, Name: intf, HardwareAddr: mac, MTU: 1500}, pc)
	if err != nil {
		return err
	}
	a.Lock()
	defer a.Unlock()
	r := &arpResponder{}
	lg := a.vLogger()
	if miss := vFill(r, &lg, intf, mac, c, make(chan struct{}), announceFunc(a.shouldAnnounce)); len(miss) > 0 {
		return fmt.Errorf("arpResponder has no field for %v on this tree", miss)
	}
	vInit(r, -1)
	if !vAttach(a, index, r) {
		return fmt.Errorf("the announcer has no place for a *arpResponder on this tree")
	}
	x := vAttOf(a)
	x.arps[index] = r
	x.closers = append(x.closers, c)
	return nil
}

func (a *Announce) vLogger() log.Logger {
	f := vFieldOfType(a, reflect.TypeOf((*log.Logger)(nil)).Elem())
	if f.IsValid() && !f.IsNil() {
		return *(*log.Logger)(unsafe.Pointer(f.UnsafeAddr()))
	}
	return log.NewNopLogger()
}

// VerifARPProcess runs arpResponder.processRequest once on the responder attached under index.
func (a *Announce) VerifARPProcess(index int) int {
	vAttMu.Lock()
	r := vAtt[a].arps[index]
	vAttMu.Unlock()
	return int(r.processRequest())
}

// VerifARPRun starts the REAL receive loop of the responder attached under index (arpResponder.run:
// processRequest until it reports dropReasonClosed), as newARPResponder does.
func (a *Announce) VerifARPRun(index int) {
	vAttMu.Lock()
	r := vAtt[a].arps[index]
	vAttMu.Unlock()
	go r.run()
}

// VerifAddNDP attaches an NDP responder named intf whose socket is a real
// ICMPv6 socket on ifi (needed for JoinGroup / LeaveGroup). No goroutine.
func (a *Announce) VerifAddNDP(index int, intf string, ifi *net.Interface) error {
	conn, _, err := ndp.Dial(ifi, ndp.LinkLocal)
	if err != nil {
		return err
	}
	a.Lock()
	defer a.Unlock()
	r := &ndpResponder{}
	lg := a.vLogger()
	if miss := vFill(r, &lg, intf, ifi.HardwareAddr, conn, make(chan struct{}), announceFunc(a.shouldAnnounce)); len(miss) > 0 {
		conn.Close()
		return fmt.Errorf("ndpResponder has no field for %v on this tree", miss)
	}
	vInit(r, -1) // the group counters, whatever their key type
	if !vAttach(a, index, r) {
		conn.Close()
		return fmt.Errorf("the announcer has no place for a *ndpResponder on this tree")
	}
	x := vAttOf(a)
	x.ndps[index] = r
	x.closers = append(x.closers, conn)
	return nil
}

// VerifNDPGroups returns the responder's solicited-node group counters keyed by the group
// address text (a missing entry is 0); ok=false when they cannot be read on this tree.
func (a *Announce) VerifNDPGroups(index int) (map[string]int64, bool) {
	a.RLock()
	defer a.RUnlock()
	vAttMu.Lock()
	r := vAtt[a].ndps[index]
	vAttMu.Unlock()
	return vIntMap(vField(r, "solicitedNodeGroups"), "solicitedNodeGroups")
}

// VerifClose closes the sockets of the responders the harness attached, and those of the responders
// the real interface rescan created (found by type; their Close method).
func (a *Announce) VerifClose() {
	a.Lock()
	defer a.Unlock()
	vAttMu.Lock()
	x := vAtt[a]
	delete(vAtt, a)
	vAttMu.Unlock()
	mine := map[unsafe.Pointer]bool{}
	if x != nil {
		for _, c := range x.closers {
			c.Close()
		}
		for _, r := range x.arps {
			mine[unsafe.Pointer(r)] = true
		}
		for _, r := range x.ndps {
			mine[unsafe.Pointer(r)] = true
		}
	}
	for _, p := range vCollect(a, reflect.TypeOf((*ndpResponder)(nil))) {
		if !mine[p] {
			(*ndpResponder)(p).Close()
		}
	}
	for _, p := range vCollect(a, reflect.TypeOf((*arpResponder)(nil))) {
		if !mine[p] {
			(*arpResponder)(p).Close()
		}
	}
}
