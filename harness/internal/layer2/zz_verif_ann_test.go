//go:build verif

package layer2

// Harness for C13: drives the REAL Announce (built by the overlay constructor
// VerifNew, no background goroutines) through random histories of announce /
// re-announce with a changed interface set / withdraw and
//  (a) ships what it observes after every operation to Coq (Model/Announcer.v),
//  (b) evaluates the property itself on the observations (oracle written from
//      the statement: "answers iff some announced service holds the address
//      with an advertisement covering the interface", reference counts,
//      ARP reply iff request && (broadcast || own MAC) && answer, nothing
//      unsolicited for an address nobody holds, group counters balanced).
// TestVerifAnnConc does the same with 4 goroutines issuing requests while the
// history is applied; every answer must be explained by a prefix of the
// update log inside the window the request overlapped.

import (
	"encoding/json"
	"fmt"
	"io"
	"math/big"
	"math/rand"
	"net"
	"os"
	"os/exec"
	"regexp"
	"runtime"
	"sort"
	"strings"
	"sync"
	"sync/atomic"
	"syscall"
	"testing"
	"time"

	"github.com/go-kit/log"
	"github.com/mdlayher/arp"
	"github.com/mdlayher/ethernet"
	"github.com/mdlayher/ndp"
	"github.com/prometheus/client_golang/prometheus"
	"k8s.io/apimachinery/pkg/types"
	"k8s.io/apimachinery/pkg/util/sets"
)

// ---------------------------------------------------------------- universe

var vaSvcs = []string{"ns/s0", "ns/s1", "default/s2", "kube-system/s3"}
var vaIfs = []string{"eth0", "eth1", "eth2", "eth3"}

const vaNoRespIf = "eth9" // an interface name with no responder
const vaNoRespIfID = 9

var vaV4 = []string{"10.0.0.1", "10.0.0.2", "192.168.1.20", "172.16.5.255"}

// two addresses in ONE solicited-node group and one in another; the low 24 bits are drawn per
// process so that concurrent runs on this machine join different multicast groups (the kernel's
// membership table is observed)
var vaV6 = func() []string {
	x := uint32(os.Getpid())*2654435761 ^ uint32(time.Now().UnixNano())
	a, b := x&0xffffff, (x>>4^0x5a5a5a)&0xffffff
	if a == b {
		b ^= 1
	}
	return []string{
		fmt.Sprintf("fc00::1:%x:%x", a>>16, a&0xffff),
		fmt.Sprintf("fc00::2:%x:%x", a>>16, a&0xffff),
		fmt.Sprintf("2001:db8::%x:%x", b>>16, b&0xffff),
	}
}()

// kernel view (black box): how many sockets have joined the group on the interface, from
// /proc/net/igmp6 ("idx name group users flags timer")
func vaKernelMembers(ifname, group string) (int, bool) {
	b, err := os.ReadFile("/proc/net/igmp6")
	if err != nil {
		return 0, false
	}
	want := fmt.Sprintf("%x", []byte(net.ParseIP(group).To16()))
	for _, line := range strings.Split(string(b), "\n") {
		f := strings.Fields(line)
		if len(f) >= 4 && f[1] == ifname && f[2] == want {
			n := 0
			fmt.Sscan(f[3], &n)
			return n, true
		}
	}
	return 0, true
}

const vaNever4 = "10.9.9.9"
const vaNever6 = "fc00::9"

var vaMACs = []net.HardwareAddr{
	{0x02, 0, 0, 0, 0, 0x10}, {0x02, 0, 0, 0, 0, 0x11}, {0x02, 0, 0, 0, 0, 0x12}, {0x02, 0, 0, 0, 0, 0x13},
}
var vaOtherMAC = net.HardwareAddr{6, 5, 4, 3, 2, 1}
var vaSrcMAC = net.HardwareAddr{1, 2, 3, 4, 5, 6}

var vaDrops = []string{"DNone", "DClosed", "DError", "DArpReply", "DMsgType", "DNoSourceLL", "DEthDst", "DAnnounceIP", "DNotMatchIntf"}

func vaAllIPs() []string {
	out := append([]string{}, vaV4...)
	out = append(out, vaV6...)
	return append(out, vaNever4, vaNever6)
}

func vaIfID(name string) int {
	if name == vaNoRespIf {
		return vaNoRespIfID
	}
	for i, n := range vaIfs {
		if n == name {
			return i
		}
	}
	panic(name)
}

func vaIsV4(s string) bool { return net.ParseIP(s).To4() != nil }

func vaCoqIP(s string) string {
	ip := net.ParseIP(s)
	if v4 := ip.To4(); v4 != nil {
		return "(V4 " + cBigN(new(big.Int).SetBytes(v4)) + ")"
	}
	return "(V6 " + cBigN(new(big.Int).SetBytes(ip.To16())) + ")"
}

func vaMacN(m net.HardwareAddr) string { return cBigN(new(big.Int).SetBytes(m)) }

// solicited-node group of an IPv6 address as the model's number (low 24 bits)
func vaGroupN(s string) uint64 {
	b := net.ParseIP(s).To16()
	return uint64(b[13])<<16 | uint64(b[14])<<8 | uint64(b[15])
}
func vaGroupKey(s string) string {
	g, err := ndp.SolicitedNodeMulticast(net.ParseIP(s))
	if err != nil {
		panic(err)
	}
	return g.String()
}

// ---------------------------------------------------------------- operations

type vaAdv struct {
	IP  string   `json:"ip"`
	All bool     `json:"all"`
	Ifs []string `json:"ifs"`
	// 0: 16-byte form as net.ParseIP returns, 1: 4-byte form (v4 only)
	Form int `json:"form"`
}

type vaOp struct {
	Kind string `json:"kind"` // "set" | "del"
	Svc  int    `json:"svc"`
	Adv  vaAdv  `json:"adv"`
}

func (a vaAdv) real() IPAdvertisement {
	ip := net.ParseIP(a.IP)
	if a.Form == 1 {
		if v4 := ip.To4(); v4 != nil {
			ip = v4
		}
	}
	return NewIPAdvertisement(ip, a.All, sets.New(a.Ifs...))
}

func (a vaAdv) coq() string {
	ids := make([]int, 0, len(a.Ifs))
	for _, n := range a.Ifs {
		ids = append(ids, vaIfID(n))
	}
	sort.Ints(ids)
	return cCtor("mk_adv", vaCoqIP(a.IP), cBool(a.All), cListN(ids))
}

func (o vaOp) coq() string {
	if o.Kind == "set" {
		return cCtor("USet", cNi(o.Svc), o.Adv.coq())
	}
	return cCtor("UDel", cNi(o.Svc))
}

func (a vaAdv) covers(intf string) bool {
	if a.All {
		return true
	}
	for _, n := range a.Ifs {
		if n == intf {
			return true
		}
	}
	return false
}

// the statement's view of the world: service -> address -> advertisement
type vaSpec map[int]map[string]vaAdv

func (w vaSpec) clone() vaSpec {
	c := vaSpec{}
	for s, m := range w {
		c[s] = map[string]vaAdv{}
		for k, v := range m {
			c[s][k] = v
		}
	}
	return c
}

func (w vaSpec) apply(o vaOp) {
	if o.Kind == "set" {
		if w[o.Svc] == nil {
			w[o.Svc] = map[string]vaAdv{}
		}
		w[o.Svc][o.Adv.IP] = o.Adv
		return
	}
	delete(w, o.Svc)
}

func (w vaSpec) holders(ip string) int {
	n := 0
	for _, m := range w {
		if _, ok := m[ip]; ok {
			n++
		}
	}
	return n
}

// 0 answer, 7 address not held, 8 held but not on this interface
func (w vaSpec) answer(ip, intf string) int {
	held := false
	for _, m := range w {
		if a, ok := m[ip]; ok {
			held = true
			if a.covers(intf) {
				return 0
			}
		}
	}
	if held {
		return int(dropReasonNotMatchInterface)
	}
	return int(dropReasonAnnounceIP)
}

func (w vaSpec) arp(intf string, mac net.HardwareAddr, op int, dst net.HardwareAddr, target string) int {
	if op != 1 {
		return int(dropReasonARPReply)
	}
	if dst.String() != ethernet.Broadcast.String() && dst.String() != mac.String() {
		return int(dropReasonEthernetDestination)
	}
	return w.answer(target, intf)
}

// arpReasons: EVERY reason that applies to the packet (the property does not fix which one the
// responder reports when several do: the code may test them in any order); empty = answered
func (w vaSpec) arpReasons(intf string, mac net.HardwareAddr, op int, dst net.HardwareAddr, target string) []int {
	var rs []int
	if op != 1 {
		rs = append(rs, int(dropReasonARPReply))
	}
	if dst.String() != ethernet.Broadcast.String() && dst.String() != mac.String() {
		rs = append(rs, int(dropReasonEthernetDestination))
	}
	if d := w.answer(target, intf); d != 0 {
		rs = append(rs, d)
	}
	return rs
}

// vaAdmissible: got is "answered" (0) exactly when no reason applies, otherwise one of the applicable reasons
func vaAdmissible(rs []int, got int) bool {
	if len(rs) == 0 {
		return got == 0
	}
	for _, r := range rs {
		if r == got {
			return true
		}
	}
	return false
}

func vaGenAdv(r *rand.Rand, ip string) vaAdv {
	a := vaAdv{IP: ip, Form: r.Intn(2)}
	switch r.Intn(6) {
	case 0, 1:
		a.All = true
		if r.Intn(2) == 0 { // interfaces given but irrelevant
			a.Ifs = []string{vaIfs[r.Intn(len(vaIfs))]}
		}
	case 2:
		a.Ifs = nil // matches nothing
	default:
		pool := append(append([]string{}, vaIfs...), vaNoRespIf)
		for _, n := range pool {
			if r.Intn(3) == 0 {
				a.Ifs = append(a.Ifs, n)
			}
		}
	}
	return a
}

func vaGenOp(r *rand.Rand, w vaSpec) vaOp {
	all := append(append([]string{}, vaV4...), vaV6...)
	switch x := r.Intn(10); {
	case x < 4: // announce
		return vaOp{Kind: "set", Svc: r.Intn(len(vaSvcs)), Adv: vaGenAdv(r, all[r.Intn(len(all))])}
	case x < 6: // re-announce an existing (service, address) with another interface set
		var cands []vaOp
		for s, m := range w {
			for ip := range m {
				cands = append(cands, vaOp{Kind: "set", Svc: s, Adv: vaAdv{IP: ip}})
			}
		}
		if len(cands) == 0 {
			return vaOp{Kind: "set", Svc: r.Intn(len(vaSvcs)), Adv: vaGenAdv(r, all[r.Intn(len(all))])}
		}
		sort.Slice(cands, func(i, j int) bool {
			if cands[i].Svc != cands[j].Svc {
				return cands[i].Svc < cands[j].Svc
			}
			return cands[i].Adv.IP < cands[j].Adv.IP
		})
		c := cands[r.Intn(len(cands))]
		c.Adv = vaGenAdv(r, c.Adv.IP)
		return c
	case x < 7: // share an address another service already holds
		var ips []string
		for _, m := range w {
			for ip := range m {
				ips = append(ips, ip)
			}
		}
		if len(ips) == 0 {
			return vaOp{Kind: "set", Svc: r.Intn(len(vaSvcs)), Adv: vaGenAdv(r, all[r.Intn(len(all))])}
		}
		sort.Strings(ips)
		return vaOp{Kind: "set", Svc: r.Intn(len(vaSvcs)), Adv: vaGenAdv(r, ips[r.Intn(len(ips))])}
	default: // withdraw (possibly a service that is not announced)
		return vaOp{Kind: "del", Svc: r.Intn(len(vaSvcs))}
	}
}

// ---------------------------------------------------------------- in-process packet connection

type vaAddr struct{}

func (vaAddr) Network() string { return "verif" }
func (vaAddr) String() string  { return "verif" }

type vaPC struct {
	in     chan []byte
	nb, nu atomic.Int64 // broadcast / unicast frames written
	ipMu   sync.Mutex
	byIP   map[string]int // broadcast (unsolicited) frames per sender address
	lb, lu int64          // counts at the last take()
	closed chan struct{}
	once   sync.Once
}

func vaNewPC() *vaPC { return &vaPC{in: make(chan []byte, 8), closed: make(chan struct{})} }

func (p *vaPC) ReadFrom(b []byte) (int, net.Addr, error) {
	select {
	case f := <-p.in:
		return copy(b, f), vaAddr{}, nil
	case <-p.closed:
		return 0, nil, io.EOF
	}
}
func (p *vaPC) WriteTo(b []byte, _ net.Addr) (int, error) {
	var e ethernet.Frame
	if err := e.UnmarshalBinary(b); err != nil {
		panic(err)
	}
	if e.Destination.String() == ethernet.Broadcast.String() {
		p.nb.Add(1)
		var pkt arp.Packet
		if pkt.UnmarshalBinary(e.Payload) == nil {
			p.ipMu.Lock()
			if p.byIP == nil {
				p.byIP = map[string]int{}
			}
			p.byIP[pkt.SenderIP.String()]++
			p.ipMu.Unlock()
		}
	} else {
		p.nu.Add(1)
	}
	return len(b), nil
}
func (p *vaPC) Close() error                     { p.once.Do(func() { close(p.closed) }); return nil }
func (p *vaPC) LocalAddr() net.Addr              { return vaAddr{} }
func (p *vaPC) SetDeadline(time.Time) error      { return nil }
func (p *vaPC) SetReadDeadline(time.Time) error  { return nil }
func (p *vaPC) SetWriteDeadline(time.Time) error { return nil }

// take returns the frames written since the last take: broadcast (unsolicited
// announcements) and unicast (replies). Single-threaded use only.
func (p *vaPC) take() (bcast, ucast int) {
	b, u := p.nb.Load(), p.nu.Load()
	bcast, ucast = int(b-p.lb), int(u-p.lu)
	p.lb, p.lu = b, u
	return
}

func (p *vaPC) bcastCount() int { return int(p.nb.Load()) }

// vaFrame: dst is the destination of the ETHERNET header, tha the target-hardware-address field of
// the ARP payload; the two are chosen independently (a unicast probe carries a zero THA, a frame
// for another station may carry this node's MAC as THA).
var vaZeroMAC = net.HardwareAddr{0, 0, 0, 0, 0, 0}

// vaMalformed: frames the ethernet / ARP parsers of the real read path reject (what a NIC hands over
// on a noisy segment): a runt ethernet frame, an ARP frame with a truncated header, an ARP header whose
// hardware-address length exceeds the frame.  The socket is NOT closed: the responder must drop them
// and go on.
func vaMalformed(kind int, dst net.HardwareAddr) []byte {
	switch kind {
	case 0: // runt: shorter than an ethernet header
		return []byte{0xff, 0xff, 0xff, 0xff, 0xff, 0xff}
	case 1: // ARP ethertype, 5 bytes of ARP header
		b, _ := (&ethernet.Frame{Destination: dst, Source: vaSrcMAC, EtherType: ethernet.EtherTypeARP, Payload: []byte{0, 1, 8, 0, 6}}).MarshalBinary()
		return b
	default: // hardware type 1, protocol 0x0800, hlen 0xff, plen 4, op 1
		b, _ := (&ethernet.Frame{Destination: dst, Source: vaSrcMAC, EtherType: ethernet.EtherTypeARP,
			Payload: []byte{0x00, 0x01, 0x08, 0x00, 0xff, 0x04, 0x00, 0x01, 2, 0, 0, 0, 0, 9}}).MarshalBinary()
		return b
	}
}

// a well-formed frame of ANOTHER protocol (IPv4 ethertype): the ARP client skips it inside Read
func vaForeignFrame(dst net.HardwareAddr) []byte {
	b, _ := (&ethernet.Frame{Destination: dst, Source: vaSrcMAC, EtherType: ethernet.EtherTypeIPv4, Payload: make([]byte, 46)}).MarshalBinary()
	return b
}

func vaFrame(op int, dst, tha net.HardwareAddr, target string) []byte {
	pkt, err := arp.NewPacket(arp.Operation(op), vaSrcMAC, net.IPv4(192, 168, 1, 1), tha, net.ParseIP(target))
	if err != nil {
		panic(err)
	}
	pb, _ := pkt.MarshalBinary()
	eth := &ethernet.Frame{Destination: dst, Source: vaSrcMAC, EtherType: ethernet.EtherTypeARP, Payload: pb}
	b, err := eth.MarshalBinary()
	if err != nil {
		panic(err)
	}
	return b
}

// ---------------------------------------------------------------- the system under test

type vaSUT struct {
	realIf string // the interface the NDP sockets are bound to
	a      *Announce
	pcs    []*vaPC // per ARP responder
	narp   int
	ndps   []int // interface ids with an NDP responder
}

func vaLinkLocalIf() *net.Interface {
	ifs, err := net.Interfaces()
	if err != nil {
		return nil
	}
	for i := range ifs {
		ifi := ifs[i]
		if ifi.Flags&net.FlagUp == 0 || ifi.HardwareAddr == nil {
			continue
		}
		addrs, _ := ifi.Addrs()
		for _, ad := range addrs {
			if n, ok := ad.(*net.IPNet); ok && n.IP.To4() == nil && n.IP.IsLinkLocalUnicast() {
				return &ifi
			}
		}
	}
	return nil
}

func vaNewSUT(narp int, nndp int) *vaSUT {
	s := &vaSUT{a: VerifNew(log.NewNopLogger(), vaIfs), narp: narp}
	for i := 0; i < narp; i++ {
		pc := vaNewPC()
		if err := s.a.VerifAddARP(i, vaIfs[i], vaMACs[i], pc); err != nil {
			panic(fmt.Sprintf("VerifAddARP: %v", err))
		}
		s.pcs = append(s.pcs, pc)
	}
	if os.Getenv("VERIF_NO_NDP") == "" {
		if ifi := vaLinkLocalIf(); ifi != nil {
			s.realIf = ifi.Name
			for i := 0; i < nndp; i++ {
				if err := s.a.VerifAddNDP(i, vaIfs[i], ifi); err != nil {
					break
				}
				s.ndps = append(s.ndps, i)
			}
		}
	}
	return s
}

func (s *vaSUT) close() { s.a.VerifClose() }

func (s *vaSUT) apply(o vaOp) {
	if o.Kind == "set" {
		s.a.SetBalancer(vaSvcs[o.Svc], o.Adv.real())
	} else {
		s.a.DeleteBalancer(vaSvcs[o.Svc])
	}
}

// value of metallb_layer2_gratuitous_sent{ip=...} (incremented once per packet
// by both responders); read through the registry so that no module that is
// only an indirect dependency of metallb has to be imported here.
func vaGratCounter(ip string) float64 {
	want := net.ParseIP(ip).String()
	mfs, err := prometheus.DefaultGatherer.Gather()
	if err != nil {
		panic(err)
	}
	for _, mf := range mfs {
		if mf.GetName() != "metallb_layer2_gratuitous_sent" {
			continue
		}
		for _, m := range mf.GetMetric() {
			for _, l := range m.GetLabel() {
				if l.GetName() == "ip" && l.GetValue() == want {
					return m.GetCounter().GetValue()
				}
			}
		}
	}
	return 0
}

// gratuitous on the real announcer; returns the ARP responders that sent
// (each must send exactly 2 broadcast frames) and the NDP send count.
func (s *vaSUT) gratuitous(adv vaAdv) (arps []int, ndpSent int, bad string) {
	for _, pc := range s.pcs {
		pc.take()
	}
	before := vaGratCounter(adv.IP)
	s.a.VerifGratuitous(adv.real())
	after := vaGratCounter(adv.IP)
	narpFrames := 0
	for i, pc := range s.pcs {
		b, u := pc.take()
		if u != 0 {
			bad = fmt.Sprintf("gratuitous wrote %d unicast frames on %s", u, vaIfs[i])
		}
		if b != 0 {
			if b != 2 {
				bad = fmt.Sprintf("gratuitous wrote %d broadcast frames on %s (want 2: request+reply)", b, vaIfs[i])
			}
			arps = append(arps, i)
			narpFrames += b
		}
	}
	ndpSent = int(after-before) - narpFrames
	return
}

// ---------------------------------------------------------------- sequential histories

type vaHist struct {
	Ops []vaOp `json:"ops"`
}

func TestVerifAnn(t *testing.T) {
	out := vOpen()
	defer out.Close()
	r := vRand()
	n := vN(40)
	var replay *vaHist
	if p := os.Getenv("VERIF_REPLAY"); p != "" {
		if b, err := os.ReadFile(p); err == nil {
			var obj struct {
				Replay struct {
					Ops []vaOp `json:"ops"`
				} `json:"replay"`
			}
			if json.Unmarshal(b, &obj) == nil && len(obj.Replay.Ops) > 0 {
				replay = &vaHist{Ops: obj.Replay.Ops}
				n = 1
			}
		}
	}
	for id := 0; id < n; id++ {
		steps := 6 + r.Intn(10)
		if vThorough() {
			steps = 10 + r.Intn(30)
		}
		vaRunHistory(out, r, id, steps, replay)
	}
}

func vaRunHistory(out *vOut, r *rand.Rand, id, steps int, replay *vaHist) {
	sut := vaNewSUT(3, 2)
	defer sut.close()
	out.Stat("ndp_responders", len(sut.ndps))
	w := vaSpec{}
	var ops []vaOp
	var coqSteps []string
	allIPs := vaAllIPs()
	matrixIfs := append(append([]string{}, vaIfs...), vaNoRespIf)
	arpSteps := map[int]bool{r.Intn(steps): true, r.Intn(steps): true, steps - 1: true}
	if replay != nil {
		steps = len(replay.Ops)
	}
	failed := false
	fail := func(sig, what string) {
		if failed {
			return
		}
		failed = true
		out.Fail(sig, what, map[string]any{"ops": ops, "history": id,
			"how": "VERIF_REPLAY=<this file> ./check C13 re-runs exactly these operations on the real Announce"})
	}
	for k := 0; k < steps; k++ {
		var op vaOp
		if replay != nil {
			op = replay.Ops[k]
		} else {
			op = vaGenOp(r, w)
		}
		ops = append(ops, op)
		prev := w.clone()
		w.apply(op)
		sut.apply(op)
		out.Stat("op_"+op.Kind, 1)
		if op.Kind == "set" {
			if _, ok := prev[op.Svc][op.Adv.IP]; ok {
				out.Stat("reannounce_same_address", 1)
			} else if prev.holders(op.Adv.IP) > 0 {
				out.Stat("announce_shared_address", 1)
			}
		} else if prev[op.Svc] == nil {
			out.Stat("withdraw_unknown", 1)
		} else {
			for ip := range prev[op.Svc] {
				if w.holders(ip) > 0 {
					out.Stat("withdraw_one_of_many", 1)
				} else {
					out.Stat("withdraw_last", 1)
				}
			}
		}
		var obs []string

		// what SetBalancer queued for the spam loop
		queued := sut.a.VerifDrainSpam()
		if op.Kind == "set" {
			if len(queued) != 1 || !queued[0].VerifIP().Equal(net.ParseIP(op.Adv.IP)) {
				fail("l2-spam-queue", fmt.Sprintf("SetBalancer queued %d advertisements for the spam loop, want exactly the announced one", len(queued)))
			}
		} else if len(queued) != 0 {
			fail("l2-spam-queue", "DeleteBalancer queued an unsolicited announcement")
		}

		// answer matrix + drop reasons
		for _, ip := range allIPs {
			for _, intf := range matrixIfs {
				got := sut.a.VerifShouldAnnounce(net.ParseIP(ip), intf)
				want := w.answer(ip, intf)
				if got == 0 && want != 0 {
					fail("l2-answer-not-held", fmt.Sprintf("after %d ops the announcer answers for %s on %s although no announced service holds it there", k+1, ip, intf))
				} else if got != 0 && want == 0 {
					fail("l2-no-answer-held", fmt.Sprintf("after %d ops the announcer does not answer (reason %d) for %s on %s although a service holds it there", k+1, got, ip, intf))
				} else if got != want {
					fail("l2-drop-reason", fmt.Sprintf("drop reason %d, want %d for %s on %s", got, want, ip, intf))
				}
				if want == 0 { // generator coverage is counted on the statement's side
					out.Stat("answers", 1)
				} else if want == int(dropReasonNotMatchInterface) {
					out.Stat("refused_interface", 1)
				}
				obs = append(obs, cCtor("OShould", vaCoqIP(ip), cNi(vaIfID(intf)), vaDrops[got]))
			}
		}
		// reference counts
		rcs, rcOK := sut.a.VerifRefcnt()
		if !rcOK {
			out.Stat("whitebox_skipped:ipRefcnt", 1)
		}
		for _, ip := range allIPs {
			if !rcOK {
				break
			}
			got := rcs[net.ParseIP(ip).String()]
			if got != w.holders(ip) {
				fail("l2-refcnt", fmt.Sprintf("after %d ops ipRefcnt[%s] = %d, but %d services hold it", k+1, ip, got, w.holders(ip)))
			}
			if w.holders(ip) >= 2 {
				out.Stat("refcnt>=2", 1)
			}
			obs = append(obs, cCtor("ORc", vaCoqIP(ip), cZ(int64(got))))
		}
		for s := range vaSvcs {
			got := sut.a.AnnounceName(vaSvcs[s])
			if got != (w[s] != nil) {
				fail("l2-announce-name", fmt.Sprintf("AnnounceName(%s) = %v", vaSvcs[s], got))
			}
			obs = append(obs, cCtor("OName", cNi(s), cBool(got)))
		}
		// solicited-node group counters of the NDP responders
		for _, nd := range sut.ndps {
			gs, gsOK := sut.a.VerifNDPGroups(nd)
			if !gsOK {
				out.Stat("whitebox_skipped:solicitedNodeGroups", 1)
				continue
			}
			seen := map[uint64]bool{}
			for _, ip := range vaV6 {
				g := vaGroupN(ip)
				if seen[g] {
					continue
				}
				seen[g] = true
				want := 0
				for _, ip2 := range vaV6 {
					if vaGroupN(ip2) == g && w.holders(ip2) > 0 {
						want++
					}
				}
				got := int(gs[vaGroupKey(ip)])
				if got != want {
					fail("l2-ndp-groups", fmt.Sprintf("after %d ops responder %s counts %d watchers of group %s, %d announced addresses map to it", k+1, vaIfs[nd], got, vaGroupKey(ip), want))
				}
				if want >= 2 {
					out.Stat("group_shared_by_2_addresses", 1)
				}
				obs = append(obs, cCtor("OGrp", cNi(nd), cN(g), cZ(int64(got))))
			}
		}
		// black box: the kernel's membership of the NDP sockets in the solicited-node groups
		if len(sut.ndps) > 0 {
			seen := map[uint64]bool{}
			for _, ip := range vaV6 {
				g := vaGroupN(ip)
				if seen[g] {
					continue
				}
				seen[g] = true
				announced := false
				for _, ip2 := range vaV6 {
					if vaGroupN(ip2) == g && w.holders(ip2) > 0 {
						announced = true
					}
				}
				want := 0
				if announced {
					want = len(sut.ndps) // one socket per responder
				}
				got, ok := vaKernelMembers(sut.realIf, vaGroupKey(ip))
				if !ok {
					out.Stat("blackbox_skipped:igmp6", 1)
					continue
				}
				out.Stat("kernel_membership_checked", 1)
				if got != want {
					fail("l2-ndp-membership", fmt.Sprintf("after %d ops %d sockets are joined to group %s on %s (kernel), want %d: %d responders, group announced = %v", k+1, got, vaGroupKey(ip), sut.realIf, want, len(sut.ndps), announced))
				}
				obs = append(obs, cCtor("OMemSum", cN(g), cZ(int64(got))))
			}
		}
		// unsolicited announcements: the advertisement just queued (if any), and a stale / foreign one
		var gadvs []vaAdv
		if op.Kind == "set" {
			gadvs = append(gadvs, op.Adv)
		}
		all := append(append([]string{}, vaV4...), vaV6...)
		gadvs = append(gadvs, vaGenAdv(r, all[r.Intn(len(all))]))
		if op.Kind == "del" && prev[op.Svc] != nil { // the advertisement the spam loop may still hold
			var ks []string
			for ip := range prev[op.Svc] {
				ks = append(ks, ip)
			}
			sort.Strings(ks)
			gadvs = append(gadvs, prev[op.Svc][ks[0]])
		}
		for _, ga := range gadvs {
			arps, ndpSent, bad := sut.gratuitous(ga)
			if bad != "" {
				fail("l2-gratuitous-frames", bad)
			}
			held := w.holders(ga.IP) > 0
			if !held && (len(arps) > 0 || ndpSent > 0) {
				fail("l2-gratuitous-unheld", fmt.Sprintf("after %d ops an unsolicited announcement for %s was sent although no service holds it", k+1, ga.IP))
			}
			if !held {
				out.Stat("gratuitous_refused", 1)
			}
			var wantArps []int
			wantNdp := 0
			if held && vaIsV4(ga.IP) {
				for i := 0; i < sut.narp; i++ {
					if ga.covers(vaIfs[i]) {
						wantArps = append(wantArps, i)
					}
				}
			}
			if held && !vaIsV4(ga.IP) {
				for _, nd := range sut.ndps {
					if ga.covers(vaIfs[nd]) {
						wantNdp++
					}
				}
			}
			if fmt.Sprint(arps) != fmt.Sprint(wantArps) || ndpSent != wantNdp {
				fail("l2-gratuitous-scope", fmt.Sprintf("unsolicited announcement for %s went to ARP responders %v / %d NDP responders, want %v / %d", ga.IP, arps, ndpSent, wantArps, wantNdp))
			}
			if len(wantArps) > 0 || wantNdp > 0 {
				out.Stat("gratuitous_sent", 1)
			}
			if vaIsV4(ga.IP) {
				var items []string
				for _, i := range arps {
					items = append(items, cPair("true", cNi(i)))
				}
				obs = append(obs, cCtor("OGrat", ga.coq(), cList(items)))
			} else {
				obs = append(obs, cCtor("OGratN", ga.coq(), cNi(ndpSent)))
			}
		}
		// ARP packets through the real responder: all operations x destinations x targets
		for resp := 0; resp < sut.narp; resp++ {
			ship := arpSteps[k] && resp == (k+id)%sut.narp
			dsts := []net.HardwareAddr{ethernet.Broadcast, vaMACs[resp], vaMACs[(resp+1)%len(vaMACs)], vaOtherMAC}
			for _, opn := range []int{1, 2, 0, 3, 8} {
				for _, dst := range dsts {
					// requests: every THA (zero / own MAC / another station / broadcast) against every
					// Ethernet destination and every target; other operations (never answered, whatever
					// the rest): THA equal to the destination or the own MAC, two targets, rotating
					thas := []net.HardwareAddr{vaZeroMAC, vaMACs[resp], vaOtherMAC, ethernet.Broadcast}
					tgts := append(append([]string{}, vaV4...), vaNever4)
					if opn != 1 {
						thas = []net.HardwareAddr{[]net.HardwareAddr{dst, vaMACs[resp]}[(k+opn)%2]}
						tgts = []string{vaV4[(k+opn+id)%len(vaV4)], vaNever4}
					}
					for _, tha := range thas {
						for _, tgt := range tgts {
							sut.pcs[resp].take()
							sut.pcs[resp].in <- vaFrame(opn, dst, tha, tgt)
							got := sut.a.VerifARPProcess(resp)
							_, replies := sut.pcs[resp].take()
							reasons := w.arpReasons(vaIfs[resp], vaMACs[resp], opn, dst, tgt)
							out.Stat("arp_packets", 1)
							if len(reasons) >= 2 {
								out.Stat("arp_packets_with_several_applicable_reasons", 1)
							}
							if len(reasons) == 0 {
								out.Stat("arp_replies", 1)
							}
							if (got == 0) != (replies == 1) || replies > 1 {
								fail("l2-arp-reply-frames", fmt.Sprintf("drop reason %d but %d reply frames written", got, replies))
							}
							if got == 0 && opn != 1 {
								fail("l2-arp-reply-nonrequest", fmt.Sprintf("ARP responder on %s replied to a packet with operation %d (not a request) for %s", vaIfs[resp], opn, tgt))
							} else if got == 0 && dst.String() != ethernet.Broadcast.String() && dst.String() != vaMACs[resp].String() {
								fail("l2-arp-reply-wrong-destination", fmt.Sprintf("ARP responder on %s (MAC %s) replied to a request whose Ethernet destination is %s (neither broadcast nor its own address), ARP target hardware address %s", vaIfs[resp], vaMACs[resp], dst, tha))
							} else if !vaAdmissible(reasons, got) {
								fail("l2-arp-decision", fmt.Sprintf("ARP responder on %s (MAC %s): op %d Ethernet destination %s ARP target hardware address %s target %s: drop reason %d (0 = answered), applicable reasons %v (none = must be answered; which of several is reported is free)", vaIfs[resp], vaMACs[resp], opn, dst, tha, tgt, got, reasons))
							}
							if ship {
								obs = append(obs, cCtor("OArp", cNi(resp), vaMacN(vaMACs[resp]), cNi(opn), vaMacN(dst), vaMacN(tha), vaCoqIP(tgt), vaDrops[got], cBool(replies == 1)))
							}
						}
					}
				}
			}
			// frames the parsers reject, through the same read path, each followed by a well-formed
			// broadcast request: the malformed frame is dropped WITHOUT being taken for the end of the
			// socket (run() would exit) and the request after it is answered as usual; a frame of
			// another protocol is skipped inside the read
			for kind := 0; kind < 4; kind++ {
				tgt := append(append([]string{}, vaV4...), vaNever4)[(k+kind+resp)%(len(vaV4)+1)]
				sut.pcs[resp].take()
				if kind < 3 {
					sut.pcs[resp].in <- vaMalformed(kind, []net.HardwareAddr{ethernet.Broadcast, vaMACs[resp]}[(k+kind)%2])
					got := sut.a.VerifARPProcess(resp)
					_, replies := sut.pcs[resp].take()
					out.Stat("arp_malformed_frames", 1)
					if got == int(dropReasonClosed) {
						fail("l2-arp-malformed-frame-ends-responder", fmt.Sprintf("ARP responder on %s: a malformed frame (kind %d: 0 runt, 1 truncated ARP header, 2 hardware-address length 0xff) on an OPEN socket is reported as dropReasonClosed: arpResponder.run() exits and the interface never answers again", vaIfs[resp], kind))
					} else if got == 0 || replies != 0 {
						fail("l2-arp-malformed-frame-answered", fmt.Sprintf("ARP responder on %s answered a malformed frame (kind %d): drop reason %d, %d reply frames", vaIfs[resp], kind, got, replies))
					}
					if ship {
						obs = append(obs, cCtor("OArpBad", cNi(resp), vaDrops[got], cBool(replies != 0)))
					}
					if got == int(dropReasonClosed) {
						continue
					}
				} else {
					sut.pcs[resp].in <- vaForeignFrame(ethernet.Broadcast)
				}
				sut.pcs[resp].in <- vaFrame(1, ethernet.Broadcast, vaZeroMAC, tgt)
				got := sut.a.VerifARPProcess(resp)
				_, replies := sut.pcs[resp].take()
				reasons := w.arpReasons(vaIfs[resp], vaMACs[resp], 1, ethernet.Broadcast, tgt)
				if !vaAdmissible(reasons, got) || (got == 0) != (replies == 1) {
					fail("l2-arp-after-malformed", fmt.Sprintf("ARP responder on %s: request for %s after a malformed / foreign frame (kind %d): drop reason %d, %d reply frames, applicable reasons %v", vaIfs[resp], tgt, kind, got, replies, reasons))
				}
				if len(reasons) == 0 {
					out.Stat("arp_replies_after_malformed", 1)
				}
				if ship {
					obs = append(obs, cCtor("OArp", cNi(resp), vaMacN(vaMACs[resp]), cNi(1), vaMacN(ethernet.Broadcast), vaMacN(vaZeroMAC), vaCoqIP(tgt), vaDrops[got], cBool(replies == 1)))
				}
			}
		}
		coqSteps = append(coqSteps, cPair(op.coq(), cList(obs)))
	}
	term := cCtor("mk_acase", cNi(id), cListN(seq(sut.narp)), cListN(sut.ndps), cList(coqSteps))
	out.Case(id, "history", term, map[string]any{"ops": ops})
}

func seq(n int) []int {
	out := make([]int, n)
	for i := range out {
		out[i] = i
	}
	return out
}

// ---------------------------------------------------------------- concurrent requests during updates

type vaReq struct {
	Kind   string `json:"kind"` // arp | should | name | grat
	Resp   int    `json:"resp"`
	Op     int    `json:"op"`
	Dst    string `json:"dst"`
	Target string `json:"target"`
	Intf   string `json:"intf"`
	Svc    int    `json:"svc"`
	Adv    vaAdv  `json:"adv"`
	Got    int    `json:"got"`
	Sent   []int  `json:"sent,omitempty"`
	Lo     int    `json:"lo"`
	Hi     int    `json:"hi"`
	Tha    string `json:"tha"`
	dst    net.HardwareAddr
	tha    net.HardwareAddr
}

func (q vaReq) expect(w vaSpec) (int, []int) {
	switch q.Kind {
	case "arp":
		return w.arp(vaIfs[q.Resp], vaMACs[q.Resp], q.Op, q.dst, q.Target), nil
	case "should":
		return w.answer(q.Target, q.Intf), nil
	case "name":
		if w[q.Svc] != nil {
			return 1, nil
		}
		return 0, nil
	}
	var sent []int
	if w.holders(q.Adv.IP) > 0 {
		for i := range vaIfs {
			if q.Adv.covers(vaIfs[i]) {
				sent = append(sent, i)
			}
		}
	}
	return 0, sent
}

func (q vaReq) coq() string {
	var qs, as string
	switch q.Kind {
	case "arp":
		qs = cCtor("QArp", cNi(q.Resp), vaMacN(vaMACs[q.Resp]), cNi(q.Op), vaMacN(q.dst), vaCoqIP(q.Target))
		as = cCtor("ADrop", vaDrops[q.Got])
	case "should":
		qs = cCtor("QShould", vaCoqIP(q.Target), cNi(vaIfID(q.Intf)))
		as = cCtor("ADrop", vaDrops[q.Got])
	case "name":
		qs = cCtor("QName", cNi(q.Svc))
		as = cCtor("ABool", cBool(q.Got == 1))
	default:
		qs = cCtor("QGrat", q.Adv.coq())
		var items []string
		for _, i := range q.Sent {
			items = append(items, cPair("true", cNi(i)))
		}
		as = cCtor("ASent", cList(items))
	}
	return cCtor("mk_treq", qs, as, cNat(q.Lo), cNat(q.Hi))
}

func TestVerifAnnConc(t *testing.T) {
	out := vOpen()
	defer out.Close()
	r := vRand()
	runs := vN(3)
	for id := 0; id < runs; id++ {
		vaRunConc(out, r, id)
	}
}

func vaRunConc(out *vOut, r *rand.Rand, id int) {
	const nreq = 4
	sut := vaNewSUT(nreq, 0) // v4 only: gratuitous must not touch real sockets concurrently
	defer sut.close()
	nupd := 150
	if vThorough() {
		nupd = 600
	}
	v4only := func(o vaOp) bool { return o.Kind == "del" || vaIsV4(o.Adv.IP) }
	// the update log and the statement's view after every prefix
	w := vaSpec{}
	specs := []vaSpec{w.clone()}
	var ops []vaOp
	for len(ops) < nupd {
		o := vaGenOp(r, w)
		if !v4only(o) {
			continue
		}
		ops = append(ops, o)
		w.apply(o)
		specs = append(specs, w.clone())
	}
	var started, done atomic.Int64
	var stop atomic.Bool
	recs := make([][]vaReq, nreq)
	var wg sync.WaitGroup
	for g := 0; g < nreq; g++ {
		wg.Add(1)
		rg := rand.New(rand.NewSource(r.Int63()))
		go func(g int, rg *rand.Rand) {
			defer wg.Done()
			tgts := append(append([]string{}, vaV4...), vaNever4)
			for !stop.Load() {
				var q vaReq
				switch x := rg.Intn(10); {
				case x < 6:
					dsts := []net.HardwareAddr{ethernet.Broadcast, vaMACs[g], vaOtherMAC}
					thas := []net.HardwareAddr{vaZeroMAC, vaMACs[g], vaOtherMAC, ethernet.Broadcast}
					q = vaReq{Kind: "arp", Resp: g, Op: []int{1, 1, 1, 2, 3}[rg.Intn(5)], dst: dsts[rg.Intn(3)], tha: thas[rg.Intn(4)], Target: tgts[rg.Intn(len(tgts))]}
					q.Dst, q.Tha = q.dst.String(), q.tha.String()
				case x < 8:
					q = vaReq{Kind: "should", Target: tgts[rg.Intn(len(tgts))], Intf: append(append([]string{}, vaIfs...), vaNoRespIf)[rg.Intn(5)]}
				case x < 9 || g != 0:
					q = vaReq{Kind: "name", Svc: rg.Intn(len(vaSvcs))}
				default: // only goroutine 0 sends unsolicited announcements (frames are attributed to it)
					q = vaReq{Kind: "grat", Adv: vaGenAdv(rg, vaV4[rg.Intn(len(vaV4))])}
				}
				q.Lo = int(done.Load())
				switch q.Kind {
				case "arp":
					sut.pcs[g].in <- vaFrame(q.Op, q.dst, q.tha, q.Target)
					q.Got = sut.a.VerifARPProcess(g)
				case "should":
					q.Got = sut.a.VerifShouldAnnounce(net.ParseIP(q.Target), q.Intf)
				case "name":
					if sut.a.AnnounceName(vaSvcs[q.Svc]) {
						q.Got = 1
					}
				case "grat":
					before := make([]int, nreq)
					for i, pc := range sut.pcs {
						before[i] = pc.bcastCount()
					}
					sut.a.VerifGratuitous(q.Adv.real())
					for i, pc := range sut.pcs {
						if pc.bcastCount() != before[i] {
							q.Sent = append(q.Sent, i)
						}
					}
				}
				q.Hi = int(started.Load())
				recs[g] = append(recs[g], q)
				if len(recs[g])%64 == 0 {
					runtime.Gosched()
				}
			}
		}(g, rg)
	}
	for i, o := range ops {
		started.Store(int64(i + 1))
		sut.apply(o)
		done.Store(int64(i + 1))
		sut.a.VerifDrainSpam()
		if i%8 == 0 {
			time.Sleep(time.Duration(20+r.Intn(80)) * time.Microsecond)
		} else {
			runtime.Gosched()
		}
	}
	stop.Store(true)
	wg.Wait()
	// every answer must be explained by a prefix of the update log inside its window
	var coqReqs []string
	total, overlapped := 0, 0
	for g := range recs {
		shipped := 0
		for _, q := range recs[g] {
			total++
			if q.Hi > q.Lo {
				overlapped++
			}
			ok := false
			for k := q.Lo; k <= q.Hi && !ok; k++ {
				wantD, wantS := q.expect(specs[k])
				switch q.Kind {
				case "grat":
					ok = fmt.Sprint(wantS) == fmt.Sprint(q.Sent)
				case "arp": // any applicable drop label
					ok = vaAdmissible(specs[k].arpReasons(vaIfs[q.Resp], vaMACs[q.Resp], q.Op, q.dst, q.Target), q.Got)
				default:
					ok = wantD == q.Got
				}
			}
			if !ok {
				out.Fail("l2-concurrent-unexplained",
					fmt.Sprintf("request %s (%s) answered %d/%v between update %d and %d: no prefix of the update log in that window explains the answer", q.Kind, q.Target, q.Got, q.Sent, q.Lo, q.Hi),
					map[string]any{"updates": ops[:q.Hi], "request": q, "run": id})
			}
			// ship a sample to Coq, preferring requests that overlapped an update
			if shipped < 120 && (q.Hi > q.Lo || shipped < 40) {
				coqReqs = append(coqReqs, q.coq())
				shipped++
			}
		}
	}
	out.Stat("conc_requests", total)
	out.Stat("conc_requests_overlapping_an_update", overlapped)
	var us []string
	for _, o := range ops {
		us = append(us, o.coq())
	}
	term := cCtor("mk_tcase", cNi(id), cListN(seq(nreq)), "[]", cList(us), cList(coqReqs))
	out.Case(id, "concurrent", term, map[string]any{"updates": len(ops), "requests": total, "overlapping": overlapped})
}

// ---------------------------------------------------------------- C20: the queue towards the gratuitous loop

// TestVerifSpamQueue (used by ./check C20): "no deadlocks". The announcer is built as New()
// builds it but with a SMALL queue towards the real spamLoop (production: 1024 entries, filled
// when more addresses than that are re-processed in a burst), so that the queue is full while
// the loop is busy.  Schedule 1 (deterministic): the queue is full, the loop is not consuming,
// one more service is announced (its handler waits for room) — GetStatus / shouldAnnounce /
// AnnounceName must still complete, and the handler completes once the loop runs.
// Schedule 2: the real loop runs, many services are announced and re-processed for longer
// than one 1.1 s period of the loop; a watchdog fails when no SetBalancer / GetStatus
// completes for 3 s.
func TestVerifSpamQueue(t *testing.T) {
	out := vOpen()
	defer out.Close()
	r := vRand()
	svc := func(i int) (string, IPAdvertisement) {
		ip := net.IPv4(10, byte(i>>16), byte(i>>8), byte(i))
		return fmt.Sprintf("ns/svc-%d", i), NewIPAdvertisement(ip, true, sets.New[string]())
	}
	within := func(d time.Duration, f func()) bool {
		done := make(chan struct{})
		go func() { f(); close(done) }()
		select {
		case <-done:
			return true
		case <-time.After(d):
			return false
		}
	}

	// schedule 1
	capacity := 2 + r.Intn(14)
	a := VerifNewQueue(log.NewNopLogger(), vaIfs, capacity)
	for i := 0; i < capacity; i++ {
		n, adv := svc(i)
		if !within(3*time.Second, func() { a.SetBalancer(n, adv) }) {
			out.Fail("c20-spam-queue-blocked", fmt.Sprintf("SetBalancer %d of %d did not complete although the queue (capacity %d) has room", i+1, capacity, capacity), map[string]any{"capacity": capacity})
			return
		}
	}
	lastName, lastAdv := svc(capacity)
	handlerDone := make(chan struct{})
	go func() { a.SetBalancer(lastName, lastAdv); close(handlerDone) }() // waits for room in the queue
	time.Sleep(200 * time.Millisecond)
	replay := map[string]any{"schedule": fmt.Sprintf("queue capacity %d; %d SetBalancer calls fill it while spamLoop is not consuming; SetBalancer #%d waits for room; then GetStatus / shouldAnnounce / AnnounceName are called", capacity, capacity, capacity+1),
		"how": "./check C20 (go test -race -tags verif -run TestVerifSpamQueue$ ./internal/layer2 with the overlay harness)"}
	var st []IPAdvertisement
	var stMu sync.Mutex
	fetchOK := within(3*time.Second, func() {
		x := a.GetStatus(types.NamespacedName{Namespace: "ns", Name: fmt.Sprintf("svc-%d", capacity)})
		stMu.Lock()
		st = x
		stMu.Unlock()
	})
	respOK := within(3*time.Second, func() { a.VerifShouldAnnounce(net.IPv4(10, 0, 0, 0), "eth0"); a.AnnounceName(lastName) })
	if !fetchOK {
		out.Fail("c20-deadlock-send-under-lock", "the layer-2 status fetcher GetStatus hangs: a service handler waits for room in the gratuitous queue while holding the announcer lock", replay)
	}
	if !respOK { // C13: a held address is not answered for
		out.Fail("l2-responder-blocked", "the responders' shouldAnnounce (and AnnounceName) hang: no ARP/NDP request for an announced address is answered while a service handler waits for room in the gratuitous queue holding the announcer lock", replay)
	}
	stMu.Lock()
	if fetchOK && (len(st) != 1 || !st[0].Equal(&lastAdv)) {
		out.Fail("c20-spam-queue-status", fmt.Sprintf("GetStatus during the wait returned %v, want the new advertisement", st), replay)
	}
	stMu.Unlock()
	a.VerifStartSpamLoop()
	select {
	case <-handlerDone:
		out.Stat("spamqueue_handler_released_by_loop", 1)
	case <-time.After(8 * time.Second):
		out.Fail("c20-deadlock-send-under-lock", "the waiting service handler never completed after the gratuitous loop started draining the queue", replay)
	}

	// schedule 2
	cap2 := 4 + r.Intn(60)
	b := VerifNewQueue(log.NewNopLogger(), vaIfs, cap2)
	for i := 0; i < 3; i++ { // responders, so that the gratuitous sweep has clients to iterate over
		if err := b.VerifAddARP(i, vaIfs[i], vaMACs[i], vaNewPC()); err != nil {
			panic(err)
		}
	}
	b.VerifStartSpamLoop()
	services := 200 + r.Intn(200)
	run := 1600 * time.Millisecond
	if vThorough() {
		run = 6 * time.Second
	}
	var progress, fetched atomic.Int64
	var stop atomic.Bool
	done := make(chan struct{})
	go func() {
		defer close(done)
		for end := time.Now().Add(run); time.Now().Before(end) && !stop.Load(); {
			for i := 0; i < services && !stop.Load(); i++ {
				n, adv := svc(i)
				b.SetBalancer(n, adv)
				progress.Add(1)
			}
		}
	}()
	go func() {
		for i := 0; !stop.Load(); i++ {
			if len(b.GetStatus(types.NamespacedName{Namespace: "ns", Name: fmt.Sprintf("svc-%d", i%services)})) > 0 {
				fetched.Add(1)
			}
			time.Sleep(200 * time.Microsecond)
		}
	}()
	last, lastChange := int64(-1), time.Now()
	for finished := false; !finished; {
		select {
		case <-done:
			finished = true
		case <-time.After(100 * time.Millisecond):
		}
		if p := progress.Load() + fetched.Load(); p != last {
			last, lastChange = p, time.Now()
		} else if time.Since(lastChange) > 3*time.Second {
			out.Fail("c20-deadlock-announcer",
				fmt.Sprintf("deadlock: no SetBalancer / GetStatus completed in the last 3 s (stuck after %d service events) while the real spamLoop sweeps: service handler, gratuitous loop and status fetcher wait for each other on the announcer lock / queue", progress.Load()),
				map[string]any{"schedule": fmt.Sprintf("queue capacity %d, real spamLoop; %d services announced and re-processed in a loop for %v (more than one 1.1 s period of the loop) while GetStatus is polled", cap2, services, run),
					"how": replay["how"]})
			finished = true
		}
	}
	stop.Store(true)
	out.Stat("spamqueue_service_events", int(progress.Load()))
	out.Stat("spamqueue_status_fetches", int(fetched.Load()))
	out.Case(0, "spam-queue", "tt", map[string]any{"capacity1": capacity, "capacity2": cap2, "services": services, "events": progress.Load()})
}

// ---------------------------------------------------------------- the REAL interface rescan

func vaIP(args ...string) error {
	out, err := exec.Command("ip", args...).CombinedOutput()
	if err != nil {
		return fmt.Errorf("ip %v: %v %s", args, err, out)
	}
	return nil
}

func vaHasLinkLocal(name string) bool {
	ifi, err := net.InterfaceByName(name)
	if err != nil || ifi.Flags&net.FlagUp == 0 {
		return false
	}
	addrs, _ := ifi.Addrs()
	for _, ad := range addrs {
		if n, ok := ad.(*net.IPNet); ok && n.IP.To4() == nil && n.IP.IsLinkLocalUnicast() {
			return true
		}
	}
	return false
}

// TestVerifRescan drives the REAL Announce.updateInterfaces (real raw sockets, real responders)
// on a veth pair created for the test, interleaved with announce / withdraw: interfaces that
// appear after addresses were announced, go down, come back.  After every step the kernel's
// multicast membership per (interface, solicited-node group), the responder sets and the
// answers are checked against the statement and shipped to the model (Model/AnnouncerExt.v
// [rescan]).  Needs CAP_NET_ADMIN; skipped (counted) otherwise.  First scenario = corpus
// witness of F29 (corpus/C13/F29-late-ndp-responder.json).
func TestVerifRescan(t *testing.T) {
	out := vOpen()
	defer out.Close()
	r := vRand()
	tag := os.Getpid() % 100000
	ifA, ifB := fmt.Sprintf("vf%da", tag), fmt.Sprintf("vf%db", tag)
	exec.Command("ip", "link", "del", ifA).Run()
	if err := vaIP("link", "add", ifA, "type", "veth", "peer", "name", ifB); err != nil {
		out.Stat("rescan_skipped:cannot-create-veth", 1)
		return
	}
	defer exec.Command("ip", "link", "del", ifA).Run()
	exec.Command("sysctl", "-qw", "net.ipv6.conf."+ifA+".accept_dad=0", "net.ipv6.conf."+ifB+".accept_dad=0").Run()
	// every other interface of the machine is excluded from the rescan
	var others []string
	all, _ := net.Interfaces()
	for _, ifi := range all {
		if ifi.Name != ifA && ifi.Name != ifB {
			others = append(others, regexp.QuoteMeta(ifi.Name))
		}
	}
	a := VerifNewQueue(log.NewNopLogger(), nil, 1<<12)
	defer a.VerifClose()
	if !a.VerifExclude(regexp.MustCompile("^(" + strings.Join(others, "|") + ")$")) {
		out.Stat("rescan_skipped:no-exclude-field", 1)
		return
	}
	ifID := map[string]int{ifA: 1, ifB: 2}
	w := vaSpec{}
	type step struct {
		what string
		coq  string
	}
	var steps []string
	var trace []string
	failed := false
	fail := func(sig, what string) {
		if !failed {
			failed = true
			out.Fail(sig, what, map[string]any{"steps": trace, "interfaces": []string{ifA, ifB},
				"how": "./check C13 (TestVerifRescan: real updateInterfaces on a veth pair; needs root)"})
		}
	}
	waitLL := func(names ...string) {
		for end := time.Now().Add(4 * time.Second); time.Now().Before(end); time.Sleep(50 * time.Millisecond) {
			ok := true
			for _, n := range names {
				ok = ok && vaHasLinkLocal(n)
			}
			if ok {
				return
			}
		}
	}
	observe := func(ev, what string) {
		trace = append(trace, what)
		arps, ndps := a.VerifResponders()
		sort.Strings(arps)
		sort.Strings(ndps)
		var obs []string
		// answers
		for _, ip := range append(append([]string{}, vaV6...), vaV4[0], vaNever6) {
			for _, intf := range []string{ifA, ifB} {
				got := a.VerifShouldAnnounce(net.ParseIP(ip), intf)
				want := w.answer(ip, intf)
				if got != want {
					fail("l2-rescan-answer", fmt.Sprintf("after %q: shouldAnnounce(%s, %s) = %d, want %d", what, ip, intf, got, want))
				}
				obs = append(obs, cCtor("OShould", vaCoqIP(ip), cNi(ifID[intf]), vaDrops[got]))
			}
		}
		// kernel membership per (interface, group): 1 iff the interface has an NDP responder and an
		// announced address maps to the group
		seen := map[uint64]bool{}
		for _, ip := range vaV6 {
			g := vaGroupN(ip)
			if seen[g] {
				continue
			}
			seen[g] = true
			announced := false
			for _, ip2 := range vaV6 {
				if vaGroupN(ip2) == g && w.holders(ip2) > 0 {
					announced = true
				}
			}
			for _, intf := range []string{ifA, ifB} {
				has := false
				for _, n := range ndps {
					has = has || n == intf
				}
				want := 0
				if has && announced {
					want = 1
				}
				got, ok := vaKernelMembers(intf, vaGroupKey(ip))
				if !ok {
					out.Stat("blackbox_skipped:igmp6", 1)
					continue
				}
				out.Stat("rescan_membership_checked", 1)
				if want == 1 {
					out.Stat("rescan_membership_joined", 1)
				}
				if got != want {
					fail("l2-rescan-membership", fmt.Sprintf("after %q: %d sockets joined to %s on %s (kernel), want %d (NDP responder there: %v, group announced: %v)", what, got, vaGroupKey(ip), intf, want, has, announced))
				}
				obs = append(obs, cCtor("OMem", cNi(ifID[intf]), cN(g), cZ(int64(got))))
			}
		}
		steps = append(steps, cPair(ev, cList(obs)))
	}
	set := func(svc int, adv vaAdv) {
		w.apply(vaOp{Kind: "set", Svc: svc, Adv: adv})
		a.SetBalancer(vaSvcs[svc], adv.real())
		a.VerifDrainSpam()
		ids := []int{}
		for _, n := range adv.Ifs {
			ids = append(ids, ifID[n])
		}
		sort.Ints(ids)
		observe(cCtor("CSet", cNi(svc), cCtor("mk_adv", vaCoqIP(adv.IP), cBool(adv.All), cListN(ids))), fmt.Sprintf("SetBalancer %s %s all=%v %v", vaSvcs[svc], adv.IP, adv.All, adv.Ifs))
	}
	del := func(svc int) {
		w.apply(vaOp{Kind: "del", Svc: svc})
		a.DeleteBalancer(vaSvcs[svc])
		observe(cCtor("CDel", cNi(svc)), "DeleteBalancer "+vaSvcs[svc])
	}
	rescan := func(what string) {
		a.VerifUpdateInterfaces()
		arps, ndps := a.VerifResponders()
		var ar, nd []int
		for _, n := range arps {
			ar = append(ar, ifID[n])
		}
		for _, n := range ndps {
			nd = append(nd, ifID[n])
		}
		sort.Ints(ar)
		sort.Ints(nd)
		out.Stat("rescan_steps", 1)
		if len(nd) > 0 {
			out.Stat("rescan_with_ndp_responders", 1)
		}
		observe(cCtor("CRescan", cListN(ar), cListN(nd)), fmt.Sprintf("%s; updateInterfaces -> ARP %v NDP %v", what, arps, ndps))
	}
	up := func(names ...string) {
		for _, n := range names {
			if err := vaIP("link", "set", n, "up"); err != nil {
				panic(err)
			}
		}
		waitLL(names...)
	}
	down := func(n string) {
		if err := vaIP("link", "set", n, "down"); err != nil {
			panic(err)
		}
		time.Sleep(100 * time.Millisecond)
	}
	allIf := func(ip string) vaAdv { return vaAdv{IP: ip, All: true} }

	// F29 witness: announced before the interfaces exist, then they come up
	rescan("no interface up yet")
	set(0, allIf(vaV6[0]))
	set(1, allIf(vaV4[0]))
	up(ifA, ifB)
	rescan("veth pair up")
	set(2, vaAdv{IP: vaV6[2], Ifs: []string{ifA}})
	set(1, allIf(vaV6[1])) // second address in the group of vaV6[0]
	down(ifA)
	rescan(ifA + " down")
	del(0)
	up(ifA)
	rescan(ifA + " up again")
	del(1)
	// a few random steps
	for k := 0; k < 6; k++ {
		switch r.Intn(4) {
		case 0:
			set(r.Intn(3), allIf(vaV6[r.Intn(len(vaV6))]))
		case 1:
			del(r.Intn(3))
		case 2:
			down(ifA)
			rescan(ifA + " down")
		default:
			up(ifA)
			rescan(ifA + " up")
		}
	}
	out.Case(0, "rescan", cCtor("mk_xcase", cNi(0), cList(steps)), map[string]any{"steps": trace})
}

func (p *vaPC) sentFor(ip string) int {
	p.ipMu.Lock()
	defer p.ipMu.Unlock()
	return p.byIP[net.ParseIP(ip).String()]
}

// ---------------------------------------------------------------- the REAL spam loop

// TestVerifSpamLoop: the real spamLoop goroutine (1.1 s ticker) with two ARP responders over
// in-process connections.  Statement (C13_x_withdraw_last / C13_x_unsolicited_sound): an
// unsolicited announcement is sent right away for a new address and repeated at the next tick
// on the responders the LATEST advertisement covers; after the last holder is withdrawn nothing
// more is sent for the address, whatever the loop still has queued or is repeating.
func TestVerifSpamLoop(t *testing.T) {
	out := vOpen()
	defer out.Close()
	a := VerifNewQueue(log.NewNopLogger(), vaIfs, 64)
	defer a.VerifClose()
	pcs := []*vaPC{vaNewPC(), vaNewPC()}
	for i, pc := range pcs {
		if err := a.VerifAddARP(i, vaIfs[i], vaMACs[i], pc); err != nil {
			panic(err)
		}
	}
	a.VerifStartSpamLoop()
	A, B, C := vaV4[0], vaV4[1], vaV4[2]
	var trace []string
	fail := func(what string) {
		out.Fail("l2-spamloop", what, map[string]any{"steps": trace, "how": "./check C13 (TestVerifSpamLoop, real spamLoop, 1.1 s ticker)"})
	}
	count := func(ip string) [2]int { return [2]int{pcs[0].sentFor(ip), pcs[1].sentFor(ip)} }
	step := func(s string) { trace = append(trace, s) }
	all := func(ip string) IPAdvertisement { return NewIPAdvertisement(net.ParseIP(ip), true, sets.New[string]()) }

	step("SetBalancer s0 A all; SetBalancer s1 B all; SetBalancer s2 B all; SetBalancer s3 C all")
	a.SetBalancer(vaSvcs[0], all(A))
	a.SetBalancer(vaSvcs[1], all(B))
	a.SetBalancer(vaSvcs[2], all(B))
	a.SetBalancer(vaSvcs[3], all(C))
	time.Sleep(250 * time.Millisecond)
	if c := count(A); c != [2]int{2, 2} {
		fail(fmt.Sprintf("right after announcing A: %v broadcast frames for A on (eth0, eth1), want 2 each (request+reply)", c))
	}
	// the REAL receive loop (arpResponder.run) of a third responder across malformed frames: a frame the
	// parsers reject on an open socket must not end the loop; the request after it is answered
	{
		pc := vaNewPC()
		if err := a.VerifAddARP(2, vaIfs[2], vaMACs[2], pc); err != nil {
			panic(err)
		}
		a.VerifARPRun(2)
		ask := func() bool { // a broadcast request for A; true when a unicast reply is written within 2 s
			before := pc.nu.Load()
			pc.in <- vaFrame(1, ethernet.Broadcast, vaZeroMAC, A)
			for i := 0; i < 400; i++ {
				if pc.nu.Load() > before {
					return true
				}
				time.Sleep(5 * time.Millisecond)
			}
			return false
		}
		step("run loop on " + vaIfs[2] + ": request for A")
		if !ask() {
			fail("the running ARP responder does not answer a request for the announced address A")
		} else {
			for kind := 0; kind < 3; kind++ {
				step(fmt.Sprintf("run loop: malformed frame kind %d (0 runt, 1 truncated ARP header, 2 hardware-address length 0xff), then a request for A", kind))
				pc.in <- vaMalformed(kind, ethernet.Broadcast)
				if !ask() {
					out.Fail("l2-arp-malformed-frame-ends-responder", fmt.Sprintf("after ONE malformed frame (kind %d) the running ARP responder on %s never answers again (no reply to a request for the announced address %s within 2 s) while shouldAnnounce still says %d (0 = answer)", kind, vaIfs[2], A, a.VerifShouldAnnounce(net.ParseIP(A), vaIfs[2])),
						map[string]any{"steps": trace, "how": "./check C13 (TestVerifSpamLoop: real arpResponder.run over an in-memory PacketConn)"})
					break
				}
				out.Stat("runloop_answers_after_malformed", 1)
			}
		}
	}
	step("DeleteBalancer s3 (last holder of C); DeleteBalancer s1 (one of two holders of B); SetBalancer s0 A only eth0")
	a.DeleteBalancer(vaSvcs[3])
	a.DeleteBalancer(vaSvcs[1])
	a.SetBalancer(vaSvcs[0], NewIPAdvertisement(net.ParseIP(A), false, sets.New(vaIfs[0])))
	time.Sleep(150 * time.Millisecond)
	a0, b0, c0 := count(A), count(B), count(C)
	step("one tick of the spam loop (1.1 s)")
	time.Sleep(1300 * time.Millisecond)
	a1, b1, c1 := count(A), count(B), count(C)
	out.Stat("spamloop_tick_frames_A", a1[0]-a0[0])
	if c1 != c0 {
		fail(fmt.Sprintf("unsolicited announcements for C continue after its last holder was withdrawn: %v -> %v", c0, c1))
	}
	if b1[0] <= b0[0] || b1[1] <= b0[1] {
		fail(fmt.Sprintf("unsolicited announcements for B stopped although one of two holders remains: %v -> %v", b0, b1))
	}
	if a1[0] <= a0[0] {
		fail(fmt.Sprintf("A is not repeated on eth0 at the tick: %v -> %v", a0, a1))
	}
	if a1[1] != a0[1] {
		fail(fmt.Sprintf("A is still announced on eth1 after it was re-announced for eth0 only: %v -> %v", a0, a1))
	}
	step("DeleteBalancer s2 (last holder of B), then another tick")
	a.DeleteBalancer(vaSvcs[2])
	time.Sleep(100 * time.Millisecond)
	b2 := count(B)
	time.Sleep(1200 * time.Millisecond)
	if b3 := count(B); b3 != b2 {
		fail(fmt.Sprintf("unsolicited announcements for B continue after its last holder was withdrawn: %v -> %v", b2, b3))
	}
	out.Case(0, "spam-loop", "tt", map[string]any{"steps": trace, "A": count(A), "B": count(B), "C": count(C)})
}

// ---------------------------------------------------------------- multicast joins that fail (F30)

// TestVerifJoinFailure: REAL responders (real updateInterfaces, raw ICMPv6 sockets) on a veth pair
// in a PRIVATE network namespace (unshare; nothing of the machine is touched), where a join can be
// made to fail: the namespace's socket option memory limit (net.core.optmem_max) is set to 1 around
// a SetBalancer, so that IPV6_JOIN_GROUP returns ENOBUFS.  Black box: the kernel's membership per
// (interface, group) after every operation.  Statement (C13_j_groups): membership is 0 or 1, 0 when
// no announced address maps to the group, exactly "announced" when no join has failed so far — and
// it recovers: after a failed join, a withdrawal and a new announcement the group is joined.  The
// first history is the F30 witness (corpus/C13/F30-join-failure-desync.json).  Shipped to the model
// (Model/AnnouncerJoin.v).  Skipped (counted) without the privilege to unshare.
func TestVerifJoinFailure(t *testing.T) {
	out := vOpen()
	defer out.Close()
	r := vRand()
	runtime.LockOSThread() // stays locked: this thread lives in the private namespace and ends with the test
	if err := syscall.Unshare(syscall.CLONE_NEWNET); err != nil {
		out.Stat("joinfailure_skipped:cannot-unshare", 1)
		return
	}
	ifA, ifB := "vja", "vjb"
	if vaIP("link", "set", "lo", "up") != nil || vaIP("link", "add", ifA, "type", "veth", "peer", "name", ifB) != nil {
		out.Stat("joinfailure_skipped:cannot-create-veth", 1)
		return
	}
	exec.Command("sysctl", "-qw", "net.ipv6.conf."+ifA+".accept_dad=0", "net.ipv6.conf."+ifB+".accept_dad=0").Run()
	vaIP("link", "set", ifA, "up")
	vaIP("link", "set", ifB, "up")
	for end := time.Now().Add(4 * time.Second); time.Now().Before(end) && !(vaHasLinkLocal(ifA) && vaHasLinkLocal(ifB)); {
		time.Sleep(50 * time.Millisecond)
	}
	const optmem = "/proc/sys/net/core/optmem_max"
	orig, err := os.ReadFile(optmem)
	if err != nil || os.WriteFile(optmem, orig, 0o644) != nil {
		out.Stat("joinfailure_skipped:no-optmem-sysctl", 1)
		return
	}
	ifID := map[string]int{ifA: 1, ifB: 2}
	histories := vN(3)
	for h := 0; h < histories; h++ {
		a := VerifNewQueue(log.NewNopLogger(), nil, 1<<12)
		a.VerifUpdateInterfaces()
		_, ndps := a.VerifResponders()
		if len(ndps) != 2 {
			out.Stat("joinfailure_skipped:no-ndp-responders", 1)
			a.VerifClose()
			return
		}
		w := vaSpec{}
		allOK := true
		var steps, trace []string
		failed := false
		fail := func(sig, what string) {
			if !failed {
				failed = true
				out.Fail(sig, what, map[string]any{"steps": trace, "how": "./check C13 (TestVerifJoinFailure: private network namespace, optmem_max = 1 makes IPV6_JOIN_GROUP fail; needs root)"})
			}
		}
		observe := func(ev, what string) {
			trace = append(trace, what)
			var obs []string
			seen := map[uint64]bool{}
			for _, ip := range vaV6 {
				g := vaGroupN(ip)
				if seen[g] {
					continue
				}
				seen[g] = true
				announced := false
				for _, ip2 := range vaV6 {
					if vaGroupN(ip2) == g && w.holders(ip2) > 0 {
						announced = true
					}
				}
				for _, intf := range []string{ifA, ifB} {
					got, ok := vaKernelMembers(intf, vaGroupKey(ip))
					if !ok {
						continue
					}
					out.Stat("joinfailure_membership_checked", 1)
					switch {
					case got < 0 || got > 1:
						fail("l2-join-membership", fmt.Sprintf("after %q: %d sockets joined to %s on %s", what, got, vaGroupKey(ip), intf))
					case !announced && got != 0:
						fail("l2-join-leak", fmt.Sprintf("after %q: still joined to %s on %s although no announced address maps to it", what, vaGroupKey(ip), intf))
					case allOK && announced && got != 1:
						fail("l2-join-missing", fmt.Sprintf("after %q: not joined to %s on %s although an address of the group is announced and no join has failed", what, vaGroupKey(ip), intf))
					}
					obs = append(obs, cCtor("OMem", cNi(ifID[intf]), cN(g), cZ(int64(got))))
				}
			}
			steps = append(steps, cPair(ev, cList(obs)))
		}
		set := func(svc int, ip string, ok bool) {
			adv := vaAdv{IP: ip, All: true}
			w.apply(vaOp{Kind: "set", Svc: svc, Adv: adv})
			if !ok {
				os.WriteFile(optmem, []byte("1"), 0o644)
				allOK = false
				out.Stat("joinfailure_failing_announces", 1)
			}
			a.SetBalancer(vaSvcs[svc], adv.real())
			os.WriteFile(optmem, orig, 0o644)
			a.VerifDrainSpam()
			observe(cCtor("JSet", cNi(svc), cCtor("mk_adv", vaCoqIP(ip), "true", "[]"), fmt.Sprintf("(fun _ => %v)", ok)),
				fmt.Sprintf("SetBalancer %s %s (joins %s)", vaSvcs[svc], ip, map[bool]string{true: "work", false: "fail"}[ok]))
		}
		del := func(svc int) {
			w.apply(vaOp{Kind: "del", Svc: svc})
			a.DeleteBalancer(vaSvcs[svc])
			observe(cCtor("JDel", cNi(svc)), "DeleteBalancer "+vaSvcs[svc])
		}
		if h == 0 { // the F30 witness: failed join, withdraw, announce again -> must be joined
			set(0, vaV6[0], false)
			del(0)
			set(0, vaV6[0], true)
			for _, intf := range []string{ifA, ifB} {
				if got, ok := vaKernelMembers(intf, vaGroupKey(vaV6[0])); ok && got != 1 {
					fail("l2-join-not-retried", fmt.Sprintf("after a failed join, a withdrawal and a new announcement of %s the group %s is not joined on %s (counter stuck): F30", vaV6[0], vaGroupKey(vaV6[0]), intf))
				} else if ok {
					out.Stat("joinfailure_recovered", 1)
				}
			}
			del(0)
			allOK = true // everything withdrawn: the counters are back to 0, later joins decide again
		}
		for k := 0; k < 10; k++ {
			if r.Intn(3) == 0 {
				del(r.Intn(3))
			} else {
				set(r.Intn(3), vaV6[r.Intn(len(vaV6))], r.Intn(3) != 0)
			}
		}
		a.VerifClose()
		out.Case(h, "join-failure", cCtor("mk_jcase", cNi(h), cListN([]int{1, 2}), cList(steps)), map[string]any{"steps": trace})
	}
}
